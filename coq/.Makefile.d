theories/Base/Str.vo theories/Base/Str.glob theories/Base/Str.v.beautified theories/Base/Str.required_vo: theories/Base/Str.v 
theories/Base/Str.vio: theories/Base/Str.v 
theories/Base/Str.vos theories/Base/Str.vok theories/Base/Str.required_vos: theories/Base/Str.v 
theories/Base/KV.vo theories/Base/KV.glob theories/Base/KV.v.beautified theories/Base/KV.required_vo: theories/Base/KV.v theories/Base/Str.vo
theories/Base/KV.vio: theories/Base/KV.v theories/Base/Str.vio
theories/Base/KV.vos theories/Base/KV.vok theories/Base/KV.required_vos: theories/Base/KV.v theories/Base/Str.vos
theories/Model/Doc.vo theories/Model/Doc.glob theories/Model/Doc.v.beautified theories/Model/Doc.required_vo: theories/Model/Doc.v theories/Base/Str.vo theories/Base/KV.vo
theories/Model/Doc.vio: theories/Model/Doc.v theories/Base/Str.vio theories/Base/KV.vio
theories/Model/Doc.vos theories/Model/Doc.vok theories/Model/Doc.required_vos: theories/Model/Doc.v theories/Base/Str.vos theories/Base/KV.vos
theories/Model/Dom.vo theories/Model/Dom.glob theories/Model/Dom.v.beautified theories/Model/Dom.required_vo: theories/Model/Dom.v theories/Base/Str.vo theories/Base/KV.vo theories/Model/Doc.vo
theories/Model/Dom.vio: theories/Model/Dom.v theories/Base/Str.vio theories/Base/KV.vio theories/Model/Doc.vio
theories/Model/Dom.vos theories/Model/Dom.vok theories/Model/Dom.required_vos: theories/Model/Dom.v theories/Base/Str.vos theories/Base/KV.vos theories/Model/Doc.vos
theories/Model/Pointer.vo theories/Model/Pointer.glob theories/Model/Pointer.v.beautified theories/Model/Pointer.required_vo: theories/Model/Pointer.v theories/Base/Str.vo theories/Base/KV.vo theories/Model/Doc.vo theories/Model/Dom.vo
theories/Model/Pointer.vio: theories/Model/Pointer.v theories/Base/Str.vio theories/Base/KV.vio theories/Model/Doc.vio theories/Model/Dom.vio
theories/Model/Pointer.vos theories/Model/Pointer.vok theories/Model/Pointer.required_vos: theories/Model/Pointer.v theories/Base/Str.vos theories/Base/KV.vos theories/Model/Doc.vos theories/Model/Dom.vos
theories/Proofs/PointerProofs.vo theories/Proofs/PointerProofs.glob theories/Proofs/PointerProofs.v.beautified theories/Proofs/PointerProofs.required_vo: theories/Proofs/PointerProofs.v theories/Base/Str.vo theories/Base/KV.vo theories/Model/Doc.vo theories/Model/Dom.vo theories/Model/Pointer.vo
theories/Proofs/PointerProofs.vio: theories/Proofs/PointerProofs.v theories/Base/Str.vio theories/Base/KV.vio theories/Model/Doc.vio theories/Model/Dom.vio theories/Model/Pointer.vio
theories/Proofs/PointerProofs.vos theories/Proofs/PointerProofs.vok theories/Proofs/PointerProofs.required_vos: theories/Proofs/PointerProofs.v theories/Base/Str.vos theories/Base/KV.vos theories/Model/Doc.vos theories/Model/Dom.vos theories/Model/Pointer.vos
theories/Properties/C10.vo theories/Properties/C10.glob theories/Properties/C10.v.beautified theories/Properties/C10.required_vo: theories/Properties/C10.v theories/Base/Str.vo theories/Base/KV.vo theories/Model/Doc.vo theories/Model/Dom.vo theories/Model/Pointer.vo theories/Proofs/PointerProofs.vo
theories/Properties/C10.vio: theories/Properties/C10.v theories/Base/Str.vio theories/Base/KV.vio theories/Model/Doc.vio theories/Model/Dom.vio theories/Model/Pointer.vio theories/Proofs/PointerProofs.vio
theories/Properties/C10.vos theories/Properties/C10.vok theories/Properties/C10.required_vos: theories/Properties/C10.v theories/Base/Str.vos theories/Base/KV.vos theories/Model/Doc.vos theories/Model/Dom.vos theories/Model/Pointer.vos theories/Proofs/PointerProofs.vos
theories/Check/Common.vo theories/Check/Common.glob theories/Check/Common.v.beautified theories/Check/Common.required_vo: theories/Check/Common.v 
theories/Check/Common.vio: theories/Check/Common.v 
theories/Check/Common.vos theories/Check/Common.vok theories/Check/Common.required_vos: theories/Check/Common.v 
theories/Check/C10.vo theories/Check/C10.glob theories/Check/C10.v.beautified theories/Check/C10.required_vo: theories/Check/C10.v theories/Base/Str.vo theories/Base/KV.vo theories/Model/Doc.vo theories/Model/Dom.vo theories/Model/Pointer.vo theories/Check/Common.vo
theories/Check/C10.vio: theories/Check/C10.v theories/Base/Str.vio theories/Base/KV.vio theories/Model/Doc.vio theories/Model/Dom.vio theories/Model/Pointer.vio theories/Check/Common.vio
theories/Check/C10.vos theories/Check/C10.vok theories/Check/C10.required_vos: theories/Check/C10.v theories/Base/Str.vos theories/Base/KV.vos theories/Model/Doc.vos theories/Model/Dom.vos theories/Model/Pointer.vos theories/Check/Common.vos
theories/Model/Equals.vo theories/Model/Equals.glob theories/Model/Equals.v.beautified theories/Model/Equals.required_vo: theories/Model/Equals.v theories/Base/Str.vo theories/Base/KV.vo theories/Model/Doc.vo
theories/Model/Equals.vio: theories/Model/Equals.v theories/Base/Str.vio theories/Base/KV.vio theories/Model/Doc.vio
theories/Model/Equals.vos theories/Model/Equals.vok theories/Model/Equals.required_vos: theories/Model/Equals.v theories/Base/Str.vos theories/Base/KV.vos theories/Model/Doc.vos
theories/Proofs/EqualsProofs.vo theories/Proofs/EqualsProofs.glob theories/Proofs/EqualsProofs.v.beautified theories/Proofs/EqualsProofs.required_vo: theories/Proofs/EqualsProofs.v theories/Base/Str.vo theories/Base/KV.vo theories/Model/Doc.vo theories/Model/Equals.vo
theories/Proofs/EqualsProofs.vio: theories/Proofs/EqualsProofs.v theories/Base/Str.vio theories/Base/KV.vio theories/Model/Doc.vio theories/Model/Equals.vio
theories/Proofs/EqualsProofs.vos theories/Proofs/EqualsProofs.vok theories/Proofs/EqualsProofs.required_vos: theories/Proofs/EqualsProofs.v theories/Base/Str.vos theories/Base/KV.vos theories/Model/Doc.vos theories/Model/Equals.vos
theories/Properties/C05.vo theories/Properties/C05.glob theories/Properties/C05.v.beautified theories/Properties/C05.required_vo: theories/Properties/C05.v theories/Base/Str.vo theories/Base/KV.vo theories/Model/Doc.vo theories/Model/Equals.vo theories/Proofs/EqualsProofs.vo
theories/Properties/C05.vio: theories/Properties/C05.v theories/Base/Str.vio theories/Base/KV.vio theories/Model/Doc.vio theories/Model/Equals.vio theories/Proofs/EqualsProofs.vio
theories/Properties/C05.vos theories/Properties/C05.vok theories/Properties/C05.required_vos: theories/Properties/C05.v theories/Base/Str.vos theories/Base/KV.vos theories/Model/Doc.vos theories/Model/Equals.vos theories/Proofs/EqualsProofs.vos
theories/Check/C05.vo theories/Check/C05.glob theories/Check/C05.v.beautified theories/Check/C05.required_vo: theories/Check/C05.v theories/Base/Str.vo theories/Base/KV.vo theories/Model/Doc.vo theories/Model/Equals.vo theories/Check/Common.vo
theories/Check/C05.vio: theories/Check/C05.v theories/Base/Str.vio theories/Base/KV.vio theories/Model/Doc.vio theories/Model/Equals.vio theories/Check/Common.vio
theories/Check/C05.vos theories/Check/C05.vok theories/Check/C05.required_vos: theories/Check/C05.v theories/Base/Str.vos theories/Base/KV.vos theories/Model/Doc.vos theories/Model/Equals.vos theories/Check/Common.vos
theories/Model/Codec.vo theories/Model/Codec.glob theories/Model/Codec.v.beautified theories/Model/Codec.required_vo: theories/Model/Codec.v theories/Base/Str.vo theories/Base/KV.vo theories/Model/Doc.vo
theories/Model/Codec.vio: theories/Model/Codec.v theories/Base/Str.vio theories/Base/KV.vio theories/Model/Doc.vio
theories/Model/Codec.vos theories/Model/Codec.vok theories/Model/Codec.required_vos: theories/Model/Codec.v theories/Base/Str.vos theories/Base/KV.vos theories/Model/Doc.vos
theories/Proofs/CodecProofs.vo theories/Proofs/CodecProofs.glob theories/Proofs/CodecProofs.v.beautified theories/Proofs/CodecProofs.required_vo: theories/Proofs/CodecProofs.v theories/Base/Str.vo theories/Base/KV.vo theories/Model/Doc.vo theories/Model/Codec.vo
theories/Proofs/CodecProofs.vio: theories/Proofs/CodecProofs.v theories/Base/Str.vio theories/Base/KV.vio theories/Model/Doc.vio theories/Model/Codec.vio
theories/Proofs/CodecProofs.vos theories/Proofs/CodecProofs.vok theories/Proofs/CodecProofs.required_vos: theories/Proofs/CodecProofs.v theories/Base/Str.vos theories/Base/KV.vos theories/Model/Doc.vos theories/Model/Codec.vos
theories/Properties/C01.vo theories/Properties/C01.glob theories/Properties/C01.v.beautified theories/Properties/C01.required_vo: theories/Properties/C01.v theories/Base/Str.vo theories/Base/KV.vo theories/Model/Doc.vo theories/Model/Codec.vo theories/Proofs/CodecProofs.vo
theories/Properties/C01.vio: theories/Properties/C01.v theories/Base/Str.vio theories/Base/KV.vio theories/Model/Doc.vio theories/Model/Codec.vio theories/Proofs/CodecProofs.vio
theories/Properties/C01.vos theories/Properties/C01.vok theories/Properties/C01.required_vos: theories/Properties/C01.v theories/Base/Str.vos theories/Base/KV.vos theories/Model/Doc.vos theories/Model/Codec.vos theories/Proofs/CodecProofs.vos
theories/Check/C01.vo theories/Check/C01.glob theories/Check/C01.v.beautified theories/Check/C01.required_vo: theories/Check/C01.v theories/Base/Str.vo theories/Base/KV.vo theories/Model/Doc.vo theories/Model/Codec.vo theories/Check/Common.vo
theories/Check/C01.vio: theories/Check/C01.v theories/Base/Str.vio theories/Base/KV.vio theories/Model/Doc.vio theories/Model/Codec.vio theories/Check/Common.vio
theories/Check/C01.vos theories/Check/C01.vok theories/Check/C01.required_vos: theories/Check/C01.v theories/Base/Str.vos theories/Base/KV.vos theories/Model/Doc.vos theories/Model/Codec.vos theories/Check/Common.vos
theories/Model/Builder.vo theories/Model/Builder.glob theories/Model/Builder.v.beautified theories/Model/Builder.required_vo: theories/Model/Builder.v theories/Base/Str.vo theories/Base/KV.vo theories/Model/Doc.vo theories/Model/Dom.vo
theories/Model/Builder.vio: theories/Model/Builder.v theories/Base/Str.vio theories/Base/KV.vio theories/Model/Doc.vio theories/Model/Dom.vio
theories/Model/Builder.vos theories/Model/Builder.vok theories/Model/Builder.required_vos: theories/Model/Builder.v theories/Base/Str.vos theories/Base/KV.vos theories/Model/Doc.vos theories/Model/Dom.vos
theories/Proofs/BuilderProofs.vo theories/Proofs/BuilderProofs.glob theories/Proofs/BuilderProofs.v.beautified theories/Proofs/BuilderProofs.required_vo: theories/Proofs/BuilderProofs.v theories/Base/Str.vo theories/Base/KV.vo theories/Model/Doc.vo theories/Model/Dom.vo theories/Model/Builder.vo
theories/Proofs/BuilderProofs.vio: theories/Proofs/BuilderProofs.v theories/Base/Str.vio theories/Base/KV.vio theories/Model/Doc.vio theories/Model/Dom.vio theories/Model/Builder.vio
theories/Proofs/BuilderProofs.vos theories/Proofs/BuilderProofs.vok theories/Proofs/BuilderProofs.required_vos: theories/Proofs/BuilderProofs.v theories/Base/Str.vos theories/Base/KV.vos theories/Model/Doc.vos theories/Model/Dom.vos theories/Model/Builder.vos
theories/Check/C03.vo theories/Check/C03.glob theories/Check/C03.v.beautified theories/Check/C03.required_vo: theories/Check/C03.v theories/Base/Str.vo theories/Base/KV.vo theories/Model/Doc.vo theories/Model/Dom.vo theories/Model/Builder.vo theories/Check/Common.vo
theories/Check/C03.vio: theories/Check/C03.v theories/Base/Str.vio theories/Base/KV.vio theories/Model/Doc.vio theories/Model/Dom.vio theories/Model/Builder.vio theories/Check/Common.vio
theories/Check/C03.vos theories/Check/C03.vok theories/Check/C03.required_vos: theories/Check/C03.v theories/Base/Str.vos theories/Base/KV.vos theories/Model/Doc.vos theories/Model/Dom.vos theories/Model/Builder.vos theories/Check/Common.vos
theories/Properties/C03.vo theories/Properties/C03.glob theories/Properties/C03.v.beautified theories/Properties/C03.required_vo: theories/Properties/C03.v theories/Base/Str.vo theories/Base/KV.vo theories/Model/Doc.vo theories/Model/Dom.vo theories/Model/Builder.vo theories/Proofs/BuilderProofs.vo
theories/Properties/C03.vio: theories/Properties/C03.v theories/Base/Str.vio theories/Base/KV.vio theories/Model/Doc.vio theories/Model/Dom.vio theories/Model/Builder.vio theories/Proofs/BuilderProofs.vio
theories/Properties/C03.vos theories/Properties/C03.vok theories/Properties/C03.required_vos: theories/Properties/C03.v theories/Base/Str.vos theories/Base/KV.vos theories/Model/Doc.vos theories/Model/Dom.vos theories/Model/Builder.vos theories/Proofs/BuilderProofs.vos
theories/Model/Merge.vo theories/Model/Merge.glob theories/Model/Merge.v.beautified theories/Model/Merge.required_vo: theories/Model/Merge.v theories/Base/Str.vo theories/Base/KV.vo theories/Model/Doc.vo
theories/Model/Merge.vio: theories/Model/Merge.v theories/Base/Str.vio theories/Base/KV.vio theories/Model/Doc.vio
theories/Model/Merge.vos theories/Model/Merge.vok theories/Model/Merge.required_vos: theories/Model/Merge.v theories/Base/Str.vos theories/Base/KV.vos theories/Model/Doc.vos
theories/Proofs/MergeProofs.vo theories/Proofs/MergeProofs.glob theories/Proofs/MergeProofs.v.beautified theories/Proofs/MergeProofs.required_vo: theories/Proofs/MergeProofs.v theories/Base/Str.vo theories/Base/KV.vo theories/Model/Doc.vo theories/Model/Merge.vo
theories/Proofs/MergeProofs.vio: theories/Proofs/MergeProofs.v theories/Base/Str.vio theories/Base/KV.vio theories/Model/Doc.vio theories/Model/Merge.vio
theories/Proofs/MergeProofs.vos theories/Proofs/MergeProofs.vok theories/Proofs/MergeProofs.required_vos: theories/Proofs/MergeProofs.v theories/Base/Str.vos theories/Base/KV.vos theories/Model/Doc.vos theories/Model/Merge.vos
theories/Properties/C04.vo theories/Properties/C04.glob theories/Properties/C04.v.beautified theories/Properties/C04.required_vo: theories/Properties/C04.v theories/Base/Str.vo theories/Base/KV.vo theories/Model/Doc.vo theories/Model/Merge.vo theories/Proofs/MergeProofs.vo
theories/Properties/C04.vio: theories/Properties/C04.v theories/Base/Str.vio theories/Base/KV.vio theories/Model/Doc.vio theories/Model/Merge.vio theories/Proofs/MergeProofs.vio
theories/Properties/C04.vos theories/Properties/C04.vok theories/Properties/C04.required_vos: theories/Properties/C04.v theories/Base/Str.vos theories/Base/KV.vos theories/Model/Doc.vos theories/Model/Merge.vos theories/Proofs/MergeProofs.vos
theories/Check/C04.vo theories/Check/C04.glob theories/Check/C04.v.beautified theories/Check/C04.required_vo: theories/Check/C04.v theories/Base/Str.vo theories/Base/KV.vo theories/Model/Doc.vo theories/Model/Merge.vo theories/Check/Common.vo
theories/Check/C04.vio: theories/Check/C04.v theories/Base/Str.vio theories/Base/KV.vio theories/Model/Doc.vio theories/Model/Merge.vio theories/Check/Common.vio
theories/Check/C04.vos theories/Check/C04.vok theories/Check/C04.required_vos: theories/Check/C04.v theories/Base/Str.vos theories/Base/KV.vos theories/Model/Doc.vos theories/Model/Merge.vos theories/Check/Common.vos
