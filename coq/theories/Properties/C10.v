(* Properties/C10.v — JSON Pointer parse/serialise round-trip and evaluation (RFC 6901).
   Only statements; every proof is [exact <lemma>] and is followed by Print Assumptions. *)
From Coq Require Import List String Ascii ZArith NArith Bool.
From YT Require Import Base.Str Base.KV Model.Doc Model.Dom Model.Pointer Proofs.PointerProofs.
Import ListNotations.
Local Open Scope list_scope.

(* Any sequence of reference tokens (any code points, empty tokens, the empty sequence)
   survives serialise-then-parse unchanged. *)
Theorem C10_parse_print : forall toks : list (list N), ptr_parse (ptr_print toks) = Ok toks.
Proof. exact parse_print. Qed.
Print Assumptions C10_parse_print.

(* Every string of the RFC 6901 grammar survives parse-then-serialise unchanged. *)
Theorem C10_print_parse : forall s, valid6901 s = true ->
  exists toks, ptr_parse s = Ok toks /\ ptr_print toks = s.
Proof. exact print_parse. Qed.
Print Assumptions C10_print_parse.

(* A non-empty string not starting with '/' is rejected. *)
Theorem C10_parse_rejects : forall c r, c <> SLASH -> ptr_parse (c :: r) = Err.
Proof. exact parse_rejects. Qed.
Print Assumptions C10_parse_rejects.

(* Evaluation IS the RFC 6901 reference (members by name, elements by canonical index, nothing if any step is
   missing), for EVERY pointer and document.  (On the pinned tree — and until the 29th repair — this held only for
   tokens not of the form name[digits]: Path.Eval looked members up with Child, which reads "items[1]" as item 1 of the
   list "items"; the hypothesis the proof had forced, [forallb plain_tok p = true], was that defect.) *)
Theorem C10_eval_is_rfc : forall p d, snd (ptr_eval p d) = rfc6901_eval p d.
Proof. exact eval_is_rfc. Qed.
Print Assumptions C10_eval_is_rfc.

(* the earlier, conditional form, kept for the proofs of C09 that cite it *)
Theorem C10_eval_refines_rfc : forall p d,
  forallb plain_tok p = true -> snd (ptr_eval p d) = rfc6901_eval p d.
Proof. exact eval_refines_rfc. Qed.
Print Assumptions C10_eval_refines_rfc.

(* non-vacuity of the repair: a token that LOOKS like a list position names a member — here an absent one *)
Example C10_ex_token_with_brackets :
  let d := Con [("items"%string, Lst [Leaf (SStr "x"); Leaf (SStr "y")])] in
  snd (ptr_eval ["items[1]"%string] d) = None /\ snd (ptr_eval ["items"; "1"]%string d) = Some (Leaf (SStr "y")).
Proof. vm_compute. split; reflexivity. Qed.

(* When the pointer resolves, the trail has one node per token and its last element is the node. *)
Theorem C10_eval_trail : forall p d tr n,
  p <> [] -> ptr_eval_from p d = (tr, Some n) ->
  List.length tr = List.length p /\ last tr d = n.
Proof. exact eval_from_trail. Qed.
Print Assumptions C10_eval_trail.

(* non-vacuity: a pointer with '~', '/', an empty token and a multi-byte rune; a valid string;
   a resolving evaluation through a list and a container *)
Example C10_ex_roundtrip :
  ptr_parse (ptr_print [[126; 47; 97]; []; [19990]]%N) = Ok [[126; 47; 97]; []; [19990]]%N.
Proof. vm_compute. reflexivity. Qed.
Example C10_ex_valid : valid6901 [47; 126; 49; 47; 126; 48]%N = true.
Proof. reflexivity. Qed.
Example C10_ex_eval :
  let d := Con [("a"%string, Lst [Leaf (SInt 1); Con [("b"%string, Leaf (SInt 2))]])] in
  forallb plain_tok ["a"; "1"; "b"]%string = true /\
  ptr_eval ["a"; "1"; "b"]%string d =
    ([Lst [Leaf (SInt 1); Con [("b"%string, Leaf (SInt 2))]]; Con [("b"%string, Leaf (SInt 2))]; Leaf (SInt 2)],
     Some (Leaf (SInt 2))).
Proof. vm_compute. split; reflexivity. Qed.
