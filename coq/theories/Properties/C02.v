(* Properties/C02.v — One addressing scheme: flatten, lookup, search and JSON pointers agree. *)
From Coq Require Import List String Bool ZArith Arith Permutation.
From YT Require Import Base.Str Base.KV Model.Doc Model.Dom Model.Pointer Model.Path Model.Builder
  Proofs.StrProofs Proofs.PathProofs Proofs.PropsPathProofs Proofs.FrameProofs Proofs.RebuildProofs Proofs.FlattenMapProofs Proofs.RebuildExactProofs Proofs.FlattenSortedProofs.
From Coq Require Import Sorted.
Import ListNotations.
Local Open Scope list_scope.

(* The flattened view is the rendering (dotted / indexed path strings) of the step lists of the
   document's scalar positions ... *)
Theorem C02_flatten_is_rendered_positions : forall d,
  flatten d = map (fun e => (render_steps (fst e), snd e)) (flatten_steps d).
Proof. exact flatten_steps_render. Qed.
Print Assumptions C02_flatten_is_rendered_positions.

(* ... which are exactly the scalar positions: each listed position holds that leaf, and every
   position holding a leaf is listed. *)
Theorem C02_flatten_positions_sound : forall d sigma v,
  wf d = true -> In (sigma, v) (flatten_steps d) -> get_steps sigma d = Some (Leaf v).
Proof. exact flatten_steps_get. Qed.
Print Assumptions C02_flatten_positions_sound.

Theorem C02_flatten_positions_complete : forall d sigma v,
  get_steps sigma d = Some (Leaf v) -> In (sigma, v) (flatten_steps d).
Proof. exact flatten_steps_complete. Qed.
Print Assumptions C02_flatten_positions_complete.

Theorem C02_flatten_count : forall d, List.length (flatten d) = scalar_count d.
Proof. exact flatten_count. Qed.
Print Assumptions C02_flatten_count.

(* Lookup (string level: split on ".", strip "[i]" suffixes, descend) resolves every flattened
   path back to that leaf, for every document with path-safe keys, lists in lists to any depth. *)
Theorem C02_lookup_flatten : forall kvs p v,
  wf (Con kvs) = true -> keys_safe (Con kvs) = true ->
  In (p, v) (flatten (Con kvs)) -> lookup p (Con kvs) = Some (Leaf v).
Proof. exact lookup_flatten. Qed.
Print Assumptions C02_lookup_flatten.

(* Distinct positions get distinct path strings (so the Go map Flatten returns loses nothing). *)
Theorem C02_render_steps_inj : forall k r k' r',
  forallb step_safe (K k :: r) = true -> forallb step_safe (K k' :: r') = true ->
  render_steps (K k :: r) = render_steps (K k' :: r') -> K k :: r = K k' :: r'.
Proof. exact render_steps_inj. Qed.
Print Assumptions C02_render_steps_inj.

(* The flattened view is a map: no path occurs twice, a path determines its value (so the list of
   pairs of the model and the Go map are the same object), and no position is listed twice. *)
Theorem C02_flatten_paths_nodup : forall kvs,
  wf (Con kvs) = true -> keys_safe (Con kvs) = true -> NoDup (map fst (flatten (Con kvs))).
Proof. exact flatten_paths_nodup. Qed.
Print Assumptions C02_flatten_paths_nodup.

Theorem C02_flatten_functional : forall kvs p v1 v2,
  wf (Con kvs) = true -> keys_safe (Con kvs) = true ->
  In (p, v1) (flatten (Con kvs)) -> In (p, v2) (flatten (Con kvs)) -> v1 = v2.
Proof. exact flatten_functional. Qed.
Print Assumptions C02_flatten_functional.

(* Search returns exactly the flattened paths whose value satisfies the predicate. *)
Theorem C02_search_spec : forall f d p,
  In p (search f d) <-> exists v, In (p, v) (flatten d) /\ f v = true.
Proof.
  intros f d p. unfold search. rewrite in_map_iff. split.
  - intros [[q v] [E H]]. simpl in E. subst q. apply filter_In in H as [H1 H2]. exists v. auto.
  - intros [v [H1 H2]]. exists (p, v). split; [reflexivity|]. apply filter_In. auto.
Qed.
Print Assumptions C02_search_spec.

(* props.ParsePath of a flatten-style path has exactly one segment per step (a key segment per
   member step, an index segment per list step) *)
Theorem C02_props_parse_steps : forall k r,
  forallb step_safe (K k :: r) = true ->
  props_parse (render_steps (K k :: r)) = map seg_of (K k :: r).
Proof. exact props_parse_steps. Qed.
Print Assumptions C02_props_parse_steps.

(* every flattened (path, leaf) pair is the rendering of a position sigma of the document whose
   ParsePath has one segment per step and — list indexes below 10^18 (at most 18 digits) — whose
   JSON-pointer translation (xform.PointerFromPropPathString) evaluates to that very leaf *)
Theorem C02_pointer_flatten : forall kvs p v,
  wf (Con kvs) = true -> keys_safe (Con kvs) = true ->
  In (p, v) (flatten (Con kvs)) ->
  exists sigma, p = render_steps sigma /\ In (sigma, v) (flatten_steps (Con kvs)) /\
    props_parse p = map seg_of sigma /\
    (idx_small sigma ->
     exists toks, pointer_of_prop_path p = Some toks /\ snd (ptr_eval toks (Con kvs)) = Some (Leaf v)).
Proof. exact pointer_flatten. Qed.
Print Assumptions C02_pointer_flatten.

(* canonical list indexes: the decimal rendering of a number is its own canonical index *)
Theorem C02_canon_index_nat2s : forall i, List.length (la (nat2s i)) <= 18 -> canon_index (nat2s i) = Some i.
Proof. exact canon_index_nat2s. Qed.
Print Assumptions C02_canon_index_nat2s.

(* Re-inserting every flattened (path, leaf) pair with AddValueAt, in ANY order (any permutation)
   and into ANY starting document, makes every flattened path of the original resolve to its leaf
   again: two different scalar positions of one tree always diverge, so a later write never
   disturbs an earlier one (C03's frame theorem). *)
Theorem C02_rebuild_any_order_complete : forall kvs (l : list (string * scalar)) start,
  wf (Con kvs) = true -> keys_safe (Con kvs) = true ->
  Permutation l (flatten (Con kvs)) ->
  forall p v, In (p, v) (flatten (Con kvs)) ->
  lookup p (Con (fold_left put_path l start)) = Some (Leaf v).
Proof. exact rebuild_any_order_complete. Qed.
Print Assumptions C02_rebuild_any_order_complete.

Theorem C02_positions_diverge : forall d s1 v1 s2 v2,
  wf d = true ->
  In (s1, v1) (flatten_steps d) -> In (s2, v2) (flatten_steps d) -> s1 <> s2 -> diverge s1 s2.
Proof. exact flatten_steps_diverge. Qed.
Print Assumptions C02_positions_diverge.

(* ... and, starting from the EMPTY document, the rebuilt document has no other leaves: the flattened
   views are equal as sets of (path, leaf) pairs — i.e. as Go maps — for every document in which
   every list item contains at least one scalar (`eis`; without it a padding null would remain where
   the original has an empty container or list as a list item). *)
Theorem C02_rebuild_any_order_exact : forall kvs (l : list (string * scalar)),
  wf (Con kvs) = true -> keys_safe (Con kvs) = true -> eis (Con kvs) = true ->
  Permutation l (flatten (Con kvs)) ->
  forall e, In e (flatten (Con (fold_left put_path l []))) <-> In e (flatten (Con kvs)).
Proof. exact rebuild_any_order_exact. Qed.
Print Assumptions C02_rebuild_any_order_exact.

(* Flatten lists the scalar positions in ONE canonical order — members by name, items by index,
   lexicographically along the position — so the flattened LIST is determined by the set of pairs. *)
Theorem C02_flatten_sorted : forall d, wf d = true -> StronglySorted plt (flatten_steps d).
Proof. exact flatten_steps_sorted. Qed.
Print Assumptions C02_flatten_sorted.

Theorem C02_flatten_determined : forall d1 d2,
  wf d1 = true -> wf d2 = true ->
  (forall tau w, In (tau, w) (flatten_steps d1) <-> In (tau, w) (flatten_steps d2)) ->
  flatten_steps d1 = flatten_steps d2.
Proof. exact flatten_steps_determined. Qed.
Print Assumptions C02_flatten_determined.

(* hence the rebuild equation of the property as written: Flatten(rebuilt) = Flatten(d) *)
Theorem C02_rebuild_flatten : forall kvs (l : list (string * scalar)),
  wf (Con kvs) = true -> keys_safe (Con kvs) = true -> eis (Con kvs) = true ->
  Permutation l (flatten (Con kvs)) ->
  flatten (Con (fold_left put_path l [])) = flatten (Con kvs).
Proof. exact rebuild_flatten_eq. Qed.
Print Assumptions C02_rebuild_flatten.

(* non-vacuity: a list in a list in a list, digit-only keys *)
Example C02_ex :
  let d := Con [("12"%string, Lst [Lst [Lst [Leaf (SInt 1); Leaf (SInt 2)]; Lst [Leaf (SInt 3)]]]);
                ("a"%string, Con [("b"%string, Lst [Con [("c"%string, null)]])])] in
  wf d = true /\ keys_safe d = true /\
  flatten d = [("12[0][0][0]"%string, SInt 1); ("12[0][0][1]"%string, SInt 2); ("12[0][1][0]"%string, SInt 3);
               ("a.b[0].c"%string, SNull)] /\
  lookup "12[0][1][0]" d = Some (Leaf (SInt 3)) /\ eis d = true.
Proof. vm_compute. repeat split; reflexivity. Qed.
