(* Properties/C20.v — Reading a document never writes to it: concurrent readers are race-free.
   PARTIAL by nature: the theorems are about method-level read/write footprints of the model; the
   Go memory model, the scheduler and the race detector are outside it (the supporting search —
   16 goroutines under -race — runs in the same check). *)
From Coq Require Import List String Bool Arith.
From YT Require Import Base.Str Base.KV Model.Doc Model.Dom Model.Path Model.Equals Model.Mem Proofs.MemProofs.
Import ListNotations.
Local Open Scope list_scope.

Theorem C20_reads_pure : forall tid o m, fst (fst (rd tid o m)) = m.
Proof. exact reads_pure. Qed.
Print Assumptions C20_reads_pure.

Theorem C20_reads_emit_no_write : forall tid o m, forallb (fun e => negb (is_write e)) (snd (rd tid o m)) = true.
Proof. exact reads_emit_no_write. Qed.
Print Assumptions C20_reads_emit_no_write.

Theorem C20_reads_agree_with_model : forall tid o m, snd (fst (rd tid o m)) = read_spec o (erase m).
Proof. exact reads_agree_with_model. Qed.
Print Assumptions C20_reads_agree_with_model.

(* every schedule: document unchanged, every observation = the single-threaded one, no write event *)
Theorem C20_interleaving_invariant : forall sched m,
  let '(m', obs, evs) := run sched m in
  m' = m /\
  Forall2 (fun so ob => fst ob = fst so /\ snd ob = read_spec (snd so) (erase m)) sched obs /\
  forallb (fun e => negb (is_write e)) evs = true.
Proof. exact interleaving_invariant. Qed.
Print Assumptions C20_interleaving_invariant.

(* non-vacuity, and the shape that raced on the pinned tree: an empty container with a nil map *)
Example C20_ex :
  let m := MCon true [("x"%string, MCon false []); ("y"%string, MLeaf (SBool true))] in
  let '(m', obs, evs) := run [(1, RChild "x"); (2, RLookup "x.z"); (1, RFlatten)] m in
  m' = m /\ List.length obs = 3 /\ existsb is_write evs = false /\
  touch_pinned (RChild "q") (MCon false []) = MCon true [].
Proof. vm_compute. repeat split; reflexivity. Qed.
