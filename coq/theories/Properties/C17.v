(* Properties/C17.v — Kubernetes manifests: data and surrounding fields survive load/edit/save. *)
From Coq Require Import List String Bool ZArith Arith.
From YT Require Import Base.Str Base.KV Model.Doc Model.Codec Model.Base64 Model.K8s Proofs.Base64Proofs Proofs.K8sProofs.
Import ListNotations.
Local Open Scope list_scope.

(* binary items byte-for-byte through base64: every byte string, including the empty one *)
Theorem C17_b64_roundtrip : forall bs, Forall byte bs -> b64_dec (b64_enc bs) = Some bs.
Proof. exact b64_roundtrip. Qed.
Print Assumptions C17_b64_roundtrip.

Theorem C17_b64_enc_length : forall bs,
  Z.of_nat (List.length (b64_enc bs)) = (4 * ((Z.of_nat (List.length bs) + 2) / 3))%Z.
Proof. exact b64_enc_length. Qed.
Print Assumptions C17_b64_enc_length.

(* the section each kind prescribes: Secret -> binary in data, text in stringData;
   ConfigMap -> binary in binaryData, text in data *)
Theorem C17_kind_sections : forall kind bk tk, kind_sections kind = Some (bk, tk) ->
  (kind = "Secret"%string /\ bk = "data"%string /\ tk = "stringData"%string) \/
  (kind = "ConfigMap"%string /\ bk = "binaryData"%string /\ tk = "data"%string).
Proof. exact kind_sections_spec. Qed.
Print Assumptions C17_kind_sections.

(* Writing a manifest back and loading it again (between the YAML encode and decode, which are
   external) preserves every text item, every binary item, and every field outside the two data
   sections. *)
Theorem C17_save_load : forall m, wf_manifest m ->
  exists m', load_doc (save_doc m) = Some m' /\
             m_str m' = m_str m /\ m_bin m' = m_bin m /\ m_bk m' = m_bk m /\ m_tk m' = m_tk m /\
             non_data m' = non_data m.
Proof. exact save_load. Qed.
Print Assumptions C17_save_load.

(* item updates and removals through the data interfaces are plain map updates, and keep the
   manifest well-formed, so the theorem above applies after any sequence of them *)
Theorem C17_m_step_wf : forall m o, wf_manifest m ->
  match o with MBinUpdate _ v => Forall byte v | _ => True end -> wf_manifest (m_step m o).
Proof. exact m_step_wf. Qed.
Print Assumptions C17_m_step_wf.

Theorem C17_facade_get_update : forall m k v, kv_get k (m_str (m_step m (MStrUpdate k v))) = Some v.
Proof. exact facade_get_update. Qed.
Print Assumptions C17_facade_get_update.

(* unsupported or malformed manifests yield errors, not panics: loading has exactly two outcomes *)
Theorem C17_load_total : forall doc, (exists m, load_doc doc = Some m) \/ load_doc doc = None.
Proof. exact load_total. Qed.
Print Assumptions C17_load_total.

(* Embedded documents (YAML / JSON / properties inside an item) go through external codecs and the
   file system: save-then-reopen is decided by the correspondence on temp files, relative to the
   bare codec's own normalisation.  The known finding about yaml.v3 and strings beginning with a
   newline is listed in known_findings.txt. *)

Example C17_ex :
  let doc := [("data"%string, GMap [("bad"%string, GInt 1)]); ("kind"%string, GStr "Secret")] in
  load_doc doc = None /\ load_doc [("kind"%string, GInt 1)] = None /\
  b64_enc [104; 105]%Z = [97; 71; 107; 61]%Z.
Proof. vm_compute. repeat split; reflexivity. Qed.
