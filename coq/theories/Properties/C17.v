(* Properties/C17.v — Kubernetes manifests: data and surrounding fields survive load/edit/save. *)
From Coq Require Import List String Bool ZArith Arith Permutation.
From YT Require Import Base.Str Base.KV Model.Doc Model.Codec Model.Base64 Model.K8s Model.Dom Model.Analytics Model.DocSet
  Proofs.Base64Proofs Proofs.K8sProofs Proofs.RebuildExactProofs Proofs.EmbeddedPropsProofs.
Import ListNotations.
Local Open Scope list_scope.

(* binary items byte-for-byte through base64: every byte string, including the empty one *)
Theorem C17_b64_roundtrip : forall bs, Forall byte bs -> b64_dec (b64_enc bs) = Some bs.
Proof. exact b64_roundtrip. Qed.
Print Assumptions C17_b64_roundtrip.

Theorem C17_b64_enc_length : forall bs,
  Z.of_nat (List.length (b64_enc bs)) = (4 * ((Z.of_nat (List.length bs) + 2) / 3))%Z.
Proof. exact b64_enc_length. Qed.
Print Assumptions C17_b64_enc_length.

(* the section each kind prescribes: Secret -> binary in data, text in stringData;
   ConfigMap -> binary in binaryData, text in data *)
Theorem C17_kind_sections : forall kind bk tk, kind_sections kind = Some (bk, tk) ->
  (kind = "Secret"%string /\ bk = "data"%string /\ tk = "stringData"%string) \/
  (kind = "ConfigMap"%string /\ bk = "binaryData"%string /\ tk = "data"%string).
Proof. exact kind_sections_spec. Qed.
Print Assumptions C17_kind_sections.

(* Writing a manifest back and loading it again (between the YAML encode and decode, which are
   external) preserves every text item, every binary item, and every field outside the two data
   sections. *)
Theorem C17_save_load : forall m, wf_manifest m ->
  exists m', load_doc (save_doc m) = Some m' /\
             m_str m' = m_str m /\ m_bin m' = m_bin m /\ m_bk m' = m_bk m /\ m_tk m' = m_tk m /\
             non_data m' = non_data m.
Proof. exact save_load. Qed.
Print Assumptions C17_save_load.

(* item updates and removals through the data interfaces are plain map updates, and keep the
   manifest well-formed, so the theorem above applies after any sequence of them *)
Theorem C17_m_step_wf : forall m o, wf_manifest m ->
  match o with MBinUpdate _ v => Forall byte v | _ => True end -> wf_manifest (m_step m o).
Proof. exact m_step_wf. Qed.
Print Assumptions C17_m_step_wf.

Theorem C17_facade_get_update : forall m k v, kv_get k (m_str (m_step m (MStrUpdate k v))) = Some v.
Proof. exact facade_get_update. Qed.
Print Assumptions C17_facade_get_update.

(* unsupported or malformed manifests yield errors, not panics: loading has exactly two outcomes *)
Theorem C17_load_total : forall doc, (exists m, load_doc doc = Some m) \/ load_doc doc = None.
Proof. exact load_total. Qed.
Print Assumptions C17_load_total.

(* Embedded documents (YAML / JSON / properties inside an item) go through external codecs and the
   file system: save-then-reopen is decided by the correspondence on temp files, relative to the
   bare codec's own normalisation.  The known finding about yaml.v3 and strings beginning with a
   newline is listed in known_findings.txt. *)

Example C17_ex :
  let doc := [("data"%string, GMap [("bad"%string, GInt 1)]); ("kind"%string, GStr "Secret")] in
  load_doc doc = None /\ load_doc [("kind"%string, GInt 1)] = None /\
  b64_enc [104; 105]%Z = [97; 71; 107; 61]%Z.
Proof. vm_compute. repeat split; reflexivity. Qed.

(* ---------- a document embedded in a manifest as properties (k8s.Properties): Save writes one text item per flattened leaf
   (name = path, text = the value), reopening re-inserts every item with AddValueAt in whatever order the manifest's map
   hands them out.  Saved and reopened, the document has the same flattened leaves as the edited one — for every
   well-formed document with path-safe names whose leaves are texts and whose list items each hold a scalar (an empty
   item has no spelling as properties), and for EVERY order of the items.  A corollary of C02's rebuild theorem. *)
Theorem C17_embedded_props_round_trip : forall kvs items,
  wf (Con kvs) = true -> keys_safe (Con kvs) = true -> eis (Con kvs) = true ->
  forallb (fun e => is_str (snd e)) (flatten (Con kvs)) = true ->
  Permutation items (enc_props (Con kvs)) ->
  flatten (props_doc items) = flatten (Con kvs).
Proof. exact embedded_props_round_trip. Qed.
Print Assumptions C17_embedded_props_round_trip.

(* the items Save leaves behind are named by the flattened paths, one each *)
Theorem C17_embedded_props_item_names : forall d, map fst (enc_props d) = map fst (flatten d).
Proof. exact enc_props_names. Qed.
Print Assumptions C17_embedded_props_item_names.

Example C17_embedded_props_ex :
  let d := Con [("app"%string, Con [("name"%string, Leaf (SStr "svc")); ("ports"%string, Lst [Leaf (SStr "80"); Leaf (SStr "443")])]);
                ("srv"%string, Lst [Con [("host"%string, Leaf (SStr "h0"))]])] in
  enc_props d = [("app.name", "svc"); ("app.ports[0]", "80"); ("app.ports[1]", "443"); ("srv[0].host", "h0")]%string /\
  props_doc (rev (enc_props d)) = d /\
  forallb (fun e => is_str (snd e)) (flatten d) = true /\ eis d = true.
Proof. vm_compute. repeat split; reflexivity. Qed.
