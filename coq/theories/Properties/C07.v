(* Properties/C07.v — Diff reports exactly the differences, in a deterministic order. *)
From Coq Require Import List String Bool ZArith Arith.
From YT Require Import Base.Str Base.KV Base.Sort Model.Doc Model.Dom Model.Equals Model.Diff Proofs.DiffProofs Proofs.DiffOrderProofs Proofs.DiffNilProofs Model.Path Proofs.ReconstructKeyedProofs Proofs.DiffSpecProofs Proofs.DiffNoDupProofs.
Import ListNotations.
Local Open Scope list_scope.

(* The result is ordered by path (byte-wise, non-decreasing), for every iteration order. *)
Theorem C07_diff_sorted : forall (o : order) l r, sorted mpath (diff_ord o l r).
Proof. exact diff_sorted. Qed.
Print Assumptions C07_diff_sorted.

(* Sorting is stable: modifications on one path keep their emission order (Delete-then-Add). *)
Theorem C07_diff_stable : forall (o : order) l r p,
  fk mpath p (diff_ord o l r) = fk mpath p (diff_raw o l r).
Proof. exact diff_stable. Qed.
Print Assumptions C07_diff_stable.

(* A stably sorted list is determined by its per-path subsequences: two iteration orders that emit
   the same subsequence on every path yield identical results. *)
Theorem C07_diff_determined_by_paths : forall (o1 o2 : order) l r,
  (forall p, fk mpath p (diff_raw o1 l r) = fk mpath p (diff_raw o2 l r)) ->
  diff_ord o1 l r = diff_ord o2 l r.
Proof. exact diff_ord_determined. Qed.
Print Assumptions C07_diff_determined_by_paths.

(* "identical on every invocation": an iteration order is ANY function that permutes the per-key
   emission blocks of each of the three map walks (flattenContainer, left.Children(),
   right.Children()), possibly differently at every position of the documents.  For well-formed
   documents with path-safe keys the result is the same sequence for every such order: blocks of
   different keys never share a path, so the per-path subsequences are untouched. *)
Theorem C07_diff_order_independent : forall (o : order) l r,
  perm_order o ->
  wf l = true -> keys_safe l = true -> wf r = true -> keys_safe r = true ->
  diff_ord o l r = diff l r.
Proof. exact diff_order_independent. Qed.
Print Assumptions C07_diff_order_independent.

(* Diff(L, L) = [] *)
Theorem C07_diff_self : forall l, wf l = true -> keys_safe l = true -> diff l l = [].
Proof. exact diff_self. Qed.
Print Assumptions C07_diff_self.

(* "one Add per leaf": the Adds emitted for a subtree (a key only the left has, the left list of a
   differing pair of lists, the right node at a kind mismatch) are exactly its flattened leaves, in
   flatten order, each carrying the leaf value *)
Theorem C07_adds_are_flattened_leaves : forall n path,
  adds canonical n path = map add_of (flatten_node n path).
Proof. exact adds_flatten. Qed.
Print Assumptions C07_adds_are_flattened_leaves.

(* the remaining clauses of the statement, as equations of the emission: *)
Theorem C07_scalars : forall o x y path,
  diff_node o (Leaf x) (Leaf y) path = if scalar_eqb x y then [] else [mkMod MChange path y x].
Proof. reflexivity. Qed.
Print Assumptions C07_scalars.
Theorem C07_lists : forall o xs ys path,
  diff_node o (Lst xs) (Lst ys) path =
  if equals (Lst xs) (Lst ys) then [] else mkMod MDelete path SNull SNull :: adds o (Lst xs) path.
Proof. exact diff_node_lst. Qed.
Print Assumptions C07_lists.
Theorem C07_kind_mismatch : forall o l r path,
  match l, r with Con _, Con _ | Lst _, Lst _ | Leaf _, Leaf _ => False | _, _ => True end ->
  diff_node o l r path = mkMod MDelete path SNull SNull :: adds o r path.
Proof. exact diff_node_mismatch. Qed.
Print Assumptions C07_kind_mismatch.
Theorem C07_containers : forall o kl kr path,
  diff_node o (Con kl) (Con kr) path =
  blocks o 1 path (dn_left_blocks o kr path kl) ++ blocks o 2 path (dn_right kl path kr).
Proof. intros. rewrite diff_node_con, dn_left_map. reflexivity. Qed.
Print Assumptions C07_containers.

(* Diff(L,R) = [] only if L and R have the same flattened leaves (Flatten is a map in Go: equality
   of the sets of (path, value) pairs) *)
Theorem C07_diff_nil_same_leaves : forall l r,
  wf l = true -> keys_safe l = true -> wf r = true -> keys_safe r = true ->
  diff l r = [] -> forall e, In e (flatten l) <-> In e (flatten r).
Proof. exact diff_nil_flatten. Qed.
Print Assumptions C07_diff_nil_same_leaves.

(* "It contains exactly … and nothing else": membership in Diff(L,R) is characterised by a
   declarative relation over positions (dspec: one constructor per clause of the statement — a
   differing scalar, a differing list, a kind mismatch, a key only the left has, a key only the
   right has, descent through a common key), with no reference to the algorithm's traversal. *)
Theorem C07_diff_members_exact : forall l r m,
  wf l = true -> keys_safe l = true -> wf r = true -> keys_safe r = true ->
  (In m (diff l r) <-> exists tau sh, dspec l r tau sh /\ m = mk ""%string tau sh).
Proof. exact diff_members_exact. Qed.
Print Assumptions C07_diff_members_exact.

(* "exactly ONE Add per leaf, ONE Delete per key, ONE Change per scalar": no modification occurs
   twice.  Together with C07_diff_members_exact, Diff(L,R) is a duplicate-free, path-sorted listing of
   exactly the modifications dspec describes. *)
Theorem C07_diff_nodup : forall l r,
  wf l = true -> keys_safe l = true -> wf r = true -> keys_safe r = true -> NoDup (diff l r).
Proof. exact diff_nodup. Qed.
Print Assumptions C07_diff_nodup.

(* non-vacuity: all five kinds of difference, with a Delete/Add tie on one path *)
Example C07_ex :
  let l := Con [("a"%string, Con [("x"%string, Leaf (SInt 1))]); ("b"%string, Lst [Leaf (SInt 1); Leaf (SInt 2)]);
                ("c"%string, Leaf (SInt 1)); ("d"%string, Leaf (SInt 5))] in
  let r := Con [("a"%string, Leaf (SStr "s")); ("b"%string, Lst [Leaf (SInt 1)]);
                ("c"%string, Leaf (SInt 2)); ("e"%string, Leaf (SInt 0))] in
  diff l r =
  [mkMod MDelete "a" SNull SNull; mkMod MAdd "a" (SStr "s") SNull;
   mkMod MDelete "b" SNull SNull; mkMod MAdd "b[0]" (SInt 1) SNull; mkMod MAdd "b[1]" (SInt 2) SNull;
   mkMod MChange "c" (SInt 2) (SInt 1); mkMod MAdd "d" (SInt 5) SNull; mkMod MDelete "e" SNull SNull].
Proof. vm_compute. reflexivity. Qed.
