(* Properties/C07.v — Diff reports exactly the differences, in a deterministic order. *)
From Coq Require Import List String Bool ZArith Arith.
From YT Require Import Base.Str Base.KV Base.Sort Model.Doc Model.Dom Model.Equals Model.Diff Proofs.DiffProofs Proofs.DiffOrderProofs.
Import ListNotations.
Local Open Scope list_scope.

(* The result is ordered by path (byte-wise, non-decreasing), for every iteration order. *)
Theorem C07_diff_sorted : forall (o : order) l r, sorted mpath (diff_ord o l r).
Proof. exact diff_sorted. Qed.
Print Assumptions C07_diff_sorted.

(* Sorting is stable: modifications on one path keep their emission order (Delete-then-Add). *)
Theorem C07_diff_stable : forall (o : order) l r p,
  fk mpath p (diff_ord o l r) = fk mpath p (diff_raw o l r).
Proof. exact diff_stable. Qed.
Print Assumptions C07_diff_stable.

(* A stably sorted list is determined by its per-path subsequences: two iteration orders that emit
   the same subsequence on every path yield identical results. *)
Theorem C07_diff_determined_by_paths : forall (o1 o2 : order) l r,
  (forall p, fk mpath p (diff_raw o1 l r) = fk mpath p (diff_raw o2 l r)) ->
  diff_ord o1 l r = diff_ord o2 l r.
Proof. exact diff_ord_determined. Qed.
Print Assumptions C07_diff_determined_by_paths.

(* "identical on every invocation": an iteration order is ANY function that permutes the per-key
   emission blocks of each of the three map walks (flattenContainer, left.Children(),
   right.Children()), possibly differently at every position of the documents.  For well-formed
   documents with path-safe keys the result is the same sequence for every such order: blocks of
   different keys never share a path, so the per-path subsequences are untouched. *)
Theorem C07_diff_order_independent : forall (o : order) l r,
  perm_order o ->
  wf l = true -> keys_safe l = true -> wf r = true -> keys_safe r = true ->
  diff_ord o l r = diff l r.
Proof. exact diff_order_independent. Qed.
Print Assumptions C07_diff_order_independent.

(* Diff(L, L) = [] *)
Theorem C07_diff_self : forall l, wf l = true -> keys_safe l = true -> diff l l = [].
Proof. exact diff_self. Qed.
Print Assumptions C07_diff_self.

(* non-vacuity: all five kinds of difference, with a Delete/Add tie on one path *)
Example C07_ex :
  let l := Con [("a"%string, Con [("x"%string, Leaf (SInt 1))]); ("b"%string, Lst [Leaf (SInt 1); Leaf (SInt 2)]);
                ("c"%string, Leaf (SInt 1)); ("d"%string, Leaf (SInt 5))] in
  let r := Con [("a"%string, Leaf (SStr "s")); ("b"%string, Lst [Leaf (SInt 1)]);
                ("c"%string, Leaf (SInt 2)); ("e"%string, Leaf (SInt 0))] in
  diff l r =
  [mkMod MDelete "a" SNull SNull; mkMod MAdd "a" (SStr "s") SNull;
   mkMod MDelete "b" SNull SNull; mkMod MAdd "b[0]" (SInt 1) SNull; mkMod MAdd "b[1]" (SInt 2) SNull;
   mkMod MChange "c" (SInt 2) (SInt 1); mkMod MAdd "d" (SInt 5) SNull; mkMod MDelete "e" SNull SNull].
Proof. vm_compute. reflexivity. Qed.
