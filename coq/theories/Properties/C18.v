(* Properties/C18.v — Document sets select by tag, keep insertion order and honour the re-add policy. *)
From Coq Require Import List String Bool ZArith Arith.
From YT Require Import Base.Str Base.KV Model.Doc Model.Dom Model.Overlay Model.DocSet Proofs.OverlayProofs Proofs.DocSetProofs.
Import ListNotations.
Local Open Scope list_scope.

(* A subset's layers are the selected names, each once, in order of first insertion. *)
Theorem C18_filtered_names : forall sel ds,
  layer_names (ds_filtered sel ds) =
  fold_left (fun names n => match ctx_get n (ds_ctx ds) with
                            | Some (Con _, tags) => if sel tags then note names n else names
                            | _ => names
                            end) (ds_names ds) [].
Proof. exact filtered_names. Qed.
Print Assumptions C18_filtered_names.

(* AsOne() == TaggedSubset("*"): every stored context carries the '*' tag, after any history. *)
Theorem C18_star_invariant : forall name doc tags pol ds, all_star ds -> all_star (fst (ds_add name doc tags pol ds)).
Proof. exact star_add. Qed.
Print Assumptions C18_star_invariant.

Theorem C18_as_one_is_star : forall ds, all_star ds -> ds_as_one ds = ds_tagged ["*"%string] ds.
Proof. exact as_one_is_star. Qed.
Print Assumptions C18_as_one_is_star.

(* Re-adding an existing name: must-create fails and changes nothing ... *)
Theorem C18_must_create_unchanged : forall name doc tags ds c,
  ctx_get name (ds_ctx ds) = Some c -> ds_add name doc tags PMustCreate ds = (ds, false).
Proof. exact must_create_unchanged. Qed.
Print Assumptions C18_must_create_unchanged.

(* ... merge-tags keeps the stored document and unions the tags ... *)
Theorem C18_merge_tags_spec : forall name doc tags ds olddoc oldtags,
  ctx_get name (ds_ctx ds) = Some (olddoc, oldtags) ->
  let ds' := fst (ds_add name doc tags PMergeTags ds) in
  snd (ds_add name doc tags PMergeTags ds) = true /\
  ctx_get name (ds_ctx ds') = Some (olddoc, unique (("*"%string :: tags) ++ oldtags)).
Proof. exact merge_tags_spec. Qed.
Print Assumptions C18_merge_tags_spec.

(* ... and the default makes the newly added document, with the tags of that call, the one served
   (refuted on the pinned tree: a nil document was stored). *)
Theorem C18_default_readd_spec : forall name doc tags ds,
  let ds' := fst (ds_add name doc tags PNone ds) in
  snd (ds_add name doc tags PNone ds) = true /\
  ctx_get name (ds_ctx ds') = Some (doc, "*"%string :: tags) /\ ds_named name ds' = Some doc.
Proof. exact default_readd_spec. Qed.
Print Assumptions C18_default_readd_spec.

Theorem C18_add_new_spec : forall name doc tags pol ds,
  ctx_get name (ds_ctx ds) = None ->
  ds_named name (fst (ds_add name doc tags pol ds)) = Some doc /\ snd (ds_add name doc tags pol ds) = true.
Proof. exact add_new_spec. Qed.
Print Assumptions C18_add_new_spec.

Theorem C18_add_other_name : forall name m doc tags pol ds,
  m <> name -> ctx_get m (ds_ctx (fst (ds_add name doc tags pol ds))) = ctx_get m (ds_ctx ds).
Proof. exact add_other_name. Qed.
Print Assumptions C18_add_other_name.

(* Unnamed documents receive distinct generated names. *)
Theorem C18_unnamed_distinct : forall a b, unnamed_name a = unnamed_name b -> a = b.
Proof. exact unnamed_distinct. Qed.
Print Assumptions C18_unnamed_distinct.
Theorem C18_unnamed_counter : forall doc tags pol ds,
  ds_unnamed (fst (ds_add_unnamed doc tags pol ds)) = S (ds_unnamed ds).
Proof. exact unnamed_counter_increases. Qed.
Print Assumptions C18_unnamed_counter.

Example C18_ex :
  let d1 := Con [("a"%string, Leaf (SInt 1))] in let d2 := Con [("b"%string, Leaf (SInt 2))] in
  ds_run ds_empty [DAdd "app" d1 ["prod"%string] PNone; DAdd "db" d2 [] PNone;
                   DAdd "app" d2 ["dev"%string] PMergeTags; DAdd "db" d1 [] PMustCreate;
                   DTagged ["dev"%string]; DNamed "app"; DAsOne] =
  [DObsOk true; DObsOk true; DObsOk true; DObsOk false;
   DObsOverlay ["app"%string] [d1]; DObsDoc (Some d1); DObsOverlay ["app"; "db"]%string [d1; d2]].
Proof. vm_compute. reflexivity. Qed.
