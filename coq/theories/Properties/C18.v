(* Properties/C18.v — Document sets select by tag, keep insertion order and honour the re-add policy. *)
From Coq Require Import List String Bool ZArith Arith Permutation.
From YT Require Import Base.Str Base.KV Model.Doc Model.Dom Model.Overlay Model.DocSet Proofs.OverlayProofs Proofs.DocSetProofs Proofs.DocSetHistoryProofs.
Import ListNotations.
Local Open Scope list_scope.

(* A subset's layers are the selected names, each once, in order of first insertion. *)
Theorem C18_filtered_names : forall sel ds,
  layer_names (ds_filtered sel ds) =
  fold_left (fun names n => match ctx_get n (ds_ctx ds) with
                            | Some (Con _, tags) => if sel tags then note names n else names
                            | _ => names
                            end) (ds_names ds) [].
Proof. exact filtered_names. Qed.
Print Assumptions C18_filtered_names.

(* AsOne() == TaggedSubset("*"): every stored context carries the '*' tag, after any history. *)
Theorem C18_star_invariant : forall name doc tags pol ds, all_star ds -> all_star (fst (ds_add name doc tags pol ds)).
Proof. exact star_add. Qed.
Print Assumptions C18_star_invariant.

Theorem C18_as_one_is_star : forall ds, all_star ds -> ds_as_one ds = ds_tagged ["*"%string] ds.
Proof. exact as_one_is_star. Qed.
Print Assumptions C18_as_one_is_star.

(* Re-adding an existing name: must-create fails and changes nothing ... *)
Theorem C18_must_create_unchanged : forall name doc tags ds c,
  ctx_get name (ds_ctx ds) = Some c -> ds_add name doc tags PMustCreate ds = (ds, false).
Proof. exact must_create_unchanged. Qed.
Print Assumptions C18_must_create_unchanged.

(* ... merge-tags keeps the stored document and unions the tags ... *)
Theorem C18_merge_tags_spec : forall name doc tags ds olddoc oldtags,
  ctx_get name (ds_ctx ds) = Some (olddoc, oldtags) ->
  let ds' := fst (ds_add name doc tags PMergeTags ds) in
  snd (ds_add name doc tags PMergeTags ds) = true /\
  ctx_get name (ds_ctx ds') = Some (olddoc, unique (("*"%string :: tags) ++ oldtags)).
Proof. exact merge_tags_spec. Qed.
Print Assumptions C18_merge_tags_spec.

(* ... and the default makes the newly added document, with the tags of that call, the one served
   (refuted on the pinned tree: a nil document was stored). *)
Theorem C18_default_readd_spec : forall name doc tags ds,
  let ds' := fst (ds_add name doc tags PNone ds) in
  snd (ds_add name doc tags PNone ds) = true /\
  ctx_get name (ds_ctx ds') = Some (doc, "*"%string :: tags) /\ ds_named name ds' = Some doc.
Proof. exact default_readd_spec. Qed.
Print Assumptions C18_default_readd_spec.

Theorem C18_add_new_spec : forall name doc tags pol ds,
  ctx_get name (ds_ctx ds) = None ->
  ds_named name (fst (ds_add name doc tags pol ds)) = Some doc /\ snd (ds_add name doc tags pol ds) = true.
Proof. exact add_new_spec. Qed.
Print Assumptions C18_add_new_spec.

Theorem C18_add_other_name : forall name m doc tags pol ds,
  m <> name -> ctx_get m (ds_ctx (fst (ds_add name doc tags pol ds))) = ctx_get m (ds_ctx ds).
Proof. exact add_other_name. Qed.
Print Assumptions C18_add_other_name.

(* Unnamed documents receive distinct generated names. *)
Theorem C18_unnamed_distinct : forall a b, unnamed_name a = unnamed_name b -> a = b.
Proof. exact unnamed_distinct. Qed.
Print Assumptions C18_unnamed_distinct.
Theorem C18_unnamed_counter : forall doc tags pol ds,
  ds_unnamed (fst (ds_add_unnamed doc tags pol ds)) = S (ds_unnamed ds).
Proof. exact unnamed_counter_increases. Qed.
Print Assumptions C18_unnamed_counter.

Example C18_ex :
  let d1 := Con [("a"%string, Leaf (SInt 1))] in let d2 := Con [("b"%string, Leaf (SInt 2))] in
  ds_run ds_empty [DAdd "app" d1 ["prod"%string] PNone; DAdd "db" d2 [] PNone;
                   DAdd "app" d2 ["dev"%string] PMergeTags; DAdd "db" d1 [] PMustCreate;
                   DTagged ["dev"%string]; DNamed "app"; DAsOne] =
  [DObsOk true; DObsOk true; DObsOk true; DObsOk false;
   DObsOverlay ["app"%string] [d1]; DObsDoc (Some d1); DObsOverlay ["app"; "db"]%string [d1; d2]].
Proof. vm_compute. reflexivity. Qed.

(* ---------- the batch forms of "all DocumentSet methods": AddDocumentsFromDirectory, AddDocumentsFromManifest,
   AddPropertiesFromManifest.  [files] = the files the pattern matches, in glob order, each with what its decoder makes of
   it (None: unreadable or undecodable); [items] = the text items of the manifest in List() order. *)

(* A directory add succeeds only if every file decoded, and then appends the paths in glob order ... *)
Theorem C18_dir_ok_decoded : forall files tags pol ds,
  snd (ds_add_files files tags pol ds) = true -> decoded files.
Proof. exact add_files_ok_decoded. Qed.
Print Assumptions C18_dir_ok_decoded.
Theorem C18_dir_ok_names : forall files tags pol ds,
  snd (ds_add_files files tags pol ds) = true ->
  ds_names (fst (ds_add_files files tags pol ds)) = ds_names ds ++ map fst files.
Proof. exact add_files_ok_names. Qed.
Print Assumptions C18_dir_ok_names.

(* ... it IS the sequence of single adds (so every re-add law above applies file by file) ... *)
Theorem C18_dir_is_fold : forall files tags pol ds,
  pol <> PMustCreate -> decoded files ->
  ds_add_files files tags pol ds =
  (fold_left (fun acc f => match snd f with Some d => fst (ds_add (fst f) d tags pol acc) | None => acc end) files ds, true).
Proof. exact add_files_is_fold. Qed.
Print Assumptions C18_dir_is_fold.

(* ... every file is then served under its own path ... *)
Theorem C18_dir_named : forall files tags pol ds n d,
  snd (ds_add_files files tags pol ds) = true -> NoDup (map fst files) -> In (n, Some d) files ->
  (pol = PMergeTags -> ctx_get n (ds_ctx ds) = None) ->
  ds_named n (fst (ds_add_files files tags pol ds)) = Some d.
Proof. exact add_files_named. Qed.
Print Assumptions C18_dir_named.

(* ... the first unreadable file ends the call with an error: the files before it stay registered, the later ones are
   not looked at; must-create stops at the first path that is already registered and changes nothing there ... *)
Theorem C18_dir_first_failure : forall l1 n l2 tags pol ds,
  pol <> PMustCreate -> decoded l1 ->
  ds_add_files (l1 ++ (n, None) :: l2) tags pol ds = (fst (ds_add_files l1 tags pol ds), false).
Proof. exact add_files_first_failure. Qed.
Print Assumptions C18_dir_first_failure.
Theorem C18_dir_must_create_stops : forall n d r tags ds c,
  ctx_get n (ds_ctx ds) = Some c -> ds_add_files ((n, Some d) :: r) tags PMustCreate ds = (ds, false).
Proof. exact add_files_must_create_stops. Qed.
Print Assumptions C18_dir_must_create_stops.

(* ... and names outside the batch are served as before, the '*' invariant survives. *)
Theorem C18_dir_other_name : forall files tags pol ds m,
  ~ In m (map fst files) -> ctx_get m (ds_ctx (fst (ds_add_files files tags pol ds))) = ctx_get m (ds_ctx ds).
Proof. exact add_files_other_name. Qed.
Print Assumptions C18_dir_other_name.
Theorem C18_dir_star : forall files tags pol ds, all_star ds -> all_star (fst (ds_add_files files tags pol ds)).
Proof. exact add_files_star. Qed.
Print Assumptions C18_dir_star.

(* Manifest items: each decodable item is served as "<manifest>/<item>", an undecodable one is skipped and the call
   goes on; other names untouched; '*' invariant. *)
Theorem C18_items_named : forall manifest items tags pol ds k d,
  NoDup (map fst items) -> In (k, Some d) items -> pol <> PMustCreate ->
  (pol = PMergeTags -> ctx_get (item_name manifest k) (ds_ctx ds) = None) ->
  ds_named (item_name manifest k) (ds_add_items manifest items tags pol ds) = Some d.
Proof. exact add_items_named. Qed.
Print Assumptions C18_items_named.
Theorem C18_items_skip_undecodable : forall manifest l1 k l2 tags pol ds,
  ds_add_items manifest (l1 ++ (k, None) :: l2) tags pol ds = ds_add_items manifest (l1 ++ l2) tags pol ds.
Proof. exact add_items_skips_undecodable. Qed.
Print Assumptions C18_items_skip_undecodable.
Theorem C18_items_other_name : forall manifest items tags pol ds m,
  (forall it, In it (map fst items) -> m <> item_name manifest it) ->
  ctx_get m (ds_ctx (ds_add_items manifest items tags pol ds)) = ctx_get m (ds_ctx ds).
Proof. exact add_items_other_name. Qed.
Print Assumptions C18_items_other_name.
Theorem C18_items_star : forall manifest items tags pol ds,
  all_star ds -> all_star (ds_add_items manifest items tags pol ds).
Proof. exact add_items_star. Qed.
Print Assumptions C18_items_star.

(* The manifest hands its items out of a Go map: AddDocumentsFromManifest meets them in the map's iteration order.
   What is served under EVERY name is the same for every such order (only the relative position of the new layers
   follows it); each decodable item gets exactly the effect of one single add on what was stored under its name. *)
Theorem C18_items_order_independent : forall manifest items items' tags pol ds m,
  Permutation items items' -> NoDup (map fst items) ->
  ctx_get m (ds_ctx (ds_add_items manifest items tags pol ds)) =
  ctx_get m (ds_ctx (ds_add_items manifest items' tags pol ds)).
Proof. exact add_items_order_independent. Qed.
Print Assumptions C18_items_order_independent.
Theorem C18_items_own_effect : forall manifest items tags pol ds k d,
  NoDup (map fst items) -> In (k, Some d) items ->
  ctx_get (item_name manifest k) (ds_ctx (ds_add_items manifest items tags pol ds)) =
  add_effect d tags pol (ctx_get (item_name manifest k) (ds_ctx ds)).
Proof. exact add_items_own. Qed.
Print Assumptions C18_items_own_effect.

(* non-vacuity: a directory whose second file is broken, a manifest with an undecodable item, a manifest read as ONE
   properties document (item names are dotted paths) *)
Example C18_batch_ex :
  let d1 := Con [("a"%string, Leaf (SInt 1))] in let d2 := Con [("b"%string, Leaf (SInt 2))] in
  ds_run ds_empty [DAddFiles [("/t/1.yaml"%string, Some d1); ("/t/2.yaml"%string, None); ("/t/3.yaml"%string, Some d2)] ["x"%string] PNone;
                   DAddItems "/t/m.yaml" (Some [("i.json"%string, Some d2); ("j.yaml"%string, None)]) [] PNone;
                   DAddProps "/t/p.yaml" (Some [("a.b"%string, "1"%string); ("a.c[1]"%string, "z"%string)]) [] PMustCreate;
                   DAddItems "/t/none.yaml" None [] PNone;
                   DTagged ["x"%string]; DAsOne] =
  [DObsOk false; DObsOk true; DObsOk true; DObsOk false;
   DObsOverlay ["/t/1.yaml"%string] [d1];
   DObsOverlay ["/t/1.yaml"; "/t/m.yaml/i.json"; "/t/p.yaml"]%string
     [d1; d2; Con [("a"%string, Con [("b"%string, Leaf (SStr "1")); ("c"%string, Lst [Leaf SNull; Leaf (SStr "z")])])]]].
Proof. vm_compute. reflexivity. Qed.

(* ---------- histories of ANY length (single adds, unnamed adds, the batch forms, reads, in any mixture): the list of names
   only ever grows at its END, so the order in which names were first inserted — the order LayerNames() of every subset
   follows (C18_filtered_names) — is never disturbed by later adds or re-adds, however many there are. *)
Theorem C18_names_only_grow_at_the_end : forall ds ops,
  exists suf, ds_names (ds_after ds ops) = ds_names ds ++ suf.
Proof. intros ds ops. exact (history_extends ops ds). Qed.
Print Assumptions C18_names_only_grow_at_the_end.
Theorem C18_first_insertion_order_is_stable : forall ds ops,
  exists suf, first_order (ds_names (ds_after ds ops)) = first_order (ds_names ds) ++ suf.
Proof. exact first_order_stable. Qed.
Print Assumptions C18_first_insertion_order_is_stable.

(* non-vacuity: three names added in non-alphabetical order and re-added round-robin, 72 adds in all *)
Example C18_long_history_ex :
  let d := Con [("k"%string, Leaf (SInt 1))] in
  let round := [DAdd "zulu" d [] PNone; DAdd "mike" d ["t"%string] PMergeTags; DAdd "alpha" d [] PNone] in
  let ops := List.concat (List.repeat round 24) in
  List.length ops = 72 /\
  layer_names (ds_as_one (ds_after ds_empty ops)) = ["zulu"; "mike"; "alpha"]%string /\
  first_order (ds_names (ds_after ds_empty ops)) = ["zulu"; "mike"; "alpha"]%string.
Proof. vm_compute. repeat split; reflexivity. Qed.
