(* Properties/C09.v — JSON Patch operations conform to RFC 6902 and fail cleanly. *)
From Coq Require Import List String Bool ZArith Arith.
From YT Require Import Base.Str Base.KV Model.Doc Model.Dom Model.Pointer Model.Builder Model.Equals Model.Patch
  Proofs.PatchProofs.
Import ListNotations.
Local Open Scope list_scope.

(* THE refinement, in one statement: for every well-formed document and every operation in scope
   (non-root pointers of plain tokens; '-' excluded; present or missing value/from), patch.Do
   succeeds exactly when the RFC 6902 reference does, then yields exactly the prescribed document
   (list insertion/removal shifting, move = remove+add with the prefix test, copy, test) — and
   when the RFC requires failure the document is left EXACTLY as it was.  The result type has no
   "panic" outcome: the definition is total. *)
Theorem C09_impl_refines_rfc : forall d o,
  wf d = true -> in_scope o = true -> values_wf o = true ->
  impl_do d o = match rfc_do o d with Some d' => (d', true) | None => (d, false) end.
Proof. exact impl_refines_rfc. Qed.
Print Assumptions C09_impl_refines_rfc.

(* ... and for all sequences of operations applied to one document, step by step *)
Theorem C09_histories_refine : forall ops d,
  wf d = true -> forallb in_scope ops = true -> forallb values_wf ops = true ->
  run_patch d ops = run_rfc d ops.
Proof. exact histories_refine. Qed.
Print Assumptions C09_histories_refine.

(* the put-back of a failed move really restores the document *)
Theorem C09_remove_then_add_back : forall from v d d1,
  wf d = true -> from <> [] ->
  rfc6901_eval from d = Some v -> rfc_remove from d = Some d1 -> rfc_add from v d1 = Some d.
Proof. exact remove_then_add_back. Qed.
Print Assumptions C09_remove_then_add_back.

(* list shifting laws of the reference *)
Theorem C09_insert_shift : forall l i v j, i <= List.length l ->
  nth_error (insert_at l i v) j =
    if Nat.ltb j i then nth_error l j else if Nat.eqb j i then Some v else nth_error l (j - 1).
Proof. exact insert_shift. Qed.
Print Assumptions C09_insert_shift.

Theorem C09_remove_shift : forall l i j,
  nth_error (remove_idx l i) j = if Nat.ltb j i then nth_error l j else nth_error l (S j).
Proof. exact remove_shift. Qed.
Print Assumptions C09_remove_shift.

Theorem C09_remove_insert_id : forall l i v, i <= List.length l -> remove_idx (insert_at l i v) i = l.
Proof. exact remove_insert_id. Qed.
Print Assumptions C09_remove_insert_id.

(* the reference keeps documents well-formed *)
Theorem C09_rfc_do_wf : forall o d d', wf d = true -> values_wf o = true -> rfc_do o d = Some d' -> wf d' = true.
Proof. exact rfc_do_wf. Qed.
Print Assumptions C09_rfc_do_wf.

(* "a later edit inside a copied subtree never shows through at the source" is a statement about
   sharing; a pure model has none.  It is decided by copy-then-edit histories on the Go side. *)

(* non-vacuity: the move into a shifted sibling that a mere rollback gets wrong, and a clean failure *)
Example C09_ex :
  let d := Con [("c"%string, Lst [Con [("v"%string, Leaf (SInt 1))]; Con [("w"%string, Leaf (SInt 2))]])] in
  let o := PMove (Some ["c"; "0"]%string) ["c"; "0"; "x"]%string in
  wf d = true /\ in_scope o = true /\ impl_do d o = (d, false) /\
  impl_do d (PMove (Some ["c"; "0"]%string) ["c"; "1"]%string) =
    (Con [("c"%string, Lst [Con [("w"%string, Leaf (SInt 2))]; Con [("v"%string, Leaf (SInt 1))]])], true).
Proof. vm_compute. repeat split; reflexivity. Qed.
