(* Properties/C09.v — JSON Patch operations conform to RFC 6902 and fail cleanly. *)
From Coq Require Import List String Bool ZArith Arith.
From YT Require Import Base.Str Base.KV Model.Doc Model.Dom Model.Pointer Model.Builder Model.Equals Model.Patch
  Model.Path Model.Diff Model.Xform Proofs.PatchProofs Proofs.PatchLawsProofs Proofs.PropsPathProofs Proofs.XformProofs Proofs.PathProofs Proofs.PropsCompProofs.
Import ListNotations.
Local Open Scope list_scope.

(* THE refinement, in one statement: for every well-formed document and every operation in scope
   (non-root pointers of plain tokens; '-' excluded; present or missing value/from), patch.Do
   succeeds exactly when the RFC 6902 reference does, then yields exactly the prescribed document
   (list insertion/removal shifting, move = remove+add with the prefix test, copy, test) — and
   when the RFC requires failure the document is left EXACTLY as it was.  The result type has no
   "panic" outcome: the definition is total. *)
Theorem C09_impl_refines_rfc : forall d o,
  wf d = true -> in_scope o = true -> values_wf o = true ->
  impl_do d o = match rfc_do o d with Some d' => (d', true) | None => (d, false) end.
Proof. exact impl_refines_rfc. Qed.
Print Assumptions C09_impl_refines_rfc.

(* ... and for all sequences of operations applied to one document, step by step *)
Theorem C09_histories_refine : forall ops d,
  wf d = true -> forallb in_scope ops = true -> forallb values_wf ops = true ->
  run_patch d ops = run_rfc d ops.
Proof. exact histories_refine. Qed.
Print Assumptions C09_histories_refine.

(* the put-back of a failed move really restores the document *)
Theorem C09_remove_then_add_back : forall from v d d1,
  wf d = true -> from <> [] ->
  rfc6901_eval from d = Some v -> rfc_remove from d = Some d1 -> rfc_add from v d1 = Some d.
Proof. exact remove_then_add_back. Qed.
Print Assumptions C09_remove_then_add_back.

(* list shifting laws of the reference *)
Theorem C09_insert_shift : forall l i v j, i <= List.length l ->
  nth_error (insert_at l i v) j =
    if Nat.ltb j i then nth_error l j else if Nat.eqb j i then Some v else nth_error l (j - 1).
Proof. exact insert_shift. Qed.
Print Assumptions C09_insert_shift.

Theorem C09_remove_shift : forall l i j,
  nth_error (remove_idx l i) j = if Nat.ltb j i then nth_error l j else nth_error l (S j).
Proof. exact remove_shift. Qed.
Print Assumptions C09_remove_shift.

Theorem C09_remove_insert_id : forall l i v, i <= List.length l -> remove_idx (insert_at l i v) i = l.
Proof. exact remove_insert_id. Qed.
Print Assumptions C09_remove_insert_id.

(* the reference keeps documents well-formed *)
Theorem C09_rfc_do_wf : forall o d d', wf d = true -> values_wf o = true -> rfc_do o d = Some d' -> wf d' = true.
Proof. exact rfc_do_wf. Qed.
Print Assumptions C09_rfc_do_wf.

(* ---------- the reference itself, read declaratively (what RFC 6902 prescribes, as post-conditions
   on RFC 6901 evaluation): where the value lands, what the parent looks like, what is untouched *)

(* an update rewrites exactly the addressed node ... *)
Theorem C09_upd_same : forall p f d d', upd p f d = Some d' ->
  exists x x', rfc6901_eval p d = Some x /\ f x = Some x' /\ rfc6901_eval p d' = Some x'.
Proof. exact upd_eval_same. Qed.
Print Assumptions C09_upd_same.

(* ... and leaves every pointer that parts ways with it unchanged (present or absent alike) *)
Theorem C09_upd_frame : forall p q f d d', upd p f d = Some d' -> pdiv p q ->
  rfc6901_eval q d' = rfc6901_eval q d.
Proof. exact upd_eval_frame. Qed.
Print Assumptions C09_upd_frame.

(* a canonical index token is the decimal spelling of its index: two tokens never name one element *)
Theorem C09_canon_index_spelling : forall t i, canon_index t = Some i -> t = nat2s i.
Proof. exact canon_index_spelling. Qed.
Print Assumptions C09_canon_index_spelling.

(* add: the parent is rewritten by the one-level rule and the value is found at the target *)
Theorem C09_add_spec : forall path v d d', path <> [] -> rfc_add path v d = Some d' ->
  (exists par par', rfc6901_eval (parent_of path) d = Some par /\ rfc_add_at (last_of path) v par = Some par' /\
                    rfc6901_eval (parent_of path) d' = Some par') /\
  rfc6901_eval path d' = Some v.
Proof. exact rfc_add_spec. Qed.
Print Assumptions C09_add_spec.

Theorem C09_add_frame : forall path v d d' q, rfc_add path v d = Some d' -> pdiv (parent_of path) q ->
  rfc6901_eval q d' = rfc6901_eval q d.
Proof. exact rfc_add_frame. Qed.
Print Assumptions C09_add_frame.

Theorem C09_add_member_frame : forall path v d d' kvs t rest, path <> [] ->
  rfc_add path v d = Some d' -> rfc6901_eval (parent_of path) d = Some (Con kvs) -> t <> last_of path ->
  rfc6901_eval (parent_of path ++ t :: rest) d' = rfc6901_eval (parent_of path ++ t :: rest) d.
Proof. exact rfc_add_member_frame. Qed.
Print Assumptions C09_add_member_frame.

(* array parents: the element list afterwards IS the insertion (C09_insert_shift says where each
   old element went) *)
Theorem C09_add_list_shift : forall path v d d' xs i, path <> [] ->
  rfc_add path v d = Some d' -> rfc6901_eval (parent_of path) d = Some (Lst xs) -> canon_index (last_of path) = Some i ->
  i <= List.length xs /\ rfc6901_eval (parent_of path) d' = Some (Lst (insert_at xs i v)).
Proof. exact rfc_add_list_shift. Qed.
Print Assumptions C09_add_list_shift.

(* add fails exactly when the parent is missing or refuses the token (scalar parent, index out
   of range, non-index token on an array) *)
Theorem C09_add_fails : forall path v d, rfc_add path v d = None <->
  (rfc6901_eval (parent_of path) d = None \/
   exists par, rfc6901_eval (parent_of path) d = Some par /\ rfc_add_at (last_of path) v par = None).
Proof. exact rfc_add_fails. Qed.
Print Assumptions C09_add_fails.

(* remove *)
Theorem C09_remove_member_gone : forall path d d' kvs, path <> [] -> sorted_keys kvs = true ->
  rfc_remove path d = Some d' -> rfc6901_eval (parent_of path) d = Some (Con kvs) ->
  rfc6901_eval path d' = None /\ rfc6901_eval path d <> None.
Proof. exact rfc_remove_member_gone. Qed.
Print Assumptions C09_remove_member_gone.

Theorem C09_remove_list_shift : forall path d d' xs i,
  rfc_remove path d = Some d' -> rfc6901_eval (parent_of path) d = Some (Lst xs) -> canon_index (last_of path) = Some i ->
  i < List.length xs /\ rfc6901_eval (parent_of path) d' = Some (Lst (remove_idx xs i)).
Proof. exact rfc_remove_list_shift. Qed.
Print Assumptions C09_remove_list_shift.

Theorem C09_remove_frame : forall path d d' q, rfc_remove path d = Some d' -> pdiv (parent_of path) q ->
  rfc6901_eval q d' = rfc6901_eval q d.
Proof. exact rfc_remove_frame. Qed.
Print Assumptions C09_remove_frame.

(* replace: the target must exist, holds the value afterwards, nothing else moves *)
Theorem C09_replace_spec : forall path v d d', rfc_do (PReplace path (Some v)) d = Some d' ->
  rfc6901_eval path d <> None /\ rfc6901_eval path d' = Some v /\
  forall q, pdiv path q -> rfc6901_eval q d' = rfc6901_eval q d.
Proof. exact rfc_replace_spec. Qed.
Print Assumptions C09_replace_spec.

(* copy = add of the value found at from; move = remove at from, then add, refused into an own
   descendant; in both the value found at from is found at path afterwards *)
Theorem C09_copy_spec : forall from path d d', path <> [] -> rfc_do (PCopy (Some from) path) d = Some d' ->
  exists v, rfc6901_eval from d = Some v /\ rfc6901_eval path d' = Some v /\ rfc_add path v d = Some d'.
Proof. exact rfc_copy_spec. Qed.
Print Assumptions C09_copy_spec.

Theorem C09_move_spec : forall from path d d', path <> [] -> rfc_do (PMove (Some from) path) d = Some d' ->
  exists v d1, rfc6901_eval from d = Some v /\ proper_prefix from path = false /\
               rfc_remove from d = Some d1 /\ rfc_add path v d1 = Some d' /\ rfc6901_eval path d' = Some v.
Proof. exact rfc_move_spec. Qed.
Print Assumptions C09_move_spec.

(* test succeeds exactly when the target holds that very value, and changes nothing *)
Theorem C09_test_spec : forall path v d d', rfc_do (PTest path (Some v)) d = Some d' <->
  d' = d /\ rfc6901_eval path d = Some v.
Proof. exact rfc_test_spec. Qed.
Print Assumptions C09_test_spec.

Theorem C09_missing_operand : forall d,
  (forall p, rfc_do (PAdd p None) d = None) /\ (forall p, rfc_do (PReplace p None) d = None) /\
  (forall p, rfc_do (PTest p None) d = None) /\ (forall p, rfc_do (PMove None p) d = None) /\
  (forall p, rfc_do (PCopy None p) d = None).
Proof. exact rfc_missing_operand. Qed.
Print Assumptions C09_missing_operand.

(* "a later edit inside a copied subtree never shows through at the source" is a statement about
   sharing; a pure model has none.  It is decided by copy-then-edit histories on the Go side. *)

(* non-vacuity: the move into a shifted sibling that a mere rollback gets wrong, and a clean failure *)
Example C09_ex :
  let d := Con [("c"%string, Lst [Con [("v"%string, Leaf (SInt 1))]; Con [("w"%string, Leaf (SInt 2))]])] in
  let o := PMove (Some ["c"; "0"]%string) ["c"; "0"; "x"]%string in
  wf d = true /\ in_scope o = true /\ impl_do d o = (d, false) /\
  impl_do d (PMove (Some ["c"; "0"]%string) ["c"; "1"]%string) =
    (Con [("c"%string, Lst [Con [("w"%string, Leaf (SInt 2))]; Con [("v"%string, Leaf (SInt 1))]])], true).
Proof. vm_compute. repeat split; reflexivity. Qed.

(* ---------- "xform.DiffMod2PatchOp output fed to patch.Do": the operation object made of a modification at a flattened
   path of a document addresses that very leaf of the document (so a Change becomes a replace of it, a Delete a remove of
   it), and the kind of operation follows the kind of modification.  The route path text -> pointer is C02's. *)
Theorem C09_diff_mod_addresses_leaf : forall kvs m v,
  wf (Con kvs) = true -> keys_safe (Con kvs) = true -> In (mpath m, v) (flatten (Con kvs)) ->
  exists sigma, mpath m = render_steps sigma /\
    (idx_small sigma -> exists o, mod2pop m = Some o /\ snd (ptr_eval (pop_path o) (Con kvs)) = Some (Leaf v)).
Proof. exact mod2pop_addresses_leaf. Qed.
Print Assumptions C09_diff_mod_addresses_leaf.
Theorem C09_diff_mod_kind : forall m o, mod2pop m = Some o ->
  match mt m, o with
  | MAdd, PAdd _ (Some (Leaf v)) | MChange, PReplace _ (Some (Leaf v)) => v = mval m
  | MDelete, PRemove _ => True
  | _, _ => False
  end.
Proof. exact mod2pop_kind. Qed.
Print Assumptions C09_diff_mod_kind.

Example C09_diff_mod_ex :
  mod2pop (mkMod MChange "a.b[1].c" (SInt 5) (SInt 4)) = Some (PReplace ["a"; "b"; "1"; "c"]%string (Some (Leaf (SInt 5)))) /\
  mod2pop (mkMod MDelete "x[0][2]" SNull SNull) = Some (PRemove ["x"; "0"; "2"]%string).
Proof. vm_compute. split; reflexivity. Qed.

(* ---------- the path text of ANY modification (not only flatten-style ones over path-safe names): the reader cuts it at
   its separators, one group of segments per component, and an EMPTY component inside the path is the segment with the
   empty name ("srv..port" addresses member "" of srv); a separator at the END of the text is left out before the text is
   cut, so the operation made of a modification at "c." is the one made of a modification at "c" — that is what the
   code does, stated here so that the exclusion of such modifications from the RFC comparison (DESIGN 10.4) is exact. *)
Theorem C09_prop_path_by_components : forall cs,
  Forall (fun c => nodot (la c) = true) cs ->
  nice (hd DOT (jl cs)) -> nice (last (jl cs) DOT) ->
  props_parse (join_with "."%string cs) = flat_map comp_segs cs.
Proof. exact props_parse_components. Qed.
Print Assumptions C09_prop_path_by_components.
Theorem C09_empty_component_is_the_empty_name : comp_segs "" = [PKey ""%string].
Proof. exact comp_segs_empty. Qed.
Print Assumptions C09_empty_component_is_the_empty_name.
Theorem C09_trailing_separator_is_left_out : forall ty (t : string) v o,
  nice (hd DOT (la t)) -> nice (last (la t) DOT) ->
  mod2pop (mkMod ty (t ++ ".")%string v o) = mod2pop (mkMod ty t v o).
Proof. exact mod2pop_trailing_separator. Qed.
Print Assumptions C09_trailing_separator_is_left_out.

Example C09_prop_path_ex :
  mod2pop (mkMod MAdd "srv..port" (SInt 1) SNull) = Some (PAdd ["srv"; ""; "port"]%string (Some (Leaf (SInt 1)))) /\
  mod2pop (mkMod MDelete "c." SNull SNull) = Some (PRemove ["c"]%string) /\
  nice (hd DOT (la "c")) /\ nice (last (la "c") DOT) /\
  Forall (fun c => nodot (la c) = true) ["srv"; ""; "port"]%string.
Proof. vm_compute. repeat split; try reflexivity; repeat constructor. Qed.
