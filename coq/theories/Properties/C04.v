(* Properties/C04.v — Merge: union of keys, the other side wins, inputs untouched. *)
From Coq Require Import List String Bool ZArith Arith.
From YT Require Import Base.Str Base.KV Model.Doc Model.Merge Proofs.MergeProofs.
Import ListNotations.
Local Open Scope list_scope.

(* The result contains every key of either side; a key of both holds the combination (containers
   recursively, lists by the selected strategy, otherwise coalesce), a key of one side that side's
   node unchanged. *)
Theorem C04_merge_get : forall app l1 l2 k,
  sorted_keys l1 = true -> sorted_keys l2 = true ->
  kv_get k (merge_kvs app l1 l2) = combine_opt app (kv_get k l1) (kv_get k l2).
Proof. exact merge_kvs_get. Qed.
Print Assumptions C04_merge_get.

(* otherwise B's value wins unless it is null, in which case A's value is kept *)
Theorem C04_kind_conflict : forall app a b,
  match a, b with Con _, Con _ | Lst _, Lst _ => False | _, _ => True end ->
  merge_node app a b = coalesce a b.
Proof. exact merge_kind_conflict. Qed.
Print Assumptions C04_kind_conflict.

Theorem C04_coalesce_spec : forall a b,
  (has_value b = true -> coalesce a b = b) /\ (has_value b = false -> coalesce a b = a).
Proof. exact coalesce_spec. Qed.
Print Assumptions C04_coalesce_spec.

(* position-wise list strategy: length = max, position i is the combination / the only item *)
Theorem C04_meld_nth : forall app l1 l2 i,
  nth_error (meld app l1 l2) i =
    match nth_error l1 i, nth_error l2 i with
    | Some x, Some y => Some (merge_node app x y)
    | Some x, None => Some x
    | None, Some y => Some y
    | None, None => None
    end.
Proof. exact meld_nth. Qed.
Print Assumptions C04_meld_nth.

Theorem C04_meld_length : forall app l1 l2,
  List.length (meld app l1 l2) = Nat.max (List.length l1) (List.length l2).
Proof. exact meld_length. Qed.
Print Assumptions C04_meld_length.

(* the append option concatenates *)
Theorem C04_append : forall xs ys, merge_node true (Lst xs) (Lst ys) = Lst (xs ++ ys).
Proof. reflexivity. Qed.
Print Assumptions C04_append.

(* merging with an empty document is the identity, on either side, under either strategy *)
Theorem C04_merge_empty_r : forall app kvs, merge app (Con kvs) (Con []) = Con kvs.
Proof. exact merge_empty_r. Qed.
Print Assumptions C04_merge_empty_r.
Theorem C04_merge_empty_l : forall app kvs, merge app (Con []) (Con kvs) = Con kvs.
Proof. exact merge_empty_l. Qed.
Print Assumptions C04_merge_empty_l.

(* position-wise merging a document with itself changes nothing *)
Theorem C04_merge_self_meld : forall a, merge false a a = a.
Proof. exact merge_self_meld. Qed.
Print Assumptions C04_merge_self_meld.

(* the result is again a well-formed document *)
Theorem C04_merge_wf : forall app a b, wf a = true -> wf b = true -> wf (merge app a b) = true.
Proof. exact merge_wf. Qed.
Print Assumptions C04_merge_wf.

(* "Merging never modifies A or B" is true by construction of a pure function; for the Go code it
   is decided by before/after snapshots on every generated pair (correspondence). *)

(* non-vacuity, incl. a counterexample to associativity with nulls (nobody should rely on it) *)
Example C04_ex :
  let a := Con [("k"%string, Lst [Leaf (SInt 1); Con [("x"%string, null)]]); ("z"%string, Leaf (SInt 0))] in
  let b := Con [("k"%string, Lst [null; Con [("x"%string, Leaf (SInt 2))]; Leaf (SInt 3)]); ("y"%string, null)] in
  merge false a b =
    Con [("k"%string, Lst [Leaf (SInt 1); Con [("x"%string, Leaf (SInt 2))]; Leaf (SInt 3)]);
         ("y"%string, null); ("z"%string, Leaf (SInt 0))]
  /\ wf a = true /\ wf b = true.
Proof. vm_compute. repeat split; reflexivity. Qed.

(* ---------- the ORDER in which layers are folded is part of the contract: merge is not associative once three operands
   disagree about the kind of one member (a mapping, a scalar, a mapping: folded from the left the scalar wipes the first
   mapping; grouped to the right the two mappings meet).  Merged() of an overlay is the LEFT fold (C06); a regrouping
   "because merge is associative" is refuted here, for both list strategies. *)
Theorem C04_merge_not_associative : forall app,
  exists a b c, wf a = true /\ wf b = true /\ wf c = true /\
    merge app (merge app a b) c <> merge app a (merge app b c).
Proof.
  intros app.
  exists (Con [("k"%string, Con [("m1"%string, Leaf (SInt 1))])]),
         (Con [("k"%string, Leaf (SStr "scalar"))]),
         (Con [("k"%string, Con [("m3"%string, Leaf (SInt 3))])]).
  destruct app; vm_compute; repeat split; discriminate.
Qed.
Print Assumptions C04_merge_not_associative.
(* ... while the left fold over five layers is what merge_all computes, one layer at a time *)
Theorem C04_merge_all_is_left_fold : forall app l1 l2 l3 l4 l5,
  merge_all app [l1; l2; l3; l4; l5] =
  merge app (merge app (merge app (merge app (merge app (Con []) l1) l2) l3) l4) l5.
Proof. reflexivity. Qed.
Print Assumptions C04_merge_all_is_left_fold.
Theorem C04_merge_all_snoc : forall app ls l, merge_all app (ls ++ [l]) = merge app (merge_all app ls) l.
Proof. intros app ls l. unfold merge_all. now rewrite fold_left_app. Qed.
Print Assumptions C04_merge_all_snoc.
