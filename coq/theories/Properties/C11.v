(* Properties/C11.v — Placeholder resolution: substitution, defaults, termination, true cycles only. *)
From Coq Require Import List Arith Bool.
From YT Require Import Model.Resolver Proofs.ResolverProofs Proofs.ResolverTermProofs.
Import ListNotations.

(* Resolve(s) == s when s has no prefix; text outside placeholders is never altered. *)
Theorem C11_resolve_text : forall tbl f seen s, forallb no_delim s = true -> resolve tbl (S f) seen s = ROk s.
Proof. exact resolve_text. Qed.
Print Assumptions C11_resolve_text.

(* An answer (a string, or a cycle report) never depends on how much fuel was available. *)
Theorem C11_resolve_fuel_mono : forall tbl f g seen s r,
  f <= g -> resolve tbl f seen s = r -> r <> ROut -> resolve tbl g seen s = r.
Proof. exact resolve_mono_le. Qed.
Print Assumptions C11_resolve_fuel_mono.

(* Resolve(s1 ++ s2) == Resolve(s1) ++ Resolve(s2) for delimiter-balanced s1 (additive fuel): in
   particular a second occurrence of a placeholder is NOT a cycle.  (Refuted on the pinned tree.) *)
Theorem C11_resolve_app : forall tbl f seen s1 r1 k, balanced k s1 = true ->
  resolve tbl f seen s1 = ROk r1 ->
  forall g s2 r2, resolve tbl g seen s2 = ROk r2 ->
  resolve tbl (f + g) seen (s1 ++ s2) = ROk (r1 ++ r2).
Proof. exact resolve_app. Qed.
Print Assumptions C11_resolve_app.

(* A known key is replaced by its value; an unknown key with a separator yields the default (text
   after the FIRST separator); an unknown key without one stays verbatim; an unterminated
   placeholder stays verbatim with everything after it. *)
Theorem C11_known_substituted : forall tbl f before key rest v,
  forallb no_delim before = true -> forallb no_delim key = true -> forallb no_delim rest = true ->
  forallb no_delim v = true -> tbl key = Some v ->
  resolve tbl (S (S f)) [] (before ++ TPre :: key ++ TSuf :: rest) = ROk (before ++ v ++ rest).
Proof. exact known_substituted. Qed.
Print Assumptions C11_known_substituted.

Theorem C11_default_used : forall tbl f before key def rest,
  forallb no_delim before = true -> forallb is_chr key = true -> forallb no_delim def = true ->
  forallb no_delim rest = true ->
  tbl (key ++ TSep :: def) = None -> tbl key = None ->
  resolve tbl (S (S f)) [] (before ++ TPre :: (key ++ TSep :: def) ++ TSuf :: rest) = ROk (before ++ def ++ rest).
Proof. exact default_used. Qed.
Print Assumptions C11_default_used.

Theorem C11_unknown_verbatim : forall tbl f before key rest,
  forallb no_delim before = true -> forallb is_chr key = true -> forallb no_delim rest = true ->
  tbl key = None ->
  resolve tbl (S (S f)) [] (before ++ TPre :: key ++ TSuf :: rest) = ROk (before ++ TPre :: key ++ TSuf :: rest).
Proof. exact unknown_verbatim. Qed.
Print Assumptions C11_unknown_verbatim.

Theorem C11_unterminated_verbatim : forall tbl f seen s before after,
  split_pre s = Some (before, after) -> find_end 0 after = None -> resolve tbl (S f) seen s = ROk s.
Proof. exact unterminated_verbatim. Qed.
Print Assumptions C11_unterminated_verbatim.

(* A placeholder whose expansion reaches itself is reported as a cycle ... *)
Theorem C11_self_reference_cycles : forall tbl f key,
  forallb no_delim key = true -> tbl key = Some (TPre :: key ++ [TSuf]) ->
  resolve tbl (S (S (S f))) [] (TPre :: key ++ [TSuf]) = RCycle key.
Proof. exact self_reference_cycles. Qed.
Print Assumptions C11_self_reference_cycles.

(* ... and resolution terminates with a string — never a cycle, never out of fuel, with an explicit
   fuel bound (one more than the number of prefix tokens of the input) — for every FLAT table (no
   value mentions a prefix; values may hold stray separators and suffixes) and EVERY input: nesting,
   repetition, defaults, defaults taken from resolved text and resolved again, unknown keys,
   unterminated tails.  Measure: the number of prefix tokens; every body on the visited stack holds at
   least as many as the text being scanned, so no body is met twice.
   PARTIAL: termination for tables whose values themselves contain placeholders (acyclic or cyclic,
   possibly unbalanced, so that resolved text can spell new placeholders) is not proved; it is
   searched for on generated tables by the correspondence (Go-side timeout per call) — see DESIGN.md C11. *)
Theorem C11_terminates_partial : forall tbl, flat_tbl tbl -> forall s,
  exists r, resolve_top tbl (S (cpre s)) s = ROk r.
Proof. exact flat_terminates_top. Qed.
Print Assumptions C11_terminates_partial.

(* the same under any visited stack whose bodies hold at least as many prefixes; the result holds no
   more prefixes than the input *)
Theorem C11_terminates_flat_inner : forall tbl, flat_tbl tbl -> forall n s seen,
  cpre s <= n -> Forall (fun b => cpre s <= cpre b) seen ->
  exists r, resolve tbl (S n) seen s = ROk r /\ cpre r <= cpre s.
Proof. exact flat_terminates. Qed.
Print Assumptions C11_terminates_flat_inner.

(* ... and for ANY table — values may mention placeholders, cyclically or not — when placeholders are
   not nested (no placeholder body, in the input or in a value, holds a prefix; defaults are then
   plain text): resolution ends with a string or with a cycle report, never out of fuel.  U is the
   finite set of bodies that can be met (those of the input and of the values), L bounds the length
   of the values; bound: |U| * (L+1) + |input| + 1.  Every expansion of a value puts one more body of U
   on the visited stack; meeting one that is already there is the reported cycle. *)
Theorem C11_terminates_unnested_partial : forall tbl U L, unnested_tbl tbl U L ->
  forall s, scan_ok U s -> length s <= L ->
  resolve_top tbl (S (length U * S L + length s)) s <> ROut.
Proof. exact unnested_terminates_top. Qed.
Print Assumptions C11_terminates_unnested_partial.

(* non-vacuity of the hypotheses, on a cyclic table: a -> ${b}, b -> x${a:d}, and the cycle is reported *)
Example C11_unnested_ex :
  let a := [TChr 1] in let b := [TChr 2] in
  let tbl := tbl_of [(a, [TPre; TChr 2; TSuf]); (b, [TChr 9; TPre; TChr 1; TSep; TChr 7; TSuf])] in
  let U := [a; b; [TChr 1; TSep; TChr 7]] in
  let s := [TChr 0; TPre; TChr 1; TSuf] in
  scan_ok U s /\ length s <= 6 /\
  scan_ok U [TPre; TChr 2; TSuf] /\ scan_ok U [TChr 9; TPre; TChr 1; TSep; TChr 7; TSuf] /\
  resolve_top tbl (S (length U * 7 + length s)) s = RCycle b.
Proof.
  cbv zeta. split; [|split; [|split; [|split]]].
  - eapply so_ph; [reflexivity|reflexivity|now left|reflexivity|]. apply so_none. reflexivity.
  - simpl. repeat constructor.
  - eapply so_ph; [reflexivity|reflexivity|right; now left|reflexivity|]. apply so_none. reflexivity.
  - eapply so_ph; [reflexivity|reflexivity|right; right; now left|reflexivity|]. apply so_none. reflexivity.
  - vm_compute. reflexivity.
Qed.

(* the earlier, weaker form: pure-text values, inputs without separators, bound by length *)
Theorem C11_terminates_text : forall tbl, chars_tbl tbl -> forall s, nosep s = true ->
  exists r, resolve_top tbl (S (length s)) s = ROk r.
Proof. exact chars_terminates_top. Qed.
Print Assumptions C11_terminates_text.

(* non-vacuity: ${a}-${a}, a nested key, a default containing a placeholder *)
Definition C11_tbl := tbl_of [([TChr 1], [TChr 9]); ([TChr 2], [TPre; TChr 1; TSuf; TChr 7])].
Example C11_ex :
  resolve_top C11_tbl 10 [TPre; TChr 1; TSuf; TChr 0; TPre; TChr 1; TSuf] = ROk [TChr 9; TChr 0; TChr 9] /\
  resolve_top C11_tbl 10 [TPre; TChr 5; TSep; TPre; TChr 2; TSuf; TSuf] = ROk [TChr 9; TChr 7] /\
  balanced 10 [TPre; TChr 1; TSuf; TChr 0] = true.
Proof. vm_compute. repeat split; reflexivity. Qed.
