(* Properties/C11.v — Placeholder resolution: substitution, defaults, termination, true cycles only. *)
From Coq Require Import List Arith Bool.
From YT Require Import Model.Resolver Proofs.ResolverProofs Proofs.ResolverTermProofs Proofs.ResolverSeenProofs Proofs.ResolverNestedProofs Proofs.ResolverBalancedProofs.
Import ListNotations.

(* Resolve(s) == s when s has no prefix; text outside placeholders is never altered. *)
Theorem C11_resolve_text : forall tbl f seen s, forallb no_delim s = true -> resolve tbl (S f) seen s = ROk s.
Proof. exact resolve_text. Qed.
Print Assumptions C11_resolve_text.

(* An answer (a string, or a cycle report) never depends on how much fuel was available. *)
Theorem C11_resolve_fuel_mono : forall tbl f g seen s r,
  f <= g -> resolve tbl f seen s = r -> r <> ROut -> resolve tbl g seen s = r.
Proof. exact resolve_mono_le. Qed.
Print Assumptions C11_resolve_fuel_mono.

(* Resolve(s1 ++ s2) == Resolve(s1) ++ Resolve(s2) for delimiter-balanced s1 (additive fuel): in
   particular a second occurrence of a placeholder is NOT a cycle.  (Refuted on the pinned tree.) *)
Theorem C11_resolve_app : forall tbl f seen s1 r1 k, balanced k s1 = true ->
  resolve tbl f seen s1 = ROk r1 ->
  forall g s2 r2, resolve tbl g seen s2 = ROk r2 ->
  resolve tbl (f + g) seen (s1 ++ s2) = ROk (r1 ++ r2).
Proof. exact resolve_app. Qed.
Print Assumptions C11_resolve_app.

(* A known key is replaced by its value; an unknown key with a separator yields the default (text
   after the FIRST separator); an unknown key without one stays verbatim; an unterminated
   placeholder stays verbatim with everything after it. *)
Theorem C11_known_substituted : forall tbl f before key rest v,
  forallb no_delim before = true -> forallb no_delim key = true -> forallb no_delim rest = true ->
  forallb no_delim v = true -> tbl key = Some v ->
  resolve tbl (S (S f)) [] (before ++ TPre :: key ++ TSuf :: rest) = ROk (before ++ v ++ rest).
Proof. exact known_substituted. Qed.
Print Assumptions C11_known_substituted.

Theorem C11_default_used : forall tbl f before key def rest,
  forallb no_delim before = true -> forallb is_chr key = true -> forallb no_delim def = true ->
  forallb no_delim rest = true ->
  tbl (key ++ TSep :: def) = None -> tbl key = None ->
  resolve tbl (S (S f)) [] (before ++ TPre :: (key ++ TSep :: def) ++ TSuf :: rest) = ROk (before ++ def ++ rest).
Proof. exact default_used. Qed.
Print Assumptions C11_default_used.

Theorem C11_unknown_verbatim : forall tbl f before key rest,
  forallb no_delim before = true -> forallb is_chr key = true -> forallb no_delim rest = true ->
  tbl key = None ->
  resolve tbl (S (S f)) [] (before ++ TPre :: key ++ TSuf :: rest) = ROk (before ++ TPre :: key ++ TSuf :: rest).
Proof. exact unknown_verbatim. Qed.
Print Assumptions C11_unknown_verbatim.

Theorem C11_unterminated_verbatim : forall tbl f seen s before after,
  split_pre s = Some (before, after) -> find_end 0 after = None -> resolve tbl (S f) seen s = ROk s.
Proof. exact unterminated_verbatim. Qed.
Print Assumptions C11_unterminated_verbatim.

(* A placeholder whose expansion reaches itself is reported as a cycle ... *)
Theorem C11_self_reference_cycles : forall tbl f key,
  forallb no_delim key = true -> tbl key = Some (TPre :: key ++ [TSuf]) ->
  resolve tbl (S (S (S f))) [] (TPre :: key ++ [TSuf]) = RCycle key.
Proof. exact self_reference_cycles. Qed.
Print Assumptions C11_self_reference_cycles.

(* ... and resolution terminates with a string — never a cycle, never out of fuel, with an explicit
   fuel bound (one more than the number of prefix tokens of the input) — for every FLAT table (no
   value mentions a prefix; values may hold stray separators and suffixes) and EVERY input: nesting,
   repetition, defaults, defaults taken from resolved text and resolved again, unknown keys,
   unterminated tails.  Measure: the number of prefix tokens; every body on the visited stack holds at
   least as many as the text being scanned, so no body is met twice.
   PARTIAL: this theorem speaks of flat tables; tables whose values contain placeholders are covered by
   C11_terminates_unnested_partial (no nesting, plain defaults) and C11_terminates_nested_partial (nesting, no
   defaults) and C11_terminates_balanced (everything at once, for texts in which every placeholder is closed) below;
   what remains searched, not proved (Go-side timeout per call), is text with UNCLOSED prefixes over tables that are
   not flat — see DESIGN.md C11. *)
Theorem C11_terminates_partial : forall tbl, flat_tbl tbl -> forall s,
  exists r, resolve_top tbl (S (cpre s)) s = ROk r.
Proof. exact flat_terminates_top. Qed.
Print Assumptions C11_terminates_partial.

(* the same under any visited stack whose bodies hold at least as many prefixes; the result holds no
   more prefixes than the input *)
Theorem C11_terminates_flat_inner : forall tbl, flat_tbl tbl -> forall n s seen,
  cpre s <= n -> Forall (fun b => cpre s <= cpre b) seen ->
  exists r, resolve tbl (S n) seen s = ROk r /\ cpre r <= cpre s.
Proof. exact flat_terminates. Qed.
Print Assumptions C11_terminates_flat_inner.

(* ... and for ANY table — values may mention placeholders, cyclically or not — when placeholders are
   not nested (no placeholder body, in the input or in a value, holds a prefix; defaults are then
   plain text): resolution ends with a string or with a cycle report, never out of fuel.  U is the
   finite set of bodies that can be met (those of the input and of the values), L bounds the length
   of the values; bound: |U| * (L+1) + |input| + 1.  Every expansion of a value puts one more body of U
   on the visited stack; meeting one that is already there is the reported cycle. *)
Theorem C11_terminates_unnested_partial : forall tbl U L, unnested_tbl tbl U L ->
  forall s, scan_ok U s -> length s <= L ->
  resolve_top tbl (S (length U * S L + length s)) s <> ROut.
Proof. exact unnested_terminates_top. Qed.
Print Assumptions C11_terminates_unnested_partial.

(* non-vacuity of the hypotheses, on a cyclic table: a -> ${b}, b -> x${a:d}, and the cycle is reported *)
Example C11_unnested_ex :
  let a := [TChr 1] in let b := [TChr 2] in
  let tbl := tbl_of [(a, [TPre; TChr 2; TSuf]); (b, [TChr 9; TPre; TChr 1; TSep; TChr 7; TSuf])] in
  let U := [a; b; [TChr 1; TSep; TChr 7]] in
  let s := [TChr 0; TPre; TChr 1; TSuf] in
  scan_ok U s /\ length s <= 6 /\
  scan_ok U [TPre; TChr 2; TSuf] /\ scan_ok U [TChr 9; TPre; TChr 1; TSep; TChr 7; TSuf] /\
  resolve_top tbl (S (length U * 7 + length s)) s = RCycle b.
Proof.
  cbv zeta. split; [|split; [|split; [|split]]].
  - eapply so_ph; [reflexivity|reflexivity|now left|reflexivity|]. apply so_none. reflexivity.
  - simpl. repeat constructor.
  - eapply so_ph; [reflexivity|reflexivity|right; now left|reflexivity|]. apply so_none. reflexivity.
  - eapply so_ph; [reflexivity|reflexivity|right; right; now left|reflexivity|]. apply so_none. reflexivity.
  - vm_compute. reflexivity.
Qed.

(* ... and for ANY table with placeholders NESTED to any depth — keys computed by placeholders, in the input and in the
   values, recursively or cyclically — when the text holds no default separator: every body that can be met is a piece of
   the input or of a value (U lists them, nested ones included; resolved text is only used as a key, and a key without a
   separator is looked up as it is), so the same measure works: string or cycle report, never out of fuel; bound
   |U| * (L+1) + |input| + 1. *)
Theorem C11_terminates_nested_partial : forall tbl U L, nested_tbl tbl U L ->
  forall s, nscan U s -> nosep s = true -> length s <= L ->
  resolve_top tbl (S (length U * S L + length s)) s <> ROut.
Proof. exact nested_terminates_top. Qed.
Print Assumptions C11_terminates_nested_partial.

(* non-vacuity, on a cyclic table with a computed key: a -> ${${s}}, s -> a; ${a} expands to ${${s}} = ${a}: reported *)
Example C11_nested_ex :
  let a := [TChr 1] in let s := [TChr 2] in
  let va := [TPre; TPre; TChr 2; TSuf; TSuf] in
  let tbl := tbl_of [(a, va); (s, a)] in
  let U := [a; [TPre; TChr 2; TSuf]; s] in
  let inp := [TChr 0; TPre; TChr 1; TSuf] in
  nscan U inp /\ nscan U va /\ nscan U a /\ nosep inp = true /\
  resolve_top tbl (S (length U * 6 + length inp)) inp = RCycle [TPre; TChr 2; TSuf] /\
  (* with s -> c, c -> x the computed key c is found; with s -> c alone the placeholder stays as it was written *)
  resolve_top (tbl_of [(a, va); (s, [TChr 3]); ([TChr 3], [TChr 9])]) (S (length U * 6 + length inp)) inp = ROk [TChr 0; TChr 9] /\
  resolve_top (tbl_of [(a, va); (s, [TChr 3])]) (S (length U * 6 + length inp)) inp = ROk [TChr 0; TPre; TPre; TChr 2; TSuf; TSuf].
Proof.
  cbv zeta. split; [|split; [|split; [|split; [|split; [|split]]]]].
  - eapply ns_ph; [reflexivity|reflexivity|now left| |]; apply ns_none; reflexivity.
  - eapply ns_ph; [reflexivity|reflexivity|right; now left| |apply ns_none; reflexivity].
    eapply ns_ph; [reflexivity|reflexivity|right; right; now left| |]; apply ns_none; reflexivity.
  - apply ns_none. reflexivity.
  - reflexivity.
  - vm_compute. reflexivity.
  - vm_compute. reflexivity.
  - vm_compute. reflexivity.
Qed.

(* ... and finally all three at once — nested placeholders, defaults (whose text is resolved AGAIN) and recursive or cyclic
   tables — for every table and every input in which each placeholder is closed ("balanced" texts: every prefix has its
   suffix, no suffix stands alone; U lists the bodies of the input and of the values, nested ones included).  Resolution
   ends with a string or a cycle report; there is always enough fuel.  The invariant [safe] describes resolved text and
   its suffixes: the only prefixes in it belong to placeholders copied verbatim from the original texts (unknown key, no
   default), so every body met — also while a default taken from resolved text is resolved again — is in U.
   What is left outside every termination theorem: texts with an UNCLOSED prefix (in the input, or a value such as "${"
   that can pair up with a "}" from elsewhere after substitution) over tables that are not flat. *)
Theorem C11_terminates_balanced : forall tbl U, safe_tbl tbl U ->
  forall s, safe U s -> exists f, resolve_top tbl f s <> ROut.
Proof. exact balanced_terminates_top. Qed.
Print Assumptions C11_terminates_balanced.

(* resolved text keeps the shape (so does the default cut out of it) *)
Theorem C11_resolved_text_is_safe : forall tbl U, safe_tbl tbl U ->
  forall f seen s r, resolve tbl f seen s = ROk r -> safe U s -> safe U r.
Proof. exact resolve_safe. Qed.
Print Assumptions C11_resolved_text_is_safe.

(* non-vacuity: a cycle that runs through a DEFAULT and a nested placeholder (a -> ${u:${a}}), and a default that is a
   placeholder resolved again (${u:${v}} with v -> x) *)
Example C11_balanced_ex :
  let a := [TChr 1] in let B := [TChr 5; TSep; TPre; TChr 1; TSuf] in
  let va := TPre :: B ++ [TSuf] in
  let tbl := tbl_of [(a, va); ([TChr 2], [TChr 9])] in
  let U := [a; B; [TChr 2]; [TChr 5; TSep; TPre; TChr 2; TSuf]] in
  safe_tbl tbl U /\ safe U [TPre; TChr 1; TSuf] /\
  resolve_top tbl 10 [TPre; TChr 1; TSuf] = RCycle a /\
  safe U [TPre; TChr 5; TSep; TPre; TChr 2; TSuf; TSuf] /\
  resolve_top tbl 10 [TPre; TChr 5; TSep; TPre; TChr 2; TSuf; TSuf] = ROk [TChr 9].
Proof.
  cbv zeta.
  assert (Ba : bal [[TChr 1]; [TChr 5; TSep; TPre; TChr 1; TSuf]; [TChr 2]; [TChr 5; TSep; TPre; TChr 2; TSuf]] [TChr 1])
    by (apply bal_tok; [discriminate|discriminate|apply bal_nil]).
  assert (B2 : bal [[TChr 1]; [TChr 5; TSep; TPre; TChr 1; TSuf]; [TChr 2]; [TChr 5; TSep; TPre; TChr 2; TSuf]] [TChr 2])
    by (apply bal_tok; [discriminate|discriminate|apply bal_nil]).
  assert (BB : bal [[TChr 1]; [TChr 5; TSep; TPre; TChr 1; TSuf]; [TChr 2]; [TChr 5; TSep; TPre; TChr 2; TSuf]]
                   [TChr 5; TSep; TPre; TChr 1; TSuf]).
  { apply bal_tok; [discriminate|discriminate|]. apply bal_tok; [discriminate|discriminate|].
    apply (bal_ph _ [TChr 1] []); [now left|exact Ba|apply bal_nil]. }
  assert (BB2 : bal [[TChr 1]; [TChr 5; TSep; TPre; TChr 1; TSuf]; [TChr 2]; [TChr 5; TSep; TPre; TChr 2; TSuf]]
                    [TChr 5; TSep; TPre; TChr 2; TSuf]).
  { apply bal_tok; [discriminate|discriminate|]. apply bal_tok; [discriminate|discriminate|].
    apply (bal_ph _ [TChr 2] []); [right; right; now left|exact B2|apply bal_nil]. }
  split; [|split; [|split; [|split]]].
  - intros k v H. simpl in H.
    destruct (toks_eqb k [TChr 1]); [injection H as <-; apply (safe_ph _ [TChr 5; TSep; TPre; TChr 1; TSuf] []); [right; now left|exact BB|apply safe_nil]|].
    destruct (toks_eqb k [TChr 2]); [injection H as <-; apply safe_tok; [discriminate|apply safe_nil]|discriminate].
  - apply (safe_ph _ [TChr 1] []); [now left|exact Ba|apply safe_nil].
  - vm_compute. reflexivity.
  - apply (safe_ph _ [TChr 5; TSep; TPre; TChr 2; TSuf] []); [right; right; right; now left|exact BB2|apply safe_nil].
  - vm_compute. reflexivity.
Qed.

(* The stack of placeholders being expanded matters through the cycle check ONLY ("true cycles only"): under a stack with
   more bodies on it an answer stays what it was or becomes a cycle report — never another string —, with the same fuel;
   so whatever terminates under one stack terminates under every larger one, and a string obtained at top level is the
   string obtained inside any expansion, unless a cycle is reported there.  For EVERY table (recursive, cyclic, nested). *)
Theorem C11_stack_only_adds_cycles : forall tbl f seen seen' s r,
  resolve tbl f seen s = r -> r <> ROut -> sub_seen seen seen' ->
  resolve tbl f seen' s = r \/ exists b, resolve tbl f seen' s = RCycle b.
Proof. exact seen_mono. Qed.
Print Assumptions C11_stack_only_adds_cycles.
Theorem C11_top_answer_under_any_stack : forall tbl f s r seen,
  resolve tbl f [] s = ROk r -> resolve tbl f seen s = ROk r \/ exists b, resolve tbl f seen s = RCycle b.
Proof. exact top_answer_under_any_stack. Qed.
Print Assumptions C11_top_answer_under_any_stack.
Theorem C11_terminates_under_larger_stack : forall tbl f seen seen' s,
  resolve tbl f seen s <> ROut -> sub_seen seen seen' -> resolve tbl f seen' s <> ROut.
Proof. exact terminates_under_larger_stack. Qed.
Print Assumptions C11_terminates_under_larger_stack.

(* the earlier, weaker form: pure-text values, inputs without separators, bound by length *)
Theorem C11_terminates_text : forall tbl, chars_tbl tbl -> forall s, nosep s = true ->
  exists r, resolve_top tbl (S (length s)) s = ROk r.
Proof. exact chars_terminates_top. Qed.
Print Assumptions C11_terminates_text.

(* non-vacuity: ${a}-${a}, a nested key, a default containing a placeholder *)
Definition C11_tbl := tbl_of [([TChr 1], [TChr 9]); ([TChr 2], [TPre; TChr 1; TSuf; TChr 7])].
Example C11_ex :
  resolve_top C11_tbl 10 [TPre; TChr 1; TSuf; TChr 0; TPre; TChr 1; TSuf] = ROk [TChr 9; TChr 0; TChr 9] /\
  resolve_top C11_tbl 10 [TPre; TChr 5; TSep; TPre; TChr 2; TSuf; TSuf] = ROk [TChr 9; TChr 7] /\
  balanced 10 [TPre; TChr 1; TSuf; TChr 0] = true.
Proof. vm_compute. repeat split; reflexivity. Qed.
