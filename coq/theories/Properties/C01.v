(* Properties/C01.v — Documents pass through the DOM unchanged (lossless load/convert/serialise). *)
From Coq Require Import List String Bool ZArith Permutation.
From YT Require Import Base.Str Base.KV Model.Doc Model.Codec Proofs.CodecProofs.
Import ListNotations.
Local Open Scope list_scope.

(* AsMap(FromMap(m)) == m for every generic value: string-keyed maps, lists, scalars of every kind,
   nulls at any position (incl. inside lists), values of other kinds; any nesting, empty maps and
   lists.  [gwf] only says that a Go map has distinct keys (listed in increasing order). *)
Theorem C01_as_map_from_map : forall m, gwf m = true -> as_map (from_map m) = m.
Proof. exact as_map_from_map. Qed.
Print Assumptions C01_as_map_from_map.

Theorem C01_from_map_as_map : forall d, wf d = true -> from_map (as_map d) = d.
Proof. exact from_map_as_map. Qed.
Print Assumptions C01_from_map_as_map.

Theorem C01_from_map_wf : forall m, gwf m = true -> wf (from_map m) = true.
Proof. exact from_map_wf. Qed.
Print Assumptions C01_from_map_wf.

(* the result does not depend on the order in which the Go map is iterated *)
Theorem C01_from_map_order_independent : forall kvs kvs',
  NoDup (kv_keys kvs) -> Permutation kvs kvs' -> from_map (GMap kvs) = from_map (GMap kvs').
Proof. exact from_map_order_independent. Qed.
Print Assumptions C01_from_map_order_independent.

(* Loading text with ANY decoder either fails with the decoder's error or yields exactly the DOM of
   the value the decoder produced, whose AsMap is that value. *)
Theorem C01_from_reader_err : forall (text : Type) (dec : text -> res gval) t e,
  dec t = RErr e -> from_reader text dec t = RErr e.
Proof. exact from_reader_err. Qed.
Print Assumptions C01_from_reader_err.

Theorem C01_from_reader_as_map : forall (text : Type) (dec : text -> res gval) t m,
  dec t = ROk m -> gwf m = true -> exists d, from_reader text dec t = ROk d /\ as_map d = m.
Proof. exact from_reader_as_map. Qed.
Print Assumptions C01_from_reader_as_map.

(* Serialising returns the encoder's verdict on AsMap(d) unchanged: a write failure surfaces, and
   two serialisations of the same document feed the encoder the same value. *)
Theorem C01_serialize_spec : forall (text : Type) (enc : gval -> res text) d,
  serialize text enc d = enc (as_map d).
Proof. exact serialize_spec. Qed.
Print Assumptions C01_serialize_spec.

Theorem C01_serialize_err : forall (text : Type) (enc : gval -> res text) d e,
  enc (as_map d) = RErr e -> serialize text enc d = RErr e.
Proof. exact serialize_err. Qed.
Print Assumptions C01_serialize_err.

(* non-vacuity; the first value is the witness that refuted the statement on the pinned tree *)
Example C01_ex :
  let m := GMap [("a"%string, GSlice [GInt 1; GNil; GSlice []; GMap []; GOther "time"%string]);
                 ("b"%string, GNil)] in
  gwf m = true /\ as_map (from_map m) = m.
Proof. vm_compute. split; reflexivity. Qed.
