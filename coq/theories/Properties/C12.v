(* Properties/C12.v — Pipeline control flow: operations then ordered children, conditions, fail-fast. *)
From Coq Require Import List String Bool ZArith Arith Permutation.
From YT Require Import Base.Str Base.KV Model.Doc Model.Pipeline Proofs.PipelineProofs.
Import ListNotations.
Local Open Scope list_scope.

(* An action runs its own operations in the fixed declared operation order (whatever order they
   were written in), then its children in ascending order value: the interpreter executes
   [sort_ops ops] and [sort_children children], which are sorted permutations. *)
Theorem C12_ops_in_declared_order : forall l, sorted_by op_le (sort_ops l) /\ Permutation (sort_ops l) l.
Proof. intros l. split; [apply sort_ops_sorted|apply sort_ops_perm]. Qed.
Print Assumptions C12_ops_in_declared_order.

Theorem C12_children_ascending : forall l, sorted_by act_le (sort_children l) /\ Permutation (sort_children l) l.
Proof. intros l. split; [apply sort_children_sorted|apply sort_children_perm]. Qed.
Print Assumptions C12_children_ascending.

(* An action whose condition evaluates to false runs neither its operations nor its children and
   changes nothing: data and registry are untouched, the listener sees exactly before/after(ok). *)
Theorem C12_when_false_noop : forall f name order when ops children st,
  eval_cond when (st_data st) = Some false ->
  exec (S f) (Act name order when ops children) st =
    (mkSt (st_data st) (st_reg st) (st_ev st ++ [EB (LAct name); EA (LAct name) false]), SOk).
Proof. exact when_false_noop. Qed.
Print Assumptions C12_when_false_noop.

(* Listener notifications are properly nested and balanced, for every action tree, every data,
   every amount of fuel (incl. forEach / loop / call / define bodies): the appended event word is
   neutral for the stack of open OnBefore labels, i.e. every OnBefore(a) is closed by exactly one
   OnAfter(a, err) and closings match the innermost opening. *)
Theorem C12_events_well_nested : forall fuel a st st' r,
  exec fuel a st = (st', r) -> exists w, st_ev st' = st_ev st ++ w /\ neutral w.
Proof. exact events_well_nested. Qed.
Print Assumptions C12_events_well_nested.

(* Fail-fast: when the run returns an error, the log is a failure-free prefix followed only by
   failing after-notifications — nothing executes after the first failure and every enclosing
   action's after-notification carries the error; the executed action's own after-notification is
   the last event. A successful run contains no failing notification at all. *)
Theorem C12_fail_fast : forall fuel a st st',
  exec fuel a st = (st', SErr) ->
  exists pre post, st_ev st' = st_ev st ++ pre ++ post /\ no_fail pre /\ forallb is_fail post = true.
Proof. exact fail_fast. Qed.
Print Assumptions C12_fail_fast.

Theorem C12_exec_closes : forall fuel a st st' r,
  exec (S fuel) a st = (st', r) ->
  exists pre, st_ev st' = pre ++ [EA (LAct (act_name a)) (match r with SOk => false | _ => true end)].
Proof. exact exec_closes. Qed.
Print Assumptions C12_exec_closes.

Theorem C12_success_has_no_failure : forall fuel a st st',
  exec fuel a st = (st', SOk) -> exists w, st_ev st' = st_ev st ++ w /\ no_fail w.
Proof. exact success_has_no_failure. Qed.
Print Assumptions C12_success_has_no_failure.

(* a `when` given as literal text is true (resp. false) exactly for strconv.ParseBool's six
   spellings of true (resp. false), after trimming blanks; anything else is an error *)
Theorem C12_when_text_true : forall s data,
  eval_cond (CText s) data = Some true <-> In (trim_space s) ["1"; "t"; "T"; "TRUE"; "true"; "True"]%string.
Proof. intros s data. exact (parse_bool_true (trim_space s)). Qed.
Print Assumptions C12_when_text_true.
Theorem C12_when_text_false : forall s data,
  eval_cond (CText s) data = Some false <-> In (trim_space s) ["0"; "f"; "F"; "FALSE"; "false"; "False"]%string.
Proof. intros s data. exact (parse_bool_false (trim_space s)). Qed.
Print Assumptions C12_when_text_false.

(* non-vacuity: operations listed out of order, children with negative order, an abort two levels down *)
Example C12_ex :
  let leaf n o ops := Act n o CNone ops [] in
  let a := Act "r" 0%Z CNone [OpLog [PLit "hi"]; OpSet SUnset "" (Some [("k"%string, Codec.GInt 1%Z)])]
             [leaf "late" 5%Z [OpTrace "late"]; leaf "early" (-2)%Z [OpAbort [PLit "stop"]; OpTrace "early"]] in
  let '(st, r) := exec 10 a (init_state []) in
  r = SErr /\ kv_get "k" (st_data st) = Some (Leaf (SInt 1%Z)) /\
  filter (fun e => match e with ETrace _ | ELog _ => true | _ => false end) (st_ev st) = [ELog "hi"; ETrace "early"].
Proof. vm_compute. repeat split; reflexivity. Qed.
