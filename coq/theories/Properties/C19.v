(* Properties/C19.v — Analytics reports are exact, sorted and independent of iteration order. *)
From Coq Require Import List String Bool ZArith Arith Permutation.
From YT Require Import Base.Str Base.KV Base.Sort Model.Doc Model.Dom Model.Merge Model.Overlay Model.Analytics
  Model.AnalyticsEvents Proofs.AnalyticsProofs Proofs.AnalyticsEventsProofs.
Import ListNotations.
Local Open Scope list_scope.

(* The implementation visits the flattened keys of the merged source in map-iteration order; the
   report is a function of the key SET: *)
Theorem C19_dep_resolve_of_keys : forall keyf src refs,
  dep_resolve keyf src refs = dep_of_keys (filter keyf (map fst (flatten (o_merged false src)))) src refs.
Proof. exact dep_resolve_of_keys. Qed.
Print Assumptions C19_dep_resolve_of_keys.

Theorem C19_dep_order_independent : forall ks ks' src refs,
  Permutation ks ks' ->
  all_keys (dep_of_keys ks src refs) = all_keys (dep_of_keys ks' src refs) /\
  orphan_keys (dep_of_keys ks src refs) = orphan_keys (dep_of_keys ks' src refs) /\
  Permutation (dep_map (dep_of_keys ks src refs)) (dep_map (dep_of_keys ks' src refs)).
Proof. exact dep_order_independent. Qed.
Print Assumptions C19_dep_order_independent.

(* AllKeys / OrphanKeys / FailedKeys are sorted *)
Theorem C19_sorted : forall l, sorted (fun s => s) (sort_strings l).
Proof. exact sort_strings_sorted. Qed.
Print Assumptions C19_sorted.

(* orphans are exactly the keys that no value in the source or reference documents mentions *)
Theorem C19_orphans_exact : forall ks src refs k,
  In k (orphan_keys (dep_of_keys ks src refs)) <->
  In k ks /\ flat_map (coords (mentions k)) (src :: refs) = [].
Proof. exact orphans_exact. Qed.
Print Assumptions C19_orphans_exact.

(* every other key is mapped to exactly the locations of the mentioning values, source then references *)
Theorem C19_map_exact : forall ks src refs k cs,
  In (k, cs) (dep_map (dep_of_keys ks src refs)) <->
  In k ks /\ cs = flat_map (coords (mentions k)) (src :: refs) /\ cs <> [].
Proof. exact map_exact. Qed.
Print Assumptions C19_map_exact.

(* AllKeys = OrphanKeys ⊎ keys(Map) *)
Theorem C19_partition : forall ks src refs,
  Permutation (all_keys (dep_of_keys ks src refs))
              (orphan_keys (dep_of_keys ks src refs) ++ map fst (dep_map (dep_of_keys ks src refs))).
Proof. exact partition. Qed.
Print Assumptions C19_partition.

(* the placeholder report lists exactly the keys whose placeholder-bearing value resolution leaves unchanged *)
Theorem C19_failed_exact : forall keyf ov k,
  In k (failed_keys (ph_resolve keyf ov)) <->
  exists v, In (k, v) (flatten (o_merged false ov)) /\ keyf k = true /\
            possibly (la (fmt_scalar v)) = true /\ unresolved (o_merged false ov) (fmt_scalar v) = true.
Proof. exact failed_exact. Qed.
Print Assumptions C19_failed_exact.

(* impact analysis returns for each requested key exactly the locations mentioning it *)
Theorem C19_impact_exact : forall ov keys k cs,
  In (k, cs) (impact ov keys) <-> In k keys /\ cs = coords (mentions k) ov /\ cs <> [].
Proof. exact impact_exact. Qed.
Print Assumptions C19_impact_exact.

(* ---------- the configurable parts of the builders: WithPlaceholderMatcher / PlaceholderMatcher (which values count),
   OnPlaceholderEncountered / OnResolutionFailure (the callbacks, modelled as the list of events they receive) *)

(* the default resolvers are the instances with the default matchers *)
Theorem C19_ph_default_instance : forall keyf ov, ph_resolve keyf ov = ph_resolve_m keyf (fun s => possibly (la s)) ov.
Proof. exact ph_resolve_is_default. Qed.
Print Assumptions C19_ph_default_instance.
Theorem C19_dep_default_instance : forall keyf src refs, dep_resolve keyf src refs = dep_resolve_m mentions keyf src refs.
Proof. exact dep_resolve_is_default. Qed.
Print Assumptions C19_dep_default_instance.

(* FailedKeys under ANY value matcher: the selected keys whose value resolution leaves unchanged *)
Theorem C19_failed_exact_any_matcher : forall keyf matcher ov k,
  In k (failed_keys (ph_resolve_m keyf matcher ov)) <->
  exists v, In (k, v) (flatten (o_merged false ov)) /\ keyf k = true /\
            matcher (fmt_scalar v) = true /\ unresolved (o_merged false ov) (fmt_scalar v) = true.
Proof. exact failed_exact_m. Qed.
Print Assumptions C19_failed_exact_any_matcher.

(* OnPlaceholderEncountered hears of exactly the selected (key, value text) pairs; OnResolutionFailure of exactly those that
   resolution leaves unchanged, with the locations holding that very text, never without the first callback; and the
   report's FailedKeys are the keys of the failure callbacks *)
Theorem C19_seen_exact : forall keyf matcher ov k s,
  In (PhSeen k s) (ph_events keyf matcher ov) <->
  exists v, In (k, v) (flatten (o_merged false ov)) /\ s = fmt_scalar v /\ keyf k = true /\ matcher s = true.
Proof. exact seen_exact. Qed.
Print Assumptions C19_seen_exact.
Theorem C19_failed_event_exact : forall keyf matcher ov k s co,
  In (PhFailed k s co) (ph_events keyf matcher ov) <->
  exists v, In (k, v) (flatten (o_merged false ov)) /\ s = fmt_scalar v /\ keyf k = true /\ matcher s = true /\
            unresolved (o_merged false ov) s = true /\ co = coords (fun x => scalar_eqb x (SStr s)) ov.
Proof. exact failed_event_exact. Qed.
Print Assumptions C19_failed_event_exact.
Theorem C19_failed_after_seen : forall keyf matcher ov k s co,
  In (PhFailed k s co) (ph_events keyf matcher ov) -> In (PhSeen k s) (ph_events keyf matcher ov).
Proof. exact failed_after_seen. Qed.
Print Assumptions C19_failed_after_seen.
Theorem C19_failed_keys_are_failed_events : forall keyf matcher ov k,
  In k (failed_keys (ph_resolve_m keyf matcher ov)) <-> exists s co, In (PhFailed k s co) (ph_events keyf matcher ov).
Proof. exact failed_keys_are_failed_events. Qed.
Print Assumptions C19_failed_keys_are_failed_events.

(* the dependency resolver's callback hears of exactly the non-empty per-document search results, under any mention
   matcher, and Map[k] is their concatenation in document order (source first) *)
Theorem C19_dep_event_exact : forall ment keyf src refs k co,
  In (k, co) (dep_events ment keyf src refs) <->
  In k (filter keyf (map fst (flatten (o_merged false src)))) /\
  exists d, In d (src :: refs) /\ co = coords (ment k) d /\ co <> [].
Proof. exact dep_event_exact. Qed.
Print Assumptions C19_dep_event_exact.
Theorem C19_dep_map_is_events : forall ment keyf src refs k cs,
  In (k, cs) (dep_map (dep_resolve_m ment keyf src refs)) ->
  cs = flat_map snd (filter (fun e => nonempty (snd e)) (map (fun d => (k, coords (ment k) d)) (src :: refs))).
Proof. exact dep_map_is_events. Qed.
Print Assumptions C19_dep_map_is_events.

(* non-vacuity: an "every value counts" matcher makes a plain value a failure (resolution leaves it unchanged) *)
Example C19_events_ex :
  let ov := [("l0"%string, [("a"%string, Leaf (SStr "${b}")); ("b"%string, Leaf (SStr "plain"))])] in
  ph_events (fun _ => true) (vm_eval VAll) ov =
    [PhSeen "a" "${b}"; PhSeen "b" "plain"; PhFailed "b" "plain" [("l0", "b")]]%string /\
  ph_events (fun _ => true) (vm_eval VDefault) ov = [PhSeen "a" "${b}"]%string /\
  dep_events (mm_eval MDefault) (fun _ => true) ov [ov] = [("b", [("l0", "a")]); ("b", [("l0", "a")])]%string.
Proof. vm_compute. repeat split; reflexivity. Qed.

Example C19_ex :
  let ov := [("l0"%string, [("a"%string, Leaf (SStr "${b}-${b}")); ("b"%string, Leaf (SStr "${zz}"));
                            ("c"%string, Leaf (SInt 1))])] in
  dep_resolve (fun _ => true) ov [] =
    mkDep ["a"; "b"; "c"]%string ["a"; "c"]%string [("b"%string, [("l0"%string, "a"%string)])] /\
  failed_keys (ph_resolve (fun _ => true) ov) = ["b"]%string.
Proof. vm_compute. split; reflexivity. Qed.
