(* Properties/C19.v — Analytics reports are exact, sorted and independent of iteration order. *)
From Coq Require Import List String Bool ZArith Arith Permutation.
From YT Require Import Base.Str Base.KV Base.Sort Model.Doc Model.Dom Model.Merge Model.Overlay Model.Analytics
  Proofs.AnalyticsProofs.
Import ListNotations.
Local Open Scope list_scope.

(* The implementation visits the flattened keys of the merged source in map-iteration order; the
   report is a function of the key SET: *)
Theorem C19_dep_resolve_of_keys : forall keyf src refs,
  dep_resolve keyf src refs = dep_of_keys (filter keyf (map fst (flatten (o_merged false src)))) src refs.
Proof. exact dep_resolve_of_keys. Qed.
Print Assumptions C19_dep_resolve_of_keys.

Theorem C19_dep_order_independent : forall ks ks' src refs,
  Permutation ks ks' ->
  all_keys (dep_of_keys ks src refs) = all_keys (dep_of_keys ks' src refs) /\
  orphan_keys (dep_of_keys ks src refs) = orphan_keys (dep_of_keys ks' src refs) /\
  Permutation (dep_map (dep_of_keys ks src refs)) (dep_map (dep_of_keys ks' src refs)).
Proof. exact dep_order_independent. Qed.
Print Assumptions C19_dep_order_independent.

(* AllKeys / OrphanKeys / FailedKeys are sorted *)
Theorem C19_sorted : forall l, sorted (fun s => s) (sort_strings l).
Proof. exact sort_strings_sorted. Qed.
Print Assumptions C19_sorted.

(* orphans are exactly the keys that no value in the source or reference documents mentions *)
Theorem C19_orphans_exact : forall ks src refs k,
  In k (orphan_keys (dep_of_keys ks src refs)) <->
  In k ks /\ flat_map (coords (mentions k)) (src :: refs) = [].
Proof. exact orphans_exact. Qed.
Print Assumptions C19_orphans_exact.

(* every other key is mapped to exactly the locations of the mentioning values, source then references *)
Theorem C19_map_exact : forall ks src refs k cs,
  In (k, cs) (dep_map (dep_of_keys ks src refs)) <->
  In k ks /\ cs = flat_map (coords (mentions k)) (src :: refs) /\ cs <> [].
Proof. exact map_exact. Qed.
Print Assumptions C19_map_exact.

(* AllKeys = OrphanKeys ⊎ keys(Map) *)
Theorem C19_partition : forall ks src refs,
  Permutation (all_keys (dep_of_keys ks src refs))
              (orphan_keys (dep_of_keys ks src refs) ++ map fst (dep_map (dep_of_keys ks src refs))).
Proof. exact partition. Qed.
Print Assumptions C19_partition.

(* the placeholder report lists exactly the keys whose placeholder-bearing value resolution leaves unchanged *)
Theorem C19_failed_exact : forall keyf ov k,
  In k (failed_keys (ph_resolve keyf ov)) <->
  exists v, In (k, v) (flatten (o_merged false ov)) /\ keyf k = true /\
            possibly (la (fmt_scalar v)) = true /\ unresolved (o_merged false ov) (fmt_scalar v) = true.
Proof. exact failed_exact. Qed.
Print Assumptions C19_failed_exact.

(* impact analysis returns for each requested key exactly the locations mentioning it *)
Theorem C19_impact_exact : forall ov keys k cs,
  In (k, cs) (impact ov keys) <-> In k keys /\ cs = coords (mentions k) ov /\ cs <> [].
Proof. exact impact_exact. Qed.
Print Assumptions C19_impact_exact.

Example C19_ex :
  let ov := [("l0"%string, [("a"%string, Leaf (SStr "${b}-${b}")); ("b"%string, Leaf (SStr "${zz}"));
                            ("c"%string, Leaf (SInt 1))])] in
  dep_resolve (fun _ => true) ov [] =
    mkDep ["a"; "b"; "c"]%string ["a"; "c"]%string [("b"%string, [("l0"%string, "a"%string)])] /\
  failed_keys (ph_resolve (fun _ => true) ov) = ["b"]%string.
Proof. vm_compute. split; reflexivity. Qed.
