(* Properties/C03.v — Builder edits behave like edits on a plain tree (set-get and frame). *)
From Coq Require Import List String Bool ZArith Arith.
From YT Require Import Base.Str Base.KV Model.Doc Model.Dom Model.Path Model.Builder Proofs.BuilderProofs
  Proofs.PathProofs Proofs.FrameProofs.
Import ListNotations.
Local Open Scope list_scope.

(* A value written at a path is what lookup returns there — for EVERY non-empty path string and
   EVERY document (so after any history of edits): missing containers and list slots are created,
   lists padded, whatever was in the way replaced. *)
Theorem C03_lookup_add_value_at : forall path v kvs,
  path <> ""%string -> lookup path (Con (add_value_at path v kvs)) = Some v.
Proof. exact lookup_add_value_at. Qed.
Print Assumptions C03_lookup_add_value_at.

(* Removing a path makes lookup return nothing there (last component a plain key). *)
Theorem C03_lookup_remove_at : forall path kvs,
  wf_kvs kvs = true -> plain_comp (last (split_dots path) ""%string) = true ->
  lookup path (Con (remove_at path kvs)) = None.
Proof. exact lookup_remove_at. Qed.
Print Assumptions C03_lookup_remove_at.

(* "Nothing outside the written or removed subtree changes."  Positions are step lists (keys and
   list indexes); two positions diverge when, at their first difference, they take different keys
   or different indexes.  AddValueAt at one position leaves Lookup of every EXISTING diverging
   position unchanged (positions that did not exist may appear as null padding: C03_list_set_other).
   The builder's add_at is first shown equal to a step-wise set on the tree (add_at_steps). *)
Theorem C03_add_value_at_frame : forall k r k' r' v kvs,
  forallb step_safe (K k :: r) = true -> forallb step_safe (K k' :: r') = true ->
  diverge (K k :: r) (K k' :: r') ->
  lookup (render_steps (K k' :: r')) (Con kvs) <> None ->
  lookup (render_steps (K k' :: r')) (Con (add_value_at (render_steps (K k :: r)) v kvs)) =
  lookup (render_steps (K k' :: r')) (Con kvs).
Proof. exact add_value_at_frame. Qed.
Print Assumptions C03_add_value_at_frame.

Theorem C03_set_steps_frame : forall sigma tau v n,
  diverge sigma tau -> get_steps tau n <> None ->
  get_steps tau (set_steps sigma v n) = get_steps tau n.
Proof. exact set_steps_frame. Qed.
Print Assumptions C03_set_steps_frame.

(* RemoveAt("<position>.<key>") likewise leaves every existing diverging position unchanged. *)
Theorem C03_remove_at_frame : forall p last k' r' kvs,
  Forall (fun c => key_safe (fst c) = true) p -> key_safe last = true ->
  forallb step_safe (K k' :: r') = true ->
  diverge (steps_of p ++ [K last]) (K k' :: r') ->
  lookup (render_steps (K k' :: r')) (Con kvs) <> None ->
  lookup (render_steps (K k' :: r')) (Con (remove_at (render_steps (steps_of p ++ [K last])) kvs)) =
  lookup (render_steps (K k' :: r')) (Con kvs).
Proof. exact remove_at_frame. Qed.
Print Assumptions C03_remove_at_frame.

(* top-level forms, for arbitrary (also unsafe) component strings *)
Theorem C03_add_at_frame_key : forall p v kvs k,
  match p with c :: _ => k <> fst c | [] => True end ->
  kv_get k (add_at p v kvs) = kv_get k kvs.
Proof. exact add_at_frame_key. Qed.
Print Assumptions C03_add_at_frame_key.

Theorem C03_remove_at_frame_key : forall pc kvs k,
  match pc with c :: _ => k <> fst (comp_parse c) /\ k <> c | [] => True end ->
  kv_get k (remove_at_comps pc kvs) = kv_get k kvs.
Proof. exact remove_at_frame_key. Qed.
Print Assumptions C03_remove_at_frame_key.

(* ListBuilder.Set: the list grows to max(len, i+1), slot i holds the value, new lower slots are
   null, every other slot is unchanged. *)
Theorem C03_list_set_length : forall l i v, List.length (list_set l i v) = Nat.max (List.length l) (S i).
Proof. exact list_set_length. Qed.
Print Assumptions C03_list_set_length.

Theorem C03_list_set_same : forall l i v, nth_error (list_set l i v) i = Some v.
Proof. exact list_set_same. Qed.
Print Assumptions C03_list_set_same.

Theorem C03_list_set_other : forall l i j v, j <> i ->
  nth_error (list_set l i v) j =
    if Nat.ltb j (List.length l) then nth_error l j else if Nat.ltb j i then Some null else None.
Proof. exact list_set_other. Qed.
Print Assumptions C03_list_set_other.

Theorem C03_list_append_spec : forall (l : list node) (v : node) j,
  nth_error (l ++ [v]) j =
    if Nat.ltb j (List.length l) then nth_error l j else if Nat.eqb j (List.length l) then Some v else None.
Proof. exact list_append_spec. Qed.
Print Assumptions C03_list_append_spec.

(* Every builder step keeps the document a well-formed tree (containers = finite maps). *)
Theorem C03_bstep_wf : forall d o, wf d = true ->
  match o with
  | OAddValue _ v | OAddValueAt _ v | OListSet _ _ v | OListMustSet _ _ v | OListAppend _ v => wf v = true
  | _ => True
  end -> wf (bstep d o) = true.
Proof. exact bstep_wf. Qed.
Print Assumptions C03_bstep_wf.

Example C03_ex_frame :
  diverge [K "a"%string; I 1; K "x"%string] [K "a"%string; I 0; K "y"%string] /\
  lookup "a[0].y" (Con [("a"%string, Lst [Con [("y"%string, Leaf (SInt 7))]])]) <> None.
Proof. split; [repeat constructor; discriminate|vm_compute; discriminate]. Qed.

(* non-vacuity: the two histories that panicked / lost data on the pinned tree *)
Example C03_ex1 :
  run_hist (Con []) [OAddValueAt "a[1][0]" (Leaf (SInt 1)); OAddValueAt "a[0][0]" (Leaf (SInt 2))] =
  [Con [("a"%string, Lst [null; Lst [Leaf (SInt 1)]])];
   Con [("a"%string, Lst [Lst [Leaf (SInt 2)]; Lst [Leaf (SInt 1)]])]].
Proof. vm_compute. reflexivity. Qed.
Example C03_ex2 :
  lookup "b.c[0].x" (Con (remove_at "b.c[0].x"
     [("b"%string, Con [("c"%string, Lst [Con [("x"%string, Leaf (SInt 1)); ("y"%string, null)]])])])) = None
  /\ plain_comp "x" = true.
Proof. vm_compute. split; reflexivity. Qed.
