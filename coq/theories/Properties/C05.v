(* Properties/C05.v — Equality is structural; clones are equal, same-kind (and, being values of a
   pure model, independent: sharing is decided by edit histories in the correspondence). *)
From Coq Require Import List String Bool ZArith.
From YT Require Import Base.Str Base.KV Model.Doc Model.Equals Proofs.EqualsProofs.
Import ListNotations.
Local Open Scope list_scope.

(* Equals holds exactly when the two nodes have the same kind and the same content: on well-formed
   nodes (containers = finite maps) that is Coq equality of the trees. *)
Theorem C05_equals_iff_eq : forall a b, wf a = true -> wf b = true -> (equals a b = true <-> a = b).
Proof. exact equals_iff_eq. Qed.
Print Assumptions C05_equals_iff_eq.

Theorem C05_equals_refl : forall a, wf a = true -> equals a a = true.
Proof. exact equals_refl. Qed.
Print Assumptions C05_equals_refl.

Theorem C05_equals_sym : forall a b, wf a = true -> wf b = true -> equals a b = equals b a.
Proof. exact equals_sym. Qed.
Print Assumptions C05_equals_sym.

Theorem C05_equals_trans : forall a b c, wf a = true -> wf b = true -> wf c = true ->
  equals a b = true -> equals b c = true -> equals a c = true.
Proof. exact equals_trans. Qed.
Print Assumptions C05_equals_trans.

Theorem C05_equals_nil : forall a, equals_opt a None = false.
Proof. reflexivity. Qed.
Print Assumptions C05_equals_nil.

Theorem C05_equals_same_kind : forall a b, equals a b = true -> same_as a b = true.
Proof. exact equals_same_as. Qed.
Print Assumptions C05_equals_same_kind.

Theorem C05_clone_eq : forall a, clone a = a.
Proof. exact clone_eq. Qed.
Print Assumptions C05_clone_eq.

Theorem C05_clone_equals : forall a, wf a = true ->
  equals (clone a) a = true /\ equals a (clone a) = true /\ same_as (clone a) a = true.
Proof. exact clone_equals. Qed.
Print Assumptions C05_clone_equals.

(* non-vacuity, and the witness that refuted the statement on the pinned tree *)
Example C05_ex :
  let d1 := Con [("a"%string, Leaf (SInt 1%Z))] in
  let d2 := Con [("a"%string, Leaf (SInt 1%Z)); ("b"%string, Lst [Leaf SNull; Con []])] in
  wf d1 = true /\ wf d2 = true /\ equals d1 d2 = false /\ equals d2 d1 = false /\ equals d2 d2 = true.
Proof. vm_compute. repeat split; reflexivity. Qed.
