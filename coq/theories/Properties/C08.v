(* Properties/C08.v — Applying a diff to the right document reconstructs the left one. *)
From Coq Require Import List String Bool ZArith Arith.
From YT Require Import Base.Str Base.KV Base.Sort Model.Doc Model.Dom Model.Builder Model.Diff Model.Apply
  Model.Path Proofs.BuilderProofs Proofs.PathProofs Proofs.ApplyProofs Proofs.ApplyLookupProofs.
Import ListNotations.
Local Open Scope list_scope.

(* Applying an empty modification list changes nothing. *)
Theorem C08_apply_nil : forall d, apply d [] = d.
Proof. exact apply_nil. Qed.
Print Assumptions C08_apply_nil.

(* Deleting an absent path is a no-op. *)
Theorem C08_apply_delete_absent : forall path kvs,
  wf_kvs kvs = true -> safe_kvs kvs = true -> lookup path (Con kvs) = None -> path <> ""%string ->
  apply (Con kvs) [mkMod MDelete path SNull SNull] = Con kvs.
Proof. exact apply_delete_absent. Qed.
Print Assumptions C08_apply_delete_absent.

(* Apply with a single Add or Change at any flatten-style path p (the rendering of a position:
   a key first, then keys and list indexes, keys path-safe) makes Lookup(p) return that value,
   whatever the document looked like before (missing parents are created, parents of the wrong
   kind are replaced, lists are padded). *)
Theorem C08_apply_add_lookup : forall k r v old t kvs,
  forallb step_safe (K k :: r) = true -> t = MAdd \/ t = MChange ->
  lookup (render_steps (K k :: r))
         (apply (Con kvs) [mkMod t (render_steps (K k :: r)) v old]) = Some (Leaf v).
Proof. exact apply_add_lookup. Qed.
Print Assumptions C08_apply_add_lookup.

(* Not proved (C08_reconstruction is decided on every run by the correspondence: the whole
   document Apply(R, Diff(L,R)) is compared with this model, and
   Flatten(Apply(R,Diff(L,R))) == Flatten(L) is a Go-side oracle on the stated domain):
   - apply_diff_flatten : compatible l r -> every_item_has_scalar l r ->
                          flatten (apply r (diff l r)) = flatten l *)

(* non-vacuity: the pair that was reconstructed wrongly on the pinned tree, and a list of lists *)
Example C08_ex :
  let l := Con [("a"%string, Lst [Con [("x"%string, Leaf (SInt 1)); ("y"%string, Leaf (SInt 2))]]);
                ("m"%string, Lst [Lst [Leaf (SInt 1); Leaf (SInt 2)]; Lst [Leaf (SInt 3)]])] in
  let r := Con [("a"%string, Lst [Con [("z"%string, Leaf (SInt 1))]]); ("m"%string, Lst [Leaf (SInt 5)]);
                ("gone"%string, Leaf (SInt 0))] in
  flatten (apply r (diff l r)) = flatten l.
Proof. vm_compute. reflexivity. Qed.
