(* Properties/C08.v — Applying a diff to the right document reconstructs the left one. *)
From Coq Require Import List String Bool ZArith Arith.
From YT Require Import Base.Str Base.KV Base.Sort Model.Doc Model.Dom Model.Builder Model.Diff Model.Apply
  Model.Path Proofs.BuilderProofs Proofs.PathProofs Proofs.ApplyProofs Proofs.FrameProofs Proofs.ApplyLookupProofs Proofs.DiffNilProofs Proofs.ReconstructProofs Proofs.ReconstructKeyedProofs Proofs.ReconstructListsProofs Proofs.RebuildExactProofs Proofs.ReconstructExactProofs Proofs.FlattenSortedProofs.
From Coq Require Import Permutation.
Import ListNotations.
Local Open Scope list_scope.

(* Applying an empty modification list changes nothing. *)
Theorem C08_apply_nil : forall d, apply d [] = d.
Proof. exact apply_nil. Qed.
Print Assumptions C08_apply_nil.

(* Deleting an absent path is a no-op. *)
Theorem C08_apply_delete_absent : forall path kvs,
  wf_kvs kvs = true -> safe_kvs kvs = true -> lookup path (Con kvs) = None -> path <> ""%string ->
  apply (Con kvs) [mkMod MDelete path SNull SNull] = Con kvs.
Proof. exact apply_delete_absent. Qed.
Print Assumptions C08_apply_delete_absent.

(* Apply with a single Add or Change at any flatten-style path p (the rendering of a position:
   a key first, then keys and list indexes, keys path-safe) makes Lookup(p) return that value,
   whatever the document looked like before (missing parents are created, parents of the wrong
   kind are replaced, lists are padded). *)
Theorem C08_apply_add_lookup : forall k r v old t kvs,
  forallb step_safe (K k :: r) = true -> t = MAdd \/ t = MChange ->
  lookup (render_steps (K k :: r))
         (apply (Con kvs) [mkMod t (render_steps (K k :: r)) v old]) = Some (Leaf v).
Proof. exact apply_add_lookup. Qed.
Print Assumptions C08_apply_add_lookup.

(* applySingle for Add/Change at a flatten-style path IS AddValueAt of the leaf there (the two are
   separate code: diff/apply.go's applyListItem/applyList vs dom's ensureList/ancestorOf) ... *)
Theorem C08_apply_add_is_add_value_at : forall k r v old t kvs,
  forallb step_safe (K k :: r) = true -> t = MAdd \/ t = MChange ->
  apply (Con kvs) [mkMod t (render_steps (K k :: r)) v old] =
  Con (add_value_at (render_steps (K k :: r)) (Leaf v) kvs).
Proof. exact apply_add_is_add_value_at. Qed.
Print Assumptions C08_apply_add_is_add_value_at.

(* ... so it changes nothing else: every existing position that diverges from the written one
   keeps its value (C03's frame) *)
Theorem C08_apply_add_frame : forall k r k' r' v old t kvs,
  forallb step_safe (K k :: r) = true -> forallb step_safe (K k' :: r') = true -> t = MAdd \/ t = MChange ->
  FrameProofs.diverge (K k :: r) (K k' :: r') ->
  lookup (render_steps (K k' :: r')) (Con kvs) <> None ->
  lookup (render_steps (K k' :: r')) (apply (Con kvs) [mkMod t (render_steps (K k :: r)) v old]) =
  lookup (render_steps (K k' :: r')) (Con kvs).
Proof. exact apply_add_frame. Qed.
Print Assumptions C08_apply_add_frame.

(* an applied Delete makes Lookup of that path return nothing *)
Theorem C08_apply_delete_lookup : forall path kvs,
  wf_kvs kvs = true -> plain_comp (last (split_dots path) ""%string) = true ->
  lookup path (apply (Con kvs) [mkMod MDelete path SNull SNull]) = None.
Proof. exact apply_delete_lookup. Qed.
Print Assumptions C08_apply_delete_lookup.

(* Reconstruction, the case R = {} (everything is "a key only the left has"): Diff(L, {}) is one Add
   per flattened leaf of L in path order, and applying it to the empty document makes every
   flattened path of L resolve to its leaf — for every well-formed L with path-safe keys, lists in
   lists to any depth included. *)
Theorem C08_diff_to_empty : forall kl,
  diff (Con kl) (Con []) = sort_mods (map DiffNilProofs.add_of (flatten (Con kl))).
Proof. exact diff_to_empty. Qed.
Print Assumptions C08_diff_to_empty.

Theorem C08_reconstruct_from_empty : forall kl p v,
  wf (Con kl) = true -> keys_safe (Con kl) = true ->
  In (p, v) (flatten (Con kl)) ->
  lookup p (apply (Con []) (diff (Con kl) (Con []))) = Some (Leaf v).
Proof. exact reconstruct_from_empty. Qed.
Print Assumptions C08_reconstruct_from_empty.

(* Reconstruction when L and R differ by added and removed keys at any depth (wherever both have a
   position they agree: same kind, equal scalars, identical lists): after Apply(R, Diff(L,R)) every
   flattened path of L resolves to its leaf.  Every modification of such a diff is an Add of a leaf
   position of L or a Delete of a position absent from L, and both diverge from every OTHER leaf
   position of L, so nothing that is or has been put in place is disturbed — in any order. *)
Theorem C08_reconstruct_keyed : forall kl kr p v,
  wf (Con kl) = true -> keys_safe (Con kl) = true -> wf (Con kr) = true -> keys_safe (Con kr) = true ->
  compat_k (Con kl) (Con kr) ->
  In (p, v) (flatten (Con kl)) ->
  lookup p (apply (Con kr) (diff (Con kl) (Con kr))) = Some (Leaf v).
Proof. exact reconstruct_keyed. Qed.
Print Assumptions C08_reconstruct_keyed.

(* the classification behind it: what such a diff consists of, and that it misses no leaf of L *)
Theorem C08_diff_keyed_class : forall l r path,
  wf l = true -> keys_safe l = true -> wf r = true -> keys_safe r = true -> compat_k l r ->
  (forall m, In m (diff_node canonical l r path) -> mod_class l path m) /\
  (forall sigma v, In (sigma, v) (flatten_steps l) ->
     get_steps sigma r = Some (Leaf v) \/
     In (mkMod MAdd (relpath path sigma) v SNull) (diff_node canonical l r path)).
Proof. exact diff_keyed_class. Qed.
Print Assumptions C08_diff_keyed_class.

(* Reconstruction on the whole stated domain: L and R agree wherever both define a position (same
   kind there and equal scalars) and differ by any added keys, any removed keys and ARBITRARILY
   DIFFERENT LISTS.  After Apply(R, Diff(L,R)) every flattened path of L resolves to its leaf.
   The Delete of a differing list is the one modification that is not harmless for the leaves below
   it; its path is a proper prefix of theirs, hence strictly smaller, hence the (stable) sort puts it
   before the Adds that rebuild the list (render_prefix_lt, sorted_split). *)
Theorem C08_reconstruct_general : forall kl kr p v,
  wf (Con kl) = true -> keys_safe (Con kl) = true -> wf (Con kr) = true -> keys_safe (Con kr) = true ->
  compat_g (Con kl) (Con kr) ->
  In (p, v) (flatten (Con kl)) ->
  lookup p (apply (Con kr) (diff (Con kl) (Con kr))) = Some (Leaf v).
Proof. exact reconstruct_general. Qed.
Print Assumptions C08_reconstruct_general.

(* a proper prefix position renders to a strictly smaller path: why Delete-then-Add order holds *)
Theorem C08_prefix_sorts_first : forall tau rest,
  render_steps tau <> ""%string -> rest <> [] ->
  String.ltb (render_steps tau) (render_steps (tau ++ rest)) = true.
Proof. exact render_prefix_lt. Qed.
Print Assumptions C08_prefix_sorts_first.

(* The converse half: after Apply(R, Diff(L,R)) there are NO OTHER leaves — no leaf of R outside L
   survives, no padding null remains.  This is where "every list item of L contains a scalar" (eis)
   is needed: a list item of L without any scalar is not re-added after the Delete of its list.
   Invariant of the proof (ReconstructExactProofs): the accumulator is a partial rebuild of L
   except below the positions whose Delete is still to come; an Add never lands below such a
   position because the Delete's path, a proper prefix, sorts first. *)
Theorem C08_reconstruct_exact : forall kl kr p v,
  wf (Con kl) = true -> keys_safe (Con kl) = true -> wf (Con kr) = true -> keys_safe (Con kr) = true ->
  compat_g (Con kl) (Con kr) -> eis (Con kl) = true ->
  In (p, v) (flatten (apply (Con kr) (diff (Con kl) (Con kr)))) -> In (p, v) (flatten (Con kl)).
Proof. exact reconstruct_exact. Qed.
Print Assumptions C08_reconstruct_exact.

(* Both halves together: Flatten(Apply(R, Diff(L,R))) is Flatten(L) — the same (path, value)
   pairs, each exactly once — and the result is a well-formed document. *)
Theorem C08_reconstruct_flatten : forall kl kr,
  wf (Con kl) = true -> keys_safe (Con kl) = true -> wf (Con kr) = true -> keys_safe (Con kr) = true ->
  compat_g (Con kl) (Con kr) -> eis (Con kl) = true ->
  Permutation (flatten (apply (Con kr) (diff (Con kl) (Con kr)))) (flatten (Con kl)).
Proof. exact reconstruct_flatten_perm. Qed.
Print Assumptions C08_reconstruct_flatten.

Theorem C08_reconstruct_positions : forall kl kr,
  wf (Con kl) = true -> keys_safe (Con kl) = true -> wf (Con kr) = true -> keys_safe (Con kr) = true ->
  compat_g (Con kl) (Con kr) -> eis (Con kl) = true ->
  wf (apply (Con kr) (diff (Con kl) (Con kr))) = true /\
  forall tau w, In (tau, w) (flatten_steps (apply (Con kr) (diff (Con kl) (Con kr)))) <->
                In (tau, w) (flatten_steps (Con kl)).
Proof. exact reconstruct_steps_exact. Qed.
Print Assumptions C08_reconstruct_positions.

(* ... and as LISTS: Flatten lists positions in one canonical order (members by name, items by index),
   so the same set of pairs is the same list.  This is the property's equation itself. *)
Theorem C08_apply_diff_flatten : forall kl kr,
  wf (Con kl) = true -> keys_safe (Con kl) = true -> wf (Con kr) = true -> keys_safe (Con kr) = true ->
  compat_g (Con kl) (Con kr) -> eis (Con kl) = true ->
  flatten (apply (Con kr) (diff (Con kl) (Con kr))) = flatten (Con kl).
Proof. exact reconstruct_flatten_eq. Qed.
Print Assumptions C08_apply_diff_flatten.

(* The side condition is needed: with a list item of L that contains no scalar (here an empty mapping)
   the equation fails — the item is not re-added, the rebuilt list keeps a padding null in its place. *)
Example C08_every_item_needs_a_scalar :
  let l := Con [("a"%string, Lst [Con []; Leaf (SInt 1)])] in
  let r := Con [("a"%string, Lst [Leaf (SInt 5)])] in
  wf l = true /\ wf r = true /\ compat_g l r /\ eis l = false /\
  flatten l = [("a[1]"%string, SInt 1)] /\
  flatten (apply r (diff l r)) = [("a[0]"%string, SNull); ("a[1]"%string, SInt 1)].
Proof. split; [reflexivity|]. split; [reflexivity|]. split; [cbn; tauto|]. repeat split; vm_compute; reflexivity. Qed.

(* non-vacuity: the pair that was reconstructed wrongly on the pinned tree, and a list of lists *)
Example C08_ex_keyed :
  let l := Con [("a"%string, Con [("n"%string, Con [("deep"%string, Lst [Leaf (SInt 1); Lst [Leaf (SInt 2)]])]); ("x"%string, Leaf (SInt 1))]);
                ("l"%string, Lst [Leaf (SInt 1)])] in
  let r := Con [("a"%string, Con [("gone"%string, Leaf (SInt 0)); ("x"%string, Leaf (SInt 1))]);
                ("l"%string, Lst [Leaf (SInt 1)]); ("z"%string, Con [("q"%string, Leaf SNull)])] in
  wf l = true /\ wf r = true /\ compat_k l r /\ flatten (apply r (diff l r)) = flatten l.
Proof. split; [reflexivity|]. split; [reflexivity|]. split; [cbn; tauto|vm_compute; reflexivity]. Qed.

Example C08_ex_general :
  let l := Con [("a"%string, Lst [Con [("x"%string, Leaf (SInt 1)); ("y"%string, Leaf (SInt 2))]]);
                ("m"%string, Lst [Lst [Leaf (SInt 1); Leaf (SInt 2)]; Lst [Leaf (SInt 3)]])] in
  let r := Con [("a"%string, Lst [Con [("z"%string, Leaf (SInt 1))]]); ("gone"%string, Leaf (SInt 0));
                ("m"%string, Lst [Leaf (SInt 5)])] in
  wf l = true /\ wf r = true /\ compat_g l r /\ eis l = true /\ flatten (apply r (diff l r)) = flatten l.
Proof. split; [reflexivity|]. split; [reflexivity|]. split; [cbn; tauto|]. split; [reflexivity|vm_compute; reflexivity]. Qed.

Example C08_ex :
  let l := Con [("a"%string, Lst [Con [("x"%string, Leaf (SInt 1)); ("y"%string, Leaf (SInt 2))]]);
                ("m"%string, Lst [Lst [Leaf (SInt 1); Leaf (SInt 2)]; Lst [Leaf (SInt 3)]])] in
  let r := Con [("a"%string, Lst [Con [("z"%string, Leaf (SInt 1))]]); ("m"%string, Lst [Leaf (SInt 5)]);
                ("gone"%string, Leaf (SInt 0))] in
  flatten (apply r (diff l r)) = flatten l.
Proof. vm_compute. reflexivity. Qed.
