(* Properties/C14.v — Pipeline iteration and calls: per-item execution, scoped variables, loop order. *)
From Coq Require Import List String Bool ZArith Arith.
From YT Require Import Base.Str Base.KV Model.Doc Model.Dom Model.Builder Model.Pipeline
  Proofs.BuilderProofs Proofs.Pipeline14Proofs.
Import ListNotations.
Local Open Scope list_scope.

Section C14.
Variable rec rec_do : action -> state -> state * status.   (* Execute / ActionSpec.Do one level down *)
Variable bound : nat.
Variable run_ops_of : list op -> state -> state * status.

(* forEach = the per-item step run over the items in item order, stopping at the first failure *)
Theorem C14_foreach_unfold : forall s var n o w bops bch st,
  run_op rec rec_do bound run_ops_of (OpForEach s var (Act n o w bops bch)) st =
  seq (item_step rec run_ops_of var bops bch) (foreach_items s (st_data st)) st.
Proof. exact (foreach_unfold rec rec_do bound run_ops_of). Qed.

(* a forEach over a list query runs over the items the list HAD when the forEach started: what the body writes into that
   list (an item not reached yet overwritten, items appended or removed) does not change which items it runs for *)
Theorem C14_foreach_query_items_fixed_at_start : forall path var n o w bops bch st xs,
  lookup path (Con (st_data st)) = Some (Lst xs) ->
  run_op rec rec_do bound run_ops_of (OpForEach (SQuery path) var (Act n o w bops bch)) st =
  seq (item_step rec run_ops_of var bops bch) xs st.
Proof.
  intros path var n o w bops bch st xs H.
  rewrite (foreach_unfold rec rec_do bound run_ops_of). unfold foreach_items. now rewrite H.
Qed.

Theorem C14_foreach_in_order : forall var bops bch items1 x items2 st st1,
  seq (item_step rec run_ops_of var bops bch) items1 st = (st1, SOk) ->
  seq (item_step rec run_ops_of var bops bch) (items1 ++ x :: items2) st =
    let '(st2, r) := item_step rec run_ops_of var bops bch x st1 in
    match r with SOk => seq (item_step rec run_ops_of var bops bch) items2 st2 | _ => (st2, r) end.
Proof. exact (foreach_in_order rec run_ops_of). Qed.

(* when forEach finishes, normally or with an error, the variable has just been removed ... *)
Theorem C14_foreach_var_removed : forall var bops bch items st st' r,
  items <> [] -> seq (item_step rec run_ops_of var bops bch) items st = (st', r) ->
  exists d, st_data st' = kv_del var d.
Proof. exact (foreach_var_removed rec run_ops_of). Qed.
End C14.
Print Assumptions C14_foreach_unfold.
Print Assumptions C14_foreach_query_items_fixed_at_start.
Print Assumptions C14_foreach_in_order.
Print Assumptions C14_foreach_var_removed.

(* ... so looking it up returns nothing *)
Theorem C14_foreach_var_gone : forall var (d : list (string * node)), sorted_keys d = true -> kv_get var (kv_del var d) = None.
Proof. exact foreach_var_gone. Qed.
Print Assumptions C14_foreach_var_gone.

(* call: the arguments, rendered against the data as it is when the call starts, are readable at
   the arguments path inside (single key or dotted) ... *)
Theorem C14_call_args_visible : forall ap args data,
  ap <> ""%string -> lookup ap (Con (add_value_at ap (args_doc args data) data)) = Some (args_doc args data).
Proof. exact call_args_visible. Qed.
Print Assumptions C14_call_args_visible.

(* ... the callee runs on exactly that data, and whatever it returns the arguments are then removed *)
Theorem C14_call_spec : forall rec rec_do bound run_ops_of name ap args st spec,
  reg_get name (st_reg st) = Some spec ->
  let st1 := with_data (add_value_at ap (args_doc args (st_data st)) (st_data st)) st in
  run_op rec rec_do bound run_ops_of (OpCall name ap args) st =
    (with_data (remove_at ap (st_data (fst (rec spec st1)))) (fst (rec spec st1)), snd (rec spec st1)).
Proof. exact call_spec. Qed.
Print Assumptions C14_call_spec.

Theorem C14_call_args_gone : forall ap d,
  wf_kvs d = true -> plain_comp (last (split_dots ap) ""%string) = true ->
  lookup ap (Con (remove_at ap d)) = None.
Proof. exact call_args_gone. Qed.
Print Assumptions C14_call_args_gone.

(* calling an undefined name is an error; defining a name twice is an error and the first definition is kept *)
Theorem C14_call_undefined_err : forall rec rec_do bound run_ops_of name ap args st,
  reg_get name (st_reg st) = None ->
  run_op rec rec_do bound run_ops_of (OpCall name ap args) st = (st, SErr).
Proof. exact call_undefined_err. Qed.
Print Assumptions C14_call_undefined_err.

Theorem C14_define_twice_err : forall rec rec_do bound run_ops_of name body st first,
  reg_get name (st_reg st) = Some first ->
  run_op rec rec_do bound run_ops_of (OpDefine name body) st = (st, SErr).
Proof. exact define_twice_err. Qed.
Print Assumptions C14_define_twice_err.

(* loop: init once, the test before every iteration, the body THEN the post-action, stop at the
   first false test or error (refuted on the pinned tree: post ran before body) *)
Theorem C14_loop_unfold : forall rec rec_do bound run_ops_of init test body post st,
  run_op rec rec_do bound run_ops_of (OpLoop init test body post) st =
    let '(st1, r1) := match init with Some i => rec i st | None => (st, SOk) end in
    match r1 with SOk => loop_iter rec rec_do bound test body post st1 | _ => (st1, r1) end.
Proof. exact loop_unfold. Qed.
Print Assumptions C14_loop_unfold.

Theorem C14_loop_test_true : forall rec rec_do m test body post st,
  eval_cond test (st_data st) = Some true ->
  loop_iter rec rec_do (S m) test body post st =
    let '(st1, r1) := rec_do body st in
    match r1 with
    | SOk => let '(st2, r2) := match post with Some p => rec p st1 | None => (st1, SOk) end in
             match r2 with SOk => loop_iter rec rec_do m test body post st2 | _ => (st2, r2) end
    | _ => (st1, r1)
    end.
Proof. exact loop_test_true. Qed.
Print Assumptions C14_loop_test_true.

Theorem C14_loop_test_false : forall rec rec_do m test body post st,
  eval_cond test (st_data st) = Some false -> loop_iter rec rec_do (S m) test body post st = (st, SOk).
Proof. exact loop_test_false. Qed.
Print Assumptions C14_loop_test_false.

(* non-vacuity: a counter loop whose body logs before the post-action, a forEach failing at item 2 *)
Example C14_ex :
  let body := Act "b" 0%Z CNone [OpLog [PLit "body"; PVar "i"]] [] in
  let post := Act "p" 0%Z CNone [OpLog [PLit "post"; PVar "i"]; OpSet SUnset "" (Some [("i"%string, Codec.GInt 1%Z)])] [] in
  let init := Act "i" 0%Z CNone [OpSet SUnset "" (Some [("i"%string, Codec.GInt 0%Z)])] [] in
  let a := Act "r" 0%Z CNone [OpLoop (Some init) (CLt "i" 1%Z) body (Some post)] [] in
  let '(st, r) := exec 12 a (init_state []) in
  r = SOk /\ filter (fun e => match e with ELog _ => true | _ => false end) (st_ev st) = [ELog "body0"; ELog "post1"].
Proof. vm_compute. split; reflexivity. Qed.
