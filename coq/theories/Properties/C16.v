(* Properties/C16.v — Properties: flat dotted keys and trees correspond exactly and deterministically. *)
From Coq Require Import List String Bool ZArith Arith Permutation.
From YT Require Import Base.Str Base.KV Base.Sort Model.Doc Model.Dom Model.Builder Model.Props Proofs.PropsProofs Proofs.FromPropsProofs Proofs.FromPropsExactProofs Model.Path.
Import ListNotations.
Local Open Scope list_scope.

(* Decoding the same key set always yields the same document, whatever the keys (conflicting or
   not) and whatever order the Go map hands them out in.  (Refuted on the pinned tree.) *)
Theorem C16_unflatten_deterministic : forall kv kv',
  NoDup (map fst kv) -> Permutation kv kv' -> unflatten kv = unflatten kv'.
Proof. exact unflatten_deterministic. Qed.
Print Assumptions C16_unflatten_deterministic.

Theorem C16_from_properties_deterministic : forall kv kv',
  NoDup (map fst kv) -> Permutation kv kv' -> from_properties kv = from_properties kv'.
Proof. exact from_properties_deterministic. Qed.
Print Assumptions C16_from_properties_deterministic.

(* When no key is a dotted prefix of another, every decoded pair is a leaf of the tree at its
   dotted path — in ANY processing order. *)
Theorem C16_unflatten_pairs : forall kv k v,
  conflict_free kv -> In (k, v) kv -> get_dotted (split_dots k) (unflatten_ord kv) = Some v.
Proof. exact unflatten_ord_pairs. Qed.
Print Assumptions C16_unflatten_pairs.

(* Frame of one insertion: a path that does not conflict with the written key is untouched. *)
Theorem C16_unflatten_frame : forall p q v kvs,
  conflict p q = false -> get_dotted p (unflatten_set q v kvs) = get_dotted p kvs.
Proof. exact get_unflatten_other. Qed.
Print Assumptions C16_unflatten_frame.

(* ... and the tree has NO other leaves: whatever non-container value sits at a dotted position of
   the result is the value of a decoded pair with exactly that key (for every key set, conflicting
   or not, in any processing order).  With C16_unflatten_pairs: for conflict-free keys the leaves
   of the tree are exactly the decoded pairs. *)
Theorem C16_unflatten_exact : forall kv q x,
  Forall (fun e => is_con (snd e) = false) kv ->
  get_dotted q (unflatten_ord kv) = Some x -> is_con x = false ->
  exists k, In (k, x) kv /\ split_dots k = q.
Proof. exact unflatten_ord_exact. Qed.
Print Assumptions C16_unflatten_exact.

(* Builder().FromProperties (which goes through AddValueAt): when no key is a dotted prefix of
   another and the segments are path-safe, every pair of the flat map is found by Lookup at its key —
   in ANY processing order, hence also in the sorted order the code uses.  (Non-conflicting keys are
   diverging positions, so no insertion disturbs an earlier one: C03's frame.) *)
Theorem C16_from_properties_pairs : forall kv k v,
  Forall (fun e => key_ok (fst e)) kv -> conflict_free kv -> In (k, v) kv ->
  lookup k (from_properties kv) = Some v.
Proof. exact from_properties_pairs. Qed.
Print Assumptions C16_from_properties_pairs.

Theorem C16_from_properties_any_order : forall kv k v,
  Forall (fun e => key_ok (fst e)) kv -> conflict_free kv -> In (k, v) kv ->
  lookup k (Con (from_properties_ord kv)) = Some v.
Proof. exact from_properties_ord_pairs. Qed.
Print Assumptions C16_from_properties_any_order.

(* ... and the built document has NO OTHER leaves (for every key set, conflicting or not): a write
   along member steps never pads, so every flattened entry is a pair of the flat map. *)
Theorem C16_from_properties_exact : forall kv p w,
  Forall (fun e => key_ok (fst e)) kv -> Forall (fun e => exists a, snd e = Leaf a) kv ->
  In (p, w) (flatten (from_properties kv)) -> In (p, Leaf w) kv.
Proof. exact from_properties_flatten_exact. Qed.
Print Assumptions C16_from_properties_exact.

(* Both halves: for path-safe keys none of which is a dotted prefix of another, the flattened
   leaves of FromProperties(kv) are exactly the pairs of kv. *)
Theorem C16_from_properties_flatten : forall kv p w,
  Forall (fun e => key_ok (fst e)) kv -> Forall (fun e => exists a, snd e = Leaf a) kv -> conflict_free kv ->
  (In (p, w) (flatten (from_properties kv)) <-> In (p, Leaf w) kv).
Proof. exact from_properties_flatten_iff. Qed.
Print Assumptions C16_from_properties_flatten.

(* Not a theorem (decided by the correspondence on every run): the text round trip — magiconair's
   parsing and printing of properties text is external to the model. *)

Example C16_ex :
  let kv := [("a.b"%string, Leaf (SStr "1")); ("a.c.d"%string, Leaf (SStr "2")); ("x"%string, Leaf (SStr "3"))] in
  conflict_free kv /\
  unflatten kv = Con [("a"%string, Con [("b"%string, Leaf (SStr "1")); ("c"%string, Con [("d"%string, Leaf (SStr "2"))])]);
                      ("x"%string, Leaf (SStr "3"))] /\
  (* the conflicting pair of the pinned-tree defect: one fixed answer *)
  unflatten [("a.b"%string, Leaf (SStr "2")); ("a"%string, Leaf (SStr "1"))] =
  unflatten [("a"%string, Leaf (SStr "1")); ("a.b"%string, Leaf (SStr "2"))].
Proof. vm_compute. repeat split; repeat constructor. Qed.
