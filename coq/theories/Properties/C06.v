(* Properties/C06.v — Overlay layers: ordered, isolated, first-hit lookup, last-wins merged view. *)
From Coq Require Import List String Bool ZArith Arith.
From YT Require Import Base.Str Base.KV Model.Doc Model.Dom Model.Path Model.Builder Model.Merge Model.Overlay
  Proofs.MergeProofs Proofs.OverlayProofs.
Import ListNotations.
Local Open Scope list_scope.

(* Layer names are reported in order of first write; putting a container writes each of its
   leaves, so a leafless container writes nothing (not even the layer). *)
Theorem C06_names_first_write_order : forall ops ov,
  layer_names (fold_left o_write ops ov) =
  fold_left (fun names o => match written o with Some l => note names l | None => names end) ops (layer_names ov).
Proof. exact names_first_write_order. Qed.
Print Assumptions C06_names_first_write_order.

(* A per-layer lookup sees only that layer's writes. *)
Theorem C06_lookup_isolated : forall l p ov o, target o <> Some l -> o_lookup l p (o_write ov o) = o_lookup l p ov.
Proof. exact lookup_isolated. Qed.
Print Assumptions C06_lookup_isolated.

(* A cross-layer lookup returns the hit from the earliest layer that has one. *)
Theorem C06_lookup_any_first_hit : forall ov1 l kvs ov2 p n,
  Forall (fun ly => lookup p (Con (snd ly)) = None) ov1 -> lookup p (Con kvs) = Some n ->
  o_lookup_any p (ov1 ++ (l, kvs) :: ov2) = Some n.
Proof. exact lookup_any_first_hit. Qed.
Print Assumptions C06_lookup_any_first_hit.

Theorem C06_lookup_any_none : forall ov p,
  Forall (fun ly => lookup p (Con (snd ly)) = None) ov -> o_lookup_any p ov = None.
Proof. exact lookup_any_none. Qed.
Print Assumptions C06_lookup_any_none.

(* The merged view is the fold of merge over the layers in order; each later layer is merged over
   the result so far, hence wins (contrast with the first-hit rule of LookupAny). *)
Theorem C06_merged_fold : forall app ov,
  o_merged app ov = fold_left (merge app) (map (fun l => Con (snd l)) ov) (Con []).
Proof. exact merged_fold. Qed.
Print Assumptions C06_merged_fold.

Theorem C06_merged_snoc : forall app ov l kvs,
  o_merged app (ov ++ [(l, kvs)]) = merge app (o_merged app ov) (Con kvs).
Proof. exact merged_snoc. Qed.
Print Assumptions C06_merged_snoc.

(* Search and walk report, layer by layer in layer order, exactly the layer's own flattened view. *)
Theorem C06_search_per_layer : forall f ov, o_search f ov = map (fun l => (fst l, search f (Con (snd l)))) ov.
Proof. exact search_per_layer. Qed.
Print Assumptions C06_search_per_layer.
Theorem C06_walk_per_layer : forall ov, o_walk ov = map (fun l => (fst l, flatten (Con (snd l)))) ov.
Proof. exact walk_per_layer. Qed.
Print Assumptions C06_walk_per_layer.

(* "Layer snapshots handed out are deep copies that later writes do not affect" is a statement
   about sharing: decided by the Go-side snapshot discipline of the correspondence. *)

(* non-vacuity: precedence contrast between LookupAny (first layer) and Merged (last layer) *)
Example C06_ex :
  let ops := [OPut "ghost" "p" (Con [("e"%string, Con [])]);
              OPut "real" "p.q" (Leaf (SInt 1)); OPut "ghost" "p.q" (Leaf (SInt 2))] in
  let ov := fold_left o_write ops [] in
  layer_names ov = ["real"; "ghost"]%string /\
  o_lookup_any "p.q" ov = Some (Leaf (SInt 1)) /\
  lookup "p.q" (o_merged false ov) = Some (Leaf (SInt 2)).
Proof. vm_compute. repeat split; reflexivity. Qed.
