(* Properties/C13.v — Pipeline data operations have their documented effect and only that effect. *)
From Coq Require Import List String Bool ZArith Arith.
From YT Require Import Base.Str Base.KV Model.Doc Model.Dom Model.Builder Model.Codec Model.Merge Model.Patch
  Model.Base64 Model.Analytics Model.K8s Model.Pipeline Model.PipeOps Model.YamlNode Proofs.PipeOpsProofs Proofs.YamlNodeProofs.
Import ListNotations.
Local Open Scope list_scope.

(* set: replace puts the data at the path; merge (also when unset) merges into an existing
   container there and otherwise puts the data; missing data and unknown strategies are errors *)
Theorem C13_set_replace_path : forall path payload data other,
  path <> ""%string -> from_val (GMap payload) = Con other ->
  exists d', set_op SReplace path (Some payload) data = Some d' /\ lookup path (Con d') = Some (Con other).
Proof. exact set_replace_path. Qed.
Print Assumptions C13_set_replace_path.

Theorem C13_set_merge_path : forall strat path payload data other,
  strat = SMerge \/ strat = SUnset -> path <> ""%string -> from_val (GMap payload) = Con other ->
  exists d', set_op strat path (Some payload) data = Some d' /\
             lookup path (Con d') = Some (match lookup path (Con data) with
                                          | Some (Con dest) => merge false (Con dest) (Con other)
                                          | _ => Con other
                                          end).
Proof. exact set_merge_path. Qed.
Print Assumptions C13_set_merge_path.

Theorem C13_set_errors : forall strat path data,
  set_op strat path None data = None /\ forall p, set_op SUnknown path (Some p) data = None.
Proof. exact set_errors. Qed.
Print Assumptions C13_set_errors.

(* each operation changes only its target location (top-level frame of a path-addressed set) *)
Theorem C13_set_frame_path : forall strat path payload data d' k,
  path <> ""%string -> set_op strat path (Some payload) data = Some d' ->
  match parse_path path with c :: _ => k <> fst c | [] => True end ->
  kv_get k d' = kv_get k data.
Proof. exact set_frame_path. Qed.
Print Assumptions C13_set_frame_path.

(* the patch operation has exactly the effect of patch.Do on the parsed pointer (C09 then applies) *)
Theorem C13_patch_op_spec : forall k path from value d p,
  ptr_of_string path = Some p -> from = ""%string ->
  patch_op k path from value d =
    match k with
    | KAdd => impl_do d (PAdd p value) | KRemove => impl_do d (PRemove p)
    | KReplace => impl_do d (PReplace p value) | KMove => impl_do d (PMove None p)
    | KCopy => impl_do d (PCopy None p) | KTest => impl_do d (PTest p value) | KOther => (d, false)
    end.
Proof. exact patch_op_spec. Qed.
Print Assumptions C13_patch_op_spec.

(* import: text mode (the default) stores exactly the file content, binary mode its standard base64 *)
Theorem C13_import_text_exact : forall dec content, import_value dec IText content = Some (Leaf (SStr content)).
Proof. exact import_text_exact. Qed.
Print Assumptions C13_import_text_exact.
Theorem C13_import_default_is_text : forall dec content, import_value dec IDefault content = import_value dec IText content.
Proof. exact import_default_is_text. Qed.
Print Assumptions C13_import_default_is_text.
Theorem C13_import_binary_b64 : forall dec content,
  import_value dec IBinary content = Some (Leaf (SStr (Z_str (b64_enc (str_Z content))))).
Proof. exact import_binary_b64. Qed.
Print Assumptions C13_import_binary_b64.

(* exporting a subtree and importing that file at another path yields the subtree up to the
   codec's own normalisation — for EVERY codec satisfying dec (enc v) = norm v *)
Theorem C13_export_import_roundtrip : forall (dec : import_mode -> string -> res gval) (enc : gval -> string)
        (norm : gval -> gval) m sub path data,
  (m = IYaml \/ m = IJson) -> (forall v, dec m (enc v) = ROk (norm v)) -> path <> ""%string ->
  exists d', import_op dec m path (enc (as_map (Con sub))) data = (d', true) /\
             lookup path (Con d') = Some (from_map (norm (as_map (Con sub)))).
Proof. exact export_import_roundtrip. Qed.
Print Assumptions C13_export_import_roundtrip.

(* export follows its documented rule for unresolved or wrong-kind paths instead of failing abruptly:
   the outcome type has no "panic", and the rule is *)
Theorem C13_export_unknown_format : forall target, export_rule FUnknown target = WErr.
Proof. exact export_unknown_format. Qed.
Print Assumptions C13_export_unknown_format.
Theorem C13_export_text_rule : forall target,
  export_rule FText target =
    match target with None => WText ""%string | Some (Leaf v) => WText (fmt_scalar v) | Some _ => WErrAfterOpen end.
Proof. exact export_text_rule. Qed.
Print Assumptions C13_export_text_rule.
Theorem C13_export_doc_rule : forall f target, f = FYaml \/ f = FJson \/ f = FProps ->
  export_rule f target = match target with Some (Con kvs) => WDoc (Con kvs) | _ => WDoc (Con []) end.
Proof. exact export_doc_rule. Qed.
Print Assumptions C13_export_doc_rule.

(* lenient rendering returns non-template text, and text whose rendering fails, unchanged — for
   every template engine *)
Theorem C13_render_lenient_no_braces : forall (data_t : Type) (render : string -> data_t -> option string) s d,
  containsb "{{"%string s = false -> render_lenient data_t render s d = s.
Proof. exact render_lenient_no_braces. Qed.
Print Assumptions C13_render_lenient_no_braces.
Theorem C13_render_lenient_failing : forall (data_t : Type) (render : string -> data_t -> option string) s d,
  render s d = None -> render_lenient data_t render s d = s.
Proof. exact render_lenient_failing. Qed.
Print Assumptions C13_render_lenient_failing.

(* env stores exactly the variables matching include and not exclude under <path>.Env *)
Theorem C13_env_none_selected : forall incl excl path env data,
  (forall e, In e env -> incl (fst e) && negb (excl (fst e)) = false) -> env_op incl excl path env data = data.
Proof. exact env_none_selected. Qed.
Print Assumptions C13_env_none_selected.
Theorem C13_env_selected_stored : forall incl excl path name value data,
  incl name && negb (excl name) = true ->
  lookup (to_path path ("Env." ++ name)%string)
         (Con (env_op incl excl path [(name, value)] data)) = Some (Leaf (SStr value)).
Proof. exact env_selected_stored. Qed.
Print Assumptions C13_env_selected_stored.

Example C13_ex :
  set_op SUnset "a.b" (Some [("x"%string, GInt 1%Z)]) [("a"%string, Con [("b"%string, Con [("y"%string, Leaf (SInt 2%Z))])])]
    = Some [("a"%string, Con [("b"%string, Con [("x"%string, Leaf (SInt 1%Z)); ("y"%string, Leaf (SInt 2%Z))])])]
  /\ export_rule FYaml (Some (Lst [])) = WDoc (Con []) /\ possibly_template "a {{ b" = false.
Proof. vm_compute. repeat split; reflexivity. Qed.

(* ---------- templateFile (the template operation's sibling that reads its text from a file and writes the rendering to a
   file): it only READS the data — the result type carries no document —, renders against the whole document or the
   mapping at its path, and fails exactly when a file name is missing, the template cannot be read, or the path leads
   to no mapping.  [t : option tmpl] is what the file system gives for the template file. *)
Theorem C13_template_file_root : forall t file output data,
  file <> ""%string -> output <> ""%string ->
  template_file_op (Some t) file output None data = TFWritten (render t data).
Proof. exact template_file_root. Qed.
Print Assumptions C13_template_file_root.
Theorem C13_template_file_at_path : forall t file output p data kvs,
  file <> ""%string -> output <> ""%string -> lookup p (Con data) = Some (Con kvs) ->
  template_file_op (Some t) file output (Some p) data = TFWritten (render t kvs).
Proof. exact template_file_at_path. Qed.
Print Assumptions C13_template_file_at_path.
Theorem C13_template_file_fails_iff : forall t file output path data,
  template_file_op t file output path data = TFErr <->
  file = ""%string \/ output = ""%string \/ t = None \/ template_file_scope path data = None.
Proof. exact template_file_fails_iff. Qed.
Print Assumptions C13_template_file_fails_iff.

Example C13_template_file_ex :
  let data := [("name"%string, Leaf (SStr "n")); ("sub"%string, Con [("name"%string, Leaf (SStr "inner"))])] in
  template_file_op (Some [PLit "x="; PVar "name"]) "t.tpl" "out.txt" (Some "sub"%string) data = TFWritten "x=inner" /\
  template_file_op (Some [PLit "x="; PVar "name"]) "t.tpl" "out.txt" (Some "name"%string) data = TFErr /\
  template_file_op None "t.tpl" "out.txt" None data = TFErr.
Proof. vm_compute. repeat split; reflexivity. Qed.

(* ---------- the YAML node decoder behind template(parseAs yaml) (dom.YamlNodeDecoder, as repaired): it terminates on every
   tree the parser can build — aliases to anchors of the tree, also to an anchor that is still being converted; documents
   with one root — within an explicit bound (size of the tree + anchors not yet open x (size of the largest anchored
   node + 1)), never reaching Go's nil node; and what it returns does not depend on the fuel.  [env] lists the anchored
   nodes, B bounds their size. *)
Theorem C13_yaml_node_decoder_terminates : forall env B, env_ok env B -> forall fuel open n,
  shaped env n -> ysize n + unopened env open * S B < fuel -> dcheck fuel env open n = true.
Proof. exact decode_terminates. Qed.
Print Assumptions C13_yaml_node_decoder_terminates.
Theorem C13_yaml_node_decoder_fuel_independent : forall env fuel open n,
  dcheck fuel env open n = true -> forall g, fuel <= g -> decode g env open n = decode fuel env open n.
Proof. exact decode_fuel_independent. Qed.
Print Assumptions C13_yaml_node_decoder_fuel_independent.

(* non-vacuity: "&a [*a, {k: *a}]" (an alias into its own anchor: an empty scalar there), "x: &b {k: v}" / "y: *b" (a copy),
   the zero node *)
Example C13_yaml_node_ex :
  let self := YDoc [YAnch 0 (YSeq [YAlias 0; YMap [("k"%string, YAlias 0)]])] in
  let copy := YDoc [YMap [("x"%string, YAnch 0 (YMap [("k"%string, YScalar "v")])); ("y"%string, YAlias 0)]] in
  decode_root 20 self = Lst [Leaf (SStr ""); Con [("k"%string, Leaf (SStr ""))]] /\
  decode_root 20 copy = Con [("x"%string, Con [("k"%string, Leaf (SStr "v"))]); ("y"%string, Con [("k"%string, Leaf (SStr "v"))])] /\
  decode_root 20 YZero = Leaf (SStr "") /\ dcheck 20 (anchors self) [] self = true.
Proof. vm_compute. repeat split; reflexivity. Qed.
