(* Properties/C15.v — Cloning an action preserves everything that was configured. *)
From Coq Require Import List String Bool Arith.
From YT Require Import Base.Str Model.Analytics Model.CloneTbl Proofs.CloneProofs.
Import ListNotations.
Local Open Scope list_scope.

(* Generic, proved once for EVERY flow table and EVERY renderer that leaves template-free text
   alone: if no CloneWith method forgets or mangles a field (all_preserving), then with
   template-free fields the clone is structurally equal to the original — for every operation
   type, every field, every nesting of action specs, pointers, slices and maps.
   The premise [all_preserving clone_table = true] for the table regenerated from /repo's source
   is the generated obligation gen/CloneObligations.v, re-proved on every run. *)
Theorem C15_clone_preserves : forall tbl render,
  all_preserving tbl = true -> (forall s, tfree_str s = true -> render s = s) ->
  forall v, tfree v = true -> clone_v tbl render v = v.
Proof. exact clone_preserves. Qed.
Print Assumptions C15_clone_preserves.

(* Template-bearing text fields are rendered against the context's data (the clone is a new value;
   the original is not an output of the function). *)
Theorem C15_clone_renders_templates : forall tbl render ty fs n s,
  flow_of tbl ty n = FRender -> In (n, VStr s) fs ->
  In (n, VStr (render s)) (clone_fields tbl render ty fs).
Proof. exact clone_renders_templates. Qed.
Print Assumptions C15_clone_renders_templates.

(* Conversely a forgotten field is observable, which is how a failing table entry is turned into
   a concrete replay (the operation with that field populated). *)
Theorem C15_dropped_field_observable : forall tbl render ty n s,
  flow_of tbl ty n = FDropped -> s <> ""%string ->
  clone_v tbl render (VRec ty [(n, VStr s)]) <> VRec ty [(n, VStr s)].
Proof. exact dropped_field_observable. Qed.
Print Assumptions C15_dropped_field_observable.

(* non-vacuity: the five defects of the pinned tree as table entries *)
Example C15_ex :
  let pinned := [("TemplateOp"%string, [("Template"%string, FCopy); ("Path"%string, FRender); ("ParseAs"%string, FDropped); ("Trim"%string, FCopy)])] in
  all_preserving pinned = false /\ failing_fields pinned = [("TemplateOp"%string, "ParseAs"%string)] /\
  tfree (VRec "TemplateOp" [("Path"%string, VStr "a.b"); ("ParseAs"%string, VOpt (Some (VStr "yaml")))]) = true.
Proof. vm_compute. repeat split; reflexivity. Qed.
