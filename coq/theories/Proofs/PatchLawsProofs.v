(* Proofs/PatchLawsProofs.v — the RFC 6902 reference read declaratively: what each operation does
   at its own location, at its parent, and everywhere else (the frame). *)
From Coq Require Import List String Ascii ZArith Lia Bool Arith DecimalString DecimalNat.
From YT Require Import Base.Str Base.KV Model.Doc Model.Dom Model.Pointer Model.Builder Model.Equals Model.Patch
  Proofs.PointerProofs Proofs.BuilderProofs Proofs.EqualsProofs Proofs.ApplyProofs Proofs.PatchProofs.
Import ListNotations.
Local Open Scope list_scope.
Local Open Scope nat_scope.

(* ---------- a canonical index token is THE decimal spelling of its index *)
Lemma canon_index_spelling t i : canon_index t = Some i -> t = nat2s i.
Proof.
  unfold canon_index. destruct (la t) as [|c r] eqn:E; [discriminate|].
  destruct (forallb is_digit (c :: r)); [|discriminate].
  destruct (Ascii.eqb c "0" && negb match r with [] => true | _ => false end)%bool eqn:Z; [discriminate|].
  destruct (Nat.ltb 18 (List.length (c :: r))); [discriminate|].
  unfold s2nat. destruct t as [|a t']; [discriminate|].
  destruct (NilEmpty.uint_of_string (String a t')) as [d|] eqn:U; [|discriminate].
  simpl. intros [= <-].
  apply NilEmpty.sus in U.
  unfold nat2s. rewrite DecimalNat.Unsigned.to_of.
  (* d has no leading zero unless it is "0" *)
  assert (N : Decimal.unorm d = d).
  { destruct d as [|d'|d'|d'|d'|d'|d'|d'|d'|d'|d']; try reflexivity.
    - simpl in U. discriminate.
    - simpl in U. injection U as Ea Et. subst a.
      unfold la in E. simpl in E. injection E as <- <-.
      simpl in Z. destruct (list_ascii_of_string t') eqn:L; [|discriminate].
      assert (T : t' = ""%string) by (rewrite <- (string_of_list_ascii_of_string t'), L; reflexivity). rewrite T in Et.
      destruct d'; simpl in Et; try discriminate. reflexivity. }
  rewrite N.
  destruct d; try (simpl in U; discriminate); simpl; symmetry; exact U.
Qed.

Lemma canon_index_inj a b i : canon_index a = Some i -> canon_index b = Some i -> a = b.
Proof. intros Ha Hb. apply canon_index_spelling in Ha, Hb. congruence. Qed.

(* ---------- what an update does at its own pointer *)
Theorem upd_eval_same : forall p f d d', upd p f d = Some d' ->
  exists x x', rfc6901_eval p d = Some x /\ f x = Some x' /\ rfc6901_eval p d' = Some x'.
Proof.
  induction p as [|t r IH]; intros f d d' H.
  - exists d, d'. auto.
  - simpl in H. destruct d as [v|xs|kvs]; [discriminate| |].
    + destruct (canon_index t) as [i|] eqn:Ci; [|discriminate].
      destruct (nth_error xs i) as [x0|] eqn:N; [|discriminate].
      destruct (upd r f x0) as [x0'|] eqn:U; [|discriminate]. simpl in H. injection H as <-.
      destruct (IH f x0 x0' U) as [x [x' [E1 [E2 E3]]]]. exists x, x'. simpl. rewrite Ci, N.
      split; [exact E1|]. split; [exact E2|].
      rewrite nth_error_list_upd_same; [exact E3|]. apply nth_error_Some. congruence.
    + destruct (kv_get t kvs) as [x0|] eqn:G; [|discriminate].
      destruct (upd r f x0) as [x0'|] eqn:U; [|discriminate]. simpl in H. injection H as <-.
      destruct (IH f x0 x0' U) as [x [x' [E1 [E2 E3]]]]. exists x, x'. simpl. rewrite G, kv_get_set_same. auto.
Qed.

(* ---------- ... and everywhere else: pointers that part ways with p before p ends *)
Inductive pdiv : list string -> list string -> Prop :=
| pd_here t t' r r' : t <> t' -> pdiv (t :: r) (t' :: r')
| pd_cons t r r' : pdiv r r' -> pdiv (t :: r) (t :: r').

Theorem upd_eval_frame : forall p q f d d', upd p f d = Some d' -> pdiv p q ->
  rfc6901_eval q d' = rfc6901_eval q d.
Proof.
  induction p as [|t r IH]; intros q f d d' H D; [inversion D|].
  simpl in H. destruct d as [v|xs|kvs]; [discriminate| |].
  - destruct (canon_index t) as [i|] eqn:Ci; [|discriminate].
    destruct (nth_error xs i) as [x0|] eqn:N; [|discriminate].
    destruct (upd r f x0) as [x0'|] eqn:U; [|discriminate]. simpl in H. injection H as <-.
    inversion D as [t0 t' r0 r' NE|t0 r0 r' D']; subst; simpl.
    + destruct (canon_index t') as [j|] eqn:Cj; [|reflexivity].
      rewrite nth_error_list_upd_other; [reflexivity|]. intros ->. apply NE. eapply canon_index_inj; eauto.
    + rewrite Ci, N. rewrite nth_error_list_upd_same by (apply nth_error_Some; congruence).
      eapply IH; eauto.
  - destruct (kv_get t kvs) as [x0|] eqn:G; [|discriminate].
    destruct (upd r f x0) as [x0'|] eqn:U; [|discriminate]. simpl in H. injection H as <-.
    inversion D as [t0 t' r0 r' NE|t0 r0 r' D']; subst; simpl.
    + rewrite kv_get_set_other by congruence. reflexivity.
    + rewrite G, kv_get_set_same. eapply IH; eauto.
Qed.

(* ---------- add *)
Lemma add_at_eval tok v par par' : rfc_add_at tok v par = Some par' -> rfc6901_eval [tok] par' = Some v.
Proof.
  destruct par as [a|xs|kvs]; simpl; [discriminate| |].
  - destruct (canon_index tok) as [i|] eqn:Ci; [|discriminate].
    destruct (Nat.leb i (List.length xs)) eqn:L; [|discriminate]. intros [= <-]. cbn [rfc6901_eval].
    apply Nat.leb_le in L. rewrite insert_shift by exact L. rewrite Nat.ltb_irrefl, Nat.eqb_refl. reflexivity.
  - intros [= <-]. simpl. now rewrite kv_get_set_same.
Qed.

(* the parent is rewritten by the one-level rule, and the value is found at the target afterwards *)
Theorem rfc_add_spec path v d d' : path <> [] -> rfc_add path v d = Some d' ->
  (exists par par', rfc6901_eval (parent_of path) d = Some par /\ rfc_add_at (last_of path) v par = Some par' /\
                    rfc6901_eval (parent_of path) d' = Some par') /\
  rfc6901_eval path d' = Some v.
Proof.
  intros NE H. unfold rfc_add in H. destruct (upd_eval_same _ _ _ _ H) as [par [par' [E1 [E2 E3]]]].
  split; [exists par, par'; auto|].
  rewrite (split_last path NE), eval_app, E3. now apply (add_at_eval _ _ par).
Qed.

Theorem rfc_add_frame path v d d' q : rfc_add path v d = Some d' -> pdiv (parent_of path) q ->
  rfc6901_eval q d' = rfc6901_eval q d.
Proof. intros H D. unfold rfc_add in H. eapply upd_eval_frame; eauto. Qed.

(* other members of an object parent are untouched *)
Theorem rfc_add_member_frame path v d d' kvs t rest : path <> [] ->
  rfc_add path v d = Some d' -> rfc6901_eval (parent_of path) d = Some (Con kvs) -> t <> last_of path ->
  rfc6901_eval (parent_of path ++ t :: rest) d' = rfc6901_eval (parent_of path ++ t :: rest) d.
Proof.
  intros NE H Ep NEt. destruct (rfc_add_spec path v d d' NE H) as [[par [par' [E1 [E2 E3]]]] _].
  rewrite Ep in E1. injection E1 as <-. simpl in E2. injection E2 as <-.
  rewrite !eval_app, Ep, E3. simpl. now rewrite kv_get_set_other.
Qed.

(* elements of an array parent shift exactly as insertion prescribes *)
Theorem rfc_add_list_shift path v d d' xs i : path <> [] ->
  rfc_add path v d = Some d' -> rfc6901_eval (parent_of path) d = Some (Lst xs) -> canon_index (last_of path) = Some i ->
  i <= List.length xs /\ rfc6901_eval (parent_of path) d' = Some (Lst (insert_at xs i v)).
Proof.
  intros NE H Ep Ci. destruct (rfc_add_spec path v d d' NE H) as [[par [par' [E1 [E2 E3]]]] _].
  rewrite Ep in E1. injection E1 as <-. simpl in E2. rewrite Ci in E2.
  destruct (Nat.leb i (List.length xs)) eqn:L; [|discriminate]. injection E2 as <-.
  split; [now apply Nat.leb_le|exact E3].
Qed.

(* add fails exactly when the parent is missing or refuses the token *)
Theorem rfc_add_fails path v d : rfc_add path v d = None <->
  (rfc6901_eval (parent_of path) d = None \/
   exists par, rfc6901_eval (parent_of path) d = Some par /\ rfc_add_at (last_of path) v par = None).
Proof.
  unfold rfc_add. split.
  - intros H. destruct (rfc6901_eval (parent_of path) d) as [par|] eqn:E; [|now left].
    right. exists par. split; [reflexivity|].
    destruct (rfc_add_at (last_of path) v par) as [par'|] eqn:A; [|reflexivity].
    exfalso. revert H. generalize (parent_of path) as p, d, E. clear -A.
    induction p as [|t r IH]; intros d E H; simpl in *.
    + injection E as ->. congruence.
    + destruct d as [a|xs|kvs]; [discriminate| |].
      * destruct (canon_index t) as [i|]; [|discriminate]. destruct (nth_error xs i) as [x|]; [|discriminate].
        destruct (upd r (rfc_add_at (last_of path) v) x) eqn:U; [discriminate|]. eapply IH; eauto.
      * destruct (kv_get t kvs) as [x|]; [|discriminate].
        destruct (upd r (rfc_add_at (last_of path) v) x) eqn:U; [discriminate|]. eapply IH; eauto.
  - intros [E|[par [E A]]]; [now apply upd_none|eapply upd_f_none; eauto].
Qed.

(* ---------- remove *)
Theorem rfc_remove_spec path d d' : rfc_remove path d = Some d' ->
  exists par par', rfc6901_eval (parent_of path) d = Some par /\ rfc_remove_at (last_of path) par = Some par' /\
                   rfc6901_eval (parent_of path) d' = Some par'.
Proof. intros H. unfold rfc_remove in H. apply (upd_eval_same _ _ _ _ H). Qed.

Theorem rfc_remove_member_gone path d d' kvs : path <> [] -> sorted_keys kvs = true ->
  rfc_remove path d = Some d' -> rfc6901_eval (parent_of path) d = Some (Con kvs) ->
  rfc6901_eval path d' = None /\ rfc6901_eval path d <> None.
Proof.
  intros NE S H Ep. destruct (rfc_remove_spec path d d' H) as [par [par' [E1 [E2 E3]]]].
  rewrite Ep in E1. injection E1 as <-. simpl in E2.
  destruct (kv_get (last_of path) kvs) as [x|] eqn:G; [|discriminate]. injection E2 as <-.
  rewrite (split_last path NE), !eval_app, E3, Ep. simpl. rewrite kv_get_del_same by exact S. rewrite G.
  split; [reflexivity|discriminate].
Qed.

Theorem rfc_remove_list_shift path d d' xs i :
  rfc_remove path d = Some d' -> rfc6901_eval (parent_of path) d = Some (Lst xs) -> canon_index (last_of path) = Some i ->
  i < List.length xs /\ rfc6901_eval (parent_of path) d' = Some (Lst (remove_idx xs i)).
Proof.
  intros H Ep Ci. destruct (rfc_remove_spec path d d' H) as [par [par' [E1 [E2 E3]]]].
  rewrite Ep in E1. injection E1 as <-. simpl in E2. rewrite Ci in E2.
  destruct (Nat.ltb i (List.length xs)) eqn:L; [|discriminate]. injection E2 as <-.
  split; [now apply Nat.ltb_lt|exact E3].
Qed.

Theorem rfc_remove_frame path d d' q : rfc_remove path d = Some d' -> pdiv (parent_of path) q ->
  rfc6901_eval q d' = rfc6901_eval q d.
Proof. intros H D. unfold rfc_remove in H. eapply upd_eval_frame; eauto. Qed.

(* ---------- replace, copy, move, test *)
Theorem rfc_replace_spec path v d d' : rfc_do (PReplace path (Some v)) d = Some d' ->
  rfc6901_eval path d <> None /\ rfc6901_eval path d' = Some v /\
  forall q, pdiv path q -> rfc6901_eval q d' = rfc6901_eval q d.
Proof.
  simpl. intros H. destruct (upd_eval_same _ _ _ _ H) as [x [x' [E1 [E2 E3]]]]. injection E2 as <-.
  split; [congruence|]. split; [exact E3|]. intros q D. eapply upd_eval_frame; eauto.
Qed.

Theorem rfc_copy_spec from path d d' : path <> [] -> rfc_do (PCopy (Some from) path) d = Some d' ->
  exists v, rfc6901_eval from d = Some v /\ rfc6901_eval path d' = Some v /\ rfc_add path v d = Some d'.
Proof.
  simpl. intros NE H. destruct (rfc6901_eval from d) as [v|] eqn:E; [|discriminate].
  exists v. split; [reflexivity|]. split; [|exact H]. now apply (rfc_add_spec path v d d' NE H).
Qed.

Theorem rfc_move_spec from path d d' : path <> [] -> rfc_do (PMove (Some from) path) d = Some d' ->
  exists v d1, rfc6901_eval from d = Some v /\ proper_prefix from path = false /\
               rfc_remove from d = Some d1 /\ rfc_add path v d1 = Some d' /\ rfc6901_eval path d' = Some v.
Proof.
  simpl. intros NE H. destruct (rfc6901_eval from d) as [v|] eqn:E; [|discriminate].
  destruct (proper_prefix from path) eqn:P; [discriminate|].
  destruct (rfc_remove from d) as [d1|] eqn:R; [|discriminate].
  exists v, d1. repeat split; auto. now apply (rfc_add_spec path v d1 d' NE H).
Qed.

Theorem rfc_test_spec path v d d' : rfc_do (PTest path (Some v)) d = Some d' <->
  d' = d /\ rfc6901_eval path d = Some v.
Proof.
  simpl. split.
  - intros H. destruct (rfc6901_eval path d) as [x|] eqn:E; [|discriminate].
    destruct (node_eqb v x) eqn:Q; [|discriminate]. injection H as <-. apply node_eqb_eq in Q. subst x. auto.
  - intros [-> E]. rewrite E. assert (Q : node_eqb v v = true) by now apply node_eqb_eq. now rewrite Q.
Qed.

(* missing operands are errors *)
Theorem rfc_missing_operand d :
  (forall p, rfc_do (PAdd p None) d = None) /\ (forall p, rfc_do (PReplace p None) d = None) /\
  (forall p, rfc_do (PTest p None) d = None) /\ (forall p, rfc_do (PMove None p) d = None) /\
  (forall p, rfc_do (PCopy None p) d = None).
Proof. repeat split; reflexivity. Qed.
