(* Proofs/RebuildExactProofs.v — the converse half of "re-inserting every flattened pair, in any
   order, into an EMPTY document reproduces the same flattened view": the rebuilt document has no
   other leaves.  The only candidates are the nulls that ListBuilder.Set pads with; a padding null
   sits at a list position whose item in the original contains a scalar (that is the domain
   condition "every list item contains at least one scalar"), and writing that scalar replaces it. *)
From Coq Require Import List String Ascii ZArith Lia Bool Arith Permutation.
From YT Require Import Base.Str Base.KV Model.Doc Model.Dom Model.Pointer Model.Path Model.Builder
  Proofs.StrProofs Proofs.BuilderProofs Proofs.PathProofs Proofs.FrameProofs Proofs.RebuildProofs.
Import ListNotations.
Local Open Scope list_scope.

(* n is a partial rebuild of d: what n has, d has at the same place; list items may still be the
   padding null *)
Inductive sim : node -> node -> Prop :=
| sim_leaf v : sim (Leaf v) (Leaf v)
| sim_lst ns ds :
    List.length ns <= List.length ds ->
    (forall i x, nth_error ns i = Some x -> x = null \/ exists y, nth_error ds i = Some y /\ sim x y) ->
    sim (Lst ns) (Lst ds)
| sim_con nk dk :
    (forall k x, kv_get k nk = Some x -> exists y, kv_get k dk = Some y /\ sim x y) ->
    sim (Con nk) (Con dk).

Definition psim (n d : node) : Prop := n = null \/ sim n d.

Lemma as_con_null : as_con null = []. Proof. reflexivity. Qed.
Lemma as_list_null : as_list null = []. Proof. reflexivity. Qed.

Lemma nth_error_pad_lt l n j : j < List.length l -> nth_error (pad_to l n) j = nth_error l j.
Proof. intros H. unfold pad_to. now rewrite nth_error_app1. Qed.

Lemma nth_error_pad_ge l n j : List.length l <= j -> j < n -> nth_error (pad_to l n) j = Some null.
Proof.
  intros H1 H2. unfold pad_to. rewrite nth_error_app2 by exact H1.
  assert (L : j - List.length l < n - List.length l) by lia.
  revert L. generalize (j - List.length l) (n - List.length l). intros a b.
  revert a. induction b as [|b IH]; intros a L; [lia|]. destruct a; [reflexivity|]. simpl. apply IH. lia.
Qed.

(* writing a leaf of d into a partial rebuild of d gives a partial rebuild of d *)
Theorem sim_set : forall sigma d n v,
  get_steps sigma d = Some (Leaf v) -> psim n d -> sim (set_steps sigma (Leaf v) n) d.
Proof.
  induction sigma as [|s sigma IH]; intros d n v G P.
  - simpl in G. injection G as ->. constructor.
  - destruct s as [k|i]; simpl in G.
    + destruct d as [w|ds|dk]; try discriminate.
      destruct (kv_get k dk) as [y|] eqn:Gy; [|discriminate].
      cbn [set_steps]. constructor. intros k' x Hx.
      destruct (String.eqb_spec k' k) as [->|NE].
      * rewrite kv_get_set_same in Hx. injection Hx as <-. exists y. split; [exact Gy|].
        apply IH; [exact G|]. unfold kid.
        destruct P as [->|S]; [left; reflexivity|].
        inversion S as [| |nk dk' Hk]; subst. cbn [as_con].
        destruct (kv_get k nk) as [x0|] eqn:Gx; [|now left].
        destruct (Hk k x0 Gx) as [y' [Gy' Sx]]. rewrite Gy in Gy'. injection Gy' as <-. now right.
      * rewrite kv_get_set_other in Hx by exact NE.
        destruct P as [->|S]; [rewrite as_con_null in Hx; discriminate|].
        inversion S as [| |nk dk' Hk]; subst. cbn [as_con] in Hx. now apply Hk.
    + destruct d as [w|ds|dk]; try discriminate.
      destruct (nth_error ds i) as [y|] eqn:Ny; [|discriminate].
      assert (Li : i < List.length ds) by (apply nth_error_Some; congruence).
      cbn [set_steps].
      assert (Hl : List.length (as_list n) <= List.length ds /\
                   forall j x, nth_error (as_list n) j = Some x -> x = null \/ exists y', nth_error ds j = Some y' /\ sim x y').
      { destruct P as [->|S]; [rewrite as_list_null; split; [simpl; lia|intros j x H; destruct j; discriminate]|].
        inversion S as [|ns ds' Hlen Hit|]; subst. cbn [as_list]. now split. }
      destruct Hl as [Hlen Hit].
      constructor.
      * rewrite list_upd_length, pad_to_length. lia.
      * intros j x Hx. destruct (Nat.eq_dec j i) as [->|NE].
        -- rewrite nth_error_list_upd_same in Hx by (rewrite pad_to_length; lia). injection Hx as <-.
           right. exists y. split; [exact Ny|]. apply IH; [exact G|].
           unfold item. destruct (Nat.lt_ge_cases i (List.length (as_list n))) as [Lt|Ge].
           ++ destruct (nth_error (as_list n) i) as [x0|] eqn:N0; [|apply nth_error_None in N0; lia].
              unfold pad_to. rewrite app_nth1 by exact Lt. rewrite (nth_error_nth _ _ _ N0).
              destruct (Hit i x0 N0) as [->|[y' [Ny' Sx]]]; [now left|].
              rewrite Ny in Ny'. injection Ny' as <-. now right.
           ++ left. unfold pad_to. rewrite app_nth2 by exact Ge. apply nth_repeat_null.
        -- rewrite nth_error_list_upd_other in Hx by congruence.
           destruct (Nat.lt_ge_cases j (List.length (as_list n))) as [Lt|Ge].
           ++ rewrite nth_error_pad_lt in Hx by exact Lt. now apply Hit.
           ++ assert (Lj : j < S i).
              { assert (Hs : nth_error (pad_to (as_list n) (S i)) j <> None) by congruence.
                apply nth_error_Some in Hs. rewrite pad_to_length in Hs. lia. }
              rewrite nth_error_pad_ge in Hx by assumption. injection Hx as <-. now left.
Qed.

(* ---------- the domain condition *)
Fixpoint eis (n : node) : bool :=
  match n with
  | Leaf _ => true
  | Lst xs => forallb (fun x => negb (Nat.eqb (scalar_count x) 0) && eis x) xs
  | Con kvs => forallb (fun kv => eis (snd kv)) kvs
  end.

Lemma has_scalar_leafpos x : scalar_count x <> 0 -> exists sigma v, In (sigma, v) (flatten_steps x).
Proof.
  intros H. rewrite <- flatten_steps_count in H. destruct (flatten_steps x) as [|[s v] r]; [contradiction|].
  exists s, v. now left.
Qed.

(* ---------- a COMPLETE partial rebuild has no other leaves *)
Theorem sim_complete_exact : forall n d,
  wf n = true -> wf d = true -> eis d = true -> sim n d ->
  (forall sigma v, In (sigma, v) (flatten_steps d) -> get_steps sigma n = Some (Leaf v)) ->
  forall tau w, In (tau, w) (flatten_steps n) -> In (tau, w) (flatten_steps d).
Proof.
  induction n as [a|ns IH|nk IH] using node_ind'; intros d Wn W E S C tau w Hin.
  - inversion S; subst. exact Hin.
  - inversion S as [|ns' ds Hlen Hit|]; subst.
    rewrite flatten_steps_lst in Hin. apply In_fs_list in Hin as [j [x [rest [-> [Nj Hr]]]]]. cbn [Nat.add].
    assert (Lj : j < List.length ds).
    { assert (Hs : nth_error ns j <> None) by congruence. apply nth_error_Some in Hs. lia. }
    destruct (nth_error ds j) as [y|] eqn:Ny; [|apply nth_error_None in Ny; lia].
    simpl in W, E, Wn. rewrite forallb_forall in W, E, Wn.
    pose proof (W y (nth_error_In _ _ Ny)) as Wy.
    pose proof (E y (nth_error_In _ _ Ny)) as Ey. apply andb_prop in Ey as [Hsc Ey].
    apply negb_true_iff, Nat.eqb_neq in Hsc.
    assert (Cx : forall sigma v, In (sigma, v) (flatten_steps y) -> get_steps sigma x = Some (Leaf v)).
    { intros sigma v Hs. specialize (C (I j :: sigma) v). cbn [get_steps] in C. rewrite Nj in C. apply C.
      rewrite flatten_steps_lst. replace j with (0 + j) by lia. eapply fs_list_In; eauto. }
    assert (Sx : sim x y).
    { destruct (Hit j x Nj) as [->|[y' [Ny' Sx]]].
      - destruct (has_scalar_leafpos y Hsc) as [sigma [v Hs]]. specialize (Cx sigma v Hs).
        destruct sigma as [|s sigma']; [|destruct s; simpl in Cx; discriminate].
        simpl in Cx. unfold null in Cx. injection Cx as Ev. subst v.
        pose proof (flatten_steps_get _ _ _ Wy Hs) as Gy. simpl in Gy. injection Gy as Ey'. subst y. constructor.
      - rewrite Ny in Ny'. injection Ny' as <-. exact Sx. }
    rewrite flatten_steps_lst. replace j with (0 + j) by lia. eapply fs_list_In; [exact Ny|].
    rewrite Forall_forall in IH.
    apply (IH x (nth_error_In _ _ Nj) y (Wn x (nth_error_In _ _ Nj)) Wy Ey Sx Cx rest w Hr).
  - inversion S as [| |nk' dk Hk]; subst.
    rewrite flatten_steps_con in Hin. apply In_fs_kvs in Hin as [k [x [rest [-> [Hkx Hr]]]]].
    simpl in Wn. apply andb_prop in Wn as [SKn Wn].
    simpl in W. apply andb_prop in W as [SKd W]. simpl in E. rewrite forallb_forall in W, E, Wn.
    pose proof (in_get k x nk (sorted_nodup nk SKn) Hkx) as Gx.
    destruct (Hk k x Gx) as [y [Gy Sx]].
    pose proof (get_in k y dk Gy) as Iny.
    assert (Cx : forall sigma v, In (sigma, v) (flatten_steps y) -> get_steps sigma x = Some (Leaf v)).
    { intros sigma v Hs. specialize (C (K k :: sigma) v). cbn [get_steps] in C. rewrite Gx in C. apply C.
      rewrite flatten_steps_con. eapply fs_kvs_In; eauto. }
    rewrite flatten_steps_con. eapply fs_kvs_In; [exact Iny|].
    rewrite Forall_forall in IH.
    apply (IH (k, x) Hkx y (Wn (k, x) Hkx) (W (k, y) Iny) (E (k, y) Iny) Sx Cx rest w Hr).
Qed.

(* ---------- the step-wise set keeps documents well formed *)
Lemma wf_as_con n : wf n = true -> wf_kvs (as_con n) = true.
Proof. destruct n; simpl; auto. Qed.

Lemma wf_set_steps : forall sigma v n, wf n = true -> wf v = true -> wf (set_steps sigma v n) = true.
Proof.
  induction sigma as [|s sigma IH]; intros v n Wn Wv; [exact Wv|].
  destruct s as [k|i]; cbn [set_steps].
  - rewrite wf_con. apply wf_kvs_set; [now apply wf_as_con|].
    apply IH; [|exact Wv]. unfold kid. destruct (kv_get k (as_con n)) as [x|] eqn:G; [|reflexivity].
    eapply wf_kvs_get; [apply wf_as_con; exact Wn|exact G].
  - simpl. apply forallb_list_upd; [apply forallb_pad_to, wf_as_list, Wn|].
    apply IH; [|exact Wv]. unfold item. apply wf_nth. apply forallb_pad_to, wf_as_list, Wn.
Qed.

(* ---------- rebuilding from the empty document: exactly the same flattened view *)
Lemma rebuild_sim : forall l d acc,
  wf d = true -> (forall e, In e l -> In e (flatten_steps d)) -> sim acc d -> sim (rebuild l acc) d.
Proof.
  induction l as [|[s v] r IH]; intros d acc W H S; [exact S|].
  simpl. apply IH; [exact W|intros e He; apply H; now right|].
  unfold put. simpl. apply sim_set; [|now right].
  apply flatten_steps_get; [exact W|]. apply H. now left.
Qed.

Lemma rebuild_wf : forall l acc, wf acc = true -> wf (rebuild l acc) = true.
Proof.
  induction l as [|[s v] r IH]; intros acc W; [exact W|]. simpl. apply IH. unfold put. now apply wf_set_steps.
Qed.

Theorem rebuild_exact kvs l :
  wf (Con kvs) = true -> eis (Con kvs) = true ->
  Permutation l (flatten_steps (Con kvs)) ->
  forall e, In e (flatten_steps (rebuild l (Con []))) <-> In e (flatten_steps (Con kvs)).
Proof.
  intros W E P [tau w].
  assert (Hl : forall e, In e l -> In e (flatten_steps (Con kvs))) by (intros e He; eapply Permutation_in; eauto).
  assert (S : sim (rebuild l (Con [])) (Con kvs)).
  { apply rebuild_sim; [exact W|exact Hl|]. constructor. intros k x H. discriminate. }
  assert (C : forall sigma v, In (sigma, v) (flatten_steps (Con kvs)) ->
                get_steps sigma (rebuild l (Con [])) = Some (Leaf v)).
  { intros sigma v Hs. apply rebuild_complete.
    - eapply flatten_steps_compatible; eauto.
    - eapply Permutation_in; [apply Permutation_sym; exact P|exact Hs]. }
  split.
  - apply (sim_complete_exact _ _ (rebuild_wf l (Con []) eq_refl) W E S C).
  - intros H. apply flatten_steps_complete. now apply C.
Qed.

(* the same on path strings: AddValueAt of every flattened pair, in any order, into the empty
   document gives a document with the same flattened view (as a set of pairs = as a Go map) *)
Theorem rebuild_any_order_exact kvs (l : list (string * scalar)) :
  wf (Con kvs) = true -> keys_safe (Con kvs) = true -> eis (Con kvs) = true ->
  Permutation l (flatten (Con kvs)) ->
  forall e, In e (flatten (Con (fold_left put_path l []))) <-> In e (flatten (Con kvs)).
Proof.
  intros W S E P e.
  rewrite flatten_steps_render in P.
  set (f := fun e : list step * scalar => (render_steps (fst e), snd e)) in *.
  apply Permutation_map_inv in P as [l' [-> P']]. apply Permutation_sym in P'.
  assert (Fl : Forall (fun e => exists k r, fst e = K k :: r /\ forallb step_safe (K k :: r) = true) l').
  { apply Forall_forall. intros [s x] He. apply (Permutation_in _ P') in He.
    pose proof (flatten_steps_safe _ _ _ S He) as Ss.
    rewrite flatten_steps_con in He. apply In_fs_kvs in He as [k [y [rest [-> _]]]].
    exists k, rest. split; [reflexivity|exact Ss]. }
  subst f. rewrite (rebuild_paths l' [] Fl).
  rewrite !flatten_steps_render, !in_map_iff.
  split; intros [x [Ex Hx]]; exists x; (split; [exact Ex|]); now apply (rebuild_exact kvs l' W E P').
Qed.
