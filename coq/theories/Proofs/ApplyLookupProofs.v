(* Proofs/ApplyLookupProofs.v — Apply with a single Add/Change at a flatten-style path p makes
   Lookup(p) return that value. *)
From Coq Require Import List String Ascii ZArith Lia Bool Arith.
From YT Require Import Base.Str Base.KV Base.Sort Model.Doc Model.Dom Model.Pointer Model.Path Model.Builder
  Model.Equals Model.Diff Model.Apply
  Proofs.StrProofs Proofs.BuilderProofs Proofs.PathProofs Proofs.ListCompProofs Proofs.ApplyProofs Proofs.FrameProofs Proofs.DiffProofs.
Import ListNotations.
Local Open Scope list_scope.

(* the "." split of a rendered step list gives back its rendered components *)
Lemma split_dots_render k r :
  forallb step_safe (K k :: r) = true ->
  split_dots (render_steps (K k :: r)) = map render_comp (group (K k :: r)).
Proof.
  intros S. set (sigma := K k :: r) in *. set (p := group sigma).
  assert (Hp : steps_of p = sigma) by apply group_spec.
  assert (NE : p <> []). { intro E. rewrite E in Hp. discriminate. }
  pose proof (group_safe sigma S) as Fs. fold p in Fs.
  assert (Fne : Forall (fun c => fst c <> ""%string) p).
  { eapply Forall_impl; [|exact Fs]. intros c Hc. now apply key_safe_chars in Hc as [? _]. }
  unfold render_steps. rewrite <- Hp, render_steps_from by assumption.
  unfold dot_join. simpl String.eqb. cbv iota.
  unfold split_dots, render_spath. rewrite split_join.
  - rewrite map_map. generalize p. intros q. induction q as [|c q' IH]; [reflexivity|]. simpl. now rewrite IH, sl_la.
  - intro E. apply map_eq_nil in E. contradiction.
  - apply Forall_map. eapply Forall_impl; [|exact Fs]. intros [k0 i0] Hc. simpl in Hc.
    apply nodot_render_comp. now apply key_safe_nodot.
Qed.

Lemma render_comp_plain k : render_comp (k, []) = k.
Proof. reflexivity. Qed.

(* applyList builds the item chain: following the same indexes reaches the container it filled *)
Lemma follow_apply_list : forall idxs f l, idxs <> [] ->
  exists c, follow_idx (Lst (apply_list idxs f l)) idxs = Some (Con (f c)).
Proof.
  induction idxs as [|i r IH]; intros f l NE; [contradiction|].
  destruct r as [|j r'].
  - eexists. cbn [apply_list follow_idx]. rewrite list_set_same. reflexivity.
  - destruct (IH f (match nth_error l i with Some (Lst xs) => xs | _ => [] end)) as [c Hc]; [discriminate|].
    exists c. change (apply_list (i :: j :: r') f l) with
      (list_set l i (Lst (apply_list (j :: r') f (match nth_error l i with Some (Lst xs) => xs | _ => [] end)))).
    cbn [follow_idx]. rewrite list_set_same. exact Hc.
Qed.

Lemma apply_add_cons2 c x y v kvs :
  apply_add (c :: x :: y) v kvs =
  match parse_list_comp c with
  | Some (n, idxes) =>
      let l := match child n kvs with Some (Lst xs) => xs | _ => [] end in
      add n (Lst (apply_list idxes (apply_add (x :: y) v) l)) kvs
  | None =>
      let s := match child c kvs with Some (Con s) => s | _ => [] end in
      add c (Con (apply_add (x :: y) v s)) kvs
  end.
Proof. reflexivity. Qed.

Theorem get_apply_add : forall p v kvs,
  p <> [] -> Forall (fun c => key_safe (fst c) = true) p ->
  get_path p (apply_add (map render_comp p) v kvs) = Some v.
Proof.
  induction p as [|[k idxs] r IH]; intros v kvs NE F; [contradiction|].
  inversion F as [|? ? Sk Fr]; subst. simpl in Sk.
  assert (Pk : plain_comp k = true) by now apply key_safe_plain.
  destruct r as [|c' r'].
  - simpl. unfold add. rewrite comp_parse_render by exact Pk. apply get_add_comp_same.
  - change (map render_comp ((k, idxs) :: c' :: r')) with
      (render_comp (k, idxs) :: map render_comp (c' :: r')).
    set (rest := map render_comp (c' :: r')).
    assert (Erest : exists x y, rest = x :: y) by (unfold rest; simpl; eauto).
    destruct Erest as [x [y Erest]].
    change (get_path ((k, idxs) :: c' :: r')) with
      (fun kvs0 => match get_comp (k, idxs) kvs0 with Some (Con s) => get_path (c' :: r') s | _ => None end).
    cbv beta. rewrite Erest, apply_add_cons2, <- Erest. cbv zeta.
    rewrite parse_list_comp_render by exact Sk.
    destruct idxs as [|i is].
    + rewrite render_comp_plain. unfold add. rewrite (comp_parse_plain k Pk).
      rewrite get_add_comp_same. apply IH; [discriminate|exact Fr].
    + unfold add. rewrite (comp_parse_plain k Pk).
      unfold get_comp, add_comp. cbn [fst snd]. rewrite kv_get_set_same.
      destruct (follow_apply_list (i :: is) (apply_add rest v)
                  (match child k kvs with Some (Lst xs) => xs | _ => [] end)) as [c Hc]; [discriminate|].
      rewrite Hc. apply IH; [discriminate|exact Fr].
Qed.

Theorem apply_add_lookup k r v old t kvs :
  forallb step_safe (K k :: r) = true -> t = MAdd \/ t = MChange ->
  lookup (render_steps (K k :: r))
         (apply (Con kvs) [mkMod t (render_steps (K k :: r)) v old]) = Some (Leaf v).
Proof.
  intros S Ht.
  assert (E : apply (Con kvs) [mkMod t (render_steps (K k :: r)) v old] =
              Con (apply_add (split_dots (render_steps (K k :: r))) (Leaf v) kvs)).
  { unfold apply. simpl. unfold apply_single. simpl. now destruct Ht as [-> | ->]. }
  rewrite E, lookup_render_steps, split_dots_render by exact S.
  rewrite <- (group_spec k r) at 1.
  assert (NE : group (K k :: r) <> []).
  { intro E0. pose proof (group_spec k r) as G. rewrite E0 in G. discriminate. }
  rewrite get_steps_path by exact NE.
  apply get_apply_add; [exact NE|]. apply group_safe. exact S.
Qed.

(* ---------- applySingle(Add/Change) IS AddValueAt on flatten-style paths *)
Definition sub_of (o : option node) : list (string * node) := match o with Some (Con s) => s | _ => [] end.

Lemma follow_idx_null idxs : idxs <> [] -> follow_idx null idxs = None.
Proof. destruct idxs; [contradiction|reflexivity]. Qed.

Lemma apply_list_set_idx : forall idxs f x, idxs <> [] ->
  Lst (apply_list idxs f (as_list x)) = set_idx x idxs (Con (f (sub_of (follow_idx x idxs)))).
Proof.
  induction idxs as [|i r IH]; intros f x NE; [contradiction|].
  destruct r as [|j r'].
  - cbn [apply_list set_idx]. unfold list_set. f_equal. f_equal. f_equal. f_equal.
    destruct x as [w|xs|s]; simpl; try reflexivity.
    + now destruct i.
    + destruct (nth_error xs i) as [[| |]|]; reflexivity.
    + now destruct i.
  - change (apply_list (i :: j :: r') f (as_list x)) with
      (list_set (as_list x) i (Lst (apply_list (j :: r') f
         (match nth_error (as_list x) i with Some (Lst xs) => xs | _ => [] end)))).
    change (set_idx x (i :: j :: r') ?V) with
      (Lst (list_upd (pad_to (as_list x) (S i)) i
              (set_idx (nth i (pad_to (as_list x) (S i)) null) (j :: r') V))).
    unfold list_set. f_equal. f_equal.
    set (x' := nth i (pad_to (as_list x) (S i)) null).
    assert (E1 : match nth_error (as_list x) i with Some (Lst xs) => xs | _ => [] end = as_list x').
    { unfold x'. destruct (nth_error (as_list x) i) as [y|] eqn:N.
      - unfold pad_to. rewrite app_nth1 by (apply nth_error_Some; congruence).
        rewrite (nth_error_nth _ _ _ N). now destruct y.
      - apply nth_error_None in N. unfold pad_to. rewrite app_nth2 by lia.
        rewrite FrameProofs.nth_repeat_null. reflexivity. }
    assert (E2 : sub_of (follow_idx x (i :: j :: r')) = sub_of (follow_idx x' (j :: r'))).
    { unfold x'. destruct x as [w|xs|s]; simpl as_list.
      - rewrite FrameProofs.nth_pad_null. reflexivity.
      - cbn [follow_idx]. destruct (nth_error xs i) as [y|] eqn:N.
        + unfold pad_to. rewrite app_nth1 by (apply nth_error_Some; congruence).
          now rewrite (nth_error_nth _ _ _ N).
        + apply nth_error_None in N. unfold pad_to. rewrite app_nth2 by lia.
          rewrite FrameProofs.nth_repeat_null. reflexivity.
      - rewrite FrameProofs.nth_pad_null. reflexivity. }
    rewrite E1, E2. apply IH. discriminate.
Qed.

Theorem apply_add_is_add_at : forall p v kvs,
  p <> [] -> Forall (fun c => key_safe (fst c) = true) p ->
  apply_add (map render_comp p) v kvs = add_at p v kvs.
Proof.
  induction p as [|[k idxs] r IH]; intros v kvs NE F; [contradiction|].
  inversion F as [|? ? Sk Fr]; subst. simpl in Sk.
  assert (Pk : plain_comp k = true) by now apply key_safe_plain.
  destruct r as [|c' r'].
  - simpl. unfold add. now rewrite comp_parse_render by exact Pk.
  - change (map render_comp ((k, idxs) :: c' :: r')) with
      (render_comp (k, idxs) :: map render_comp (c' :: r')).
    set (rest := map render_comp (c' :: r')).
    assert (Erest : exists x y, rest = x :: y) by (unfold rest; simpl; eauto).
    destruct Erest as [x [y Erest]].
    rewrite Erest, apply_add_cons2, <- Erest. cbv zeta.
    rewrite parse_list_comp_render by exact Sk.
    change (add_at ((k, idxs) :: c' :: r') v kvs) with
      (add_comp (k, idxs) (Con (add_at (c' :: r') v (sub_of (get_comp (k, idxs) kvs)))) kvs).
    assert (IH' : forall s, apply_add rest v s = add_at (c' :: r') v s)
      by (intros s; apply IH; [discriminate|exact Fr]).
    destruct idxs as [|i is].
    + rewrite render_comp_plain. rewrite (child_plain_key k kvs Pk).
      unfold add. rewrite (comp_parse_plain k Pk). unfold get_comp. cbn [fst snd follow_idx].
      rewrite IH'. unfold sub_of. destruct (kv_get k kvs) as [[| |]|]; reflexivity.
    + rewrite (child_plain_key k kvs Pk).
      unfold add. rewrite (comp_parse_plain k Pk). unfold add_comp, get_comp. cbn [fst snd].
      f_equal.
      set (x0 := match kv_get k kvs with Some x => x | None => null end).
      assert (El : match kv_get k kvs with Some (Lst xs) => xs | _ => [] end = as_list x0).
      { unfold x0. destruct (kv_get k kvs) as [[| |]|]; reflexivity. }
      assert (Ef : sub_of (match kv_get k kvs with Some n => follow_idx n (i :: is) | None => None end) =
                   sub_of (follow_idx x0 (i :: is))).
      { unfold x0. destruct (kv_get k kvs); reflexivity. }
      rewrite El, Ef, apply_list_set_idx by discriminate. now rewrite IH'.
Qed.

(* hence, on path strings: applying an Add/Change is AddValueAt of the leaf *)
Theorem apply_add_is_add_value_at k r v old t kvs :
  forallb step_safe (K k :: r) = true -> t = MAdd \/ t = MChange ->
  apply (Con kvs) [mkMod t (render_steps (K k :: r)) v old] =
  Con (add_value_at (render_steps (K k :: r)) (Leaf v) kvs).
Proof.
  intros S Ht.
  assert (E : apply (Con kvs) [mkMod t (render_steps (K k :: r)) v old] =
              Con (apply_add (split_dots (render_steps (K k :: r))) (Leaf v) kvs)).
  { unfold apply. simpl. unfold apply_single. simpl. now destruct Ht as [-> | ->]. }
  rewrite E, split_dots_render by exact S. f_equal.
  assert (NE : group (K k :: r) <> []).
  { intro E0. pose proof (group_spec k r) as G. rewrite E0 in G. discriminate. }
  rewrite apply_add_is_add_at; [|exact NE|now apply group_safe].
  unfold add_value_at, parse_path. now rewrite render_steps_group by exact S.
Qed.

(* frame of an applied Add/Change: every existing diverging position is untouched *)
Theorem apply_add_frame k r k' r' v old t kvs :
  forallb step_safe (K k :: r) = true -> forallb step_safe (K k' :: r') = true -> t = MAdd \/ t = MChange ->
  diverge (K k :: r) (K k' :: r') ->
  lookup (render_steps (K k' :: r')) (Con kvs) <> None ->
  lookup (render_steps (K k' :: r')) (apply (Con kvs) [mkMod t (render_steps (K k :: r)) v old]) =
  lookup (render_steps (K k' :: r')) (Con kvs).
Proof.
  intros S S' Ht D Ex. rewrite apply_add_is_add_value_at by assumption. now apply add_value_at_frame.
Qed.

(* an applied Delete makes Lookup of that path return nothing *)
Theorem apply_delete_lookup path kvs :
  wf_kvs kvs = true -> plain_comp (last (split_dots path) ""%string) = true ->
  lookup path (apply (Con kvs) [mkMod MDelete path SNull SNull]) = None.
Proof. intros W P. unfold apply. simpl. unfold apply_single. simpl. now apply lookup_remove_at. Qed.
