(* Proofs/ApplyLookupProofs.v — Apply with a single Add/Change at a flatten-style path p makes
   Lookup(p) return that value. *)
From Coq Require Import List String Ascii ZArith Lia Bool Arith.
From YT Require Import Base.Str Base.KV Base.Sort Model.Doc Model.Dom Model.Pointer Model.Path Model.Builder
  Model.Equals Model.Diff Model.Apply
  Proofs.StrProofs Proofs.BuilderProofs Proofs.PathProofs Proofs.ListCompProofs Proofs.ApplyProofs.
Import ListNotations.
Local Open Scope list_scope.

(* the "." split of a rendered step list gives back its rendered components *)
Lemma split_dots_render k r :
  forallb step_safe (K k :: r) = true ->
  split_dots (render_steps (K k :: r)) = map render_comp (group (K k :: r)).
Proof.
  intros S. set (sigma := K k :: r) in *. set (p := group sigma).
  assert (Hp : steps_of p = sigma) by apply group_spec.
  assert (NE : p <> []). { intro E. rewrite E in Hp. discriminate. }
  pose proof (group_safe sigma S) as Fs. fold p in Fs.
  assert (Fne : Forall (fun c => fst c <> ""%string) p).
  { eapply Forall_impl; [|exact Fs]. intros c Hc. now apply key_safe_chars in Hc as [? _]. }
  unfold render_steps. rewrite <- Hp, render_steps_from by assumption.
  unfold dot_join. simpl String.eqb. cbv iota.
  unfold split_dots, render_spath. rewrite split_join.
  - rewrite map_map. generalize p. intros q. induction q as [|c q' IH]; [reflexivity|]. simpl. now rewrite IH, sl_la.
  - intro E. apply map_eq_nil in E. contradiction.
  - apply Forall_map. eapply Forall_impl; [|exact Fs]. intros [k0 i0] Hc. simpl in Hc.
    apply nodot_render_comp. now apply key_safe_nodot.
Qed.

Lemma render_comp_plain k : render_comp (k, []) = k.
Proof. reflexivity. Qed.

(* applyList builds the item chain: following the same indexes reaches the container it filled *)
Lemma follow_apply_list : forall idxs f l, idxs <> [] ->
  exists c, follow_idx (Lst (apply_list idxs f l)) idxs = Some (Con (f c)).
Proof.
  induction idxs as [|i r IH]; intros f l NE; [contradiction|].
  destruct r as [|j r'].
  - eexists. cbn [apply_list follow_idx]. rewrite list_set_same. reflexivity.
  - destruct (IH f (match nth_error l i with Some (Lst xs) => xs | _ => [] end)) as [c Hc]; [discriminate|].
    exists c. change (apply_list (i :: j :: r') f l) with
      (list_set l i (Lst (apply_list (j :: r') f (match nth_error l i with Some (Lst xs) => xs | _ => [] end)))).
    cbn [follow_idx]. rewrite list_set_same. exact Hc.
Qed.

Lemma apply_add_cons2 c x y v kvs :
  apply_add (c :: x :: y) v kvs =
  match parse_list_comp c with
  | Some (n, idxes) =>
      let l := match child n kvs with Some (Lst xs) => xs | _ => [] end in
      add n (Lst (apply_list idxes (apply_add (x :: y) v) l)) kvs
  | None =>
      let s := match child c kvs with Some (Con s) => s | _ => [] end in
      add c (Con (apply_add (x :: y) v s)) kvs
  end.
Proof. reflexivity. Qed.

Theorem get_apply_add : forall p v kvs,
  p <> [] -> Forall (fun c => key_safe (fst c) = true) p ->
  get_path p (apply_add (map render_comp p) v kvs) = Some v.
Proof.
  induction p as [|[k idxs] r IH]; intros v kvs NE F; [contradiction|].
  inversion F as [|? ? Sk Fr]; subst. simpl in Sk.
  assert (Pk : plain_comp k = true) by now apply key_safe_plain.
  destruct r as [|c' r'].
  - simpl. unfold add. rewrite comp_parse_render by exact Pk. apply get_add_comp_same.
  - change (map render_comp ((k, idxs) :: c' :: r')) with
      (render_comp (k, idxs) :: map render_comp (c' :: r')).
    set (rest := map render_comp (c' :: r')).
    assert (Erest : exists x y, rest = x :: y) by (unfold rest; simpl; eauto).
    destruct Erest as [x [y Erest]].
    change (get_path ((k, idxs) :: c' :: r')) with
      (fun kvs0 => match get_comp (k, idxs) kvs0 with Some (Con s) => get_path (c' :: r') s | _ => None end).
    cbv beta. rewrite Erest, apply_add_cons2, <- Erest. cbv zeta.
    rewrite parse_list_comp_render by exact Sk.
    destruct idxs as [|i is].
    + rewrite render_comp_plain. unfold add. rewrite (comp_parse_plain k Pk).
      rewrite get_add_comp_same. apply IH; [discriminate|exact Fr].
    + unfold add. rewrite (comp_parse_plain k Pk).
      unfold get_comp, add_comp. cbn [fst snd]. rewrite kv_get_set_same.
      destruct (follow_apply_list (i :: is) (apply_add rest v)
                  (match child k kvs with Some (Lst xs) => xs | _ => [] end)) as [c Hc]; [discriminate|].
      rewrite Hc. apply IH; [discriminate|exact Fr].
Qed.

Theorem apply_add_lookup k r v old t kvs :
  forallb step_safe (K k :: r) = true -> t = MAdd \/ t = MChange ->
  lookup (render_steps (K k :: r))
         (apply (Con kvs) [mkMod t (render_steps (K k :: r)) v old]) = Some (Leaf v).
Proof.
  intros S Ht.
  assert (E : apply (Con kvs) [mkMod t (render_steps (K k :: r)) v old] =
              Con (apply_add (split_dots (render_steps (K k :: r))) (Leaf v) kvs)).
  { unfold apply. simpl. unfold apply_single. simpl. now destruct Ht as [-> | ->]. }
  rewrite E, lookup_render_steps, split_dots_render by exact S.
  rewrite <- (group_spec k r) at 1.
  assert (NE : group (K k :: r) <> []).
  { intro E0. pose proof (group_spec k r) as G. rewrite E0 in G. discriminate. }
  rewrite get_steps_path by exact NE.
  apply get_apply_add; [exact NE|]. apply group_safe. exact S.
Qed.
