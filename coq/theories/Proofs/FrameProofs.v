(* Proofs/FrameProofs.v — the positional frame of AddValueAt: a write at one position leaves every
   existing position that diverges from it (different key, or different index, at the first
   difference) exactly as it was.  The builder's add_at (on components name[i][j]) is shown to be
   a step-wise "set" on the tree, on which the frame is a plain induction. *)
From Coq Require Import List String Ascii ZArith Lia Bool Arith.
From YT Require Import Base.Str Base.KV Model.Doc Model.Dom Model.Pointer Model.Path Model.Builder
  Proofs.StrProofs Proofs.BuilderProofs Proofs.PathProofs.
Import ListNotations.
Local Open Scope list_scope.

Definition as_con (n : node) : list (string * node) := match n with Con s => s | _ => [] end.
Definition kid (k : string) (n : node) : node := match kv_get k (as_con n) with Some x => x | None => null end.
Definition item (i : nat) (n : node) : node := nth i (pad_to (as_list n) (S i)) null.

Fixpoint set_steps (sigma : list step) (v n : node) : node :=
  match sigma with
  | [] => v
  | K k :: r => Con (kv_set k (set_steps r v (kid k n)) (as_con n))
  | I i :: r => Lst (list_upd (pad_to (as_list n) (S i)) i (set_steps r v (item i n)))
  end.

Fixpoint descend (sigma : list step) (n : node) : node :=
  match sigma with
  | [] => n
  | K k :: r => descend r (kid k n)
  | I i :: r => descend r (item i n)
  end.

Lemma set_steps_app : forall a b v n,
  set_steps (a ++ b) v n = set_steps a (set_steps b v (descend a n)) n.
Proof.
  induction a as [|s a IH]; intros b v n; [reflexivity|].
  destruct s as [k|i]; simpl; now rewrite IH.
Qed.

Lemma set_idx_steps : forall idxs x v, set_idx x idxs v = set_steps (map I idxs) v x.
Proof.
  induction idxs as [|i r IH]; intros x v; [reflexivity|].
  simpl. unfold item. now rewrite IH.
Qed.

Lemma add_comp_steps k idxs v kvs :
  add_comp (k, idxs) v kvs = as_con (set_steps (K k :: map I idxs) v (Con kvs)).
Proof.
  unfold add_comp. cbn [fst snd set_steps as_con]. unfold kid. cbn [as_con].
  destruct idxs as [|i r]; [reflexivity|]. now rewrite set_idx_steps.
Qed.

Lemma nth_repeat_null n i : nth i (repeat null n) null = null.
Proof.
  destruct (nth_in_or_default i (repeat null n) null) as [H|H]; [|exact H]. now apply repeat_spec in H.
Qed.
Lemma nth_pad_null i : nth i (pad_to [] (S i)) null = null.
Proof. unfold pad_to. rewrite app_nil_l. apply nth_repeat_null. Qed.

Lemma descend_idx_null : forall idxs, descend (map I idxs) null = null.
Proof.
  induction idxs as [|i r IH]; [reflexivity|]. simpl. unfold item. simpl as_list.
  now rewrite nth_pad_null.
Qed.

Lemma item_in l i y : nth_error l i = Some y -> item i (Lst l) = y.
Proof.
  intros H. unfold item. simpl. unfold pad_to. rewrite app_nth1 by (apply nth_error_Some; congruence).
  now apply nth_error_nth.
Qed.
Lemma item_out l i : nth_error l i = None -> item i (Lst l) = null.
Proof.
  intros H. unfold item. simpl. apply nth_error_None in H. unfold pad_to.
  rewrite app_nth2 by lia. apply nth_repeat_null.
Qed.
Lemma item_nonlist n i : as_list n = [] -> item i n = null.
Proof. intros H. unfold item. rewrite H. apply nth_pad_null. Qed.

Lemma as_con_descend_idx : forall idxs x,
  as_con (descend (map I idxs) x) = match follow_idx x idxs with Some (Con s) => s | _ => [] end.
Proof.
  induction idxs as [|i r IH]; intros x; [now destruct x|].
  simpl. destruct x as [w|xs|s].
  - rewrite item_nonlist by reflexivity. now rewrite descend_idx_null.
  - destruct (nth_error xs i) as [y|] eqn:N.
    + rewrite (item_in _ _ _ N). apply IH.
    + rewrite (item_out _ _ N). now rewrite descend_idx_null.
  - rewrite item_nonlist by reflexivity. now rewrite descend_idx_null.
Qed.

(* a step-wise set that starts with a key only looks at the container content of the old node *)
Lemma set_steps_key_con k r v n : set_steps (K k :: r) v n = set_steps (K k :: r) v (Con (as_con n)).
Proof. reflexivity. Qed.

Lemma steps_of_cons c r : steps_of (c :: r) = K (fst c) :: map I (snd c) ++ steps_of r.
Proof. reflexivity. Qed.

Theorem add_at_steps : forall p v kvs, p <> [] ->
  add_at p v kvs = as_con (set_steps (steps_of p) v (Con kvs)).
Proof.
  induction p as [|[k idxs] r IH]; intros v kvs NE; [contradiction|].
  destruct r as [|c' r'].
  - rewrite steps_of_cons. simpl steps_of. rewrite app_nil_r. apply add_comp_steps.
  - change (add_at ((k, idxs) :: c' :: r') v kvs) with
      (add_comp (k, idxs) (Con (add_at (c' :: r') v
         (match get_comp (k, idxs) kvs with Some (Con s) => s | _ => [] end))) kvs).
    rewrite add_comp_steps, steps_of_cons. cbn [fst snd].
    change (K k :: map I idxs ++ steps_of (c' :: r')) with ((K k :: map I idxs) ++ steps_of (c' :: r')).
    rewrite set_steps_app. f_equal. f_equal.
    rewrite IH by discriminate.
    destruct c' as [k' idxs']. rewrite steps_of_cons. cbn [fst snd].
    rewrite (set_steps_key_con k' _ v (descend _ _)).
    cbn [descend]. rewrite as_con_descend_idx. unfold get_comp, kid. cbn [fst snd as_con].
    destruct (kv_get k kvs) as [x|]; [reflexivity|].
    now destruct idxs.
Qed.

(* ---------- the frame *)
Inductive diverge : list step -> list step -> Prop :=
| d_key a b r s : a <> b -> diverge (K a :: r) (K b :: s)
| d_idx i j r s : i <> j -> diverge (I i :: r) (I j :: s)
| d_cons x r s : diverge r s -> diverge (x :: r) (x :: s).

Theorem set_steps_frame : forall sigma tau v n,
  diverge sigma tau -> get_steps tau n <> None ->
  get_steps tau (set_steps sigma v n) = get_steps tau n.
Proof.
  intros sigma tau v n D. revert v n. induction D as [a b r s NE|i j r s NE|x r s D IH]; intros v n Ex.
  - simpl in *. destruct n as [w|xs|kvs]; try congruence. cbn [as_con].
    rewrite kv_get_set_other by congruence. reflexivity.
  - simpl in *. destruct n as [w|xs|kvs]; try congruence. cbn [as_list].
    destruct (nth_error xs j) as [y|] eqn:N; [|congruence].
    rewrite nth_error_list_upd_other by congruence.
    unfold pad_to. rewrite nth_error_app1 by (apply nth_error_Some; congruence). now rewrite N.
  - destruct x as [k|i]; simpl in *.
    + destruct n as [w|xs|kvs]; try congruence. cbn [as_con]. unfold kid. cbn [as_con].
      rewrite kv_get_set_same. destruct (kv_get k kvs) as [y|]; [|congruence]. now apply IH.
    + destruct n as [w|xs|kvs]; try congruence. cbn [as_list].
      destruct (nth_error xs i) as [y|] eqn:N; [|congruence].
      rewrite nth_error_list_upd_same by (rewrite pad_to_length; lia).
      rewrite (item_in _ _ _ N). now apply IH.
Qed.

(* the same on path strings: Lookup of any existing flatten-style path that diverges from the
   written one is unchanged by AddValueAt *)
Theorem add_value_at_frame k r k' r' v kvs :
  forallb step_safe (K k :: r) = true -> forallb step_safe (K k' :: r') = true ->
  diverge (K k :: r) (K k' :: r') ->
  lookup (render_steps (K k' :: r')) (Con kvs) <> None ->
  lookup (render_steps (K k' :: r')) (Con (add_value_at (render_steps (K k :: r)) v kvs)) =
  lookup (render_steps (K k' :: r')) (Con kvs).
Proof.
  intros S S' D Ex. rewrite !lookup_render_steps in * by assumption.
  unfold add_value_at, parse_path. rewrite render_steps_group by exact S.
  assert (NE : group (K k :: r) <> []).
  { intro E0. pose proof (group_spec k r) as G. rewrite E0 in G. discriminate. }
  rewrite add_at_steps by exact NE. rewrite group_spec.
  change (Con (as_con (set_steps (K k :: r) v (Con kvs)))) with (set_steps (K k :: r) v (Con kvs)).
  now apply set_steps_frame.
Qed.

(* ---------- the frame of RemoveAt *)
Fixpoint rm (p : spath) (last : string) (kvs : list (string * node)) : list (string * node) :=
  match p with
  | [] => kv_del last kvs
  | c :: r => match get_comp c kvs with
              | Some (Con s) => add_comp c (Con (rm r last s)) kvs
              | _ => kvs
              end
  end.

Lemma remove_at_comps_cons2 c x y kvs :
  remove_at_comps (c :: x :: y) kvs =
  match child c kvs with
  | Some (Con s) => add_comp (comp_parse c) (Con (remove_at_comps (x :: y) s)) kvs
  | _ => kvs
  end.
Proof. reflexivity. Qed.

Lemma remove_at_comps_rm : forall p last kvs,
  Forall (fun c => key_safe (fst c) = true) p ->
  remove_at_comps (map render_comp p ++ [last]) kvs = rm p last kvs.
Proof.
  induction p as [|[k idxs] r IH]; intros last kvs F; [reflexivity|].
  inversion F as [|? ? Sk Fr]; subst. simpl in Sk.
  assert (Pk : plain_comp k = true) by now apply key_safe_plain.
  assert (E : exists x y, map render_comp r ++ [last] = x :: y).
  { destruct r as [|c' r']; simpl; eauto. }
  destruct E as [x [y E]].
  change (map render_comp ((k, idxs) :: r) ++ [last]) with
    (render_comp (k, idxs) :: (map render_comp r ++ [last])).
  rewrite E, remove_at_comps_cons2, <- E.
  rewrite child_get_comp, comp_parse_render by exact Pk.
  cbn [rm]. destruct (get_comp (k, idxs) kvs) as [[w|xs|s]|]; try reflexivity.
  now rewrite IH.
Qed.

Lemma get_steps_app : forall a b n,
  get_steps (a ++ b) n = match get_steps a n with Some x => get_steps b x | None => None end.
Proof.
  induction a as [|s a IH]; intros b n; [reflexivity|].
  destruct s as [k|i]; simpl.
  - destruct n as [w|xs|kvs]; try reflexivity. destruct (kv_get k kvs); [apply IH|reflexivity].
  - destruct n as [w|xs|kvs]; try reflexivity. destruct (nth_error xs i); [apply IH|reflexivity].
Qed.

Lemma get_set_steps_same : forall a v n, get_steps a (set_steps a v n) = Some v.
Proof.
  induction a as [|s a IH]; intros v n; [reflexivity|].
  destruct s as [k|i]; simpl.
  - rewrite kv_get_set_same. apply IH.
  - rewrite nth_error_list_upd_same by (rewrite pad_to_length; lia). apply IH.
Qed.

Lemma diverge_app : forall a b tau,
  diverge (a ++ b) tau -> diverge a tau \/ exists t, tau = a ++ t /\ diverge b t.
Proof.
  induction a as [|x a IH]; intros b tau D.
  - right. exists tau. split; [reflexivity|exact D].
  - simpl in D. inversion D as [k1 k2 r s NE|i j r s NE|x' r s D']; subst.
    + left. now constructor.
    + left. now constructor.
    + destruct (IH b s D') as [L|[t [-> Dt]]].
      * left. now constructor.
      * right. exists t. split; [reflexivity|exact Dt].
Qed.

Lemma get_steps_comp k idxs kvs :
  get_steps (K k :: map I idxs) (Con kvs) = get_comp (k, idxs) kvs.
Proof.
  unfold get_comp. simpl. destruct (kv_get k kvs) as [x|]; [|reflexivity].
  rewrite <- (app_nil_r (map I idxs)), get_steps_I. now destruct (follow_idx x idxs).
Qed.

Theorem rm_frame : forall p last kvs tau,
  diverge (steps_of p ++ [K last]) tau -> get_steps tau (Con kvs) <> None ->
  get_steps tau (Con (rm p last kvs)) = get_steps tau (Con kvs).
Proof.
  induction p as [|[k idxs] r IH]; intros last kvs tau D Ex.
  - simpl in D. inversion D as [a b r0 s NE| |x r0 s D']; subst.
    + simpl. rewrite kv_get_del_other by congruence. reflexivity.
    + inversion D'.
  - cbn [rm]. destruct (get_comp (k, idxs) kvs) as [[w|xs|s]|] eqn:G; try reflexivity.
    rewrite add_comp_steps.
    change (Con (as_con (set_steps (K k :: map I idxs) (Con (rm r last s)) (Con kvs)))) with
      (set_steps (K k :: map I idxs) (Con (rm r last s)) (Con kvs)).
    rewrite steps_of_cons in D. cbn [fst snd] in D.
    replace ((K k :: map I idxs ++ steps_of r) ++ [K last]) with
      ((K k :: map I idxs) ++ (steps_of r ++ [K last])) in D by (simpl; now rewrite <- app_assoc).
    apply diverge_app in D as [D|[t [-> Dt]]].
    + now apply set_steps_frame.
    + rewrite get_steps_app, get_set_steps_same.
      rewrite get_steps_app, get_steps_comp, G in Ex |- *.
      now apply IH.
Qed.

Lemma group_I_fold : forall idxs P acc,
  fold_right group_f (P, acc) (map I idxs) = (P, idxs ++ acc).
Proof. induction idxs as [|i r IH]; intros P acc; [reflexivity|]. simpl. now rewrite IH. Qed.

Lemma group_fold_steps_of : forall p q,
  fold_right group_f (q, []) (steps_of p) = (p ++ q, []).
Proof.
  induction p as [|[k idxs] r IH]; intros q; [reflexivity|].
  rewrite steps_of_cons. cbn [fst snd fold_right]. rewrite fold_right_app, IH, group_I_fold.
  simpl. now rewrite app_nil_r.
Qed.

Lemma group_snoc_key p last : group (steps_of p ++ [K last]) = p ++ [(last, [])].
Proof.
  unfold group, group_raw. rewrite fold_right_app. simpl. now rewrite group_fold_steps_of.
Qed.

Lemma steps_of_snoc p last : steps_of p ++ [K last] = steps_of (p ++ [(last, [])]).
Proof. unfold steps_of. rewrite flat_map_app. simpl. reflexivity. Qed.

Lemma split_dots_render_spath p :
  p <> [] -> Forall (fun c => key_safe (fst c) = true) p ->
  split_dots (render_steps (steps_of p)) = map render_comp p.
Proof.
  intros NE Fs.
  assert (Fne : Forall (fun c => fst c <> ""%string) p).
  { eapply Forall_impl; [|exact Fs]. intros c Hc. now apply key_safe_chars in Hc as [? _]. }
  unfold render_steps. rewrite render_steps_from by assumption.
  unfold dot_join. simpl String.eqb. cbv iota.
  unfold split_dots, render_spath. rewrite split_join.
  - rewrite map_map. generalize p. intros q. induction q as [|c q' IH]; [reflexivity|]. simpl. now rewrite IH, sl_la.
  - intro E. apply map_eq_nil in E. contradiction.
  - apply Forall_map. eapply Forall_impl; [|exact Fs]. intros [k0 i0] Hc. simpl in Hc.
    apply nodot_render_comp. now apply key_safe_nodot.
Qed.

Lemma render_comp_plain_key k : render_comp (k, []) = k.
Proof. reflexivity. Qed.

(* on path strings: RemoveAt of "<position>.<key>" leaves every existing diverging path alone *)
Theorem remove_at_frame p last k' r' kvs :
  Forall (fun c => key_safe (fst c) = true) p -> key_safe last = true ->
  forallb step_safe (K k' :: r') = true ->
  diverge (steps_of p ++ [K last]) (K k' :: r') ->
  lookup (render_steps (K k' :: r')) (Con kvs) <> None ->
  lookup (render_steps (K k' :: r')) (Con (remove_at (render_steps (steps_of p ++ [K last])) kvs)) =
  lookup (render_steps (K k' :: r')) (Con kvs).
Proof.
  intros Fp Sl S' D Ex. rewrite !lookup_render_steps in * by assumption.
  unfold remove_at. rewrite steps_of_snoc, split_dots_render_spath.
  - rewrite map_app. simpl map. rewrite render_comp_plain_key.
    rewrite remove_at_comps_rm by exact Fp. now apply rm_frame.
  - now destruct p.
  - apply Forall_app. split; [exact Fp|]. constructor; [exact Sl|constructor].
Qed.
