From Coq Require Import List String Ascii ZArith Lia Bool Arith.
From YT Require Import Base.Str Base.KV Base.Sort Model.Doc Model.Dom Model.Pointer Model.Path Model.Builder
  Model.Equals Model.Diff Model.Apply Proofs.StrProofs Proofs.BuilderProofs Proofs.PathProofs.
Import ListNotations.
Local Open Scope list_scope.
Local Open Scope nat_scope.

Theorem apply_nil d : apply d [] = d.
Proof. destruct d; reflexivity. Qed.

(* ---------- writing back what is already there changes nothing *)
Lemma list_upd_id : forall l i y, nth_error l i = Some y -> list_upd l i y = l.
Proof.
  induction l as [|x r IH]; intros [|i] y H; simpl in *; try discriminate.
  - now injection H as ->.
  - f_equal. now apply IH.
Qed.

Lemma pad_to_id l n : n <= List.length l -> pad_to l n = l.
Proof. intros H. unfold pad_to. replace (n - List.length l) with 0 by lia. simpl. apply app_nil_r. Qed.

Lemma set_idx_id : forall idxs x v, follow_idx x idxs = Some v -> set_idx x idxs v = x.
Proof.
  induction idxs as [|i r IH]; intros x v F; simpl in F; [now injection F as ->|].
  destruct x as [|xs|]; try discriminate.
  destruct (nth_error xs i) as [y|] eqn:N; [|discriminate].
  simpl. assert (L : i < List.length xs) by (apply nth_error_Some; congruence).
  rewrite pad_to_id by lia. rewrite (nth_error_nth xs i null N), (IH y v F).
  f_equal. now apply list_upd_id.
Qed.

Lemma add_comp_id c v kvs : sorted_keys kvs = true -> get_comp c kvs = Some v -> add_comp c v kvs = kvs.
Proof.
  intros S G. unfold get_comp in G. unfold add_comp. destruct c as [k idxs]. cbn [fst snd] in *.
  destruct (kv_get k kvs) as [x|] eqn:E; [|discriminate].
  destruct idxs as [|i r].
  - simpl in G. injection G as ->. now apply kv_set_get_id.
  - rewrite (set_idx_id (i :: r) x v G). now apply kv_set_get_id.
Qed.

Lemma kv_del_absent {A} k (l : list (string * A)) : kv_get k l = None -> kv_del k l = l.
Proof.
  induction l as [|[k' v] r IH]; simpl; [reflexivity|].
  destruct (String.eqb k k'); [discriminate|]. intros H. now rewrite IH.
Qed.

(* keys of sub-documents are safe too *)
Definition safe_kvs (kvs : list (string * node)) : bool :=
  forallb (fun kv => key_safe (fst kv) && keys_all key_safe (snd kv)) kvs.

Lemma safe_follow_idx : forall idxs n x,
  keys_all key_safe n = true -> follow_idx n idxs = Some x -> keys_all key_safe x = true.
Proof.
  induction idxs as [|i r IH]; intros n x W F; simpl in F; [now injection F as <-|].
  destruct n as [|xs|]; try discriminate. destruct (nth_error xs i) as [y|] eqn:E; [|discriminate].
  eapply IH; [|exact F]. simpl in W. rewrite forallb_forall in W. apply W. eapply nth_error_In; eauto.
Qed.

Lemma safe_get_comp c kvs s : safe_kvs kvs = true -> get_comp c kvs = Some (Con s) -> safe_kvs s = true.
Proof.
  unfold get_comp, safe_kvs. intros H G. destruct (kv_get (fst c) kvs) as [n|] eqn:E; [|discriminate].
  apply get_in in E. rewrite forallb_forall in H. specialize (H _ E). simpl in H.
  apply andb_prop in H as [_ H]. apply (safe_follow_idx _ _ _ H) in G. exact G.
Qed.

Lemma safe_key_in kvs k x : safe_kvs kvs = true -> kv_get k kvs = Some x -> key_safe k = true.
Proof.
  unfold safe_kvs. intros H G. apply get_in in G. rewrite forallb_forall in H.
  specialize (H _ G). simpl in H. now apply andb_prop in H as [H _].
Qed.

(* deleting a path that does not resolve leaves the document as it was *)
Theorem remove_absent : forall pc kvs,
  wf_kvs kvs = true -> safe_kvs kvs = true ->
  lookup_comps pc kvs = None -> remove_at_comps pc kvs = kvs.
Proof.
  induction pc as [|c r IH]; intros kvs W S L; [reflexivity|].
  destruct r as [|c' r'].
  - simpl in *. apply kv_del_absent.
    destruct (kv_get c kvs) as [x|] eqn:E; [|reflexivity]. exfalso.
    pose proof (safe_key_in _ _ _ S E) as Ks.
    rewrite child_get_comp, (comp_parse_plain _ (key_safe_plain _ Ks)) in L.
    unfold get_comp in L. simpl in L. rewrite E in L. discriminate.
  - change (remove_at_comps (c :: c' :: r') kvs) with
      (match child c kvs with
       | Some (Con s) => add_comp (comp_parse c) (Con (remove_at_comps (c' :: r') s)) kvs
       | _ => kvs end).
    change (lookup_comps (c :: c' :: r') kvs) with
      (match child c kvs with Some (Con k') => lookup_comps (c' :: r') k' | _ => None end) in L.
    destruct (child c kvs) as [[| |s]|] eqn:G; try reflexivity.
    rewrite child_get_comp in G.
    rewrite IH; auto.
    + apply add_comp_id; [|exact G]. unfold wf_kvs in W. now apply andb_prop in W as [W _].
    + apply (wf_get_comp _ _ _ W) in G. exact G.
    + eapply safe_get_comp; eauto.
Qed.

Theorem apply_delete_absent path kvs :
  wf_kvs kvs = true -> safe_kvs kvs = true -> lookup path (Con kvs) = None -> path <> ""%string ->
  apply (Con kvs) [mkMod MDelete path SNull SNull] = Con kvs.
Proof.
  intros W S L NE. unfold apply. simpl. unfold apply_single. simpl. f_equal.
  apply remove_absent; auto. unfold lookup in L.
  destruct (String.eqb_spec path ""%string); [contradiction|exact L].
Qed.
