(* Proofs/FromPropsProofs.v — Builder().FromProperties: when no key is a dotted prefix of another
   (and the segments are path-safe), every pair of the flat map is found by Lookup in the built
   document — in any processing order.  Keys are positions made of member steps only; two keys that
   do not conflict diverge, so a later insertion never disturbs an earlier one (FrameProofs). *)
From Coq Require Import List String Ascii ZArith Lia Bool Arith Permutation.
From YT Require Import Base.Str Base.KV Base.Sort Model.Doc Model.Dom Model.Pointer Model.Path Model.Builder Model.Props
  Proofs.StrProofs Proofs.BuilderProofs Proofs.PathProofs Proofs.FrameProofs Proofs.RebuildProofs
  Proofs.ApplyLookupProofs Proofs.PropsProofs Proofs.ReconstructProofs.
Import ListNotations.
Local Open Scope list_scope.

Definition ksteps (cs : list string) : list step := map K cs.

Lemma conflict_free_diverge : forall a b,
  comps_prefix a b = false -> comps_prefix b a = false -> diverge (ksteps a) (ksteps b).
Proof.
  induction a as [|x a IH]; intros [|y b] H1 H2; simpl in *; try discriminate.
  destruct (String.eqb_spec x y) as [->|NE].
  - rewrite String.eqb_refl in H2. simpl in *. apply d_cons. now apply IH.
  - now apply d_key.
Qed.

(* a dotted key with safe segments is the rendering of its member steps *)
Lemma steps_of_plain cs : steps_of (map (fun c => (c, [])) cs) = ksteps cs.
Proof. unfold steps_of, ksteps. induction cs as [|c r IH]; [reflexivity|]. simpl. now rewrite IH. Qed.

Lemma render_ksteps cs :
  cs <> [] -> Forall (fun c => key_safe c = true) cs ->
  render_steps (ksteps cs) = join_with "."%string cs.
Proof.
  intros NE F. rewrite <- steps_of_plain. unfold render_steps. rewrite render_steps_from.
  - unfold dot_join. simpl String.eqb. cbv iota. unfold render_spath. rewrite map_map.
    f_equal. clear. induction cs as [|c r IH]; [reflexivity|]. simpl. now rewrite IH.
  - destruct cs; [contradiction|discriminate].
  - apply Forall_map. eapply Forall_impl; [|exact F]. intros c Hc. simpl. now apply key_safe_chars in Hc as [? _].
Qed.

Lemma split_join_dots cs :
  cs <> [] -> Forall (fun c => key_safe c = true) cs ->
  split_dots (join_with "."%string cs) = cs.
Proof.
  intros NE F. unfold split_dots. rewrite split_join.
  - rewrite map_map. clear. induction cs as [|c r IH]; [reflexivity|]. simpl. now rewrite IH, sl_la.
  - exact NE.
  - eapply Forall_impl; [|exact F]. intros c Hc. now apply key_safe_nodot.
Qed.

(* well-formed keys: non-empty lists of safe segments, given by their dotted spelling *)
Definition key_ok (k : string) : Prop :=
  let cs := split_dots k in Forall (fun c => key_safe c = true) cs /\ k = join_with "."%string cs.

Lemma key_ok_render k : key_ok k -> k = render_steps (ksteps (split_dots k)) /\
  forallb step_safe (ksteps (split_dots k)) = true /\ exists c r, ksteps (split_dots k) = K c :: r.
Proof.
  intros [F E]. pose proof (split_dots_nonempty k) as NE. split; [|split].
  - rewrite render_ksteps by assumption. exact E.
  - unfold ksteps. rewrite forallb_forall. intros s Hs. apply in_map_iff in Hs as [c [<- Hc]].
    rewrite Forall_forall in F. simpl. now apply F.
  - destruct (split_dots k) as [|c r]; [contradiction|]. exists c, (map K r). reflexivity.
Qed.

(* ---------- insertion of arbitrary nodes at diverging positions *)
Definition putn (acc : node) (e : list step * node) : node := set_steps (fst e) (snd e) acc.

Lemma putn_keeps : forall r acc s v,
  get_steps s acc = Some v ->
  (forall e, In e r -> e = (s, v) \/ diverge (fst e) s) ->
  get_steps s (fold_left putn r acc) = Some v.
Proof.
  induction r as [|e r IH]; intros acc s v G H; [exact G|].
  simpl. apply IH.
  - destruct (H e (or_introl eq_refl)) as [->|D].
    + unfold putn. simpl. apply get_set_steps_same.
    + unfold putn. rewrite set_steps_frame; [exact G|exact D|congruence].
  - intros e' He'. apply H. now right.
Qed.

Lemma putn_complete : forall l n s v,
  (forall e1 e2, In e1 l -> In e2 l -> e1 = e2 \/ diverge (fst e1) (fst e2)) ->
  In (s, v) l -> get_steps s (fold_left putn l n) = Some v.
Proof.
  induction l as [|e r IH]; intros n s v C Hin; [contradiction|].
  simpl. destruct Hin as [->|Hin].
  - apply putn_keeps.
    + unfold putn. simpl. apply get_set_steps_same.
    + intros e' He'. destruct (C e' (s, v)) as [E|D]; [now right|now left|now left|right; exact D].
  - apply IH; [|exact Hin]. intros e1 e2 H1 H2. apply C; now right.
Qed.

Definition put_prop (acc : list (string * node)) (e : string * node) : list (string * node) :=
  add_value_at (fst e) (snd e) acc.

Lemma fold_put_prop : forall (kv : list (string * node)) kvs,
  Forall (fun e => key_ok (fst e)) kv ->
  Con (fold_left put_prop kv kvs) =
  fold_left putn (map (fun e => (ksteps (split_dots (fst e)), snd e)) kv) (Con kvs).
Proof.
  induction kv as [|[k v] r IH]; intros kvs F; [reflexivity|].
  inversion F as [|? ? Hk Fr]; subst. simpl in Hk.
  destruct (key_ok_render k Hk) as [Ek [Sk [c [rest Ec]]]].
  simpl. unfold put_prop at 2, putn at 2. simpl fst. simpl snd.
  assert (A : Con (add_value_at k v kvs) = set_steps (ksteps (split_dots k)) v (Con kvs)).
  { rewrite Ec in *. rewrite Ek at 1. now apply add_value_at_steps. }
  destruct (set_steps (ksteps (split_dots k)) v (Con kvs)) as [|?|kvs'] eqn:Es; try discriminate.
  injection A as A. rewrite A. now apply IH.
Qed.

Theorem from_properties_ord_pairs kv k v :
  Forall (fun e => key_ok (fst e)) kv -> conflict_free kv -> In (k, v) kv ->
  lookup k (Con (from_properties_ord kv)) = Some v.
Proof.
  intros F CF Hin. unfold from_properties_ord. change (fold_left _ kv []) with (fold_left put_prop kv []).
  assert (Hk : key_ok k) by (rewrite Forall_forall in F; apply (F (k, v) Hin)).
  destruct (key_ok_render k Hk) as [Ek [Sk [c [rest Ec]]]].
  rewrite Ek at 1. rewrite Ec in *. rewrite lookup_render_steps by exact Sk.
  rewrite fold_put_prop by exact F.
  rewrite <- Ec. apply putn_complete.
  - (* pairwise: equal or diverging *)
    clear -CF. induction kv as [|e r IH]; [intros ? ? []|].
    destruct CF as [Fe CF]. intros e1 e2 [<-|H1] [<-|H2].
    + now left.
    + right. simpl. apply in_map_iff in H2 as [e2' [<- H2']]. simpl.
      rewrite Forall_forall in Fe. specialize (Fe e2' H2'). unfold conflict in Fe.
      apply orb_false_elim in Fe as [A B]. now apply conflict_free_diverge.
    + right. simpl. apply in_map_iff in H1 as [e1' [<- H1']]. simpl.
      rewrite Forall_forall in Fe. specialize (Fe e1' H1'). unfold conflict in Fe.
      apply orb_false_elim in Fe as [A B]. now apply conflict_free_diverge.
    + now apply IH.
  - apply in_map_iff. exists (k, v). split; [reflexivity|exact Hin].
Qed.

Lemma conflict_free_perm : forall l l', Permutation l l' -> conflict_free l -> conflict_free l'.
Proof.
  induction 1 as [|x l l' P IH|x y l|l l' l'' P1 IH1 P2 IH2]; intros CF.
  - exact CF.
  - destruct CF as [F CF]. split; [|now apply IH].
    eapply Permutation_Forall; eauto.
  - destruct CF as [Fy [Fx CF]]. inversion Fy as [|? ? Hyx Fy']; subst.
    split; [constructor; [now rewrite conflict_sym|exact Fx]|]. split; [exact Fy'|exact CF].
  - auto.
Qed.

Theorem from_properties_pairs kv k v :
  Forall (fun e => key_ok (fst e)) kv -> conflict_free kv -> In (k, v) kv ->
  lookup k (from_properties kv) = Some v.
Proof.
  intros F CF Hin. unfold from_properties.
  pose proof (Proofs.ReconstructProofs.isort_perm fst kv) as P. fold (sort_kv kv) in P.
  apply from_properties_ord_pairs.
  - eapply Permutation_Forall; [apply Permutation_sym; exact P|exact F].
  - eapply conflict_free_perm; [apply Permutation_sym; exact P|exact CF].
  - eapply Permutation_in; [apply Permutation_sym; exact P|exact Hin].
Qed.
