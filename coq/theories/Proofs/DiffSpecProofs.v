(* Proofs/DiffSpecProofs.v — Diff emits EXACTLY what the property's statement lists: a declarative
   relation over positions (no recursion over emission order, no accumulators) and the theorem
   that a modification is in the emission if and only if the relation holds. *)
From Coq Require Import List String Ascii ZArith Lia Bool Arith Permutation.
From YT Require Import Base.Str Base.KV Base.Sort Model.Doc Model.Dom Model.Pointer Model.Path Model.Builder
  Model.Equals Model.Diff
  Proofs.StrProofs Proofs.EqualsProofs Proofs.BuilderProofs Proofs.PathProofs
  Proofs.DiffProofs Proofs.DiffOrderProofs Proofs.DiffNilProofs Proofs.ReconstructKeyedProofs.
Import ListNotations.
Local Open Scope list_scope.

Inductive shape := ShAdd (v : scalar) | ShDel | ShChg (vnew vold : scalar).

Definition mk (path : string) (tau : list step) (sh : shape) : modif :=
  match sh with
  | ShAdd v => mkMod MAdd (relpath path tau) v SNull
  | ShDel => mkMod MDelete (relpath path tau) SNull SNull
  | ShChg vnew vold => mkMod MChange (relpath path tau) vnew vold
  end.

Definition same_kind (l r : node) : bool :=
  match l, r with Leaf _, Leaf _ | Lst _, Lst _ | Con _, Con _ => true | _, _ => false end.

(* what a diff of l against r consists of, position by position *)
Inductive dspec : node -> node -> list step -> shape -> Prop :=
| ds_change x y : x <> y -> dspec (Leaf x) (Leaf y) [] (ShChg y x)
| ds_list_del xs ys : xs <> ys -> dspec (Lst xs) (Lst ys) [] ShDel
| ds_list_add xs ys sigma v : xs <> ys -> In (sigma, v) (flatten_steps (Lst xs)) ->
    dspec (Lst xs) (Lst ys) sigma (ShAdd v)
| ds_kind_del l r : same_kind l r = false -> dspec l r [] ShDel
| ds_kind_add l r sigma v : same_kind l r = false -> In (sigma, v) (flatten_steps r) ->
    dspec l r sigma (ShAdd v)
| ds_left_only kl kr k x sigma v : In (k, x) kl -> kv_get k kr = None -> In (sigma, v) (flatten_steps x) ->
    dspec (Con kl) (Con kr) (K k :: sigma) (ShAdd v)
| ds_right_only kl kr k y : In (k, y) kr -> kv_get k kl = None ->
    dspec (Con kl) (Con kr) [K k] ShDel
| ds_both kl kr k x y tau sh : In (k, x) kl -> kv_get k kr = Some y -> dspec x y tau sh ->
    dspec (Con kl) (Con kr) (K k :: tau) sh.

Lemma adds_iff x path m :
  In m (adds canonical x path) <-> exists sigma v, In (sigma, v) (flatten_steps x) /\ m = mk path sigma (ShAdd v).
Proof.
  rewrite adds_flatten, flatten_node_steps, map_map, in_map_iff. split.
  - intros [[sigma v] [<- Hin]]. exists sigma, v. split; [exact Hin|reflexivity].
  - intros [sigma [v [Hin ->]]]. exists (sigma, v). split; [reflexivity|exact Hin].
Qed.

Lemma mk_cons path k tau sh : mk path (K k :: tau) sh = mk (to_path path k) tau sh.
Proof. destruct sh; reflexivity. Qed.

Theorem diff_exact : forall l r path m,
  wf l = true -> keys_safe l = true -> wf r = true -> keys_safe r = true ->
  (In m (diff_node canonical l r path) <-> exists tau sh, dspec l r tau sh /\ m = mk path tau sh).
Proof.
  induction l as [a|xs IH|kl IH] using node_ind'; intros r path m Wl Sl Wr Sr.
  - destruct r as [b|ys|kr].
    + simpl. destruct (scalar_eqb_spec a b) as [->|NE]; split.
      * intros [].
      * intros [tau [sh [D _]]]. inversion D; subst; try congruence; discriminate.
      * intros [<-|[]]. exists [], (ShChg b a). split; [now constructor|reflexivity].
      * intros [tau [sh [D ->]]]. inversion D; subst; try discriminate. left. reflexivity.
    + rewrite diff_node_mismatch by exact Logic.I. split.
      * intros [<-|H].
        -- exists [], ShDel. split; [now apply ds_kind_del|reflexivity].
        -- apply adds_iff in H as [sigma [v [Hin ->]]]. exists sigma, (ShAdd v). split; [now apply ds_kind_add|reflexivity].
      * intros [tau [sh [D ->]]]. inversion D; subst; try discriminate.
        -- now left.
        -- right. apply adds_iff. eauto.
    + rewrite diff_node_mismatch by exact Logic.I. split.
      * intros [<-|H].
        -- exists [], ShDel. split; [now apply ds_kind_del|reflexivity].
        -- apply adds_iff in H as [sigma [v [Hin ->]]]. exists sigma, (ShAdd v). split; [now apply ds_kind_add|reflexivity].
      * intros [tau [sh [D ->]]]. inversion D; subst; try discriminate.
        -- now left.
        -- right. apply adds_iff. eauto.
  - destruct r as [b|ys|kr].
    + rewrite diff_node_mismatch by exact Logic.I. split.
      * intros [<-|H].
        -- exists [], ShDel. split; [now apply ds_kind_del|reflexivity].
        -- apply adds_iff in H as [sigma [v [Hin ->]]]. exists sigma, (ShAdd v). split; [now apply ds_kind_add|reflexivity].
      * intros [tau [sh [D ->]]]. inversion D; subst; try discriminate.
        -- now left.
        -- right. apply adds_iff. eauto.
    + rewrite diff_node_lst. destruct (equals (Lst xs) (Lst ys)) eqn:E.
      * apply equals_iff_eq in E; auto. injection E as <-. split; [intros []|].
        intros [tau [sh [D _]]]. inversion D; subst; try congruence; discriminate.
      * assert (NE : xs <> ys) by (intros ->; rewrite equals_refl in E by exact Wl; discriminate).
        split.
        -- intros [<-|H].
           ++ exists [], ShDel. split; [now apply ds_list_del|reflexivity].
           ++ apply adds_iff in H as [sigma [v [Hin ->]]]. exists sigma, (ShAdd v). split; [now apply ds_list_add|reflexivity].
        -- intros [tau [sh [D ->]]]. inversion D; subst; try discriminate.
           ++ now left.
           ++ right. apply adds_iff. eauto.
    + rewrite diff_node_mismatch by exact Logic.I. split.
      * intros [<-|H].
        -- exists [], ShDel. split; [now apply ds_kind_del|reflexivity].
        -- apply adds_iff in H as [sigma [v [Hin ->]]]. exists sigma, (ShAdd v). split; [now apply ds_kind_add|reflexivity].
      * intros [tau [sh [D ->]]]. inversion D; subst; try discriminate.
        -- now left.
        -- right. apply adds_iff. eauto.
  - destruct r as [b|ys|kr].
    + rewrite diff_node_mismatch by exact Logic.I. split.
      * intros [<-|H].
        -- exists [], ShDel. split; [now apply ds_kind_del|reflexivity].
        -- apply adds_iff in H as [sigma [v [Hin ->]]]. exists sigma, (ShAdd v). split; [now apply ds_kind_add|reflexivity].
      * intros [tau [sh [D ->]]]. inversion D; subst; try discriminate.
        -- now left.
        -- right. apply adds_iff. eauto.
    + rewrite diff_node_mismatch by exact Logic.I. split.
      * intros [<-|H].
        -- exists [], ShDel. split; [now apply ds_kind_del|reflexivity].
        -- apply adds_iff in H as [sigma [v [Hin ->]]]. exists sigma, (ShAdd v). split; [now apply ds_kind_add|reflexivity].
      * intros [tau [sh [D ->]]]. inversion D; subst; try discriminate.
        -- now left.
        -- right. apply adds_iff. eauto.
    + assert (SKl : sorted_keys kl = true) by (simpl in Wl; now apply andb_prop in Wl as [? _]).
      assert (SKr : sorted_keys kr = true) by (simpl in Wr; now apply andb_prop in Wr as [? _]).
      assert (Wk : forall y, In y kl -> wf (snd y) = true).
      { simpl in Wl. apply andb_prop in Wl as [_ Wl]. now rewrite forallb_forall in Wl. }
      assert (Sk : forall y, In y kl -> key_safe (fst y) = true /\ keys_safe (snd y) = true).
      { unfold keys_safe in Sl. simpl in Sl. rewrite forallb_forall in Sl. intros y Hy.
        specialize (Sl y Hy). now apply andb_prop in Sl. }
      assert (Skr : forall y, In y kr -> key_safe (fst y) = true /\ keys_safe (snd y) = true).
      { unfold keys_safe in Sr. simpl in Sr. rewrite forallb_forall in Sr. intros y Hy.
        specialize (Sr y Hy). now apply andb_prop in Sr. }
      rewrite Forall_forall in IH.
      rewrite diff_node_con, dn_left_map. unfold blocks, canonical. rewrite in_app_iff.
      unfold dn_left_blocks, dn_right. rewrite !map_map, !in_concat_map. split.
      * intros [[[k x] [Hin Hm]]|[[k y] [Hin Hm]]]; simpl in Hm.
        -- destruct (Sk _ Hin) as [Sk1 Sk2]. simpl in Sk1, Sk2.
           rewrite child_plain_key in Hm by now apply key_safe_plain.
           destruct (kv_get k kr) as [y|] eqn:G.
           ++ assert (Cy : child k kr = Some y) by (rewrite child_plain_key by (now apply key_safe_plain); exact G).
              apply (IH (k, x) Hin y (to_path path k) m (Wk _ Hin) Sk2 (child_wf k kr y Sk1 Wr Cy) (child_safe k kr y Sk1 Sr Cy)) in Hm.
              destruct Hm as [tau [sh [D ->]]]. exists (K k :: tau), sh. split; [eapply ds_both; eauto|now rewrite mk_cons].
           ++ apply adds_iff in Hm as [sigma [v [Hf ->]]]. exists (K k :: sigma), (ShAdd v).
              split; [eapply ds_left_only; eauto|now rewrite mk_cons].
        -- destruct (Skr _ Hin) as [Sk1 _]. simpl in Sk1.
           rewrite child_plain_key in Hm by now apply key_safe_plain.
           destruct (kv_get k kl) as [x|] eqn:G; [contradiction|]. destruct Hm as [<-|[]].
           exists [K k], ShDel. split; [eapply ds_right_only; eauto|reflexivity].
      * intros [tau [sh [D ->]]]. inversion D; subst; try discriminate.
        -- (* left only *)
           left. exists (k, x). split; [assumption|]. simpl.
           match goal with H : In (k, x) kl |- _ => destruct (Sk _ H) as [Sk1 _] end. simpl in Sk1.
           rewrite child_plain_key by now apply key_safe_plain.
           match goal with H : kv_get k kr = None |- _ => rewrite H end.
           apply adds_iff. exists sigma, v. split; [assumption|reflexivity].
        -- (* right only *)
           right. exists (k, y). split; [assumption|]. simpl.
           match goal with H : In (k, y) kr |- _ => destruct (Skr _ H) as [Sk1 _] end. simpl in Sk1.
           rewrite child_plain_key by now apply key_safe_plain.
           match goal with H : kv_get k kl = None |- _ => rewrite H end. now left.
        -- (* both *)
           left. exists (k, x). split; [assumption|]. simpl.
           match goal with H : In (k, x) kl |- _ => destruct (Sk _ H) as [Sk1 Sk2]; pose proof H as Hin end. simpl in Sk1, Sk2.
           rewrite child_plain_key by now apply key_safe_plain.
           match goal with H : kv_get k kr = Some y |- _ => rewrite H; pose proof H as G end.
           assert (Cy : child k kr = Some y) by (rewrite child_plain_key by (now apply key_safe_plain); exact G).
           rewrite mk_cons.
           apply (IH (k, x) Hin y (to_path path k) _ (Wk _ Hin) Sk2 (child_wf k kr y Sk1 Wr Cy) (child_safe k kr y Sk1 Sr Cy)).
           eauto.
Qed.

(* Diff itself: the sorted arrangement of exactly those modifications *)
Theorem diff_members_exact l r m :
  wf l = true -> keys_safe l = true -> wf r = true -> keys_safe r = true ->
  (In m (diff l r) <-> exists tau sh, dspec l r tau sh /\ m = mk ""%string tau sh).
Proof.
  intros Wl Sl Wr Sr. unfold diff, diff_ord, diff_raw, sort_mods.
  rewrite <- (diff_exact l r ""%string m Wl Sl Wr Sr).
  split; intros H.
  - eapply Permutation_in; [apply Proofs.ReconstructProofs.isort_perm|exact H].
  - eapply Permutation_in; [apply Permutation_sym, Proofs.ReconstructProofs.isort_perm|exact H].
Qed.
