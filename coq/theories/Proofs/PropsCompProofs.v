(* Proofs/PropsCompProofs.v — props.ParsePath component by component, for EVERY property path (not only the
   flatten-style ones of PropsPathProofs): one group of segments per dot-separated component, an empty component
   inside the path kept as the segment with the empty name; a separator at the END of the text is left out, so
   "c." is read like "c" (what xform.DiffMod2PatchOp therefore makes of a modification at such a path). *)
From Coq Require Import List String Ascii ZArith NArith Lia Bool Arith.
From YT Require Import Base.Str Base.KV Model.Doc Model.Dom Model.Pointer Model.Path Model.Builder Model.Diff
  Model.Patch Model.Xform
  Proofs.StrProofs Proofs.BuilderProofs Proofs.PathProofs Proofs.ListCompProofs Proofs.PointerProofs
  Proofs.PropsPathProofs.
Import ListNotations.
Local Open Scope list_scope.

(* the segments of one component: name[i][j] gives the name and the indexes, anything else is a name *)
Definition comp_segs (c : string) : list pseg :=
  match parse_list_comp c with
  | Some (n, idxs) => PKey n :: map PIdx idxs
  | None => [PKey c]
  end.

Lemma comp_segs_empty : comp_segs "" = [PKey ""%string].
Proof. reflexivity. Qed.

Lemma props_parse_unfold raw :
  props_parse raw =
  flat_map (fun c => comp_segs (sl c))
    (split_on DOT (trim_with (fun c => Ascii.eqb c DOT) (trim_with is_space (la raw))) []).
Proof. reflexivity. Qed.

(* text that neither starts nor ends with a blank or a separator, cut at its separators *)
Theorem props_parse_components cs :
  Forall (fun c => nodot (la c) = true) cs ->
  nice (hd DOT (jl cs)) -> nice (last (jl cs) DOT) ->
  props_parse (join_with "."%string cs) = flat_map comp_segs cs.
Proof.
  intros F [H1s H1d] [H2s H2d].
  assert (NEj : jl cs <> []).
  { intro E. rewrite E in H1d. simpl in H1d. vm_compute in H1d. discriminate. }
  assert (NEc : cs <> []).
  { intro E. subst cs. apply NEj. reflexivity. }
  rewrite props_parse_unfold. fold (jl cs).
  rewrite (trim_with_ends is_space (jl cs) DOT NEj H1s H2s).
  rewrite (trim_with_ends (fun c => Ascii.eqb c DOT) (jl cs) DOT NEj H1d H2d).
  unfold jl. rewrite split_join by assumption.
  clear. induction cs as [|c r IH]; [reflexivity|].
  cbn [map flat_map]. now rewrite sl_la, IH.
Qed.

(* a separator at the end of the text is dropped before the text is cut *)
Lemma drop_while_app_stop q (a : list ascii) b x :
  forallb q a = true -> q x = false -> drop_while q (a ++ x :: b) = x :: b.
Proof.
  induction a as [|c a IH]; intros Ha Hx; simpl.
  - now rewrite Hx.
  - simpl in Ha. apply andb_prop in Ha as [Hc Ha]. rewrite Hc. now apply IH.
Qed.

Lemma trim_dots_trailing t :
  t <> [] -> Ascii.eqb (hd DOT t) DOT = false -> Ascii.eqb (last t DOT) DOT = false ->
  trim_with (fun c => Ascii.eqb c DOT) (t ++ [DOT]) = t.
Proof.
  intros NE H1 H2. unfold trim_with.
  assert (NE2 : t ++ [DOT] <> []) by (destruct t; discriminate).
  rewrite (drop_while_hd _ (t ++ [DOT]) DOT NE2).
  2:{ destruct t; [contradiction|exact H1]. }
  rewrite rev_app_distr. simpl rev at 1. cbn [app].
  simpl drop_while. replace (Ascii.eqb DOT DOT) with true by reflexivity.
  rewrite (drop_while_hd _ (rev t) DOT).
  - apply rev_involutive.
  - intro E. apply NE. apply (f_equal (@rev ascii)) in E. now rewrite rev_involutive in E.
  - now rewrite hd_rev_last.
Qed.

Lemma last_app_single {A} (l : list A) x d : last (l ++ [x]) d = x.
Proof. apply last_last. Qed.

Theorem props_parse_trailing_separator (t : string) :
  nice (hd DOT (la t)) -> nice (last (la t) DOT) ->
  props_parse (t ++ ".") = props_parse t.
Proof.
  intros [H1s H1d] [H2s H2d].
  assert (NE : la t <> []).
  { intro E. rewrite E in H1d. vm_compute in H1d. discriminate. }
  rewrite !props_parse_unfold. rewrite la_app. change (la ".") with [DOT].
  assert (NE2 : la t ++ [DOT] <> []) by (destruct (la t); discriminate).
  rewrite (trim_with_ends is_space (la t ++ [DOT]) DOT NE2).
  2:{ destruct (la t); [contradiction|exact H1s]. }
  2:{ rewrite last_app_single. reflexivity. }
  rewrite (trim_dots_trailing (la t) NE H1d H2d).
  rewrite (trim_with_ends is_space (la t) DOT NE H1s H2s).
  now rewrite (trim_with_ends (fun c => Ascii.eqb c DOT) (la t) DOT NE H1d H2d).
Qed.

(* what the conversion makes of a modification whose path ends in the separator: the operation for the path without it *)
Theorem mod2pop_trailing_separator ty (t : string) v o :
  nice (hd DOT (la t)) -> nice (last (la t) DOT) ->
  mod2pop (mkMod ty (t ++ ".")%string v o) = mod2pop (mkMod ty t v o).
Proof.
  intros H1 H2. unfold mod2pop, pointer_of_prop_path. cbn [mpath mt mval mold].
  now rewrite props_parse_trailing_separator.
Qed.
