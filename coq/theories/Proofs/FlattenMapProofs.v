(* Proofs/FlattenMapProofs.v — the flattened view is a MAP: no path occurs twice (so the list of
   pairs the model computes and the Go map are the same thing), for path-safe keys. *)
From Coq Require Import List String Ascii ZArith Lia Bool Arith.
From YT Require Import Base.Str Base.KV Model.Doc Model.Dom Model.Pointer Model.Path Model.Builder
  Proofs.StrProofs Proofs.BuilderProofs Proofs.PathProofs.
Import ListNotations.
Local Open Scope list_scope.

Lemma NoDup_app_intro {A} (a b : list A) :
  NoDup a -> NoDup b -> (forall x, In x a -> In x b -> False) -> NoDup (a ++ b).
Proof.
  induction a as [|x a IH]; intros Na Nb D; [exact Nb|].
  inversion Na as [|? ? Nx Na']; subst. simpl. constructor.
  - intros Hin. apply in_app_or in Hin as [Hin|Hin]; [contradiction|]. apply (D x); [now left|exact Hin].
  - apply IH; auto. intros y Ha Hb. apply (D y); [now right|exact Hb].
Qed.

Lemma NoDup_map_inj_in {A B} (f : A -> B) (l : list A) :
  (forall x y, In x l -> In y l -> f x = f y -> x = y) -> NoDup l -> NoDup (map f l).
Proof.
  induction l as [|a l IH]; intros Inj N; [constructor|].
  inversion N as [|? ? Na N']; subst. simpl. constructor.
  - intros Hin. apply in_map_iff in Hin as [y [E Hy]]. apply Na.
    rewrite (Inj a y) ; [exact Hy|now left|now right|now symmetry].
  - apply IH; [|exact N']. intros x y Hx Hy. apply Inj; now right.
Qed.

(* positions are distinct *)
Lemma fs_list_heads : forall xs i sigma, In sigma (map fst (fs_list xs i)) ->
  exists j rest, sigma = I j :: rest /\ i <= j.
Proof.
  intros xs i sigma H. apply in_map_iff in H as [[s v] [<- Hin]].
  apply In_fs_list in Hin as [j [x [rest [-> _]]]]. exists (i + j), rest. split; [reflexivity|lia].
Qed.

Theorem flatten_steps_nodup : forall d, wf d = true -> NoDup (map fst (flatten_steps d)).
Proof.
  induction d as [v|xs IH|kvs IH] using node_ind'; intros W.
  - simpl. repeat constructor. intros [].
  - rewrite flatten_steps_lst. simpl in W. generalize 0.
    induction IH as [|x r Hx _ IHr]; intros i; [constructor|].
    simpl in W. apply andb_prop in W as [Wx Wr]. simpl. rewrite map_app, map_map. simpl.
    apply NoDup_app_intro.
    + rewrite <- (map_map fst (fun s => I i :: s)).
      apply NoDup_map_inj_in; [intros a b _ _ E; now injection E|now apply Hx].
    + now apply IHr.
    + intros s Ha Hb. apply in_map_iff in Ha as [e [<- _]].
      apply fs_list_heads in Hb as [j [rest [E Hj]]]. injection E as E _. lia.
  - rewrite flatten_steps_con. simpl in W. apply andb_prop in W as [SK W].
    pose proof (sorted_nodup kvs SK) as ND. clear SK.
    induction IH as [|[k x] r Hx _ IHr]; [constructor|].
    simpl in W. apply andb_prop in W as [Wx Wr]. simpl in ND. inversion ND as [|? ? Nk ND']; subst.
    simpl. rewrite map_app, map_map. simpl.
    apply NoDup_app_intro.
    + rewrite <- (map_map fst (fun s => K k :: s)).
      apply NoDup_map_inj_in; [intros a b _ _ E; now injection E|now apply Hx].
    + now apply IHr.
    + intros s Ha Hb. apply in_map_iff in Ha as [e [<- _]].
      apply in_map_iff in Hb as [[s' v'] [E Hin]]. simpl in E. subst s'.
      apply In_fs_kvs in Hin as [k' [x' [rest [E [Hk _]]]]]. injection E as <- _.
      apply Nk. unfold kv_keys. apply in_map_iff. exists (k, x'). split; [reflexivity|exact Hk].
Qed.

Theorem flatten_paths_nodup kvs :
  wf (Con kvs) = true -> keys_safe (Con kvs) = true -> NoDup (map fst (flatten (Con kvs))).
Proof.
  intros W S. rewrite flatten_steps_render, map_map.
  rewrite (map_ext _ (fun x : list step * scalar => render_steps (fst x))) by reflexivity.
  rewrite <- (map_map fst render_steps).
  apply NoDup_map_inj_in; [|now apply flatten_steps_nodup].
  intros s1 s2 H1 H2 E.
  apply in_map_iff in H1 as [[t1 v1] [<- H1]]. apply in_map_iff in H2 as [[t2 v2] [<- H2]]. cbn [fst] in *.
  pose proof (flatten_steps_safe _ _ _ S H1) as S1. pose proof (flatten_steps_safe _ _ _ S H2) as S2.
  rewrite flatten_steps_con in H1, H2.
  apply In_fs_kvs in H1 as [k1 [x1 [r1 [-> _]]]]. apply In_fs_kvs in H2 as [k2 [x2 [r2 [-> _]]]].
  now apply render_steps_inj.
Qed.

(* hence a path determines its value *)
Corollary flatten_functional kvs p v1 v2 :
  wf (Con kvs) = true -> keys_safe (Con kvs) = true ->
  In (p, v1) (flatten (Con kvs)) -> In (p, v2) (flatten (Con kvs)) -> v1 = v2.
Proof.
  intros W S H1 H2. pose proof (lookup_flatten kvs p v1 W S H1) as L1.
  pose proof (lookup_flatten kvs p v2 W S H2) as L2. congruence.
Qed.
