From Coq Require Import List String Ascii ZArith Lia Bool Arith.
From YT Require Import Base.Str Base.KV Model.Doc Model.Merge.
Import ListNotations.
Local Open Scope list_scope.
Local Open Scope nat_scope.

Definition merge_kvs (app : bool) :=
  fix go1 (l1 : list (string * node)) : list (string * node) -> list (string * node) :=
    fix go2 (l2 : list (string * node)) : list (string * node) :=
      match l1, l2 with
      | [], _ => l2
      | _, [] => l1
      | (ka, va) :: r1, (kb, vb) :: r2 =>
          match scmp ka kb with
          | CEq => (ka, merge_node app va vb) :: go1 r1 r2
          | CLt => (ka, va) :: go1 r1 l2
          | CGt => (kb, vb) :: go2 r2
          end
      end.
Definition meld (app : bool) := fix meld (l1 l2 : list node) : list node :=
  match l1, l2 with
  | [], _ => l2
  | _, [] => l1
  | x :: r1, y :: r2 => merge_node app x y :: meld r1 r2
  end.

Lemma merge_con app k1 k2 : merge_node app (Con k1) (Con k2) = Con (merge_kvs app k1 k2).
Proof. reflexivity. Qed.
Lemma merge_lst app xs ys : merge_node app (Lst xs) (Lst ys) = if app then Lst (xs ++ ys) else Lst (meld app xs ys).
Proof. reflexivity. Qed.

Lemma merge_kvs_nil_r app l : merge_kvs app l [] = l.
Proof. destruct l as [|[k v] r]; reflexivity. Qed.
Lemma merge_kvs_nil_l app l : merge_kvs app [] l = l.
Proof. destruct l as [|[k v] r]; reflexivity. Qed.
Lemma merge_kvs_cons app ka va r1 kb vb r2 :
  merge_kvs app ((ka, va) :: r1) ((kb, vb) :: r2) =
  match scmp ka kb with
  | CEq => (ka, merge_node app va vb) :: merge_kvs app r1 r2
  | CLt => (ka, va) :: merge_kvs app r1 ((kb, vb) :: r2)
  | CGt => (kb, vb) :: merge_kvs app ((ka, va) :: r1) r2
  end.
Proof. reflexivity. Qed.

(* ---------- the characterisation: union of keys; both -> combined; one -> that side *)
Definition combine_opt (app : bool) (x y : option node) : option node :=
  match x, y with
  | Some a, Some b => Some (merge_node app a b)
  | Some a, None => Some a
  | None, Some b => Some b
  | None, None => None
  end.

Lemma kv_get_lt_all {A} k k0 (l : list (string * A)) :
  lt_all k0 l = true -> (k = k0 \/ String.ltb k k0 = true) -> kv_get k l = None.
Proof.
  intros H Hk. apply get_none_of_lt. apply lt_all_Forall.
  destruct Hk as [->|L]; [exact H|]. eapply lt_all_trans; eauto.
Qed.

Lemma kv_get_cons {A} k k' (v : A) r :
  kv_get k ((k', v) :: r) = if String.eqb k k' then Some v else kv_get k r.
Proof. reflexivity. Qed.

Theorem merge_kvs_get app : forall l1 l2 k,
  sorted_keys l1 = true -> sorted_keys l2 = true ->
  kv_get k (merge_kvs app l1 l2) = combine_opt app (kv_get k l1) (kv_get k l2).
Proof.
  induction l1 as [|[ka va] r1 IH1]; intros l2 k S1 S2.
  - rewrite merge_kvs_nil_l. simpl. destruct (kv_get k l2); reflexivity.
  - induction l2 as [|[kb vb] r2 IH2].
    + rewrite merge_kvs_nil_r. simpl kv_get at 3. destruct (kv_get k ((ka, va) :: r1)); reflexivity.
    + rewrite merge_kvs_cons.
      simpl in S1, S2. apply andb_prop in S1 as [L1 S1'], S2 as [L2 S2'].
      pose proof (scmp_spec ka kb) as C. destruct (scmp ka kb); cbn in C.
      * subst kb. rewrite !kv_get_cons. destruct (String.eqb_spec k ka); [reflexivity|]. now apply IH1.
      * destruct C as [Lab _]. rewrite (kv_get_cons k ka).
        destruct (String.eqb_spec k ka) as [->|Nk].
        -- rewrite !kv_get_cons, String.eqb_refl.
           destruct (String.eqb_spec ka kb) as [->|_]; [now rewrite ltb_irrefl in Lab|].
           rewrite (kv_get_lt_all ka kb r2 L2 (or_intror Lab)). reflexivity.
        -- rewrite IH1 by (auto; simpl; now rewrite L2, S2').
           rewrite (kv_get_cons k ka). destruct (String.eqb_spec k ka); [contradiction|]. reflexivity.
      * destruct C as [Lba _]. rewrite (kv_get_cons k kb).
        destruct (String.eqb_spec k kb) as [->|Nk].
        -- rewrite !kv_get_cons, String.eqb_refl.
           destruct (String.eqb_spec kb ka) as [->|_]; [now rewrite ltb_irrefl in Lba|].
           rewrite (kv_get_lt_all kb ka r1 L1 (or_intror Lba)). reflexivity.
        -- rewrite IH2 by exact S2'.
           rewrite (kv_get_cons k kb vb r2). destruct (String.eqb_spec k kb); [contradiction|]. reflexivity.
Qed.

(* ---------- sortedness / well-formedness of the result *)
Lemma sorted_cons {A} k (v : A) r : sorted_keys ((k, v) :: r) = lt_all k r && sorted_keys r.
Proof. reflexivity. Qed.
Lemma lt_all_cons {A} k0 k (v : A) r : lt_all k0 ((k, v) :: r) = String.ltb k0 k && lt_all k0 r.
Proof. reflexivity. Qed.

Lemma lt_all_merge_kvs app k0 : forall l1 l2,
  lt_all k0 l1 = true -> lt_all k0 l2 = true -> lt_all k0 (merge_kvs app l1 l2) = true.
Proof.
  induction l1 as [|[ka va] r1 IH1]; intros l2 H1 H2.
  - now rewrite merge_kvs_nil_l.
  - induction l2 as [|[kb vb] r2 IH2].
    + now rewrite merge_kvs_nil_r.
    + rewrite merge_kvs_cons. pose proof H1 as H1f. pose proof H2 as H2f.
      rewrite lt_all_cons in H1, H2.
      apply andb_prop in H1 as [A1 A2], H2 as [B1 B2].
      destruct (scmp ka kb); rewrite lt_all_cons.
      * rewrite A1. cbn [andb]. now apply IH1.
      * rewrite A1. cbn [andb]. now apply IH1.
      * rewrite B1. cbn [andb]. now apply IH2.
Qed.

Lemma merge_kvs_sorted app : forall l1 l2,
  sorted_keys l1 = true -> sorted_keys l2 = true -> sorted_keys (merge_kvs app l1 l2) = true.
Proof.
  induction l1 as [|[ka va] r1 IH1]; intros l2 S1 S2.
  - now rewrite merge_kvs_nil_l.
  - induction l2 as [|[kb vb] r2 IH2].
    + now rewrite merge_kvs_nil_r.
    + rewrite merge_kvs_cons.
      pose proof S1 as S1f. pose proof S2 as S2f.
      rewrite sorted_cons in S1, S2. apply andb_prop in S1 as [L1 S1'], S2 as [L2 S2'].
      pose proof (scmp_spec ka kb) as C. destruct (scmp ka kb); cbn in C; rewrite sorted_cons.
      * subst kb. rewrite (lt_all_merge_kvs app ka r1 r2 L1 L2). cbn [andb]. now apply IH1.
      * destruct C as [Lab _].
        assert (X : lt_all ka ((kb, vb) :: r2) = true).
        { rewrite lt_all_cons, Lab. cbn [andb]. eapply lt_all_trans; eauto. }
        rewrite (lt_all_merge_kvs app ka _ _ L1 X). cbn [andb]. apply IH1; auto.
      * destruct C as [Lba _].
        assert (X : lt_all kb ((ka, va) :: r1) = true).
        { rewrite lt_all_cons, Lba. cbn [andb]. eapply lt_all_trans; eauto. }
        rewrite (lt_all_merge_kvs app kb _ _ X L2). cbn [andb]. apply IH2; auto.
Qed.

Lemma wf_coalesce a b : wf a = true -> wf b = true -> wf (coalesce a b) = true.
Proof. unfold coalesce. destruct (has_value b), (has_value a); auto. Qed.

Theorem merge_wf app : forall a b, wf a = true -> wf b = true -> wf (merge_node app a b) = true.
Proof.
  induction a as [v|xs IH|k1 IH] using node_ind'; intros b Wa Wb.
  - destruct b; simpl merge_node; apply wf_coalesce; auto.
  - destruct b as [w|ys|k2]; try (apply wf_coalesce; auto).
    rewrite merge_lst. destruct app.
    + simpl in *. now rewrite forallb_app, Wa, Wb.
    + simpl in Wa, Wb. simpl. revert ys Wb.
      induction IH as [|x r Hx _ IHr]; intros ys Wb; [destruct ys; exact Wb|].
      destruct ys as [|y ys]; [exact Wa|]. simpl in Wa, Wb.
      apply andb_prop in Wa as [Wx Wr], Wb as [Wy Wys]. simpl.
      rewrite Hx by auto. simpl. apply IHr; auto.
  - destruct b as [w|ys|k2]; try (apply wf_coalesce; auto).
    rewrite merge_con. simpl in Wa, Wb. apply andb_prop in Wa as [S1 W1], Wb as [S2 W2].
    simpl. rewrite merge_kvs_sorted by auto. simpl.
    clear S1 S2. revert k2 W2.
    set (P := fun kv : string * node => wf (snd kv)).
    assert (Pc : forall kv r, forallb P (kv :: r) = P kv && forallb P r) by reflexivity.
    induction IH as [|[ka va] r1 Ha _ IH1]; intros k2 W2.
    + now rewrite merge_kvs_nil_l.
    + induction k2 as [|[kb vb] r2 IH2]; [now rewrite merge_kvs_nil_r|].
      rewrite merge_kvs_cons. pose proof W1 as W1f. pose proof W2 as W2f.
      rewrite Pc in W1, W2. cbn [snd] in Ha.
      apply andb_prop in W1 as [Wa1 Wr1], W2 as [Wb1 Wr2]. unfold P in Wa1, Wb1. cbn [snd] in Wa1, Wb1.
      destruct (scmp ka kb); rewrite Pc; unfold P at 1; cbn [snd].
      * rewrite Ha by auto. cbn [andb]. apply IH1; auto.
      * rewrite Wa1. cbn [andb]. apply IH1; auto.
      * rewrite Wb1. cbn [andb]. apply IH2; auto.
Qed.

(* ---------- identities *)
Theorem merge_empty_r app kvs : merge_node app (Con kvs) (Con []) = Con kvs.
Proof. rewrite merge_con, merge_kvs_nil_r. reflexivity. Qed.

Theorem merge_empty_l app kvs : merge_node app (Con []) (Con kvs) = Con kvs.
Proof. rewrite merge_con, merge_kvs_nil_l. reflexivity. Qed.

Lemma coalesce_self a : coalesce a a = a.
Proof. unfold coalesce. destruct a as [[]| |]; reflexivity. Qed.

Theorem merge_self_meld : forall a, merge_node false a a = a.
Proof.
  induction a as [v|xs IH|kvs IH] using node_ind'.
  - apply coalesce_self.
  - rewrite merge_lst. f_equal. induction IH as [|x r Hx _ IHr]; [reflexivity|].
    simpl. now rewrite Hx, IHr.
  - rewrite merge_con. f_equal. induction IH as [|[k v] r Hv _ IHr]; [reflexivity|].
    rewrite merge_kvs_cons. unfold scmp. rewrite String.eqb_refl. simpl in Hv. now rewrite Hv, IHr.
Qed.

(* ---------- lists *)
Theorem meld_length app : forall l1 l2, List.length (meld app l1 l2) = Nat.max (List.length l1) (List.length l2).
Proof.
  induction l1 as [|x r IH]; intros [|y ys]; simpl; auto.
Qed.

Theorem meld_nth app : forall l1 l2 i,
  nth_error (meld app l1 l2) i =
    match nth_error l1 i, nth_error l2 i with
    | Some x, Some y => Some (merge_node app x y)
    | Some x, None => Some x
    | None, Some y => Some y
    | None, None => None
    end.
Proof.
  induction l1 as [|x r IH]; intros [|y ys] [|i]; simpl; try reflexivity.
  - destruct (nth_error ys i); reflexivity.
  - destruct (nth_error r i); reflexivity.
  - apply IH.
Qed.

Theorem append_length (xs ys : list node) : List.length (xs ++ ys) = List.length xs + List.length ys.
Proof. apply app_length. Qed.

(* B wins unless it is null, in which case A is kept *)
Theorem coalesce_spec a b :
  (has_value b = true -> coalesce a b = b) /\ (has_value b = false -> coalesce a b = a).
Proof.
  unfold coalesce. split; intros H; rewrite H; [reflexivity|].
  destruct a as [[]| |]; reflexivity.
Qed.

Theorem merge_kind_conflict app a b :
  match a, b with Con _, Con _ | Lst _, Lst _ => False | _, _ => True end ->
  merge_node app a b = coalesce a b.
Proof. destruct a, b; simpl; tauto. Qed.
