From Coq Require Import List String Ascii ZArith Lia Bool Arith.
From YT Require Import Base.Str Base.KV Model.Doc Model.Dom Model.Pointer Model.Builder Model.Equals Model.Patch
  Proofs.PointerProofs Proofs.BuilderProofs Proofs.EqualsProofs Proofs.ApplyProofs.
Import ListNotations.
Local Open Scope list_scope.
Local Open Scope nat_scope.

(* ---------- plain tokens: the implementation's walk is the RFC's *)
Lemma plain_tok_comp t : plain_tok t = plain_comp t.
Proof. reflexivity. Qed.

Lemma add_plain t v kvs : plain_tok t = true -> add t v kvs = kv_set t v kvs.
Proof. intros P. unfold add. rewrite (comp_parse_plain t P). reflexivity. Qed.

Lemma upd_impl_plain : forall p f n, forallb plain_tok p = true -> upd_impl p f n = upd p f n.
Proof.
  induction p as [|t r IH]; intros f n P; [reflexivity|].
  simpl in P. apply andb_prop in P as [Pt Pr]. simpl.
  destruct n as [v|xs|kvs]; [reflexivity| |].
  - destruct (canon_index t) as [i|]; [|reflexivity].
    destruct (nth_error xs i) as [x|]; [|reflexivity]. now rewrite IH.
  - rewrite (child_plain _ _ Pt). destruct (kv_get t kvs) as [x|]; [|reflexivity].
    rewrite IH by exact Pr. destruct (upd r f x); simpl; [|reflexivity]. now rewrite add_plain.
Qed.

Lemma eval_impl_plain p d : forallb plain_tok p = true -> eval_impl p d = rfc6901_eval p d.
Proof. apply eval_refines_rfc. Qed.

(* ---------- pointer algebra *)
Lemma eval_app : forall p q d,
  rfc6901_eval (p ++ q) d = match rfc6901_eval p d with Some x => rfc6901_eval q x | None => None end.
Proof.
  induction p as [|t r IH]; intros q d; [reflexivity|]. simpl.
  destruct d as [v|xs|kvs]; [reflexivity| |].
  - destruct (canon_index t) as [i|]; [|reflexivity]. destruct (nth_error xs i); [apply IH|reflexivity].
  - destruct (kv_get t kvs); [apply IH|reflexivity].
Qed.

Lemma upd_app : forall p q f d, upd (p ++ q) f d = upd p (upd q f) d.
Proof.
  induction p as [|t r IH]; intros q f d; [reflexivity|]. simpl.
  destruct d as [v|xs|kvs]; [reflexivity| |].
  - destruct (canon_index t) as [i|]; [|reflexivity]. destruct (nth_error xs i); [now rewrite IH|reflexivity].
  - destruct (kv_get t kvs); [now rewrite IH|reflexivity].
Qed.

Lemma upd_none : forall p f d, rfc6901_eval p d = None -> upd p f d = None.
Proof.
  induction p as [|t r IH]; intros f d E; [discriminate|]. simpl in *.
  destruct d as [v|xs|kvs]; [reflexivity| |].
  - destruct (canon_index t) as [i|]; [|reflexivity]. destruct (nth_error xs i); [|reflexivity].
    now rewrite IH.
  - destruct (kv_get t kvs); [|reflexivity]. now rewrite IH.
Qed.

Lemma upd_f_none : forall p f d x, rfc6901_eval p d = Some x -> f x = None -> upd p f d = None.
Proof.
  induction p as [|t r IH]; intros f d x E F; simpl in *; [now injection E as ->|].
  destruct d as [v|xs|kvs]; [discriminate| |].
  - destruct (canon_index t) as [i|]; [|discriminate]. destruct (nth_error xs i); [|discriminate].
    now rewrite (IH f n x E F).
  - destruct (kv_get t kvs); [|discriminate]. now rewrite (IH f n x E F).
Qed.

Lemma upd_ext : forall p f g d,
  (forall x, rfc6901_eval p d = Some x -> f x = g x) -> upd p f d = upd p g d.
Proof.
  induction p as [|t r IH]; intros f g d H; simpl in *; [apply H; reflexivity|].
  destruct d as [v|xs|kvs]; [reflexivity| |].
  - destruct (canon_index t) as [i|]; [|reflexivity]. destruct (nth_error xs i); [|reflexivity].
    now rewrite (IH f g n H).
  - destruct (kv_get t kvs); [|reflexivity]. now rewrite (IH f g n H).
Qed.

(* updating with the identity gives the document back (containers are canonical maps) *)
Lemma upd_id : forall p d x, wf d = true -> rfc6901_eval p d = Some x -> upd p (fun y => Some y) d = Some d.
Proof.
  induction p as [|t r IH]; intros d x W E; [reflexivity|]. simpl in *.
  destruct d as [v|xs|kvs]; [discriminate| |].
  - destruct (canon_index t) as [i|]; [|discriminate].
    destruct (nth_error xs i) as [y|] eqn:N; [|discriminate].
    rewrite (IH y x); [|simpl in W; rewrite forallb_forall in W; apply W; eapply nth_error_In; eauto|exact E].
    simpl. now rewrite list_upd_id.
  - destruct (kv_get t kvs) as [y|] eqn:G; [|discriminate].
    rewrite wf_con in W. rewrite (IH y x); [|eapply wf_kvs_get; eauto|exact E].
    simpl. rewrite kv_set_get_id; auto. unfold wf_kvs in W. now apply andb_prop in W as [S _].
Qed.

(* two updates at the same pointer compose *)
Lemma upd_upd : forall p f g d d1,
  upd p f d = Some d1 ->
  upd p g d1 = upd p (fun x => match f x with Some y => g y | None => None end) d.
Proof.
  induction p as [|t r IH]; intros f g d d1 U; simpl in *; [now rewrite U|].
  destruct d as [v|xs|kvs]; [discriminate| |].
  - destruct (canon_index t) as [i|] eqn:C; [|discriminate].
    destruct (nth_error xs i) as [y|] eqn:N; [|discriminate].
    destruct (upd r f y) as [y'|] eqn:U1; [|discriminate]. simpl in U. injection U as <-.
    simpl. rewrite ?C.
    assert (L : i < List.length xs) by (apply nth_error_Some; congruence).
    rewrite nth_error_list_upd_same by exact L.
    rewrite (IH f g y y' U1).
    set (h := fun x : node => match f x with Some y0 => g y0 | None => None end).
    destruct (upd r h y) as [z|]; simpl; [|reflexivity].
    f_equal. f_equal. clear -L. revert i L. induction xs as [|a xs IHx]; intros [|i] L; simpl in *; try lia; auto.
    f_equal. apply IHx. lia.
  - destruct (kv_get t kvs) as [y|] eqn:G; [|discriminate].
    destruct (upd r f y) as [y'|] eqn:U1; [|discriminate]. simpl in U. injection U as <-.
    simpl. rewrite kv_get_set_same. rewrite (IH f g y y' U1).
    set (h := fun x : node => match f x with Some y0 => g y0 | None => None end).
    destruct (upd r h y) as [z|]; simpl; [|reflexivity].
    f_equal. f_equal. clear. induction kvs as [|[k' v'] rr IHk]; simpl.
    + unfold scmp. now rewrite String.eqb_refl.
    + pose proof (scmp_spec t k') as S. destruct (scmp t k') eqn:E; cbn in S; simpl; unfold scmp.
      * now rewrite String.eqb_refl.
      * now rewrite String.eqb_refl.
      * fold (scmp t k'). rewrite E. now rewrite IHk.
Qed.

Lemma wf_eval : forall p d x, wf d = true -> rfc6901_eval p d = Some x -> wf x = true.
Proof.
  induction p as [|t r IH]; intros d x W E; simpl in E; [now injection E as <-|].
  destruct d as [v|xs|kvs]; [discriminate| |].
  - destruct (canon_index t) as [i|]; [|discriminate].
    destruct (nth_error xs i) as [y|] eqn:N; [|discriminate].
    eapply IH; [|exact E]. simpl in W. rewrite forallb_forall in W. apply W. eapply nth_error_In; eauto.
  - destruct (kv_get t kvs) as [y|] eqn:G; [|discriminate]. eapply IH; [|exact E].
    rewrite wf_con in W. eapply wf_kvs_get; eauto.
Qed.

(* ---------- non-empty pointers split into parent and last token *)
Lemma split_last (p : list string) : p <> [] -> p = parent_of p ++ [last_of p].
Proof. intros NE. unfold parent_of, last_of. now apply app_removelast_last. Qed.

Lemma plain_parent p : forallb plain_tok p = true -> forallb plain_tok (parent_of p) = true.
Proof.
  unfold parent_of. induction p as [|t r IH]; intros H; [reflexivity|].
  simpl in H. apply andb_prop in H as [H1 H2]. destruct r as [|t' r']; [reflexivity|].
  change (removelast (t :: t' :: r')) with (t :: removelast (t' :: r')). simpl. rewrite H1. now apply IH.
Qed.

Lemma plain_last p : p <> [] -> forallb plain_tok p = true -> plain_tok (last_of p) = true.
Proof.
  unfold last_of. induction p as [|t r IH]; intros NE H; [contradiction|].
  simpl in H. apply andb_prop in H as [H1 H2]. destruct r as [|t' r']; [exact H1|].
  change (last (t :: t' :: r') ""%string) with (last (t' :: r') ""%string). apply IH; [discriminate|exact H2].
Qed.

(* one step of evaluation *)
Definition eval_step (tok : string) (par : node) : option node := rfc6901_eval [tok] par.

Lemma eval_split p d : p <> [] ->
  rfc6901_eval p d = match rfc6901_eval (parent_of p) d with Some par => eval_step (last_of p) par | None => None end.
Proof. intros NE. rewrite (split_last p NE) at 1. apply eval_app. Qed.

(* ---------- add *)
Lemma impl_add_at_plain tok v par : plain_tok tok = true -> impl_add_at tok v par = rfc_add_at tok v par.
Proof. intros P. destruct par as [| |kvs]; try reflexivity. simpl. now rewrite add_plain. Qed.

Lemma impl_add_rfc path v d : path <> [] -> forallb plain_tok path = true ->
  impl_add path v d = rfc_add path v d.
Proof.
  intros NE P. unfold impl_add, rfc_add.
  rewrite eval_impl_plain by now apply plain_parent.
  rewrite upd_impl_plain by now apply plain_parent.
  destruct (rfc6901_eval (parent_of path) d) as [par|] eqn:E.
  - apply upd_ext. intros x _. apply impl_add_at_plain. now apply plain_last.
  - symmetry. now apply upd_none.
Qed.

(* ---------- remove *)
Lemma remove_at_agree tok par :
  eval_step tok par <> None -> impl_remove_at tok par = rfc_remove_at tok par.
Proof.
  unfold eval_step. simpl. destruct par as [v|xs|kvs]; simpl; [reflexivity| |].
  - destruct (canon_index tok) as [i|]; [|reflexivity].
    destruct (nth_error xs i) as [y|] eqn:N; [|congruence]. intros _.
    assert (L : i < List.length xs) by (apply nth_error_Some; congruence).
    destruct (Nat.ltb_spec i (List.length xs)); [reflexivity|lia].
  - destruct (kv_get tok kvs); [reflexivity|congruence].
Qed.

Lemma remove_at_none tok par : eval_step tok par = None -> rfc_remove_at tok par = None.
Proof.
  unfold eval_step. simpl. destruct par as [v|xs|kvs]; simpl; [reflexivity| |].
  - destruct (canon_index tok) as [i|]; [|reflexivity].
    destruct (nth_error xs i) as [y|] eqn:N; [discriminate|]. intros _.
    apply nth_error_None in N. destruct (Nat.ltb_spec i (List.length xs)); [lia|reflexivity].
  - destruct (kv_get tok kvs); [discriminate|reflexivity].
Qed.

Lemma impl_remove_rfc path d : path <> [] -> forallb plain_tok path = true ->
  impl_remove path d = rfc_remove path d.
Proof.
  intros NE P. unfold impl_remove, rfc_remove.
  rewrite eval_impl_plain by exact P. rewrite upd_impl_plain by now apply plain_parent.
  rewrite (eval_split path d NE).
  destruct (rfc6901_eval (parent_of path) d) as [par|] eqn:E.
  - destruct (eval_step (last_of path) par) as [x|] eqn:S.
    + apply upd_ext. intros y Ey. rewrite E in Ey. injection Ey as <-.
      apply remove_at_agree. congruence.
    + symmetry. eapply upd_f_none; eauto. now apply remove_at_none.
  - symmetry. now apply upd_none.
Qed.

(* ---------- replace *)
Lemma impl_replace_rfc path v d : path <> [] -> forallb plain_tok path = true ->
  impl_replace path v d = upd path (fun _ => Some v) d.
Proof.
  intros NE P. unfold impl_replace.
  rewrite eval_impl_plain by exact P. rewrite upd_impl_plain by now apply plain_parent.
  assert (R : upd path (fun _ => Some v) d = upd (parent_of path) (upd [last_of path] (fun _ => Some v)) d).
  { rewrite (split_last path NE) at 1. apply upd_app. }
  rewrite R. clear R.
  rewrite (eval_split path d NE).
  destruct (rfc6901_eval (parent_of path) d) as [par|] eqn:E.
  - destruct (eval_step (last_of path) par) as [x|] eqn:S.
    + apply upd_ext. intros y Ey. rewrite E in Ey. injection Ey as <-.
      pose proof (plain_last path NE P) as Pl.
      unfold eval_step in S. simpl in S. simpl.
      destruct par as [w|xs|kvs]; [discriminate| |].
      * simpl. destruct (canon_index (last_of path)) as [i|]; [|discriminate].
        destruct (nth_error xs i) as [y|] eqn:N; [|discriminate]. simpl.
        unfold list_set. rewrite pad_to_id; [reflexivity|].
        assert (i < List.length xs) by (apply nth_error_Some; congruence). lia.
      * simpl. rewrite add_plain by exact Pl. destruct (kv_get (last_of path) kvs); [reflexivity|discriminate].
    + symmetry. eapply upd_f_none; eauto.
      unfold eval_step in S. simpl in S. simpl.
      destruct par as [w|xs|kvs]; [reflexivity| |].
      * destruct (canon_index (last_of path)) as [i|]; [|reflexivity].
        destruct (nth_error xs i); [discriminate|reflexivity].
      * destruct (kv_get (last_of path) kvs); [discriminate|reflexivity].
  - symmetry. now apply upd_none.
Qed.

(* ---------- adding back what was just removed restores the document *)
Lemma insert_remove_id : forall l i v, nth_error l i = Some v -> insert_at (remove_idx l i) i v = l.
Proof.
  induction l as [|x r IH]; intros [|i] v N; simpl in *; try discriminate.
  - injection N as ->. destruct r; reflexivity.
  - f_equal. now apply IH.
Qed.

Lemma remove_idx_length l i : i < List.length l -> List.length (remove_idx l i) = List.length l - 1.
Proof.
  revert i. induction l as [|x r IH]; intros [|i] H; simpl in *; try lia.
  rewrite IH by lia. destruct r; simpl in *; lia.
Qed.

Lemma add_back tok par v :
  wf par = true -> eval_step tok par = Some v ->
  match rfc_remove_at tok par with Some y => rfc_add_at tok v y | None => None end = Some par.
Proof.
  unfold eval_step. simpl. intros W S. destruct par as [w|xs|kvs]; [discriminate| |].
  - simpl. destruct (canon_index tok) as [i|] eqn:C; [|discriminate].
    destruct (nth_error xs i) as [y|] eqn:N; [|discriminate]. injection S as ->.
    assert (L : i < List.length xs) by (apply nth_error_Some; congruence).
    destruct (Nat.ltb_spec i (List.length xs)); [|lia]. simpl. rewrite C.
    rewrite remove_idx_length by exact L.
    destruct (Nat.leb_spec i (List.length xs - 1)); [|lia].
    now rewrite insert_remove_id.
  - simpl. destruct (kv_get tok kvs) as [y|] eqn:G; [|discriminate]. injection S as ->. simpl.
    f_equal. f_equal. rewrite wf_con in W. unfold wf_kvs in W. apply andb_prop in W as [Sk _].
    apply sorted_ext; auto.
    + apply kv_set_sorted, kv_del_sorted, Sk.
    + intros q. destruct (String.eqb_spec q tok) as [->|Nq].
      * now rewrite kv_get_set_same.
      * now rewrite kv_get_set_other, kv_get_del_other.
Qed.

Theorem remove_then_add_back from v d d1 :
  wf d = true -> from <> [] ->
  rfc6901_eval from d = Some v -> rfc_remove from d = Some d1 -> rfc_add from v d1 = Some d.
Proof.
  intros W NE E R. unfold rfc_add, rfc_remove in *.
  rewrite (upd_upd _ _ _ _ _ R).
  rewrite (eval_split from d NE) in E.
  destruct (rfc6901_eval (parent_of from) d) as [par|] eqn:Ep; [|discriminate].
  rewrite (upd_ext _ _ (fun y => Some y)).
  - eapply upd_id; eauto.
  - intros x Ex. rewrite Ep in Ex. injection Ex as <-.
    apply add_back; [|exact E]. eapply wf_eval; eauto.
Qed.

(* ---------- the refinement: patch.Do conforms to RFC 6902 and fails cleanly *)
Definition values_wf (o : pop) : bool :=
  match o with
  | PAdd _ (Some v) | PReplace _ (Some v) | PTest _ (Some v) => wf v
  | _ => true
  end.

Lemma scope_path p : (negb (match p with [] => true | _ => false end) && forallb plain_tok p)%bool = true ->
  p <> [] /\ forallb plain_tok p = true.
Proof. intros H. apply andb_prop in H as [H1 H2]. split; [|exact H2]. destruct p; [discriminate|discriminate]. Qed.

Theorem impl_refines_rfc d o :
  wf d = true -> in_scope o = true -> values_wf o = true ->
  impl_do d o = match rfc_do o d with Some d' => (d', true) | None => (d, false) end.
Proof.
  intros W Sc Vw. destruct o as [path [v|]|path|path [v|]|[from|] path|[from|] path|path [v|]];
    simpl in Sc; try reflexivity.
  - apply scope_path in Sc as [NE P]. simpl. now rewrite impl_add_rfc.
  - apply scope_path in Sc as [NE P]. simpl. now rewrite impl_remove_rfc.
  - apply scope_path in Sc as [NE P]. simpl. now rewrite impl_replace_rfc.
  - apply andb_prop in Sc as [Sf Sp]. apply scope_path in Sf as [NEf Pf]. apply scope_path in Sp as [NE P].
    simpl. rewrite eval_impl_plain by exact Pf.
    destruct (rfc6901_eval from d) as [v|] eqn:E; [|reflexivity].
    destruct (proper_prefix from path); [reflexivity|].
    rewrite impl_remove_rfc by assumption.
    destruct (rfc_remove from d) as [d1|] eqn:R; [|reflexivity].
    rewrite !impl_add_rfc by assumption.
    destruct (rfc_add path v d1) as [d2|]; [reflexivity|].
    now rewrite (remove_then_add_back from v d d1 W NEf E R).
  - apply andb_prop in Sc as [Sf Sp]. apply scope_path in Sf as [NEf Pf]. apply scope_path in Sp as [NE P].
    simpl. rewrite eval_impl_plain by exact Pf.
    destruct (rfc6901_eval from d) as [v|] eqn:E; [|reflexivity].
    rewrite clone_eq. now rewrite impl_add_rfc.
  - apply scope_path in Sc as [NE P]. simpl. rewrite eval_impl_plain by exact P.
    destruct (rfc6901_eval path d) as [x|] eqn:E; [|reflexivity].
    simpl in Vw. pose proof (wf_eval _ _ _ W E) as Wx.
    destruct (node_eqb v x) eqn:N.
    + apply node_eqb_eq in N. subst. now rewrite equals_refl.
    + destruct (equals v x) eqn:Q; [|reflexivity].
      apply equals_iff_eq in Q; auto. subst. assert (node_eqb x x = true) by now apply node_eqb_eq. congruence.
Qed.

(* ---------- laws of the reference itself *)
(* adding at a location and removing it again is the identity when the location did not exist
   (object member) or for any list position (insertion shifts right, removal shifts back) *)
Lemma insert_at_0 l v : insert_at l 0 v = v :: l.
Proof. destruct l; reflexivity. Qed.
Lemma insert_at_S x r i v : insert_at (x :: r) (S i) v = x :: insert_at r i v.
Proof. reflexivity. Qed.

Lemma remove_insert_id : forall l i v, i <= List.length l -> remove_idx (insert_at l i v) i = l.
Proof.
  induction l as [|x r IH]; intros [|i] v H; simpl in H; try lia.
  - reflexivity.
  - rewrite insert_at_0. reflexivity.
  - rewrite insert_at_S. simpl. f_equal. apply IH. lia.
Qed.

Theorem insert_shift : forall l i v j, i <= List.length l ->
  nth_error (insert_at l i v) j =
    if j <? i then nth_error l j else if j =? i then Some v else nth_error l (j - 1).
Proof.
  induction l as [|x r IH]; intros [|i] v j H; simpl in H; try lia.
  - destruct j as [|[|j]]; reflexivity.
  - rewrite insert_at_0. destruct j as [|j]; [reflexivity|]. simpl. now rewrite Nat.sub_0_r.
  - rewrite insert_at_S. destruct j as [|j]; [reflexivity|].
    simpl nth_error at 1. rewrite IH by lia.
    change (S j <? S i) with (j <? i). change (S j =? S i) with (j =? i).
    destruct (Nat.ltb_spec j i); [reflexivity|]. destruct (Nat.eqb_spec j i); [reflexivity|].
    destruct j as [|j]; [lia|]. simpl. now rewrite Nat.sub_0_r.
Qed.

Theorem remove_shift : forall l i j,
  nth_error (remove_idx l i) j = if j <? i then nth_error l j else nth_error l (S j).
Proof.
  induction l as [|x r IH]; intros i j.
  - simpl. destruct j, (_ <? _); reflexivity.
  - destruct i as [|i]; [reflexivity|]. destruct j as [|j]; [reflexivity|].
    simpl nth_error at 1. simpl remove_idx. simpl nth_error at 1. rewrite IH.
    change (S j <? S i) with (j <? i). reflexivity.
Qed.

(* ---------- well-formedness is preserved, hence the refinement extends to whole histories *)
Lemma forallb_insert_at : forall l i v, forallb wf l = true -> wf v = true -> forallb wf (insert_at l i v) = true.
Proof.
  induction l as [|x r IH]; intros [|i] v H Hv; simpl in *; rewrite ?Hv; auto.
  apply andb_prop in H as [H1 H2]. now rewrite H1, IH.
Qed.
Lemma forallb_remove_idx : forall l i, forallb wf l = true -> forallb wf (remove_idx l i) = true.
Proof.
  induction l as [|x r IH]; intros [|i] H; simpl in *; auto.
  - now apply andb_prop in H as [_ H].
  - apply andb_prop in H as [H1 H2]. now rewrite H1, IH.
Qed.

Lemma wf_upd : forall p f d d',
  wf d = true -> (forall x y, wf x = true -> f x = Some y -> wf y = true) ->
  upd p f d = Some d' -> wf d' = true.
Proof.
  induction p as [|t r IH]; intros f d d' W Hf U; simpl in U; [eapply Hf; eauto|].
  destruct d as [v|xs|kvs]; [discriminate| |].
  - destruct (canon_index t) as [i|]; [|discriminate].
    destruct (nth_error xs i) as [y|] eqn:N; [|discriminate].
    destruct (upd r f y) as [y'|] eqn:U1; [|discriminate]. injection U as <-.
    simpl in *. apply forallb_list_upd; [exact W|]. eapply IH; [| |exact U1]; auto.
    rewrite forallb_forall in W. apply W. eapply nth_error_In; eauto.
  - destruct (kv_get t kvs) as [y|] eqn:G; [|discriminate].
    destruct (upd r f y) as [y'|] eqn:U1; [|discriminate]. injection U as <-.
    rewrite wf_con in *. apply wf_kvs_set; [exact W|]. eapply IH; [| |exact U1]; auto.
    eapply wf_kvs_get; eauto.
Qed.

Lemma wf_rfc_add_at tok v par y : wf v = true -> wf par = true -> rfc_add_at tok v par = Some y -> wf y = true.
Proof.
  intros Wv W H. destruct par as [w|xs|kvs]; simpl in H; [discriminate| |].
  - destruct (canon_index tok) as [i|]; [|discriminate].
    destruct (Nat.leb i (List.length xs)); [|discriminate]. injection H as <-.
    simpl in *. now apply forallb_insert_at.
  - injection H as <-. rewrite wf_con in *. now apply wf_kvs_set.
Qed.
Lemma wf_rfc_remove_at tok par y : wf par = true -> rfc_remove_at tok par = Some y -> wf y = true.
Proof.
  intros W H. destruct par as [w|xs|kvs]; simpl in H; [discriminate| |].
  - destruct (canon_index tok) as [i|]; [|discriminate].
    destruct (Nat.ltb i (List.length xs)); [|discriminate]. injection H as <-.
    simpl in *. now apply forallb_remove_idx.
  - destruct (kv_get tok kvs); [|discriminate]. injection H as <-. rewrite wf_con in *. now apply wf_kvs_del.
Qed.

Theorem rfc_do_wf o d d' : wf d = true -> values_wf o = true -> rfc_do o d = Some d' -> wf d' = true.
Proof.
  intros W Vw R. destruct o as [path [v|]|path|path [v|]|[from|] path|[from|] path|path [v|]];
    simpl in R, Vw; try discriminate.
  - eapply wf_upd; [exact W| |exact R]. intros x y Wx. now apply wf_rfc_add_at.
  - eapply wf_upd; [exact W| |exact R]. intros x y Wx. now apply wf_rfc_remove_at.
  - eapply wf_upd; [exact W| |exact R]. intros x y _ [= <-]. exact Vw.
  - destruct (rfc6901_eval from d) as [v|] eqn:E; [|discriminate].
    destruct (proper_prefix from path); [discriminate|].
    destruct (rfc_remove from d) as [d1|] eqn:R1; [|discriminate].
    assert (W1 : wf d1 = true).
    { eapply wf_upd; [exact W| |exact R1]. intros x y Wx. now apply wf_rfc_remove_at. }
    pose proof (wf_eval _ _ _ W E) as Wv.
    eapply wf_upd; [exact W1| |exact R]. intros x y Wx. now apply wf_rfc_add_at.
  - destruct (rfc6901_eval from d) as [v|] eqn:E; [|discriminate].
    pose proof (wf_eval _ _ _ W E) as Wv.
    eapply wf_upd; [exact W| |exact R]. intros x y Wx. now apply wf_rfc_add_at.
  - destruct (rfc6901_eval path d) as [x|]; [|discriminate].
    destruct (node_eqb v x); [|discriminate]. now injection R as <-.
Qed.

Fixpoint run_rfc (d : node) (ops : list pop) : list (node * bool) :=
  match ops with
  | [] => []
  | o :: r => match rfc_do o d with
              | Some d' => (d', true) :: run_rfc d' r
              | None => (d, false) :: run_rfc d r
              end
  end.

Theorem histories_refine : forall ops d,
  wf d = true -> forallb in_scope ops = true -> forallb values_wf ops = true ->
  run_patch d ops = run_rfc d ops.
Proof.
  induction ops as [|o r IH]; intros d W Sc Vw; [reflexivity|].
  simpl in Sc, Vw. apply andb_prop in Sc as [S1 S2], Vw as [V1 V2].
  simpl. rewrite (impl_refines_rfc d o W S1 V1).
  destruct (rfc_do o d) as [d'|] eqn:R.
  - rewrite IH; auto. eapply rfc_do_wf; eauto.
  - rewrite IH; auto.
Qed.
