(* Proofs/RebuildProofs.v — re-inserting the flattened (path, leaf) pairs of a document, in ANY
   order, into ANY starting document makes every one of those paths resolve to its leaf again:
   two different scalar positions of one tree always diverge, so a later write never disturbs an
   earlier one (FrameProofs). *)
From Coq Require Import List String Ascii ZArith Lia Bool Arith Permutation.
From YT Require Import Base.Str Base.KV Model.Doc Model.Dom Model.Pointer Model.Path Model.Builder
  Proofs.StrProofs Proofs.BuilderProofs Proofs.PathProofs Proofs.FrameProofs.
Import ListNotations.
Local Open Scope list_scope.

Lemma diverge_sym a b : diverge a b -> diverge b a.
Proof. induction 1; constructor; auto. Qed.

(* two different scalar positions of one well-formed tree diverge *)
Theorem flatten_steps_diverge : forall d s1 v1 s2 v2,
  wf d = true ->
  In (s1, v1) (flatten_steps d) -> In (s2, v2) (flatten_steps d) -> s1 <> s2 -> diverge s1 s2.
Proof.
  induction d as [w|xs IH|kvs IH] using node_ind'; intros s1 v1 s2 v2 W H1 H2 NE.
  - simpl in H1, H2. destruct H1 as [[= <- <-]|[]]. destruct H2 as [[= <- <-]|[]]. contradiction.
  - rewrite flatten_steps_lst in H1, H2.
    apply In_fs_list in H1 as [j1 [x1 [r1 [-> [N1 I1]]]]].
    apply In_fs_list in H2 as [j2 [x2 [r2 [-> [N2 I2]]]]].
    simpl in *. destruct (Nat.eq_dec j1 j2) as [->|NEj]; [|apply d_idx; exact NEj].
    rewrite N1 in N2. injection N2 as <-. apply d_cons.
    rewrite Forall_forall in IH. apply (IH x1 (nth_error_In _ _ N1) r1 v1 r2 v2); auto.
    + rewrite forallb_forall in W. apply W. eapply nth_error_In; eauto.
    + congruence.
  - rewrite flatten_steps_con in H1, H2.
    apply In_fs_kvs in H1 as [k1 [x1 [r1 [-> [K1 I1]]]]].
    apply In_fs_kvs in H2 as [k2 [x2 [r2 [-> [K2 I2]]]]].
    simpl in W. apply andb_prop in W as [SK W].
    destruct (String.eqb_spec k1 k2) as [->|NEk]; [|apply d_key; exact NEk].
    pose proof (in_get k2 x1 kvs (sorted_nodup kvs SK) K1) as G1.
    pose proof (in_get k2 x2 kvs (sorted_nodup kvs SK) K2) as G2.
    rewrite G1 in G2. injection G2 as <-. apply d_cons.
    rewrite Forall_forall in IH. apply (IH (k2, x1) K1 r1 v1 r2 v2); auto.
    + rewrite forallb_forall in W. apply (W (k2, x1) K1).
    + congruence.
Qed.

(* ---------- re-insertion, on step lists *)
Definition put (acc : node) (e : list step * scalar) : node := set_steps (fst e) (Leaf (snd e)) acc.
Definition rebuild (l : list (list step * scalar)) (n : node) : node := fold_left put l n.

Definition compatible (l : list (list step * scalar)) : Prop :=
  forall e1 e2, In e1 l -> In e2 l -> e1 = e2 \/ diverge (fst e1) (fst e2).

Lemma rebuild_keeps : forall r acc s v,
  get_steps s acc = Some (Leaf v) ->
  (forall e, In e r -> e = (s, v) \/ diverge (fst e) s) ->
  get_steps s (rebuild r acc) = Some (Leaf v).
Proof.
  induction r as [|e r IH]; intros acc s v G H; [exact G|].
  simpl. apply IH.
  - destruct (H e (or_introl eq_refl)) as [->|D].
    + unfold put. simpl. apply get_set_steps_same.
    + unfold put. rewrite set_steps_frame; [exact G|exact D|congruence].
  - intros e' He'. apply H. now right.
Qed.

Theorem rebuild_complete : forall l n s v,
  compatible l -> In (s, v) l -> get_steps s (rebuild l n) = Some (Leaf v).
Proof.
  induction l as [|e r IH]; intros n s v C Hin; [contradiction|].
  simpl. destruct Hin as [->|Hin].
  - apply rebuild_keeps.
    + unfold put. simpl. apply get_set_steps_same.
    + intros e' He'. destruct (C e' (s, v)) as [E|D]; [now right|now left| |].
      * now left.
      * right. exact D.
  - apply IH; [|exact Hin]. intros e1 e2 H1 H2. apply C; now right.
Qed.

Lemma flatten_steps_compatible d l :
  wf d = true -> Permutation l (flatten_steps d) -> compatible l.
Proof.
  intros W P [s1 v1] [s2 v2] H1 H2.
  apply (Permutation_in _ P) in H1. apply (Permutation_in _ P) in H2.
  destruct (list_eq_dec (fun a b : step => ltac:(decide equality; [apply string_dec|apply Nat.eq_dec])) s1 s2) as [->|NE].
  - left. f_equal. pose proof (flatten_steps_get _ _ _ W H1) as G1.
    pose proof (flatten_steps_get _ _ _ W H2) as G2. congruence.
  - right. simpl. eapply flatten_steps_diverge; eauto.
Qed.

(* ---------- the same through AddValueAt on path strings *)
Lemma add_value_at_steps k r v kvs :
  forallb step_safe (K k :: r) = true ->
  Con (add_value_at (render_steps (K k :: r)) v kvs) = set_steps (K k :: r) v (Con kvs).
Proof.
  intros S. unfold add_value_at, parse_path. rewrite render_steps_group by exact S.
  assert (NE : group (K k :: r) <> []).
  { intro E0. pose proof (group_spec k r) as G. rewrite E0 in G. discriminate. }
  rewrite add_at_steps by exact NE. rewrite group_spec. reflexivity.
Qed.

Definition put_path (acc : list (string * node)) (e : string * scalar) : list (string * node) :=
  add_value_at (fst e) (Leaf (snd e)) acc.

Lemma rebuild_paths : forall (l : list (list step * scalar)) kvs,
  Forall (fun e => exists k r, fst e = K k :: r /\ forallb step_safe (K k :: r) = true) l ->
  Con (fold_left put_path (map (fun e => (render_steps (fst e), snd e)) l) kvs) = rebuild l (Con kvs).
Proof.
  induction l as [|[s v] r IH]; intros kvs F; [reflexivity|].
  inversion F as [|? ? [k [rest [E S]]] Fr]; subst. simpl in E. subst s.
  change (Con (fold_left put_path (map (fun e => (render_steps (fst e), snd e)) r)
                (add_value_at (render_steps (K k :: rest)) (Leaf v) kvs)) =
          rebuild r (set_steps (K k :: rest) (Leaf v) (Con kvs))).
  pose proof (add_value_at_steps k rest (Leaf v) kvs S) as A.
  destruct (set_steps (K k :: rest) (Leaf v) (Con kvs)) as [|?|kvs'] eqn:Es; try discriminate.
  injection A as A. rewrite A. now apply IH.
Qed.

Theorem rebuild_any_order_complete kvs (l : list (string * scalar)) start :
  wf (Con kvs) = true -> keys_safe (Con kvs) = true ->
  Permutation l (flatten (Con kvs)) ->
  forall p v, In (p, v) (flatten (Con kvs)) ->
  lookup p (Con (fold_left put_path l start)) = Some (Leaf v).
Proof.
  intros W S P p v Hin.
  rewrite flatten_steps_render in P, Hin.
  set (f := fun e : list step * scalar => (render_steps (fst e), snd e)) in *.
  apply Permutation_map_inv in P as [l' [-> P']].
  apply Permutation_sym in P'.
  apply in_map_iff in Hin as [[sigma w] [E Hs]]. unfold f in E. simpl in E. injection E as <- <-.
  assert (Fl : Forall (fun e => exists k r, fst e = K k :: r /\ forallb step_safe (K k :: r) = true) l').
  { apply Forall_forall. intros [s x] He. apply (Permutation_in _ P') in He.
    pose proof (flatten_steps_safe _ _ _ S He) as Ss.
    rewrite flatten_steps_con in He. apply In_fs_kvs in He as [k [y [rest [-> _]]]].
    exists k, rest. split; [reflexivity|exact Ss]. }
  pose proof (flatten_steps_safe _ _ _ S Hs) as Ss.
  assert (Hs' := Hs). rewrite flatten_steps_con in Hs'. apply In_fs_kvs in Hs' as [k [y [rest [-> _]]]].
  rewrite lookup_render_steps by exact Ss.
  rewrite rebuild_paths by exact Fl.
  apply rebuild_complete.
  - eapply flatten_steps_compatible; eauto.
  - eapply Permutation_in; [apply Permutation_sym; exact P'|exact Hs].
Qed.
