(* Proofs/DiffNoDupProofs.v — "exactly ONE Add per leaf, ONE Delete per key, ONE Change per scalar":
   the emission never contains the same modification twice.  (With DiffSpecProofs: the emission is a
   duplicate-free listing of exactly the modifications the declarative relation describes.) *)
From Coq Require Import List String Ascii ZArith Lia Bool Arith Permutation.
From YT Require Import Base.Str Base.KV Base.Sort Model.Doc Model.Dom Model.Equals Model.Diff
  Proofs.EqualsProofs Proofs.StrProofs Proofs.BuilderProofs Proofs.PathProofs Proofs.DiffProofs
  Proofs.DiffOrderProofs Proofs.DiffNilProofs Proofs.ReconstructProofs.
Import ListNotations.
Local Open Scope list_scope.

Notation fkp := (fk mpath).

(* ---------- a list is duplicate-free if each of its per-path sublists is *)
Lemma fk_In p (m : modif) l : In m (fkp p l) <-> In m l /\ mpath m = p.
Proof. unfold fk. rewrite filter_In, String.eqb_eq. reflexivity. Qed.

Lemma nodup_by_path (l : list modif) : (forall p, NoDup (fkp p l)) -> NoDup l.
Proof.
  induction l as [|x l IH]; intros H; [constructor|].
  constructor.
  - intros Hin. specialize (H (mpath x)). simpl in H. rewrite String.eqb_refl in H.
    inversion H as [|? ? Hn _]; subst. apply Hn. apply fk_In. now split.
  - apply IH. intros p. specialize (H p). simpl in H.
    destruct (String.eqb (mpath x) p); [now inversion H|exact H].
Qed.

Lemma fk_nodup_of_nodup p (l : list modif) : NoDup l -> NoDup (fkp p l).
Proof. intros H. unfold fk. now apply NoDup_filter. Qed.

(* ---------- index positions below one list are disjoint sub-spaces *)
Lemma digits_split : forall d1 d2 x y,
  forallb is_digit d1 = true -> forallb is_digit d2 = true ->
  d1 ++ RBR :: x = d2 ++ RBR :: y -> d1 = d2.
Proof.
  induction d1 as [|c d1 IH]; intros [|e d2] x y F1 F2 E; simpl in *.
  - reflexivity.
  - injection E as <- _. apply andb_prop in F2 as [F _]. now rewrite rbr_not_digit in F.
  - injection E as -> _. apply andb_prop in F1 as [F _]. now rewrite rbr_not_digit in F.
  - apply andb_prop in F1 as [_ F1]. apply andb_prop in F2 as [_ F2]. injection E as -> E.
    f_equal. eapply IH; eauto.
Qed.

Lemma idx_path_ne s i : idx_path s i <> ""%string.
Proof. unfold idx_path. destruct s; discriminate. Qed.

Lemma under_idx_disjoint path i j q :
  under (idx_path path i) q -> under (idx_path path j) q -> i = j.
Proof.
  intros [E|[r1 [E1 _]]]; [now apply idx_path_ne in E|].
  intros [E|[r2 [E2 _]]]; [now apply idx_path_ne in E|].
  rewrite E1 in E2. rewrite !la_idx_path in E2. rewrite <- !app_assoc in E2.
  apply app_inv_head in E2. simpl in E2. injection E2 as E2. rewrite <- !app_assoc in E2. simpl in E2.
  apply digits_split in E2; [|apply nat2s_digits|apply nat2s_digits].
  apply nat2s_inj. now apply la_inj.
Qed.

Lemma concat_all_nil_fk p (bs : list (string * list modif)) :
  (forall b, In b bs -> fkp p (snd b) = []) -> fkp p (List.concat (map snd bs)) = [].
Proof.
  induction bs as [|b r IH]; intros H; [reflexivity|]. simpl. rewrite fk_app, (H b (or_introl eq_refl)).
  simpl. apply IH. intros b' Hb'. apply H. now right.
Qed.

Lemma nodup_fk_blocks path p : forall bs,
  blocks_ok path bs -> (forall b, In b bs -> NoDup (fkp p (snd b))) ->
  NoDup (fkp p (List.concat (map snd bs))).
Proof.
  induction bs as [|b rest IHb]; intros OK Hb; [constructor|].
  simpl. rewrite fk_app.
  destruct OK as [ND OKb]. simpl in ND. inversion ND as [|? ? Nin ND']; subst.
  destruct (fkp p (snd b)) as [|m t] eqn:E.
  - simpl. apply IHb; [split; [exact ND'|intros b' Hb'; apply OKb; now right]|intros b' Hb'; apply Hb; now right].
  - assert (Z : fkp p (List.concat (map snd rest)) = []).
    { apply concat_all_nil_fk. intros b' Hb'.
      assert (NE : fst b <> fst b') by (intros Eq; apply Nin; rewrite Eq; now apply in_map).
      destruct (blocks_ok_disjoint path (b :: rest) b b' p (conj ND OKb) (or_introl eq_refl) (or_intror Hb') NE) as [Z|Z];
        [rewrite Z in E; discriminate|exact Z]. }
    rewrite Z, app_nil_r, <- E. apply Hb. now left.
Qed.

(* ---------- Adds: one per leaf *)
Lemma fk_nil_not_under p pre (l : list modif) :
  all_under pre l -> ~ under pre p -> fkp p l = [].
Proof.
  intros U N. apply fk_nil_of_not_in. intros m Hm E. apply N. rewrite <- E. now apply U.
Qed.

Lemma adds_go_under o : perm_order o -> forall xs path i m,
  forallb (keys_all key_safe) xs = true ->
  In m (adds_go o path xs i) -> exists j, i <= j /\ under (idx_path path j) (mpath m).
Proof.
  intros PO. induction xs as [|x r IH]; intros path i m S Hm; [contradiction|].
  simpl in S. apply andb_prop in S as [Sx Sr]. simpl in Hm. apply in_app_or in Hm as [Hm|Hm].
  - exists i. split; [lia|]. apply (adds_under o PO x (idx_path path i) Sx m Hm).
  - destruct (IH path (S i) m Sr Hm) as [j [Hj U]]. exists j. split; [lia|exact U].
Qed.

Theorem adds_nodup_path : forall n path p,
  wf n = true -> keys_safe n = true -> NoDup (fkp p (adds canonical n path)).
Proof.
  induction n as [v|xs IH|kvs IH] using node_ind'; intros path p W S.
  - simpl. destruct (String.eqb path p); repeat constructor; intros [].
  - rewrite adds_lst. unfold keys_safe in S. simpl in S, W.
    generalize 0. induction IH as [|x r Hx _ IHr]; intros i; [constructor|].
    simpl in S, W. apply andb_prop in S as [Sx Sr]. apply andb_prop in W as [Wx Wr].
    simpl. rewrite fk_app.
    destruct (fkp p (adds canonical x (idx_path path i))) as [|m t] eqn:E.
    + simpl. now apply IHr.
    + assert (Up : under (idx_path path i) p).
      { assert (Hm : In m (fkp p (adds canonical x (idx_path path i)))) by (rewrite E; now left).
        apply fk_In in Hm as [Hm <-]. apply (adds_under canonical canonical_perm x (idx_path path i) Sx m Hm). }
      assert (Z : fkp p (adds_go canonical path r (S i)) = []).
      { apply fk_nil_of_not_in. intros m' Hm' E'.
        destruct (adds_go_under canonical canonical_perm r path (S i) m' Sr Hm') as [j [Hj U]].
        rewrite E' in U. pose proof (under_idx_disjoint path i j p Up U). lia. }
      rewrite Z, app_nil_r, <- E. now apply Hx.
  - rewrite adds_con. unfold blocks. change (canonical 0 path (adds_blocks canonical path kvs)) with (adds_blocks canonical path kvs). simpl in W. apply andb_prop in W as [SK W].
    pose proof (adds_blocks_ok canonical path kvs canonical_perm SK S) as OK.
    unfold keys_safe in S. simpl in S. rewrite forallb_forall in S, W.
    assert (Hb : forall b, In b (adds_blocks canonical path kvs) -> NoDup (fkp p (snd b))).
    { intros b Hb. unfold adds_blocks in Hb. apply in_map_iff in Hb as [[k x] [<- Hin]]. simpl.
      rewrite Forall_forall in IH. apply (IH (k, x) Hin).
      - apply (W (k, x) Hin).
      - specialize (S (k, x) Hin). simpl in S. now apply andb_prop in S as [_ ?]. }
    now apply (nodup_fk_blocks path p).
Qed.

(* ---------- the whole emission *)
Lemma adds_are_adds n path m : In m (adds canonical n path) -> mt m = MAdd.
Proof.
  rewrite adds_flatten. intros H. apply in_map_iff in H as [e [<- _]]. reflexivity.
Qed.

Lemma nodup_del_adds p path n :
  wf n = true -> keys_safe n = true ->
  NoDup (fkp p (mkMod MDelete path SNull SNull :: adds canonical n path)).
Proof.
  intros W S. simpl. destruct (String.eqb path p).
  - constructor; [|now apply adds_nodup_path].
    intros Hin. apply fk_In in Hin as [Hin _]. apply adds_are_adds in Hin. discriminate.
  - now apply adds_nodup_path.
Qed.

Theorem diff_nodup_path : forall l r path p,
  wf l = true -> keys_safe l = true -> wf r = true -> keys_safe r = true ->
  NoDup (fkp p (diff_node canonical l r path)).
Proof.
  induction l as [a|xs IH|kl IH] using node_ind'; intros r path p Wl Sl Wr Sr.
  - destruct r as [b|ys|kr].
    + simpl. destruct (scalar_eqb a b); [constructor|]. simpl.
      destruct (String.eqb path p); repeat constructor; intros [].
    + rewrite diff_node_mismatch by exact Logic.I. now apply nodup_del_adds.
    + rewrite diff_node_mismatch by exact Logic.I. now apply nodup_del_adds.
  - destruct r as [b|ys|kr].
    + rewrite diff_node_mismatch by exact Logic.I. now apply nodup_del_adds.
    + rewrite diff_node_lst. destruct (equals (Lst xs) (Lst ys)); [constructor|]. now apply nodup_del_adds.
    + rewrite diff_node_mismatch by exact Logic.I. now apply nodup_del_adds.
  - destruct r as [b|ys|kr].
    + rewrite diff_node_mismatch by exact Logic.I. now apply nodup_del_adds.
    + rewrite diff_node_mismatch by exact Logic.I. now apply nodup_del_adds.
    + assert (SKl : sorted_keys kl = true) by (simpl in Wl; now apply andb_prop in Wl as [? _]).
      assert (SKr : sorted_keys kr = true) by (simpl in Wr; now apply andb_prop in Wr as [? _]).
      assert (Wk : forall y, In y kl -> wf (snd y) = true).
      { simpl in Wl. apply andb_prop in Wl as [_ Wl]. now rewrite forallb_forall in Wl. }
      assert (Sk : forall y, In y kl -> key_safe (fst y) = true /\ keys_safe (snd y) = true).
      { unfold keys_safe in Sl. simpl in Sl. rewrite forallb_forall in Sl. intros y Hy.
        specialize (Sl y Hy). now apply andb_prop in Sl. }
      assert (Skr : forall y, In y kr -> key_safe (fst y) = true /\ keys_safe (snd y) = true).
      { unfold keys_safe in Sr. simpl in Sr. rewrite forallb_forall in Sr. intros y Hy.
        specialize (Sr y Hy). now apply andb_prop in Sr. }
      rewrite Forall_forall in IH.
      rewrite diff_node_con, dn_left_map. unfold blocks.
      change (canonical 1 path ?l) with l. change (canonical 2 path ?l) with l.
      rewrite fk_app.
      pose proof (dn_left_ok canonical kr path kl canonical_perm SKl Sl Sr) as OKl.
      pose proof (dn_right_ok kl path kr SKr Sr) as OKr.
      assert (NL : NoDup (fkp p (List.concat (map snd (dn_left_blocks canonical kr path kl))))).
      { apply (nodup_fk_blocks path p); [exact OKl|].
        intros bb Hb. unfold dn_left_blocks in Hb. apply in_map_iff in Hb as [[k x] [<- Hin]]. simpl.
        destruct (Sk _ Hin) as [Sk1 Sk2]. simpl in Sk1, Sk2.
        destruct (child k kr) as [y|] eqn:Cy.
        - apply (IH (k, x) Hin); [apply (Wk _ Hin)|exact Sk2|exact (child_wf k kr y Sk1 Wr Cy)|exact (child_safe k kr y Sk1 Sr Cy)].
        - apply adds_nodup_path; [apply (Wk _ Hin)|exact Sk2]. }
      assert (NR : NoDup (fkp p (List.concat (map snd (dn_right kl path kr))))).
      { apply (nodup_fk_blocks path p); [exact OKr|].
        intros bb Hb. unfold dn_right in Hb. apply in_map_iff in Hb as [[k y] [<- Hin]]. simpl.
        destruct (child k kl); [constructor|]. simpl.
        destruct (String.eqb (to_path path k) p); repeat constructor; intros []. }
      destruct (fkp p (List.concat (map snd (dn_left_blocks canonical kr path kl)))) as [|m t] eqn:EL;
        [simpl; exact NR|].
      destruct (fkp p (List.concat (map snd (dn_right kl path kr)))) as [|m' t'] eqn:ER;
        [rewrite app_nil_r; exact NL|].
      exfalso.
      (* an element on each side with the same path: impossible *)
      assert (Hm : In m (fkp p (List.concat (map snd (dn_left_blocks canonical kr path kl))))) by (rewrite EL; now left).
      assert (Hm' : In m' (fkp p (List.concat (map snd (dn_right kl path kr))))) by (rewrite ER; now left).
      apply fk_In in Hm as [Hm Pm]. apply fk_In in Hm' as [Hm' Pm'].
      apply in_concat in Hm as [bl [Hbl Hml]]. apply in_map_iff in Hbl as [b1 [<- Hb1]].
      apply in_concat in Hm' as [br [Hbr Hmr]]. apply in_map_iff in Hbr as [b2 [<- Hb2]].
      destruct OKl as [_ OKl]. destruct OKr as [_ OKr].
      destruct (OKl b1 Hb1) as [S1 U1]. destruct (OKr b2 Hb2) as [S2 U2].
      assert (Ek : fst b1 = fst b2).
      { apply (under_disjoint path (fst b1) (fst b2) p S1 S2).
        - rewrite <- Pm. now apply U1.
        - rewrite <- Pm'. now apply U2. }
      unfold dn_left_blocks in Hb1. apply in_map_iff in Hb1 as [[k1 x1] [<- Hin1]].
      unfold dn_right in Hb2. apply in_map_iff in Hb2 as [[k2 y2] [<- Hin2]].
      simpl in Ek, Hmr, S1. subst k2.
      rewrite child_plain_key in Hmr by now apply key_safe_plain.
      rewrite (in_get k1 x1 kl (sorted_nodup kl SKl) Hin1) in Hmr. contradiction.
Qed.

Theorem diff_node_nodup l r path :
  wf l = true -> keys_safe l = true -> wf r = true -> keys_safe r = true ->
  NoDup (diff_node canonical l r path).
Proof. intros. apply nodup_by_path. intros p. now apply diff_nodup_path. Qed.

Theorem diff_nodup l r :
  wf l = true -> keys_safe l = true -> wf r = true -> keys_safe r = true -> NoDup (diff l r).
Proof.
  intros Wl Sl Wr Sr. unfold diff, diff_ord, diff_raw, sort_mods.
  eapply Permutation_NoDup; [apply Permutation_sym, isort_perm|now apply diff_node_nodup].
Qed.
