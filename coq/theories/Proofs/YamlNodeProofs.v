(* Proofs/YamlNodeProofs.v — the YAML node decoder terminates on every tree the parser can build, cyclic aliases
   included, with an explicit bound, and its result does not depend on the fuel. *)
From Coq Require Import List String Ascii ZArith Lia Bool Arith.
From YT Require Import Base.Str Base.KV Model.Doc Model.Dom Model.Path Model.Builder Model.YamlNode Proofs.ResolverTermProofs.
Import ListNotations.
Local Open Scope list_scope.

Section Y.
Variable env : list (nat * ynode).
Variable B : nat.      (* bound on the size of every anchored node *)

(* the shape of parser output: aliases point at anchors of the tree, a document has one root *)
Inductive shaped : ynode -> Prop :=
| sh_scalar v : shaped (YScalar v)
| sh_zero : shaped YZero
| sh_seq items : Forall shaped items -> shaped (YSeq items)
| sh_map kvs : Forall (fun e => shaped (snd e)) kvs -> shaped (YMap kvs)
| sh_anch i m : shaped m -> shaped (YAnch i m)
| sh_alias i m : env_get i env = Some m -> shaped (YAlias i)
| sh_doc m : shaped m -> shaped (YDoc [m]).

Definition env_ok : Prop := forall i m, env_get i env = Some m -> shaped m /\ ysize m <= B.

Definition unopened (open : list nat) : nat := List.length (filter (fun e => negb (opened (fst e) open)) env).

Lemma opened_cons x i open : opened x (i :: open) = Nat.eqb x i || opened x open.
Proof. reflexivity. Qed.

Lemma unopened_le i open : unopened (i :: open) <= unopened open.
Proof.
  unfold unopened. apply filter_length_le. intros e H. rewrite opened_cons in H.
  apply negb_true_iff in H. apply orb_false_elim in H as [_ H]. now rewrite H.
Qed.

Lemma env_get_in i m : forall l, env_get i l = Some m -> exists j, In (j, m) l /\ Nat.eqb i j = true.
Proof.
  induction l as [|[j n] r IH]; simpl; [discriminate|].
  destruct (Nat.eqb i j) eqn:E.
  - intros H. injection H as ->. exists j. split; [now left|exact E].
  - intros H. destruct (IH H) as [j' [Hin Ej]]. exists j'. split; [now right|exact Ej].
Qed.

Lemma unopened_lt i m open : env_get i env = Some m -> opened i open = false -> unopened (i :: open) < unopened open.
Proof.
  intros G NO. destruct (env_get_in i m env G) as [j [Hin Ej]]. apply Nat.eqb_eq in Ej. subst j.
  unfold unopened. apply (filter_length_lt _ _ env (i, m)).
  - intros e H. rewrite opened_cons in H. apply negb_true_iff in H. apply orb_false_elim in H as [_ H]. now rewrite H.
  - exact Hin.
  - cbn [fst]. now rewrite NO.
  - cbn [fst]. rewrite opened_cons, Nat.eqb_refl. reflexivity.
Qed.

Lemma ysize_item_seq x items : In x items -> ysize x < ysize (YSeq items).
Proof. simpl. induction items as [|y r IH]; [contradiction|]. intros [->|H]; simpl; [lia|]. specialize (IH H). lia. Qed.
Lemma ysize_item_map e kvs : In e kvs -> ysize (snd e) < ysize (YMap kvs).
Proof. simpl. induction kvs as [|y r IH]; [contradiction|]. intros [->|H]; simpl; [lia|]. specialize (IH H). lia. Qed.

(* termination: fuel beyond  size + (anchors not yet being converted) * (B + 1)  is never used up *)
Theorem decode_terminates : env_ok -> forall fuel open n,
  shaped n -> ysize n + unopened open * S B < fuel -> dcheck fuel env open n = true.
Proof.
  intros Ok. induction fuel as [|f IH]; intros open n Sh Hf; [lia|].
  destruct n as [v|items|kvs|i m|i|c|]; simpl.
  - reflexivity.
  - apply forallb_forall. intros x Hx. inversion Sh as [| |its Fa| | | |]; subst.
    apply IH; [rewrite Forall_forall in Fa; now apply Fa|]. pose proof (ysize_item_seq x items Hx). lia.
  - apply forallb_forall. intros e He. inversion Sh as [| | |ks Fa| | |]; subst.
    apply IH; [rewrite Forall_forall in Fa; now apply Fa|]. pose proof (ysize_item_map e kvs He). lia.
  - inversion Sh; subst. apply IH; [assumption|]. pose proof (unopened_le i open).
    assert (unopened (i :: open) * S B <= unopened open * S B) by nia. simpl in Hf. lia.
  - inversion Sh as [| | | | |j m G|]; subst. rewrite G. destruct (opened i open) eqn:O; [reflexivity|].
    destruct (Ok i m G) as [Shm Sm]. apply IH; [exact Shm|].
    pose proof (unopened_lt i m open G O).
    assert (unopened (i :: open) * S B + S B <= unopened open * S B) by nia. simpl in Hf. lia.
  - inversion Sh; subst. apply IH; [assumption|]. simpl in Hf. lia.
  - reflexivity.
Qed.

(* once the conversion is clear of nil, more fuel changes nothing *)
Lemma map_ext_in' {A C} (f g : A -> C) l : (forall x, In x l -> f x = g x) -> map f l = map g l.
Proof. induction l as [|x r IH]; intros H; simpl; [reflexivity|]. rewrite H by now left. rewrite IH; [reflexivity|]. intros y Hy. apply H. now right. Qed.

Theorem decode_fuel_independent : forall fuel open n,
  dcheck fuel env open n = true -> forall g, fuel <= g -> decode g env open n = decode fuel env open n.
Proof.
  induction fuel as [|f IH]; intros open n H g Le; [discriminate|].
  destruct g as [|g]; [lia|]. assert (Le' : f <= g) by lia.
  destruct n as [v|items|kvs|i m|i|c|]; simpl in *.
  - reflexivity.
  - f_equal. apply map_ext_in'. intros x Hx. apply IH; [|exact Le']. rewrite forallb_forall in H. now apply H.
  - f_equal. rewrite forallb_forall in H. revert H. generalize (@nil (string * node)) as acc.
    induction kvs as [|e r IHr]; intros acc H; simpl; [reflexivity|].
    rewrite (IH open (snd e)); [|apply H; now left|exact Le']. apply IHr. intros y Hy. apply H. now right.
  - now apply IH.
  - destruct (env_get i env) as [m|]; [|discriminate]. destruct (opened i open); [reflexivity|]. now apply IH.
  - destruct c as [|m [|m2 r]]; try discriminate. now apply IH.
  - reflexivity.
Qed.
End Y.
