From Coq Require Import List String Ascii ZArith Lia Bool Arith Permutation.
From YT Require Import Base.Str Base.KV Base.Sort Model.Doc Model.Dom Model.Path Model.Builder Model.Merge
  Model.Overlay Model.Resolver Model.Analytics.
Import ListNotations.
Local Open Scope list_scope.

(* ---------- sorting strings: a permutation of the input, independent of the input's order *)
Lemma insert_perm {A} (key : A -> string) x l : Permutation (insert A key x l) (x :: l).
Proof.
  induction l as [|y r IH]; simpl; [reflexivity|].
  destruct (kle (key x) (key y)); [reflexivity|].
  rewrite IH. apply perm_swap.
Qed.
Lemma isort_perm {A} (key : A -> string) l : Permutation (isort key l) l.
Proof. induction l as [|x r IH]; simpl; [reflexivity|]. rewrite insert_perm. now constructor. Qed.

Lemma all_eq_length_eq (k : string) : forall l l',
  Forall (eq k) l -> Forall (eq k) l' -> List.length l = List.length l' -> l = l'.
Proof.
  induction l as [|x r IH]; intros [|y r'] F F' L; simpl in L; try discriminate; [reflexivity|].
  inversion F; inversion F'; subst. f_equal. apply IH; auto.
Qed.

Theorem sort_strings_perm l l' : Permutation l l' -> sort_strings l = sort_strings l'.
Proof.
  intros P. unfold sort_strings. apply stable_sort_unique. intros k. unfold fk.
  apply (all_eq_length_eq k).
  - apply Forall_forall. intros x Hx. apply filter_In in Hx as [_ E]. now apply String.eqb_eq in E.
  - apply Forall_forall. intros x Hx. apply filter_In in Hx as [_ E]. now apply String.eqb_eq in E.
  - apply Permutation_length. clear -P. induction P; simpl.
    + reflexivity.
    + destruct (String.eqb x k); [now constructor|assumption].
    + destruct (String.eqb x k), (String.eqb y k); try reflexivity. apply perm_swap.
    + etransitivity; eauto.
Qed.

Theorem sort_strings_sorted l : sorted (fun s => s) (sort_strings l).
Proof. apply isort_sorted. Qed.

Theorem sort_strings_elements l x : In x (sort_strings l) <-> In x l.
Proof.
  split; intros H.
  - eapply Permutation_in; [apply isort_perm|exact H].
  - eapply Permutation_in; [apply Permutation_sym, isort_perm|exact H].
Qed.

(* ---------- the dependency report, as a function of the KEY SET (any iteration order) *)
Definition dep_of_keys (ks : list string) (src : overlay) (refs : list overlay) : dep_report :=
  let entries := map (fun k => (k, flat_map (coords (mentions k)) (src :: refs))) ks in
  mkDep (sort_strings ks)
        (sort_strings (map fst (filter (fun e => negb (nonempty (snd e))) entries)))
        (filter (fun e => nonempty (snd e)) entries).

Lemma dep_resolve_of_keys keyf src refs :
  dep_resolve keyf src refs = dep_of_keys (filter keyf (map fst (flatten (o_merged false src)))) src refs.
Proof. reflexivity. Qed.

(* sorted fields do not depend on the order in which the keys are visited; the map has the same
   entries (as a multiset) *)
Theorem dep_order_independent ks ks' src refs :
  Permutation ks ks' ->
  all_keys (dep_of_keys ks src refs) = all_keys (dep_of_keys ks' src refs) /\
  orphan_keys (dep_of_keys ks src refs) = orphan_keys (dep_of_keys ks' src refs) /\
  Permutation (dep_map (dep_of_keys ks src refs)) (dep_map (dep_of_keys ks' src refs)).
Proof.
  intros P. unfold dep_of_keys. cbn [all_keys orphan_keys dep_map]. set (f := fun k => (k, flat_map (coords (mentions k)) (src :: refs))).
  assert (PM : Permutation (map f ks) (map f ks')) by now apply Permutation_map.
  repeat split.
  - now apply sort_strings_perm.
  - apply sort_strings_perm. apply Permutation_map.
    clear -PM. induction PM; simpl.
    + reflexivity.
    + destruct (negb (nonempty (snd x))); [now constructor|assumption].
    + destruct (negb (nonempty (snd x))), (negb (nonempty (snd y))); try reflexivity. apply perm_swap.
    + etransitivity; eauto.
  - clear -PM. induction PM; simpl.
    + reflexivity.
    + destruct (nonempty (snd x)); [now constructor|assumption].
    + destruct (nonempty (snd x)), (nonempty (snd y)); try reflexivity. apply perm_swap.
    + etransitivity; eauto.
Qed.

(* exactness: orphans are exactly the keys nobody mentions; the map holds exactly the others, each
   with exactly the mentioning locations (source first, then the references) *)
Theorem orphans_exact ks src refs k :
  In k (orphan_keys (dep_of_keys ks src refs)) <->
  In k ks /\ flat_map (coords (mentions k)) (src :: refs) = [].
Proof.
  unfold dep_of_keys. cbn [all_keys orphan_keys dep_map]. rewrite sort_strings_elements, in_map_iff. split.
  - intros [[k' cs] [E H]]. simpl in E. subst k'. apply filter_In in H as [H1 H2].
    apply in_map_iff in H1 as [k0 [E0 Hin]]. injection E0 as -> <-. split; [exact Hin|].
    cbn [snd] in H2. cbn [flat_map].
    destruct (coords (mentions k) src ++ flat_map (coords (mentions k)) refs); [reflexivity|discriminate].
  - intros [Hin E]. exists (k, []). split; [reflexivity|]. apply filter_In. split; [|reflexivity].
    apply in_map_iff. exists k. rewrite E. auto.
Qed.

Theorem map_exact ks src refs k cs :
  In (k, cs) (dep_map (dep_of_keys ks src refs)) <->
  In k ks /\ cs = flat_map (coords (mentions k)) (src :: refs) /\ cs <> [].
Proof.
  unfold dep_of_keys. cbn [all_keys orphan_keys dep_map]. rewrite filter_In, in_map_iff. split.
  - intros [[k0 [E Hin]] NE]. injection E as -> <-. repeat split; auto.
    cbn [snd] in NE. intro E0. rewrite E0 in NE. discriminate.
  - intros [Hin [-> NE]]. split; [exists k; auto|]. cbn [snd].
    destruct (flat_map (coords (mentions k)) (src :: refs)); [contradiction|reflexivity].
Qed.

(* AllKeys = OrphanKeys ⊎ keys(Map) *)
Theorem partition ks src refs :
  Permutation (all_keys (dep_of_keys ks src refs))
              (orphan_keys (dep_of_keys ks src refs) ++ map fst (dep_map (dep_of_keys ks src refs))).
Proof.
  unfold dep_of_keys. cbn [all_keys orphan_keys dep_map]. set (f := fun k => (k, flat_map (coords (mentions k)) (src :: refs))).
  unfold sort_strings. rewrite !isort_perm.
  assert (E : ks = map fst (map f ks)). { rewrite map_map. simpl. now rewrite map_id. }
  rewrite E at 1. generalize (map f ks) as es. clear.
  induction es as [|e r IH]; simpl; [reflexivity|].
  destruct (nonempty (snd e)); simpl.
  - rewrite IH. apply Permutation_middle.
  - now constructor.
Qed.

(* ---------- impact analysis and the placeholder report, by their definitions *)
Theorem impact_exact ov keys k cs :
  In (k, cs) (impact ov keys) <-> In k keys /\ cs = coords (mentions k) ov /\ cs <> [].
Proof.
  unfold impact. rewrite filter_In, in_map_iff. split.
  - intros [[k0 [E Hin]] NE]. injection E as -> <-. repeat split; auto.
    simpl in NE. intro E0. rewrite E0 in NE. discriminate.
  - intros [Hin [-> NE]]. split; [exists k; auto|]. simpl. destruct (coords _ _); [contradiction|reflexivity].
Qed.

Theorem failed_exact keyf ov k :
  In k (failed_keys (ph_resolve keyf ov)) <->
  exists v, In (k, v) (flatten (o_merged false ov)) /\ keyf k = true /\
            possibly (la (fmt_scalar v)) = true /\ unresolved (o_merged false ov) (fmt_scalar v) = true.
Proof.
  unfold ph_resolve. simpl. rewrite sort_strings_elements, in_map_iff. split.
  - intros [[k' v] [E H]]. simpl in E. subst k'. apply filter_In in H as [H1 H2].
    simpl in H2. apply andb_prop in H2 as [H2 H4]. apply andb_prop in H2 as [H2 H3]. exists v. auto.
  - intros [v [H1 [H2 [H3 H4]]]]. exists (k, v). split; [reflexivity|]. apply filter_In. split; [exact H1|].
    simpl. now rewrite H2, H3, H4.
Qed.

Theorem failed_sorted keyf ov : sorted (fun s => s) (failed_keys (ph_resolve keyf ov)).
Proof. apply isort_sorted. Qed.
