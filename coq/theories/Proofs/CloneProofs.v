From Coq Require Import List String Ascii Bool Arith.
From YT Require Import Base.Str Model.Analytics Model.CloneTbl.
Import ListNotations.
Local Open Scope list_scope.

Section ValInd.
  Variable P : value -> Prop.
  Hypothesis HStr : forall s, P (VStr s).
  Hypothesis HAtom : forall t, P (VAtom t).
  Hypothesis HNone : P (VOpt None).
  Hypothesis HSome : forall x, P x -> P (VOpt (Some x)).
  Hypothesis HList : forall l, Forall P l -> P (VList l).
  Hypothesis HRec : forall ty fs, Forall (fun f => P (snd f)) fs -> P (VRec ty fs).
  Fixpoint value_ind' (v : value) : P v :=
    match v with
    | VStr s => HStr s
    | VAtom t => HAtom t
    | VOpt None => HNone
    | VOpt (Some x) => HSome x (value_ind' x)
    | VList l => HList l ((fix go l : Forall P l :=
                             match l with [] => Forall_nil _ | x :: r => Forall_cons _ (value_ind' x) (go r) end) l)
    | VRec ty fs => HRec ty fs ((fix go l : Forall (fun f => P (snd f)) l :=
                                   match l with
                                   | [] => Forall_nil _
                                   | (n, x) :: r => Forall_cons (n, x) (value_ind' x) (go r)
                                   end) fs)
    end.
End ValInd.

Section Clone.
Variable tbl : table.
Variable render : string -> string.
Hypothesis Hok : all_preserving tbl = true.
Hypothesis Hrender : forall s, tfree_str s = true -> render s = s.

Lemma assoc_in {A} k (l : list (string * A)) v : assoc k l = Some v -> In (k, v) l.
Proof.
  induction l as [|[k' v'] r IH]; simpl; [discriminate|].
  destruct (String.eqb_spec k k'); [intros [= ->]; subst; auto|auto].
Qed.

Lemma flow_of_ok ty n : field_ok (flow_of tbl ty n) = true.
Proof.
  unfold flow_of. destruct (assoc ty tbl) as [fs|] eqn:E; [|reflexivity].
  apply assoc_in in E. unfold all_preserving in Hok. rewrite forallb_forall in Hok.
  specialize (Hok _ E). simpl in Hok. rewrite forallb_forall in Hok.
  destruct (assoc n fs) as [f|] eqn:E2.
  - apply assoc_in in E2. apply (Hok _ E2).
  - destruct (assoc "*"%string fs) as [f|] eqn:E3; [|reflexivity]. apply assoc_in in E3. apply (Hok _ E3).
Qed.

Lemma map_id_in {A} (f : A -> A) l : (forall x, In x l -> f x = x) -> map f l = l.
Proof.
  induction l as [|x r IH]; intros H; [reflexivity|]. simpl. rewrite H by (left; reflexivity).
  f_equal. apply IH. intros y Hy. apply H. now right.
Qed.

Lemma render_shallow_id v : tfree v = true -> render_shallow render v = v.
Proof.
  intros T. destruct v as [s|t|[x|]|l|ty fs]; simpl in *; try reflexivity.
  - now rewrite Hrender.
  - destruct x as [s|t|o|l|ty fs]; simpl in *; try reflexivity.
    + now rewrite Hrender.
    + do 2 f_equal. f_equal. apply map_id_in. intros y Hy. rewrite forallb_forall in T. specialize (T y Hy).
      destruct y; try reflexivity. simpl in T. now rewrite Hrender.
  - f_equal. apply map_id_in. intros y Hy. rewrite forallb_forall in T. specialize (T y Hy).
    destruct y; try reflexivity. simpl in T. now rewrite Hrender.
Qed.

Lemma render_fields_id fs : forallb (fun f : string * value => tfree (snd f)) fs = true ->
  map (fun f : string * value => (fst f, match snd f with VStr s => VStr (render s) | y => y end)) fs = fs.
Proof.
  intros T. apply map_id_in. intros [n y] Hy. rewrite forallb_forall in T. specialize (T _ Hy). simpl in *.
  destruct y; try reflexivity. simpl in T. now rewrite Hrender.
Qed.

Lemma render_valorref_id v : tfree v = true -> render_valorref render v = v.
Proof.
  intros T. destruct v as [s|t|[x|]|l|ty fs]; simpl in *; try reflexivity.
  - destruct x as [s|t|o|l|ty fs]; simpl in *; try reflexivity. now rewrite render_fields_id.
  - now rewrite render_fields_id.
Qed.

Lemma flow_apply_id f orig cloned :
  field_ok f = true -> tfree orig = true -> cloned = orig -> flow_apply render f orig cloned = orig.
Proof.
  intros Ok T ->. destruct f; simpl in *; try reflexivity; try discriminate;
    auto using render_shallow_id, render_valorref_id.
Qed.

(* with template-free fields the clone is structurally equal to the original *)
Theorem clone_preserves : forall v, tfree v = true -> clone_v tbl render v = v.
Proof.
  induction v as [s|t| |x IH|l IH|ty fs IH] using value_ind'; intros T; try reflexivity.
  - simpl. now rewrite IH.
  - simpl. f_equal. simpl in T. induction IH as [|x r Hx _ IHr]; [reflexivity|].
    simpl in T. apply andb_prop in T as [T1 T2]. now rewrite Hx, IHr.
  - simpl. f_equal. simpl in T. induction IH as [|[n x] r Hx _ IHr]; [reflexivity|].
    simpl in T. apply andb_prop in T as [T1 T2]. simpl in Hx. rewrite IHr by exact T2. f_equal. f_equal.
    apply flow_apply_id; auto using flow_of_ok.
Qed.
End Clone.

(* a text field documented as a template ends up holding the rendered text (the clone is a new
   value: the original is whatever it was) *)
Definition clone_fields (tbl : table) (render : string -> string) (ty : string) :=
  fix go (l : list (string * value)) : list (string * value) :=
    match l with
    | [] => []
    | (n, fv) :: r => (n, flow_apply render (flow_of tbl ty n) fv (clone_v tbl render fv)) :: go r
    end.
Lemma clone_rec tbl render ty fs : clone_v tbl render (VRec ty fs) = VRec ty (clone_fields tbl render ty fs).
Proof. reflexivity. Qed.

Theorem clone_renders_templates tbl render ty fs n s :
  flow_of tbl ty n = FRender -> In (n, VStr s) fs ->
  In (n, VStr (render s)) (clone_fields tbl render ty fs).
Proof.
  intros F. induction fs as [|[m x] r IH]; intros H; [contradiction|].
  simpl. destruct H as [[= -> ->]|H]; [left; now rewrite F|right; auto].
Qed.

(* a field the method forgets is observable: with that field populated the clone differs *)
Theorem dropped_field_observable tbl render ty n s :
  flow_of tbl ty n = FDropped -> s <> ""%string ->
  clone_v tbl render (VRec ty [(n, VStr s)]) <> VRec ty [(n, VStr s)].
Proof. intros F NE. simpl. rewrite F. simpl. intros [= E]. congruence. Qed.
