From Coq Require Import List String Ascii ZArith Lia Bool Arith Permutation.
From YT Require Import Base.Str Base.KV Base.Sort Model.Doc Model.Dom Model.Equals Model.Diff
  Proofs.EqualsProofs Proofs.StrProofs Proofs.BuilderProofs Proofs.PathProofs.
Import ListNotations.
Local Open Scope list_scope.

(* the result is ordered by path; ties keep their emission order *)
Theorem diff_sorted o l r : sorted mpath (diff_ord o l r).
Proof. apply isort_sorted. Qed.

Theorem diff_stable o l r p : fk mpath p (diff_ord o l r) = fk mpath p (diff_raw o l r).
Proof. apply fk_isort. Qed.

(* whatever the iteration orders: if they leave the per-path subsequences alone, the sorted
   results coincide (a stably sorted list is determined by its per-key subsequences) *)
Theorem diff_ord_determined o1 o2 l r :
  (forall p, fk mpath p (diff_raw o1 l r) = fk mpath p (diff_raw o2 l r)) ->
  diff_ord o1 l r = diff_ord o2 l r.
Proof. intros H. apply stable_sort_unique. exact H. Qed.

(* ---------- Diff(L, L) = [] *)
Definition dn_left (o : order) (kr : list (string * node)) (path : string) :=
  fix go (ll : list (string * node)) : list (string * list modif) :=
    match ll with
    | [] => []
    | (k, n) :: rest =>
        (k, match child k kr with
            | Some n2 => diff_node o n n2 (to_path path k)
            | None => adds o n (to_path path k)
            end) :: go rest
    end.
Definition dn_right (kl : list (string * node)) (path : string) (kr : list (string * node)) :=
  map (fun kv => (fst kv, match child (fst kv) kl with
                          | None => [mkMod MDelete (to_path path (fst kv)) SNull SNull]
                          | Some _ => []
                          end)) kr.
Lemma diff_node_con o kl kr path :
  diff_node o (Con kl) (Con kr) path =
  blocks o 1 path (dn_left o kr path kl) ++ blocks o 2 path (dn_right kl path kr).
Proof. reflexivity. Qed.

Lemma concat_all_nil {A B} (l : list (A * list B)) :
  Forall (fun b => snd b = []) l -> List.concat (map snd l) = [].
Proof. induction 1 as [|[a b] r H _ IH]; simpl; [reflexivity|]. simpl in H. now rewrite H, IH. Qed.

Lemma child_plain_key k kvs : plain_comp k = true -> child k kvs = kv_get k kvs.
Proof.
  intros P. unfold child. rewrite (comp_parse_plain k P). destruct (kv_get k kvs); reflexivity.
Qed.

Lemma dn_left_all_nil o kr path : forall sub,
  (forall k x, In (k, x) sub ->
     match child k kr with
     | Some n2 => diff_node o x n2 (to_path path k)
     | None => adds o x (to_path path k)
     end = []) ->
  Forall (fun b => snd b = []) (dn_left o kr path sub).
Proof.
  induction sub as [|[k x] r IHr]; intros H; [constructor|].
  simpl. constructor.
  - simpl. apply H. now left.
  - apply IHr. intros k' x' Hin. apply H. now right.
Qed.

Theorem diff_node_self : forall l path,
  wf l = true -> keys_safe l = true -> diff_node canonical l l path = [].
Proof.
  induction l as [v|xs IH|kvs IH] using node_ind'; intros path W S.
  - simpl. now destruct (scalar_eqb_spec v v).
  - simpl diff_node. change ((fix go (l1 l2 : list node) : bool := _) xs xs) with (equals (Lst xs) (Lst xs)).
    now rewrite equals_refl.
  - rewrite diff_node_con. unfold blocks, canonical.
    simpl in W. apply andb_prop in W as [Sk W]. unfold keys_safe in S. simpl in S.
    assert (G : forall k x, In (k, x) kvs -> child k kvs = Some x).
    { intros k x Hin. rewrite forallb_forall in S. specialize (S _ Hin). simpl in S.
      apply andb_prop in S as [S1 _]. rewrite child_plain_key by now apply key_safe_plain.
      apply in_get; auto. now apply sorted_nodup. }
    rewrite !concat_all_nil; [reflexivity| |].
    + unfold dn_right. apply Forall_forall. intros b Hb. apply in_map_iff in Hb as [[k x] [<- Hin]].
      simpl. now rewrite (G k x Hin).
    + apply dn_left_all_nil. intros k x Hin. rewrite (G k x Hin).
      rewrite Forall_forall in IH. apply (IH (k, x) Hin).
      * rewrite forallb_forall in W. apply (W (k, x) Hin).
      * rewrite forallb_forall in S. specialize (S (k, x) Hin).
        simpl in S. now apply andb_prop in S as [_ S2].
Qed.

Theorem diff_self l : wf l = true -> keys_safe l = true -> diff l l = [].
Proof. intros W S. unfold diff, diff_ord, diff_raw. now rewrite diff_node_self. Qed.
