(* Proofs/ReconstructProofs.v — reconstruction from the empty document: applying Diff(L, {}) to {}
   makes every flattened path of L resolve to its leaf (the Adds are the flattened leaves of L in
   path order; each applied Add is an AddValueAt; re-insertion in any order is complete). *)
From Coq Require Import List String Ascii ZArith Lia Bool Arith Permutation.
From YT Require Import Base.Str Base.KV Base.Sort Model.Doc Model.Dom Model.Pointer Model.Path Model.Builder
  Model.Equals Model.Diff Model.Apply
  Proofs.StrProofs Proofs.BuilderProofs Proofs.PathProofs Proofs.FrameProofs Proofs.RebuildProofs
  Proofs.DiffProofs Proofs.DiffOrderProofs Proofs.DiffNilProofs Proofs.ApplyProofs Proofs.ApplyLookupProofs.
Import ListNotations.
Local Open Scope list_scope.

Lemma insert_perm {A} (key : A -> string) x l : Permutation (insert A key x l) (x :: l).
Proof.
  induction l as [|y r IH]; simpl; [apply Permutation_refl|].
  destruct (kle (key x) (key y)); [apply Permutation_refl|].
  eapply Permutation_trans; [apply perm_skip, IH|apply perm_swap].
Qed.
Lemma isort_perm {A} (key : A -> string) l : Permutation (isort key l) l.
Proof.
  induction l as [|x r IH]; simpl; [constructor|].
  eapply Permutation_trans; [apply insert_perm|now apply perm_skip].
Qed.

(* Diff(L, {}) is one Add per flattened leaf of L, ordered by path *)
Lemma diff_to_empty kl : diff (Con kl) (Con []) = sort_mods (map add_of (flatten (Con kl))).
Proof.
  unfold diff, diff_ord, diff_raw, flatten. rewrite <- adds_flatten.
  rewrite diff_node_con, dn_left_map, adds_con. unfold dn_right. simpl map.
  unfold blocks at 2. simpl. rewrite app_nil_r. unfold blocks, canonical.
  f_equal. f_equal. f_equal. unfold dn_left_blocks, adds_blocks. apply map_ext. intros [k x]. simpl.
  unfold child. destruct (comp_parse k). reflexivity.
Qed.

(* an applied Add at a rendered safe position is an AddValueAt *)
Lemma apply_single_add k r v old kvs :
  forallb step_safe (K k :: r) = true ->
  apply_single kvs (mkMod MAdd (render_steps (K k :: r)) v old) =
  add_value_at (render_steps (K k :: r)) (Leaf v) kvs.
Proof.
  intros S. pose proof (apply_add_is_add_value_at k r v old MAdd kvs S (or_introl eq_refl)) as H.
  unfold apply in H. simpl in H. now injection H.
Qed.

Lemma fold_apply_adds : forall (l : list (list step * scalar)) kvs,
  Forall (fun e => exists k r, fst e = K k :: r /\ forallb step_safe (K k :: r) = true) l ->
  fold_left apply_single (map (fun e => add_of (render_steps (fst e), snd e)) l) kvs =
  fold_left put_path (map (fun e => (render_steps (fst e), snd e)) l) kvs.
Proof.
  induction l as [|[s v] r IH]; intros kvs F; [reflexivity|].
  inversion F as [|? ? [k [rest [E S]]] Fr]; subst. simpl in E. subst s.
  simpl. unfold add_of at 2. simpl fst. simpl snd. rewrite apply_single_add by exact S.
  unfold put_path at 2. simpl. now apply IH.
Qed.

Theorem reconstruct_from_empty kl p v :
  wf (Con kl) = true -> keys_safe (Con kl) = true ->
  In (p, v) (flatten (Con kl)) ->
  lookup p (apply (Con []) (diff (Con kl) (Con []))) = Some (Leaf v).
Proof.
  intros W S Hin. rewrite diff_to_empty. unfold sort_mods.
  set (F := flatten (Con kl)) in *.
  pose proof (isort_perm mpath (map add_of F)) as P.
  (* the sorted list is the image of a permutation of the flattened step lists *)
  assert (Ef : F = map (fun e => (render_steps (fst e), snd e)) (flatten_steps (Con kl)))
    by (unfold F; apply flatten_steps_render).
  rewrite Ef in P |- *. rewrite map_map in P |- *.
  apply Permutation_map_inv in P as [l' [El P']].
  rewrite El. unfold apply.
  assert (Fl : Forall (fun e => exists k r, fst e = K k :: r /\ forallb step_safe (K k :: r) = true) l').
  { apply Forall_forall. intros [s x] He. apply Permutation_sym in P'. apply (Permutation_in _ P') in He.
    pose proof (flatten_steps_safe _ _ _ S He) as Ss.
    rewrite flatten_steps_con in He. apply In_fs_kvs in He as [k [y [rest [-> _]]]].
    exists k, rest. split; [reflexivity|exact Ss]. }
  rewrite (fold_apply_adds l' [] Fl).
  apply (rebuild_any_order_complete kl (map (fun e => (render_steps (fst e), snd e)) l') []); auto.
  rewrite flatten_steps_render. apply Permutation_map. now apply Permutation_sym.
Qed.
