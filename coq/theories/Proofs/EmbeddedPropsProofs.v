(* k8s/embedded.go, the properties form of an embedded document: EncodeEmbeddedProps writes one text item per flattened
   leaf (name = the leaf's path, text = fmt "%v" of its value), DecodeEmbeddedProps re-inserts every item with AddValueAt
   in the order the manifest's map hands them out.  Saved and reopened, the document has the same flattened leaves:
   a corollary of C02's rebuild theorem. *)
From Coq Require Import List String Ascii ZArith Lia Bool Arith Permutation.
From YT Require Import Base.Str Base.KV Model.Doc Model.Dom Model.Path Model.Builder Model.Analytics Model.DocSet
  Proofs.RebuildProofs Proofs.RebuildExactProofs Proofs.FlattenSortedProofs.
Import ListNotations.
Local Open Scope list_scope.

Definition is_str (v : scalar) : bool := match v with SStr _ => true | _ => false end.

Lemma props_doc_is_rebuild items :
  props_doc items = Con (fold_left put_path (map (fun it => (fst it, SStr (snd it))) items) []).
Proof.
  unfold props_doc. f_equal. generalize (@nil (string * node)) as acc.
  induction items as [|it r IH]; intros acc; [reflexivity|]. simpl. apply IH.
Qed.

Lemma enc_props_strings (l : list (string * scalar)) :
  forallb (fun e => is_str (snd e)) l = true ->
  map (fun it : string * string => (fst it, SStr (snd it))) (map (fun e => (fst e, fmt_scalar (snd e))) l) = l.
Proof.
  induction l as [|[p v] r IH]; simpl; intros H; [reflexivity|]. apply andb_prop in H as [Hv Hr].
  rewrite (IH Hr). destruct v; try discriminate. reflexivity.
Qed.

Theorem embedded_props_round_trip kvs items :
  wf (Con kvs) = true -> keys_safe (Con kvs) = true -> eis (Con kvs) = true ->
  forallb (fun e => is_str (snd e)) (flatten (Con kvs)) = true ->
  Permutation items (enc_props (Con kvs)) ->
  flatten (props_doc items) = flatten (Con kvs).
Proof.
  intros W S E Str P. rewrite props_doc_is_rebuild. apply rebuild_flatten_eq; try assumption.
  assert (Eq : flatten (Con kvs) = map (fun it : string * string => (fst it, SStr (snd it))) (enc_props (Con kvs))).
  { symmetry. unfold enc_props. apply enc_props_strings. exact Str. }
  rewrite Eq. apply Permutation_map. exact P.
Qed.

(* what Save leaves in the manifest: exactly one item per flattened leaf, no item twice *)
Theorem enc_props_names d : map fst (enc_props d) = map fst (flatten d).
Proof. unfold enc_props. rewrite map_map. reflexivity. Qed.
