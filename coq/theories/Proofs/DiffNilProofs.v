(* Proofs/DiffNilProofs.v — an empty Diff means the two documents have the same flattened leaves;
   the Adds emitted for a subtree are exactly its flattened leaves. *)
From Coq Require Import List String Ascii ZArith Lia Bool Arith Permutation.
From YT Require Import Base.Str Base.KV Base.Sort Model.Doc Model.Dom Model.Equals Model.Diff
  Proofs.EqualsProofs Proofs.StrProofs Proofs.BuilderProofs Proofs.PathProofs Proofs.DiffProofs
  Proofs.DiffOrderProofs.
Import ListNotations.
Local Open Scope list_scope.

(* ---------- adds = one Add per flattened leaf, carrying its value *)
Definition add_of (e : string * scalar) : modif := mkMod MAdd (fst e) (snd e) SNull.

Theorem adds_flatten : forall n path, adds canonical n path = map add_of (flatten_node n path).
Proof.
  induction n as [v|xs IH|kvs IH] using node_ind'; intros path.
  - reflexivity.
  - rewrite adds_lst, flatten_node_lst. generalize 0.
    induction IH as [|x r Hx _ IHr]; intros i; [reflexivity|].
    simpl. rewrite map_app, Hx, IHr. reflexivity.
  - rewrite adds_con, flatten_node_con. unfold blocks, canonical, adds_blocks.
    induction IH as [|[k x] r Hx _ IHr]; [reflexivity|].
    simpl. rewrite map_app, <- IHr. simpl in Hx. now rewrite Hx.
Qed.

Lemma adds_nil_flatten n path : adds canonical n path = [] -> flatten_node n path = [].
Proof. rewrite adds_flatten. destruct (flatten_node n path); [reflexivity|discriminate]. Qed.

(* ---------- membership in the flattening of a container *)
Lemma In_fn_kvs path kvs e :
  In e (fn_kvs path kvs) <-> exists k x, In (k, x) kvs /\ In e (flatten_node x (to_path path k)).
Proof.
  induction kvs as [|[k x] r IH]; simpl.
  - split; [contradiction|]. intros [k [x [[] _]]].
  - rewrite in_app_iff, IH. split.
    + intros [H|[k' [x' [H1 H2]]]]; [exists k, x; split; [now left|exact H]|exists k', x'; split; [now right|exact H2]].
    + intros [k' [x' [[E|H1] H2]]]; [injection E as <- <-; now left|right; now exists k', x'].
Qed.

Lemma concat_nil_inv {A} (ls : list (list A)) : List.concat ls = [] -> forall l, In l ls -> l = [].
Proof.
  induction ls as [|a r IH]; simpl; intros H l Hin; [contradiction|].
  apply app_eq_nil in H as [Ha Hr]. destruct Hin as [<-|Hin]; [exact Ha|now apply IH].
Qed.

Definition same_leaves (a b : list (string * scalar)) : Prop := forall e, In e a <-> In e b.

Theorem diff_node_nil_flatten : forall l r path,
  wf l = true -> keys_safe l = true -> wf r = true -> keys_safe r = true ->
  diff_node canonical l r path = [] ->
  same_leaves (flatten_node l path) (flatten_node r path).
Proof.
  induction l as [v|xs IH|kvs IH] using node_ind'; intros r path Wl Sl Wr Sr D.
  - destruct r as [w|ys|kr]; try (rewrite diff_node_mismatch in D by exact I; discriminate).
    simpl in D. destruct (scalar_eqb_spec v w) as [->|NE]; [|discriminate]. intros e. reflexivity.
  - destruct r as [w|ys|kr]; try (rewrite diff_node_mismatch in D by exact I; discriminate).
    rewrite diff_node_lst in D. destruct (equals (Lst xs) (Lst ys)) eqn:E; [|discriminate].
    apply equals_iff_eq in E; auto. rewrite E. intros e. reflexivity.
  - destruct r as [w|ys|kr]; try (rewrite diff_node_mismatch in D by exact I; discriminate).
    rewrite diff_node_con, dn_left_map in D. unfold blocks, canonical in D.
    apply app_eq_nil in D as [DL DR].
    assert (SKl : sorted_keys kvs = true) by (simpl in Wl; now apply andb_prop in Wl as [? _]).
    assert (SKr : sorted_keys kr = true) by (simpl in Wr; now apply andb_prop in Wr as [? _]).
    assert (Wk : forall y, In y kvs -> wf (snd y) = true).
    { simpl in Wl. apply andb_prop in Wl as [_ Wl]. now rewrite forallb_forall in Wl. }
    assert (Sk : forall y, In y kvs -> key_safe (fst y) = true /\ keys_safe (snd y) = true).
    { unfold keys_safe in Sl. simpl in Sl. rewrite forallb_forall in Sl. intros y Hy.
      specialize (Sl y Hy). now apply andb_prop in Sl. }
    assert (Skr : forall y, In y kr -> key_safe (fst y) = true /\ keys_safe (snd y) = true).
    { unfold keys_safe in Sr. simpl in Sr. rewrite forallb_forall in Sr. intros y Hy.
      specialize (Sr y Hy). now apply andb_prop in Sr. }
    (* every left key: matched with an equal-leaved right child, or leafless *)
    assert (HL : forall k x, In (k, x) kvs ->
              match kv_get k kr with
              | Some n2 => same_leaves (flatten_node x (to_path path k)) (flatten_node n2 (to_path path k))
              | None => flatten_node x (to_path path k) = []
              end).
    { intros k x Hin. destruct (Sk _ Hin) as [Sk1 Sk2]. simpl in Sk1, Sk2.
      pose proof (concat_nil_inv _ DL) as DL'.
      specialize (DL' (match child k kr with
                       | Some n2 => diff_node canonical x n2 (to_path path k)
                       | None => adds canonical x (to_path path k)
                       end)).
      assert (E : match child k kr with
                  | Some n2 => diff_node canonical x n2 (to_path path k)
                  | None => adds canonical x (to_path path k)
                  end = []).
      { apply DL'. unfold dn_left_blocks. rewrite map_map. simpl.
        apply in_map_iff. exists (k, x). split; [reflexivity|exact Hin]. }
      rewrite <- child_plain_key by now apply key_safe_plain.
      destruct (child k kr) as [n2|] eqn:C.
      - rewrite Forall_forall in IH.
        apply (IH (k, x) Hin n2 (to_path path k));
          [apply (Wk _ Hin)|exact Sk2|eapply child_wf; eauto|eapply child_safe; eauto|exact E].
      - now apply adds_nil_flatten. }
    (* every right key exists on the left *)
    assert (HR : forall k y, In (k, y) kr -> exists x, In (k, x) kvs).
    { intros k y Hin. pose proof (concat_nil_inv _ DR) as DR'.
      specialize (DR' (match child k kvs with
                       | None => [mkMod MDelete (to_path path k) SNull SNull]
                       | Some _ => []
                       end)).
      assert (E : match child k kvs with
                  | None => [mkMod MDelete (to_path path k) SNull SNull]
                  | Some _ => []
                  end = []).
      { apply DR'. unfold dn_right. rewrite map_map. simpl.
        apply in_map_iff. exists (k, y). split; [reflexivity|exact Hin]. }
      destruct (Skr _ Hin) as [Sk1 _]. simpl in Sk1.
      rewrite child_plain_key in E by now apply key_safe_plain.
      destruct (kv_get k kvs) as [x|] eqn:G; [|discriminate]. exists x. now apply get_in. }
    rewrite !flatten_node_con. intros e. rewrite !In_fn_kvs. split.
    + intros [k [x [Hin He]]]. specialize (HL k x Hin).
      destruct (kv_get k kr) as [n2|] eqn:G.
      * exists k, n2. split; [now apply get_in|now apply HL].
      * rewrite HL in He. contradiction.
    + intros [k [y [Hin He]]]. destruct (HR k y Hin) as [x Hx]. specialize (HL k x Hx).
      rewrite (in_get k y kr) in HL by (auto using sorted_nodup).
      exists k, x. split; [exact Hx|now apply HL].
Qed.

Theorem diff_nil_flatten l r :
  wf l = true -> keys_safe l = true -> wf r = true -> keys_safe r = true ->
  diff l r = [] -> same_leaves (flatten l) (flatten r).
Proof.
  intros Wl Sl Wr Sr D. unfold diff, diff_ord, sort_mods in D. apply isort_nil in D.
  now apply diff_node_nil_flatten.
Qed.

(* with diff_self: equal documents have an empty diff; the converse direction above is about
   leaves only — an empty container on one side and no key on the other still give [] *)
