From Coq Require Import List String Ascii ZArith Lia Bool Arith Permutation.
From YT Require Import Base.Str Base.KV Model.Doc Model.Dom Model.Builder Model.Codec Model.Merge Model.Pipeline.
Import ListNotations.
Local Open Scope list_scope.

(* ---------- the declared orders *)
Inductive sorted_by {A} (le : A -> A -> bool) : list A -> Prop :=
| sb_nil : sorted_by le []
| sb_cons x l : Forall (fun y => le x y = true) l -> sorted_by le l -> sorted_by le (x :: l).

Lemma insert_op_perm o l : Permutation (insert_op o l) (o :: l).
Proof.
  induction l as [|x r IH]; simpl; [reflexivity|].
  destruct (Nat.leb (op_rank o) (op_rank x)); [reflexivity|]. rewrite IH. apply perm_swap.
Qed.
Theorem sort_ops_perm l : Permutation (sort_ops l) l.
Proof. induction l as [|o r IH]; simpl; [reflexivity|]. rewrite insert_op_perm. now constructor. Qed.

Definition op_le (a b : op) : bool := Nat.leb (op_rank a) (op_rank b).
Lemma insert_op_sorted o l : sorted_by op_le l -> sorted_by op_le (insert_op o l).
Proof.
  induction 1 as [|x r Hx Hs IH]; simpl; [repeat constructor|].
  unfold op_le in *. destruct (Nat.leb_spec (op_rank o) (op_rank x)).
  - constructor; [|constructor; auto]. constructor; [apply Nat.leb_le; lia|].
    eapply Forall_impl; [|exact Hx]. simpl. intros a Ha. apply Nat.leb_le in Ha. apply Nat.leb_le. lia.
  - constructor; [|exact IH].
    eapply Permutation_Forall; [apply Permutation_sym, insert_op_perm|].
    constructor; [apply Nat.leb_le; lia|exact Hx].
Qed.
(* operations run in the fixed declared operation order, whatever order they were listed in *)
Theorem sort_ops_sorted l : sorted_by op_le (sort_ops l).
Proof. induction l as [|o r IH]; simpl; [constructor|]. now apply insert_op_sorted. Qed.

Lemma insert_act_perm a l : Permutation (insert_act a l) (a :: l).
Proof.
  induction l as [|x r IH]; simpl; [reflexivity|].
  destruct (Z.leb (act_order a) (act_order x)); [reflexivity|]. rewrite IH. apply perm_swap.
Qed.
Theorem sort_children_perm l : Permutation (sort_children l) l.
Proof. induction l as [|o r IH]; simpl; [reflexivity|]. rewrite insert_act_perm. now constructor. Qed.

Definition act_le (a b : action) : bool := Z.leb (act_order a) (act_order b).
Lemma insert_act_sorted a l : sorted_by act_le l -> sorted_by act_le (insert_act a l).
Proof.
  induction 1 as [|x r Hx Hs IH]; simpl; [repeat constructor|].
  unfold act_le in *. destruct (Z.leb_spec (act_order a) (act_order x)).
  - constructor; [|constructor; auto]. constructor; [apply Z.leb_le; lia|].
    eapply Forall_impl; [|exact Hx]. simpl. intros b Hb. apply Z.leb_le in Hb. apply Z.leb_le. lia.
  - constructor; [|exact IH].
    eapply Permutation_Forall; [apply Permutation_sym, insert_act_perm|].
    constructor; [apply Z.leb_le; lia|exact Hx].
Qed.
(* children run in ascending order value *)
Theorem sort_children_sorted l : sorted_by act_le (sort_children l).
Proof. induction l as [|o r IH]; simpl; [constructor|]. now apply insert_act_sorted. Qed.

(* ---------- a false condition: neither operations nor children run, nothing changes *)
Theorem when_false_noop f name order when ops children st :
  eval_cond when (st_data st) = Some false ->
  exec (S f) (Act name order when ops children) st =
    (mkSt (st_data st) (st_reg st) (st_ev st ++ [EB (LAct name); EA (LAct name) false]), SOk).
Proof.
  intros H. unfold exec. simpl. destruct (interp f) as [rec rec_do]. simpl.
  unfold wrapped, spec_do. simpl. rewrite H. unfold emit. simpl. now rewrite <- app_assoc.
Qed.

(* ---------- trace invariants: well-nested notifications, fail-fast *)
Definition lbl_eqb (a b : lbl) : bool :=
  match a, b with
  | LAct x, LAct y | LOp x, LOp y | LInner x, LInner y => String.eqb x y
  | LOps, LOps | LChildren, LChildren => true
  | _, _ => false
  end.

(* run the event word against a stack of open OnBefore labels *)
Fixpoint dyck (stack : list lbl) (w : list event) : option (list lbl) :=
  match w with
  | [] => Some stack
  | EB l :: r => dyck (l :: stack) r
  | EA l _ :: r => match stack with
                   | top :: rest => if lbl_eqb l top then dyck rest r else None
                   | [] => None
                   end
  | _ :: r => dyck stack r
  end.

Lemma lbl_eqb_refl l : lbl_eqb l l = true.
Proof. destruct l; simpl; auto using String.eqb_refl. Qed.

Lemma dyck_app s w1 w2 : dyck s (w1 ++ w2) = match dyck s w1 with Some s' => dyck s' w2 | None => None end.
Proof.
  revert s. induction w1 as [|e r IH]; intros s; [reflexivity|].
  destruct e; simpl; auto. destruct s as [|top rest]; [reflexivity|]. destruct (lbl_eqb l top); auto.
Qed.

Definition neutral (w : list event) : Prop := forall s, dyck s w = Some s.
Definition is_fail (e : event) : bool := match e with EA _ true => true | _ => false end.
Definition no_fail (w : list event) : Prop := forallb (fun e => negb (is_fail e)) w = true.
Definition fail_shape (w : list event) : Prop :=
  exists pre post, w = pre ++ post /\ no_fail pre /\ forallb is_fail post = true.

(* the invariant of every piece of the interpreter: what it appends to the event log *)
Definition Good (f : state -> state * status) : Prop :=
  forall st st' r, f st = (st', r) ->
  exists w, st_ev st' = st_ev st ++ w /\ neutral w /\
            (r = SOk -> no_fail w) /\ (r = SErr -> fail_shape w).

Lemma neutral_nil : neutral []. Proof. intros s; reflexivity. Qed.
Lemma neutral_app a b : neutral a -> neutral b -> neutral (a ++ b).
Proof. intros Ha Hb s. rewrite dyck_app, Ha. apply Hb. Qed.
Lemma no_fail_app a b : no_fail a -> no_fail b -> no_fail (a ++ b).
Proof. unfold no_fail. intros Ha Hb. now rewrite forallb_app, Ha, Hb. Qed.
Lemma fail_shape_prefix a b : no_fail a -> fail_shape b -> fail_shape (a ++ b).
Proof.
  intros Ha [pre [post [-> [Hp Hq]]]]. exists (a ++ pre), post. rewrite app_assoc. repeat split; auto.
  now apply no_fail_app.
Qed.

Lemma Good_wrapped l body : Good body -> Good (wrapped l body).
Proof.
  intros G st st' r H. unfold wrapped in H.
  destruct (body (emit (EB l) st)) as [st1 r1] eqn:E. injection H as <- <-.
  destruct (G _ _ _ E) as [w [Ew [Nw [Ok Er]]]]. simpl in Ew.
  exists ([EB l] ++ w ++ [EA l match r1 with SOk => false | _ => true end]).
  split; [simpl; rewrite Ew, <- !app_assoc; reflexivity|].
  split.
  - intros s. simpl. rewrite dyck_app, Nw. simpl. now rewrite lbl_eqb_refl.
  - split.
    + intros ->. specialize (Ok eq_refl). unfold no_fail in *. simpl. rewrite forallb_app, Ok. reflexivity.
    + intros ->. destruct (Er eq_refl) as [pre [post [-> [Hp Hq]]]].
      exists ([EB l] ++ pre), (post ++ [EA l true]). rewrite <- !app_assoc. repeat split.
      * unfold no_fail in *. simpl. exact Hp.
      * rewrite forallb_app, Hq. reflexivity.
Qed.

Lemma Good_seq {A} (f : A -> state -> state * status) l :
  (forall x, In x l -> Good (f x)) -> Good (seq f l).
Proof.
  induction l as [|x r IH]; intros H st st' res E.
  - simpl in E. injection E as <- <-. exists []. rewrite app_nil_r. repeat split; auto using neutral_nil; try (intros [=]).
  - simpl in E. destruct (f x st) as [st1 s1] eqn:E1.
    destruct (H x (or_introl eq_refl) _ _ _ E1) as [w1 [Ew1 [N1 [Ok1 Er1]]]].
    destruct s1.
    + destruct (IH (fun y Hy => H y (or_intror Hy)) _ _ _ E) as [w2 [Ew2 [N2 [Ok2 Er2]]]].
      exists (w1 ++ w2). rewrite Ew2, Ew1, app_assoc. repeat split; auto using neutral_app.
      * intros ->. apply no_fail_app; auto.
      * intros ->. apply fail_shape_prefix; auto.
    + injection E as <- <-. exists w1. repeat split; auto; try (intros [=]).
    + injection E as <- <-. exists w1. repeat split; auto; try (intros [=]).
Qed.

(* helpers for steps that append nothing or one non-notification event *)
Lemma Good_const (g : state -> state * status) :
  (forall st, st_ev (fst (g st)) = st_ev st) -> (forall st, snd (g st) <> SFuel) -> Good g.
Proof.
  intros He Hr st st' r E. exists []. rewrite app_nil_r.
  pose proof (He st) as H1. rewrite E in H1. simpl in H1. repeat split; auto using neutral_nil.
  all: try (intros _; reflexivity).
  all: try (intros _; exists [], []; repeat split; reflexivity).
Qed.

Section Levels.
Variable rec rec_do : action -> state -> state * status.
Hypothesis Grec : forall a, Good (rec a).
Hypothesis Gdo : forall a, Good (rec_do a).

Lemma Good_bind (f g : state -> state * status) :
  Good f -> Good g ->
  Good (fun st => let '(st1, r1) := f st in match r1 with SOk => g st1 | _ => (st1, r1) end).
Proof.
  intros Gf Gg st st' r E. destruct (f st) as [st1 r1] eqn:E1.
  destruct (Gf _ _ _ E1) as [w1 [Ew1 [N1 [Ok1 Er1]]]]. destruct r1.
  - destruct (Gg _ _ _ E) as [w2 [Ew2 [N2 [Ok2 Er2]]]].
    exists (w1 ++ w2). rewrite Ew2, Ew1, app_assoc. repeat split; auto using neutral_app.
    + intros ->. apply no_fail_app; auto.
    + intros ->. apply fail_shape_prefix; auto.
  - injection E as <- <-. exists w1. repeat split; auto; try (intros [=]).
  - injection E as <- <-. exists w1. repeat split; auto; try (intros [=]).
Qed.

(* post-processing that only touches the data (deferred Remove / RemoveAt) *)
Lemma Good_post (f : state -> state * status) (h : state -> state) :
  (forall st, st_ev (h st) = st_ev st) -> Good f ->
  Good (fun st => let '(st1, r1) := f st in (h st1, r1)).
Proof.
  intros Hh Gf st st' r E. destruct (f st) as [st1 r1] eqn:E1. injection E as <- <-.
  destruct (Gf _ _ _ E1) as [w [Ew R]]. exists w. rewrite Hh. auto.
Qed.
Lemma Good_pre (f : state -> state * status) (h : state -> state) :
  (forall st, st_ev (h st) = st_ev st) -> Good f -> Good (fun st => f (h st)).
Proof.
  intros Hh Gf st st' r E. destruct (Gf _ _ _ E) as [w [Ew R]]. exists w. rewrite Ew, Hh. auto.
Qed.

Lemma Good_loop_iter test body post : forall n, Good (loop_iter rec rec_do n test body post).
Proof.
  induction n as [|m IH]; intros st st' r E; simpl in E.
  - injection E as <- <-. exists []. rewrite app_nil_r. repeat split; auto using neutral_nil; try (intros [=]).
  - destruct (eval_cond test (st_data st)) as [[|]|].
    + revert st st' r E.
      change (Good (fun st => let '(st1, r1) := rec_do body st in
                              match r1 with
                              | SOk => let '(st2, r2) := match post with Some p => rec p st1 | None => (st1, SOk) end in
                                       match r2 with SOk => loop_iter rec rec_do m test body post st2 | _ => (st2, r2) end
                              | _ => (st1, r1) end)).
      apply Good_bind; [apply Gdo|].
      apply Good_bind; [|exact IH].
      destruct post as [p|]; [apply Grec|].
      apply Good_const; intros; simpl; congruence.
    + injection E as <- <-. exists []. rewrite app_nil_r. repeat split; auto using neutral_nil; try (intros [=]).
    + injection E as <- <-. exists []. rewrite app_nil_r. repeat split; auto using neutral_nil.
      all: try (intros [=]).
      all: try (intros _; exists [], []; repeat split; reflexivity).
      all: try (exists [], []; repeat split; reflexivity).
Qed.
End Levels.

Section Levels2.
Variable rec rec_do : action -> state -> state * status.
Hypothesis Grec : forall a, Good (rec a).
Hypothesis Gdo : forall a, Good (rec_do a).
Variable bound : nat.

Lemma Good_ret_ok (h : state -> state) : (forall st, st_ev (h st) = st_ev st) -> Good (fun st => (h st, SOk)).
Proof. intros Hh. apply Good_const; intros; simpl; [apply Hh|discriminate]. Qed.
Lemma Good_ret_err : Good (fun st => (st, SErr)).
Proof. apply Good_const; intros; simpl; [reflexivity|discriminate]. Qed.

Lemma Good_emit_plain (g : state -> event) :
  (forall st, is_fail (g st) = false) -> (forall st s, dyck s [g st] = Some s) ->
  Good (fun st => (emit (g st) st, SOk)).
Proof.
  intros Hf Hd st st' r E. injection E as <- <-. exists [g st]. repeat split; auto.
  - intros s. apply Hd.
  - intros _. unfold no_fail. simpl. now rewrite Hf.
  - intros [=].
Qed.

Lemma Good_run_op run_ops_of o :
  (forall l, Good (run_ops_of l)) -> Good (run_op rec rec_do bound run_ops_of o).
Proof.
  intros Gops. destruct o as [strat path payload|t path|name ap args|name body|id|s var body|t|init test body post|t];
    unfold run_op.
  - intros st st' r E. destruct (set_op strat path payload (st_data st)) as [d|].
    + apply (Good_ret_ok (with_data d) (fun _ => eq_refl) st st' r E).
    + apply (Good_ret_err st st' r E).
  - apply (Good_ret_ok (fun st => with_data _ st)). reflexivity.
  - intros st st' r E. destruct (reg_get name (st_reg st)) as [spec|]; [|apply (Good_ret_err st st' r E)].
    revert st' r E.
    set (h1 := fun s : state => with_data (add_value_at ap (args_doc args (st_data s)) (st_data s)) s).
    set (h2 := fun s : state => with_data (remove_at ap (st_data s)) s).
    intros st' r E.
    apply (Good_post (fun s => rec spec (h1 s)) h2 (fun _ => eq_refl)
             (Good_pre (rec spec) h1 (fun _ => eq_refl) (Grec spec)) st st' r E).
  - intros st st' r E. destruct (reg_get name (st_reg st)).
    + apply (Good_ret_err st st' r E).
    + injection E as <- <-. exists []. rewrite app_nil_r. simpl. repeat split; auto using neutral_nil.
      all: try (intros _; reflexivity). all: try (intros [=]).
  - apply Good_wrapped. apply (Good_emit_plain (fun _ => ETrace id)); [reflexivity|intros st s; reflexivity].
  - destruct body as [bn bo bw bops bch]. intros st. apply Good_seq. intros item _.
    set (h1 := fun s : state => with_data (add var item (st_data s)) s).
    set (h2 := fun s : state => with_data (kv_del var (st_data s)) s).
    apply (Good_post (fun s => let '(sa, ra) := run_ops_of bops (h1 s) in
                               match ra with
                               | SOk => wrapped LChildren (seq rec (sort_children bch)) sa
                               | _ => (sa, ra) end) h2 (fun _ => eq_refl)).
    apply (Good_pre (fun s => let '(sa, ra) := run_ops_of bops s in
                              match ra with
                              | SOk => wrapped LChildren (seq rec (sort_children bch)) sa
                              | _ => (sa, ra) end) h1 (fun _ => eq_refl)).
    apply Good_bind; [apply Gops|]. apply Good_wrapped. apply Good_seq. intros; apply Grec.
  - apply (Good_emit_plain (fun st => ELog (render t (st_data st)))); [reflexivity|intros st s; reflexivity].
  - apply (Good_bind (fun st => match init with Some i => rec i st | None => (st, SOk) end)).
    + destruct init as [i|]; [apply Grec|]. apply (Good_ret_ok (fun s => s)). reflexivity.
    + apply Good_loop_iter; assumption.
  - apply Good_ret_err.
Qed.

Lemma Good_run_ops_sorted : forall fuel ops, Good (run_ops_sorted rec rec_do bound fuel ops).
Proof.
  induction fuel as [|f IH]; intros ops.
  - intros st st' r E. simpl in E. injection E as <- <-. exists []. rewrite app_nil_r.
    repeat split; auto using neutral_nil; intros [=].
  - simpl. apply Good_seq. intros o _. apply Good_wrapped. apply Good_run_op. intros l. apply IH.
Qed.

Lemma Good_spec_do a : Good (spec_do rec rec_do bound a).
Proof.
  destruct a as [n o when ops children]. unfold spec_do. intros st st' r E.
  destruct (eval_cond when (st_data st)) as [[|]|].
  - revert st st' r E.
    change (Good (fun st => let '(st1, r1) := wrapped LOps (run_ops_sorted rec rec_do bound bound (sort_ops ops)) st in
                            match r1 with
                            | SOk => match eval_cond when (st_data st1) with
                                     | Some true => wrapped LChildren (seq rec (sort_children children)) st1
                                     | Some false => (st1, SOk)
                                     | None => (st1, SErr)
                                     end
                            | _ => (st1, r1) end)).
    apply Good_bind; [apply Good_wrapped, Good_run_ops_sorted|].
    intros st1 st' r E. destruct (eval_cond when (st_data st1)) as [[|]|].
    + revert E. apply Good_wrapped. apply Good_seq. intros; apply Grec.
    + apply (Good_ret_ok (fun s => s) (fun _ => eq_refl) st1 st' r E).
    + apply (Good_ret_err st1 st' r E).
  - apply (Good_ret_ok (fun s => s) (fun _ => eq_refl) st st' r E).
  - apply (Good_ret_err st st' r E).
Qed.
End Levels2.

Theorem Good_interp : forall fuel,
  (forall a, Good (fst (interp fuel) a)) /\ (forall a, Good (snd (interp fuel) a)).
Proof.
  induction fuel as [|f [IH1 IH2]].
  - simpl. split; intros a st st' r E; injection E as <- <-; exists []; rewrite app_nil_r;
      repeat split; auto using neutral_nil; intros [=].
  - simpl. destruct (interp f) as [rec rec_do]. simpl in *. split; intros a.
    + apply Good_wrapped. now apply Good_spec_do.
    + now apply Good_spec_do.
Qed.

(* ---------- the statements about whole executions *)
Theorem events_well_nested fuel a st st' r :
  exec fuel a st = (st', r) -> exists w, st_ev st' = st_ev st ++ w /\ neutral w.
Proof.
  intros E. destruct (proj1 (Good_interp fuel) a st st' r E) as [w [Ew [N _]]]. eauto.
Qed.

Theorem success_has_no_failure fuel a st st' :
  exec fuel a st = (st', SOk) -> exists w, st_ev st' = st_ev st ++ w /\ no_fail w.
Proof.
  intros E. destruct (proj1 (Good_interp fuel) a st st' SOk E) as [w [Ew [_ [Ok _]]]]. eauto.
Qed.

(* the first failing notification is followed by failing after-notifications only: nothing else
   executes, and every enclosing action reports the error *)
Theorem fail_fast fuel a st st' :
  exec fuel a st = (st', SErr) ->
  exists pre post, st_ev st' = st_ev st ++ pre ++ post /\ no_fail pre /\ forallb is_fail post = true.
Proof.
  intros E. destruct (proj1 (Good_interp fuel) a st st' SErr E) as [w [Ew [_ [_ Er]]]].
  destruct (Er eq_refl) as [pre [post [-> [Hp Hq]]]]. exists pre, post. repeat split; auto.
Qed.

(* ... and the after-notification of the executed action itself carries the outcome *)
Theorem exec_closes fuel a st st' r :
  exec (S fuel) a st = (st', r) ->
  exists pre, st_ev st' = pre ++ [EA (LAct (act_name a)) (match r with SOk => false | _ => true end)].
Proof.
  unfold exec. simpl. destruct (interp fuel) as [rec rec_do]. simpl. unfold wrapped.
  destruct (spec_do rec rec_do fuel a _) as [s1 r1]. intros [= <- <-]. exists (st_ev s1). reflexivity.
Qed.

(* ---------- conditions given as literal text: exactly strconv.ParseBool's twelve spellings *)
Lemma existsb_eqb_In s l : existsb (String.eqb s) l = true <-> In s l.
Proof.
  rewrite existsb_exists. split.
  - intros [x [Hx E]]. apply String.eqb_eq in E. now subst.
  - intros H. exists s. split; [exact H|apply String.eqb_refl].
Qed.

Theorem parse_bool_true s :
  parse_bool s = Some true <-> In s ["1"; "t"; "T"; "TRUE"; "true"; "True"]%string.
Proof.
  unfold parse_bool. rewrite <- existsb_eqb_In.
  destruct (existsb (String.eqb s) ["1"; "t"; "T"; "TRUE"; "true"; "True"]%string); [tauto|].
  destruct (existsb (String.eqb s) ["0"; "f"; "F"; "FALSE"; "false"; "False"]%string); split; congruence.
Qed.

Theorem parse_bool_false s :
  parse_bool s = Some false <-> In s ["0"; "f"; "F"; "FALSE"; "false"; "False"]%string.
Proof.
  unfold parse_bool. rewrite <- (existsb_eqb_In s ["0"; "f"; "F"; "FALSE"; "false"; "False"]%string).
  destruct (existsb (String.eqb s) ["1"; "t"; "T"; "TRUE"; "true"; "True"]%string) eqn:E1.
  - split; [congruence|]. intros E0. exfalso.
    apply existsb_eqb_In in E1, E0. simpl in E1, E0.
    repeat (destruct E1 as [E1|E1]; [subst s; repeat (destruct E0 as [E0|E0]; [discriminate|]); contradiction|]).
    contradiction.
  - destruct (existsb (String.eqb s) ["0"; "f"; "F"; "FALSE"; "false"; "False"]%string); split; congruence.
Qed.
