From Coq Require Import List String Ascii ZArith Lia Bool Arith.
From YT Require Import Base.Str Base.KV Model.Doc Model.Codec Model.Base64 Model.Analytics Model.K8s
  Proofs.Base64Proofs Proofs.StrProofs.
Import ListNotations.
Local Open Scope list_scope.

(* ---------- bytes <-> strings *)
Lemma str_Z_Z_str l : Forall byte l -> str_Z (Z_str l) = l.
Proof.
  unfold str_Z, Z_str. rewrite la_sl, map_map. induction 1 as [|z r Hz _ IH]; simpl; [reflexivity|].
  rewrite IH. f_equal. unfold byte in Hz. rewrite nat_ascii_embedding by lia. lia.
Qed.

Lemma chr_byte s : sextet s -> byte (b64_chr s).
Proof.
  unfold sextet, byte, b64_chr. intros H.
  destruct (Z.ltb_spec s 26); [lia|]. destruct (Z.ltb_spec s 52); [lia|].
  destruct (Z.ltb_spec s 62); [lia|]. destruct (Z.eqb_spec s 62); lia.
Qed.

Lemma enc_bytes : forall bs, Forall byte bs -> Forall byte (b64_enc bs).
Proof.
  intros bs. remember (List.length bs) as n eqn:Hn. revert bs Hn.
  induction n as [n IH] using lt_wf_ind. intros bs Hn F.
  assert (P : byte PAD) by (unfold byte, PAD; lia).
  assert (Z0b : byte 0%Z) by (unfold byte; lia).
  destruct bs as [|a [|b [|c r]]]; [constructor| | |].
  - inversion F as [|? ? Ha _]; subst. cbn [b64_enc].
    pose proof (sextet_range a 0 0 Ha Z0b Z0b) as S. destruct (enc3 a 0 0) as [[[w x] y] z].
    destruct S as [Sw [Sx _]]. repeat (apply Forall_cons; [auto using chr_byte|]). constructor.
  - inversion F as [|? ? Ha F']; subst. inversion F' as [|? ? Hb _]; subst. cbn [b64_enc].
    pose proof (sextet_range a b 0 Ha Hb Z0b) as S. destruct (enc3 a b 0) as [[[w x] y] z].
    destruct S as [Sw [Sx [Sy _]]]. repeat (apply Forall_cons; [auto using chr_byte|]). constructor.
  - inversion F as [|? ? Ha F1]; subst. inversion F1 as [|? ? Hb F2]; subst. inversion F2 as [|? ? Hc F3]; subst.
    cbn [b64_enc]. pose proof (sextet_range a b c Ha Hb Hc) as S. destruct (enc3 a b c) as [[[w x] y] z].
    destruct S as [Sw [Sx [Sy Sz]]]. do 4 (apply Forall_cons; [auto using chr_byte|]).
    apply (IH (List.length r)); [simpl; lia|reflexivity|exact F3].
Qed.

(* binary items survive base64 in their section *)
Lemma load_bin_enc : forall items,
  Forall (fun e => Forall byte (snd e)) items ->
  load_bin (map (fun e : string * list Z => (fst e, GStr (Z_str (b64_enc (snd e))))) items) = Some items.
Proof.
  induction 1 as [|[k bs] r Hb _ IH]; [reflexivity|]. simpl in *.
  rewrite str_Z_Z_str by now apply enc_bytes. rewrite b64_roundtrip by exact Hb. now rewrite IH.
Qed.

Lemma fmt_items (items : list (string * string)) :
  map (fun e : string * gval => (fst e, fmt_gval (snd e))) (map (fun e : string * string => (fst e, GStr (snd e))) items) = items.
Proof. induction items as [|[k v] r IH]; simpl; [reflexivity|]. now rewrite IH. Qed.

(* ---------- the two sections prescribed by the kind *)
Lemma sections_distinct kind bk tk : kind_sections kind = Some (bk, tk) ->
  bk <> tk /\ bk <> "kind"%string /\ tk <> "kind"%string.
Proof.
  unfold kind_sections. destruct (String.eqb kind "Secret"); [intros [= <- <-]; repeat split; discriminate|].
  destruct (String.eqb kind "ConfigMap"); [intros [= <- <-]; repeat split; discriminate|discriminate].
Qed.

Theorem kind_sections_spec kind bk tk : kind_sections kind = Some (bk, tk) ->
  (kind = "Secret"%string /\ bk = "data"%string /\ tk = "stringData"%string) \/
  (kind = "ConfigMap"%string /\ bk = "binaryData"%string /\ tk = "data"%string).
Proof.
  unfold kind_sections. destruct (String.eqb_spec kind "Secret"); [intros [= <- <-]; left; auto|].
  destruct (String.eqb_spec kind "ConfigMap"); [intros [= <- <-]; right; auto|discriminate].
Qed.

Definition wf_manifest (m : manifest) : Prop :=
  sorted_keys (m_doc m) = true /\
  (exists kind, kv_get "kind"%string (m_doc m) = Some (GStr kind) /\ kind_sections kind = Some (m_bk m, m_tk m)) /\
  Forall (fun e => Forall byte (snd e)) (m_bin m).

(* lookups in the saved document *)
Lemma save_get_other m q : q <> m_bk m -> q <> m_tk m -> kv_get q (save_doc m) = kv_get q (m_doc m).
Proof.
  intros N1 N2. unfold save_doc.
  destruct (m_str m); destruct (m_bin m);
    rewrite ?kv_get_set_other, ?kv_get_del_other, ?kv_get_set_other, ?kv_get_del_other by assumption; reflexivity.
Qed.

Lemma save_sorted m : sorted_keys (m_doc m) = true -> sorted_keys (save_doc m) = true.
Proof.
  intros S. unfold save_doc.
  destruct (m_str m); destruct (m_bin m); auto using kv_set_sorted, kv_del_sorted.
Qed.

Lemma get_bk_saved m : sorted_keys (m_doc m) = true -> m_bk m <> m_tk m ->
  kv_get (m_bk m) (save_doc m) =
  match m_bin m with
  | [] => None
  | items => Some (GMap (map (fun e => (fst e, GStr (Z_str (b64_enc (snd e))))) items))
  end.
Proof.
  intros S Nbt. unfold save_doc. destruct (m_bin m) as [|i0 ir].
  - destruct (m_str m); rewrite ?kv_get_set_other, ?kv_get_del_other by congruence; now apply kv_get_del_same.
  - destruct (m_str m); rewrite ?kv_get_set_other, ?kv_get_del_other by congruence; apply kv_get_set_same.
Qed.

Lemma get_tk_saved m : sorted_keys (m_doc m) = true ->
  kv_get (m_tk m) (save_doc m) =
  match m_str m with
  | [] => None
  | items => Some (GMap (map (fun e => (fst e, GStr (snd e))) items))
  end.
Proof.
  intros S. unfold save_doc. destruct (m_str m) as [|s0 sr].
  - apply kv_get_del_same. destruct (m_bin m); auto using kv_set_sorted, kv_del_sorted.
  - apply kv_get_set_same.
Qed.

Lemma bin_loaded m : sorted_keys (m_doc m) = true -> m_bk m <> m_tk m ->
  Forall (fun e => Forall byte (snd e)) (m_bin m) ->
  match kv_get (m_bk m) (save_doc m) with Some (GMap data) => load_bin data | _ => Some [] end = Some (m_bin m).
Proof.
  intros S Nbt B. rewrite get_bk_saved by assumption. revert B. generalize (m_bin m) as items.
  intros [|i0 ir] B; [reflexivity|]. now apply load_bin_enc.
Qed.

Lemma str_loaded m : sorted_keys (m_doc m) = true ->
  match kv_get (m_tk m) (save_doc m) with
  | Some (GMap data) => map (fun e => (fst e, fmt_gval (snd e))) data
  | _ => []
  end = m_str m.
Proof.
  intros S. rewrite get_tk_saved by assumption. generalize (m_str m) as items.
  intros [|s0 sr]; [reflexivity|]. apply fmt_items.
Qed.

Lemma non_data_saved m : sorted_keys (m_doc m) = true ->
  kv_del (m_bk m) (kv_del (m_tk m) (save_doc m)) = kv_del (m_bk m) (kv_del (m_tk m) (m_doc m)).
Proof.
  intros S. apply sorted_ext; auto using kv_del_sorted, save_sorted.
  intros q. destruct (String.eqb_spec q (m_bk m)) as [->|N1].
  - rewrite !kv_get_del_same; auto using kv_del_sorted, save_sorted.
  - rewrite !(kv_get_del_other (m_bk m) q) by exact N1.
    destruct (String.eqb_spec q (m_tk m)) as [->|N2].
    + rewrite !kv_get_del_same; auto using save_sorted.
    + rewrite !(kv_get_del_other (m_tk m) q) by exact N2. now apply save_get_other.
Qed.

(* WriteTo then load: every data item exactly, every other field untouched *)
Theorem save_load m : wf_manifest m ->
  exists m', load_doc (save_doc m) = Some m' /\
             m_str m' = m_str m /\ m_bin m' = m_bin m /\ m_bk m' = m_bk m /\ m_tk m' = m_tk m /\
             non_data m' = non_data m.
Proof.
  intros [S [[kind [K KS]] B]]. destruct (sections_distinct _ _ _ KS) as [Nbt [Nbk Ntk]].
  unfold load_doc. rewrite save_get_other by congruence. rewrite K, KS.
  rewrite bin_loaded by assumption. eexists. split; [reflexivity|]. cbn [m_str m_bin m_bk m_tk].
  rewrite str_loaded by assumption. repeat split. unfold non_data. cbn [m_doc m_bk m_tk].
  now apply non_data_saved.
Qed.


(* the facades are plain maps: an update is what Get returns, a removal makes the item absent,
   other items are untouched, and every step preserves well-formedness *)
Theorem facade_get_update m k v : kv_get k (m_str (m_step m (MStrUpdate k v))) = Some v.
Proof. simpl. apply kv_get_set_same. Qed.
Theorem facade_get_other m k q v : q <> k -> kv_get q (m_str (m_step m (MStrUpdate k v))) = kv_get q (m_str m).
Proof. intros. simpl. now apply kv_get_set_other. Qed.
Theorem facade_bin_update m k v : kv_get k (m_bin (m_step m (MBinUpdate k v))) = Some v.
Proof. simpl. apply kv_get_set_same. Qed.

Lemma Forall_kv_set {A} (P : string * A -> Prop) k v l : P (k, v) -> Forall P l -> Forall P (kv_set k v l).
Proof.
  intros Hv. induction 1 as [|[k' v'] r H0 F IH]; simpl; [now constructor|].
  destruct (scmp k k').
  - constructor; assumption.
  - constructor; [assumption|]. constructor; assumption.
  - constructor; assumption.
Qed.
Lemma Forall_kv_del {A} (P : string * A -> Prop) k l : Forall P l -> Forall P (kv_del k l).
Proof.
  induction 1 as [|[k' v'] r H0 F IH]; simpl; [constructor|].
  destruct (String.eqb k k'); [assumption|]. constructor; assumption.
Qed.

Theorem m_step_wf m o : wf_manifest m ->
  match o with MBinUpdate _ v => Forall byte v | _ => True end -> wf_manifest (m_step m o).
Proof.
  intros [S [K B]] Hv. destruct o; simpl; repeat split; auto.
  - now apply (Forall_kv_set (fun e => Forall byte (snd e))).
  - now apply Forall_kv_del.
Qed.

(* loading never panics: the result type has two outcomes only (Some manifest / None = error) *)
Theorem load_total doc : (exists m, load_doc doc = Some m) \/ load_doc doc = None.
Proof. destruct (load_doc doc); eauto. Qed.
