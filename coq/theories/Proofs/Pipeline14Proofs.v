From Coq Require Import List String Ascii ZArith Lia Bool Arith.
From YT Require Import Base.Str Base.KV Model.Doc Model.Dom Model.Builder Model.Codec Model.Merge Model.Pipeline
  Proofs.BuilderProofs.
Import ListNotations.
Local Open Scope list_scope.

Section Ops.
Variable rec rec_do : action -> state -> state * status.
Variable bound : nat.
Variable run_ops_of : list op -> state -> state * status.

(* ---------- define / call *)
Theorem call_undefined_err name ap args st :
  reg_get name (st_reg st) = None ->
  run_op rec rec_do bound run_ops_of (OpCall name ap args) st = (st, SErr).
Proof. intros H. simpl. now rewrite H. Qed.

Theorem define_twice_err name body st first :
  reg_get name (st_reg st) = Some first ->
  run_op rec rec_do bound run_ops_of (OpDefine name body) st = (st, SErr).
Proof. intros H. simpl. now rewrite H. Qed.

Lemma reg_get_app_found name l l' a : reg_get name l = Some a -> reg_get name (l ++ l') = Some a.
Proof.
  induction l as [|[n b] r IH]; simpl; [discriminate|].
  destruct (String.eqb name n); auto.
Qed.
Lemma reg_get_app_new name l a : reg_get name l = None -> reg_get name (l ++ [(name, a)]) = Some a.
Proof.
  induction l as [|[n b] r IH]; simpl; [now rewrite String.eqb_refl|].
  destruct (String.eqb name n); [discriminate|auto].
Qed.

Theorem define_new name body st :
  reg_get name (st_reg st) = None ->
  exists st', run_op rec rec_do bound run_ops_of (OpDefine name body) st = (st', SOk) /\
              reg_get name (st_reg st') = Some body /\ st_data st' = st_data st /\
              (forall m a, reg_get m (st_reg st) = Some a -> reg_get m (st_reg st') = Some a).
Proof.
  intros H. simpl. rewrite H. eexists. split; [reflexivity|]. simpl. repeat split.
  - now apply reg_get_app_new.
  - intros m a G. now apply reg_get_app_found.
Qed.

(* the callee starts with the arguments readable at the arguments path, and when the call finishes
   — normally or with an error — the last thing done to the data is their removal at that path *)
Theorem call_spec name ap args st spec :
  reg_get name (st_reg st) = Some spec ->
  let st1 := with_data (add_value_at ap (args_doc args (st_data st)) (st_data st)) st in
  run_op rec rec_do bound run_ops_of (OpCall name ap args) st =
    (with_data (remove_at ap (st_data (fst (rec spec st1)))) (fst (rec spec st1)), snd (rec spec st1)).
Proof. intros H. simpl. rewrite H. destruct (rec spec _); reflexivity. Qed.

Theorem call_args_visible ap args data :
  ap <> ""%string -> lookup ap (Con (add_value_at ap (args_doc args data) data)) = Some (args_doc args data).
Proof. intros NE. now apply lookup_add_value_at. Qed.

Theorem call_args_gone ap d :
  wf_kvs d = true -> plain_comp (last (split_dots ap) ""%string) = true ->
  lookup ap (Con (remove_at ap d)) = None.
Proof. intros W P. now apply lookup_remove_at. Qed.

(* ---------- forEach: after the last executed item the variable has just been removed *)
Definition item_step (var : string) (bops : list op) (bch : list action) (item : node) (st0 : state) : state * status :=
  let st1 := with_data (add var item (st_data st0)) st0 in
  let '(st2, r) :=
    let '(sa, ra) := run_ops_of bops st1 in
    match ra with
    | SOk => wrapped LChildren (seq rec (sort_children bch)) sa
    | _ => (sa, ra)
    end in
  (with_data (kv_del var (st_data st2)) st2, r).

Lemma foreach_unfold s var n o w bops bch st :
  run_op rec rec_do bound run_ops_of (OpForEach s var (Act n o w bops bch)) st =
  seq (item_step var bops bch) (foreach_items s (st_data st)) st.
Proof. reflexivity. Qed.

Lemma item_step_removes var bops bch item st0 st' r :
  item_step var bops bch item st0 = (st', r) -> exists d, st_data st' = kv_del var d.
Proof.
  unfold item_step. destruct (run_ops_of bops _) as [sa ra].
  destruct ra; [destruct (wrapped _ _ _) as [s2 r2]| |]; intros [= <- <-]; eexists; reflexivity.
Qed.

Theorem foreach_var_removed var bops bch : forall items st st' r,
  items <> [] -> seq (item_step var bops bch) items st = (st', r) ->
  exists d, st_data st' = kv_del var d.
Proof.
  induction items as [|x rest IH]; intros st st' r NE E; [contradiction|].
  simpl in E. destruct (item_step var bops bch x st) as [st1 s1] eqn:E1.
  destruct s1.
  - destruct rest as [|y rest'].
    + simpl in E. injection E as <- <-. eapply item_step_removes; eauto.
    + eapply IH; [discriminate|exact E].
  - injection E as <- <-. eapply item_step_removes; eauto.
  - injection E as <- <-. eapply item_step_removes; eauto.
Qed.

(* hence a lookup of the variable returns nothing once forEach has finished *)
Theorem foreach_var_gone var (d : list (string * node)) : sorted_keys d = true -> kv_get var (kv_del var d) = None.
Proof. apply kv_get_del_same. Qed.

(* every item is processed in item order, and processing stops at the first failing item *)
Theorem foreach_in_order var bops bch : forall items1 x items2 st st1,
  seq (item_step var bops bch) items1 st = (st1, SOk) ->
  seq (item_step var bops bch) (items1 ++ x :: items2) st =
    let '(st2, r) := item_step var bops bch x st1 in
    match r with SOk => seq (item_step var bops bch) items2 st2 | _ => (st2, r) end.
Proof.
  induction items1 as [|y r IH]; intros x items2 st st1 E.
  - simpl in E. injection E as <-. reflexivity.
  - simpl in E. simpl. destruct (item_step var bops bch y st) as [sy ry]. destruct ry; try discriminate.
    now apply IH.
Qed.

(* ---------- loop: init once, test before every iteration, body then post-action, stop at the
   first false test or error *)
Theorem loop_test_false m test body post st :
  eval_cond test (st_data st) = Some false -> loop_iter rec rec_do (S m) test body post st = (st, SOk).
Proof. intros H. simpl. now rewrite H. Qed.

Theorem loop_test_error m test body post st :
  eval_cond test (st_data st) = None -> loop_iter rec rec_do (S m) test body post st = (st, SErr).
Proof. intros H. simpl. now rewrite H. Qed.

Theorem loop_test_true m test body post st :
  eval_cond test (st_data st) = Some true ->
  loop_iter rec rec_do (S m) test body post st =
    let '(st1, r1) := rec_do body st in
    match r1 with
    | SOk => let '(st2, r2) := match post with Some p => rec p st1 | None => (st1, SOk) end in
             match r2 with SOk => loop_iter rec rec_do m test body post st2 | _ => (st2, r2) end
    | _ => (st1, r1)
    end.
Proof. intros H. simpl. now rewrite H. Qed.

Theorem loop_unfold init test body post st :
  run_op rec rec_do bound run_ops_of (OpLoop init test body post) st =
    let '(st1, r1) := match init with Some i => rec i st | None => (st, SOk) end in
    match r1 with SOk => loop_iter rec rec_do bound test body post st1 | _ => (st1, r1) end.
Proof. reflexivity. Qed.
End Ops.
