(* Proofs/StrProofs.v — lemmas about rendered path strings: digits, index suffixes, splitting *)
From Coq Require Import List String Ascii ZArith NArith Lia Bool Arith DecimalString DecimalNat.
From YT Require Import Base.Str Base.KV Model.Doc Model.Dom Model.Pointer Model.Path.
Import ListNotations.
Local Open Scope list_scope.
Local Open Scope nat_scope.

(* ---------- la / sl and append *)
Lemma la_app a b : la (a ++ b)%string = la a ++ la b.
Proof. unfold la. induction a as [|c a IH]; simpl; [reflexivity|]. now rewrite IH. Qed.

Lemma la_string c s : la (String c s) = c :: la s.
Proof. reflexivity. Qed.

Lemma sl_app a b : sl (a ++ b) = (sl a ++ sl b)%string.
Proof. unfold sl. induction a as [|c a IH]; simpl; [reflexivity|]. now rewrite IH. Qed.

Lemma la_inj a b : la a = la b -> a = b.
Proof. intros H. rewrite <- (sl_la a), <- (sl_la b), H. reflexivity. Qed.

Lemma append_assoc (a b c : string) : ((a ++ b) ++ c = a ++ (b ++ c))%string.
Proof. induction a as [|x a IH]; simpl; [reflexivity|]. now rewrite IH. Qed.

(* ---------- decimal digits *)
Lemma uint_digits d : forallb is_digit (la (NilEmpty.string_of_uint d)) = true.
Proof. induction d; simpl; auto. Qed.

Lemma nat2s_digits n : forallb is_digit (la (nat2s n)) = true.
Proof.
  unfold nat2s, NilZero.string_of_uint. destruct (Nat.to_uint n) eqn:E; try reflexivity;
  rewrite <- E; apply uint_digits.
Qed.

Lemma nat2s_la_nonempty n : la (nat2s n) <> [].
Proof.
  intro H. apply (nat2s_nonempty n). apply la_inj. rewrite H. reflexivity.
Qed.

Lemma is_digit_not_lbr c : is_digit c = true -> Ascii.eqb c LBR = false.
Proof.
  intros H. destruct (Ascii.eqb_spec c LBR) as [->|]; [|reflexivity]. vm_compute in H. discriminate.
Qed.
Lemma lbr_not_digit : is_digit LBR = false. Proof. reflexivity. Qed.
Lemma rbr_not_digit : is_digit RBR = false. Proof. reflexivity. Qed.

(* ---------- take_digits *)
Lemma take_digits_app : forall ds acc rest,
  forallb is_digit ds = true ->
  match rest with [] => True | c :: _ => is_digit c = false end ->
  take_digits (ds ++ rest) acc = (rev ds ++ acc, rest).
Proof.
  induction ds as [|d ds IH]; intros acc rest D R; cbn [app].
  - destruct rest as [|c r]; [reflexivity|]. cbn [take_digits]. now rewrite R.
  - simpl in D. apply andb_prop in D as [D1 D2]. cbn [take_digits]. rewrite D1, IH by auto.
    simpl. now rewrite <- app_assoc.
Qed.

(* ---------- one index suffix *)
Lemma la_idx_path s i : la (idx_path s i) = la s ++ LBR :: la (nat2s i) ++ [RBR].
Proof. unfold idx_path. rewrite !la_app. reflexivity. Qed.

Lemma rev_idx_path s i : rev (la (idx_path s i)) = RBR :: rev (la (nat2s i)) ++ LBR :: rev (la s).
Proof.
  rewrite la_idx_path, rev_app_distr. simpl. rewrite rev_app_distr. simpl.
  rewrite <- app_assoc. reflexivity.
Qed.

Lemma forallb_rev {A} (p : A -> bool) l : forallb p (rev l) = forallb p l.
Proof.
  induction l as [|x r IH]; simpl; [reflexivity|].
  rewrite forallb_app, IH. simpl. rewrite andb_true_r. apply andb_comm.
Qed.

Lemma strip_index_render s i : strip_index (rev (la (idx_path s i))) = Some (rev (la s), i).
Proof.
  rewrite rev_idx_path. unfold strip_index.
  replace (Ascii.eqb RBR RBR) with true by reflexivity.
  rewrite (take_digits_app (rev (la (nat2s i))) [] (LBR :: rev (la s)));
    [|rewrite forallb_rev; apply nat2s_digits|reflexivity].
  rewrite rev_involutive, app_nil_r.
  destruct (la (nat2s i)) as [|d ds] eqn:E; [exfalso; eapply nat2s_la_nonempty; eauto|].
  replace (Ascii.eqb LBR LBR) with true by reflexivity.
  rewrite <- E. rewrite sl_la, s2nat_nat2s. reflexivity.
Qed.

(* ---------- an index chain *)
Definition render_comp (c : string * list nat) : string := fold_left idx_path (snd c) (fst c).

Lemma strip_chain_plain fuel r acc : strip_index r = None -> strip_chain fuel r acc = (r, acc).
Proof. intros H. destruct fuel; simpl; [reflexivity|]. now rewrite H. Qed.

Lemma strip_chain_render : forall idxs s fuel acc,
  List.length idxs <= fuel ->
  strip_chain fuel (rev (la (fold_left idx_path idxs s))) acc =
  strip_chain (fuel - List.length idxs) (rev (la s)) (idxs ++ acc).
Proof.
  intros idxs. induction idxs as [|i idxs IH] using rev_ind; intros s fuel acc Hf.
  - simpl. now rewrite Nat.sub_0_r.
  - rewrite fold_left_app. cbn [fold_left]. rewrite app_length in *. cbn [List.length] in *.
    destruct fuel as [|f]; [lia|]. cbn [strip_chain]. rewrite strip_index_render.
    rewrite IH by lia. rewrite <- app_assoc. cbn [app].
    replace (S f - (List.length idxs + 1)) with (f - List.length idxs) by lia. reflexivity.
Qed.

Lemma length_fold_idx_path : forall idxs s,
  List.length idxs <= List.length (la (fold_left idx_path idxs s)).
Proof.
  intros idxs. induction idxs as [|i idxs IH] using rev_ind; intros s; simpl; [lia|].
  rewrite fold_left_app. simpl. rewrite la_idx_path, !app_length. simpl.
  specialize (IH s). rewrite app_length. simpl. lia.
Qed.

Theorem comp_parse_render k idxs : plain_comp k = true -> comp_parse (render_comp (k, idxs)) = (k, idxs).
Proof.
  intros P. unfold comp_parse, render_comp. simpl fst. simpl snd.
  rewrite strip_chain_render by (rewrite rev_length; apply length_fold_idx_path).
  rewrite app_nil_r. unfold plain_comp in P.
  rewrite strip_chain_plain by (destruct (strip_index (rev (la k))); [discriminate|reflexivity]).
  now rewrite rev_involutive, sl_la.
Qed.

(* ---------- keys *)
Lemma safe_char_props c : safe_char c = true ->
  Ascii.eqb c DOT = false /\ Ascii.eqb c LBR = false /\ Ascii.eqb c RBR = false /\ Ascii.eqb c "/"%char = false
  /\ Ascii.eqb c "~"%char = false /\ is_space c = false.
Proof.
  destruct c as [[] [] [] [] [] [] [] []]; intros H; vm_compute in H; try discriminate;
    vm_compute; repeat split; reflexivity.
Qed.
