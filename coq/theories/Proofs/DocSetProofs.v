From Coq Require Import List String Ascii ZArith Lia Bool Arith Permutation.
From YT Require Import Base.Str Base.KV Model.Doc Model.Dom Model.Path Model.Builder Model.Overlay Model.DocSet
  Proofs.OverlayProofs.
Import ListNotations.
Local Open Scope list_scope.

Lemma ctx_get_set_same n c l : ctx_get n (ctx_set n c l) = Some c.
Proof.
  induction l as [|[n' c'] r IH]; simpl; [now rewrite String.eqb_refl|].
  destruct (String.eqb_spec n n') as [->|N]; simpl; [now rewrite String.eqb_refl|].
  destruct (String.eqb_spec n n'); [contradiction|exact IH].
Qed.
Lemma ctx_get_set_other n m c l : m <> n -> ctx_get m (ctx_set n c l) = ctx_get m l.
Proof.
  intros N. induction l as [|[n' c'] r IH]; simpl.
  - destruct (String.eqb_spec m n); [contradiction|reflexivity].
  - destruct (String.eqb_spec n n') as [->|N2]; simpl.
    + destruct (String.eqb_spec m n'); [contradiction|reflexivity].
    + destruct (String.eqb m n'); [reflexivity|exact IH].
Qed.

(* ---------- re-add policies *)
(* must-create fails and changes nothing *)
Theorem must_create_unchanged name doc tags ds c :
  ctx_get name (ds_ctx ds) = Some c -> ds_add name doc tags PMustCreate ds = (ds, false).
Proof. intros H. unfold ds_add. rewrite H. destruct c. reflexivity. Qed.

(* merge-tags keeps the stored document and unions the tags *)
Theorem merge_tags_spec name doc tags ds olddoc oldtags :
  ctx_get name (ds_ctx ds) = Some (olddoc, oldtags) ->
  let ds' := fst (ds_add name doc tags PMergeTags ds) in
  snd (ds_add name doc tags PMergeTags ds) = true /\
  ctx_get name (ds_ctx ds') = Some (olddoc, unique (("*"%string :: tags) ++ oldtags)).
Proof. intros H. unfold ds_add. rewrite H. simpl. split; [reflexivity|apply ctx_get_set_same]. Qed.

(* the default makes the newly added document, with the tags given on that call, the one served *)
Theorem default_readd_spec name doc tags ds :
  let ds' := fst (ds_add name doc tags PNone ds) in
  snd (ds_add name doc tags PNone ds) = true /\
  ctx_get name (ds_ctx ds') = Some (doc, "*"%string :: tags) /\ ds_named name ds' = Some doc.
Proof.
  unfold ds_add, ds_named. destruct (ctx_get name (ds_ctx ds)) as [[od ot]|]; simpl;
    rewrite ctx_get_set_same; auto.
Qed.

(* a first add of any policy registers the document *)
Theorem add_new_spec name doc tags pol ds :
  ctx_get name (ds_ctx ds) = None ->
  ds_named name (fst (ds_add name doc tags pol ds)) = Some doc /\ snd (ds_add name doc tags pol ds) = true.
Proof. intros H. unfold ds_add, ds_named. rewrite H. simpl. now rewrite ctx_get_set_same. Qed.

(* no add touches what is served under another name *)
Theorem add_other_name name m doc tags pol ds :
  m <> name -> ctx_get m (ds_ctx (fst (ds_add name doc tags pol ds))) = ctx_get m (ds_ctx ds).
Proof.
  intros N. unfold ds_add. destruct (ctx_get name (ds_ctx ds)) as [[od ot]|]; [destruct pol|]; simpl;
    try reflexivity; now apply ctx_get_set_other.
Qed.

(* ---------- every stored context carries the '*' tag, hence AsOne == TaggedSubset('*') *)
Definition all_star (ds : docset) : Prop :=
  forall n d ts, ctx_get n (ds_ctx ds) = Some (d, ts) -> smem "*"%string ts = true.

Lemma smem_app_r x a b : smem x b = true -> smem x (a ++ b) = true.
Proof. unfold smem. rewrite existsb_app. intros ->. apply orb_true_r. Qed.
Lemma smem_app_l x a b : smem x a = true -> smem x (a ++ b) = true.
Proof. unfold smem. rewrite existsb_app. intros ->. reflexivity. Qed.

Lemma unique_keeps x : forall l acc, smem x acc = true \/ smem x l = true ->
  smem x (fold_left (fun acc s => if smem s acc then acc else acc ++ [s]) l acc) = true.
Proof.
  induction l as [|s r IH]; intros acc H; simpl.
  - destruct H as [H|H]; [exact H|discriminate].
  - apply IH. destruct H as [H|H].
    + left. destruct (smem s acc); [exact H|now apply smem_app_l].
    + unfold smem in H. simpl in H. apply orb_prop in H as [H|H].
      * apply String.eqb_eq in H. subst s. left. destruct (smem x acc) eqn:E; [exact E|].
        apply smem_app_r. unfold smem. simpl. now rewrite String.eqb_refl.
      * right. exact H.
Qed.

Lemma star_add name doc tags pol ds : all_star ds -> all_star (fst (ds_add name doc tags pol ds)).
Proof.
  intros Inv n d ts G.
  assert (Hnew : smem "*"%string ("*"%string :: tags) = true) by reflexivity.
  destruct (String.eqb_spec n name) as [->|N].
  - unfold ds_add in G. destruct (ctx_get name (ds_ctx ds)) as [[od ot]|] eqn:E.
    + destruct pol; simpl in G.
      * rewrite ctx_get_set_same in G. injection G as <- <-. exact Hnew.
      * rewrite ctx_get_set_same in G. injection G as <- <-. unfold unique. apply unique_keeps. right.
        reflexivity.
      * rewrite E in G. injection G as <- <-. eapply Inv; eauto.
    + simpl in G. rewrite ctx_get_set_same in G. injection G as <- <-. exact Hnew.
  - rewrite add_other_name in G by exact N. eapply Inv; eauto.
Qed.

Lemma filtered_ext sel1 sel2 ds :
  (forall n d ts, ctx_get n (ds_ctx ds) = Some (d, ts) -> sel1 ts = sel2 ts) ->
  ds_filtered sel1 ds = ds_filtered sel2 ds.
Proof.
  intros H. unfold ds_filtered. generalize (@nil (string * list (string * node))) as ov.
  induction (ds_names ds) as [|n r IH]; intros ov; [reflexivity|].
  simpl. destruct (ctx_get n (ds_ctx ds)) as [[d ts]|] eqn:E; [|apply IH].
  rewrite (H n d ts E). apply IH.
Qed.

Theorem as_one_is_star ds : all_star ds -> ds_as_one ds = ds_tagged ["*"%string] ds.
Proof.
  intros Inv. unfold ds_as_one, ds_tagged. apply filtered_ext. intros n d ts G.
  specialize (Inv n d ts G). unfold contains_any_of. symmetry.
  unfold smem in Inv. apply existsb_exists in Inv as [x [Hin Ex]]. apply String.eqb_eq in Ex. subst x.
  apply existsb_exists. exists "*"%string. split; [exact Hin|reflexivity].
Qed.

(* ---------- the layers of a subset: selected names, first occurrences, in insertion order *)
Theorem filtered_names sel ds :
  layer_names (ds_filtered sel ds) =
  fold_left (fun names n => match ctx_get n (ds_ctx ds) with
                            | Some (Con _, tags) => if sel tags then note names n else names
                            | _ => names
                            end) (ds_names ds) [].
Proof.
  unfold ds_filtered.
  change (@nil string) with (layer_names (@nil (string * list (string * node)))).
  generalize (@nil (string * list (string * node))) as ov.
  induction (ds_names ds) as [|n r IH]; intros ov; [reflexivity|].
  cbn [fold_left]. destruct (ctx_get n (ds_ctx ds)) as [[d ts]|]; [|apply IH].
  destruct (sel ts); [|destruct d; apply IH].
  rewrite IH. rewrite write_names. destruct d; reflexivity.
Qed.

(* ---------- unnamed documents receive distinct generated names *)
Lemma append_inj_l (p a b : string) : (p ++ a = p ++ b)%string -> a = b.
Proof. induction p as [|c p IH]; simpl; intros H; [exact H|]. injection H as H. auto. Qed.

Theorem unnamed_distinct a b : unnamed_name a = unnamed_name b -> a = b.
Proof. unfold unnamed_name. intros H. apply append_inj_l in H. now apply nat2s_inj. Qed.

Theorem unnamed_counter_increases doc tags pol ds :
  ds_unnamed (fst (ds_add_unnamed doc tags pol ds)) = S (ds_unnamed ds).
Proof.
  unfold ds_add_unnamed, ds_add. simpl.
  destruct (ctx_get (unnamed_name (S (ds_unnamed ds))) (ds_ctx ds)) as [[od ot]|]; [destruct pol|]; reflexivity.
Qed.

(* ====================================================================================================
   batch adds: AddDocumentsFromDirectory / AddDocumentsFromManifest / AddPropertiesFromManifest
   ==================================================================================================== *)

(* a refused add leaves the set exactly as it was *)
Lemma add_refused_unchanged name doc tags pol ds :
  snd (ds_add name doc tags pol ds) = false -> fst (ds_add name doc tags pol ds) = ds.
Proof.
  unfold ds_add. destruct (ctx_get name (ds_ctx ds)) as [[od ot]|]; [destruct pol|]; simpl; intros H;
    try discriminate; reflexivity.
Qed.
(* only must-create over an existing name refuses *)
Lemma add_ok_unless_must name doc tags pol ds :
  pol <> PMustCreate -> snd (ds_add name doc tags pol ds) = true.
Proof.
  intros N. unfold ds_add. destruct (ctx_get name (ds_ctx ds)) as [[od ot]|]; [destruct pol|]; simpl; try reflexivity.
  contradiction.
Qed.
Lemma add_ok_names name doc tags pol ds :
  snd (ds_add name doc tags pol ds) = true -> ds_names (fst (ds_add name doc tags pol ds)) = ds_names ds ++ [name].
Proof.
  unfold ds_add. destruct (ctx_get name (ds_ctx ds)) as [[od ot]|]; [destruct pol|]; simpl; intros H;
    try discriminate; reflexivity.
Qed.
(* what a successful add serves under its own name *)
Lemma add_ok_named name doc tags pol ds :
  snd (ds_add name doc tags pol ds) = true ->
  (pol = PMergeTags -> ctx_get name (ds_ctx ds) = None) ->
  ds_named name (fst (ds_add name doc tags pol ds)) = Some doc.
Proof.
  unfold ds_add, ds_named. destruct (ctx_get name (ds_ctx ds)) as [[od ot]|]; [destruct pol|]; simpl; intros H M;
    try discriminate; try (rewrite ctx_get_set_same; reflexivity).
  specialize (M eq_refl). discriminate.
Qed.
Lemma named_other name m doc tags pol ds :
  m <> name -> ds_named m (fst (ds_add name doc tags pol ds)) = ds_named m ds.
Proof. intros N. unfold ds_named. now rewrite add_other_name. Qed.

Definition decoded (files : list (string * option node)) : Prop := forall n, ~ In (n, None) files.

(* ---------- directory: success means every file decoded; the names are appended in glob order *)
Theorem add_files_ok_decoded : forall files tags pol ds,
  snd (ds_add_files files tags pol ds) = true -> decoded files.
Proof.
  induction files as [|[n [d|]] r IH]; intros tags pol ds H m Hin; simpl in *.
  - exact Hin.
  - destruct (ds_add n d tags pol ds) as [ds' ok] eqn:E. destruct ok; [|discriminate].
    destruct Hin as [Hin|Hin]; [discriminate|]. exact (IH _ _ _ H m Hin).
  - discriminate.
Qed.

Theorem add_files_ok_names : forall files tags pol ds,
  snd (ds_add_files files tags pol ds) = true ->
  ds_names (fst (ds_add_files files tags pol ds)) = ds_names ds ++ map fst files.
Proof.
  induction files as [|[n [d|]] r IH]; intros tags pol ds H; simpl in *.
  - now rewrite app_nil_r.
  - destruct (ds_add n d tags pol ds) as [ds' ok] eqn:E. destruct ok; [|discriminate].
    rewrite (IH _ _ _ H). pose proof (add_ok_names n d tags pol ds) as Hn. rewrite E in Hn. simpl in Hn.
    rewrite Hn by reflexivity. now rewrite <- app_assoc.
  - discriminate.
Qed.

(* without must-create a directory of decodable files is always accepted, and the call IS the sequence of
   single adds, in glob order *)
Theorem add_files_is_fold : forall files tags pol ds,
  pol <> PMustCreate -> decoded files ->
  ds_add_files files tags pol ds =
  (fold_left (fun acc f => match snd f with Some d => fst (ds_add (fst f) d tags pol acc) | None => acc end) files ds, true).
Proof.
  induction files as [|[n [d|]] r IH]; intros tags pol ds N D; simpl.
  - reflexivity.
  - pose proof (add_ok_unless_must n d tags pol ds N) as Hok.
    destruct (ds_add n d tags pol ds) as [ds' ok] eqn:E. simpl in Hok. subst ok.
    apply IH; [exact N|]. intros m Hin. apply (D m). now right.
  - exfalso. apply (D n). now left.
Qed.

(* the first file that cannot be read ends the call: the files before it are registered (exactly as by the
   single adds), the files after it are not looked at *)
Theorem add_files_first_failure : forall l1 n l2 tags pol ds,
  pol <> PMustCreate -> decoded l1 ->
  ds_add_files (l1 ++ (n, None) :: l2) tags pol ds = (fst (ds_add_files l1 tags pol ds), false).
Proof.
  induction l1 as [|[m [d|]] r IH]; intros n l2 tags pol ds N D; simpl.
  - reflexivity.
  - pose proof (add_ok_unless_must m d tags pol ds N) as Hok.
    destruct (ds_add m d tags pol ds) as [ds' ok] eqn:E. simpl in Hok. subst ok.
    apply IH; [exact N|]. intros k Hin. apply (D k). now right.
  - exfalso. apply (D m). now left.
Qed.

(* a must-create directory add stops at the first name that is already registered; nothing of that file or the later
   ones is registered *)
Theorem add_files_must_create_stops : forall n d r tags ds c,
  ctx_get n (ds_ctx ds) = Some c ->
  ds_add_files ((n, Some d) :: r) tags PMustCreate ds = (ds, false).
Proof. intros. simpl. rewrite (must_create_unchanged n d tags ds c H). reflexivity. Qed.

(* after a successful directory add every file is served under its own path (distinct paths; with merge-tags only
   for paths that were not registered before, where the stored document is kept by design) *)
Theorem add_files_named : forall files tags pol ds n d,
  snd (ds_add_files files tags pol ds) = true -> NoDup (map fst files) -> In (n, Some d) files ->
  (pol = PMergeTags -> ctx_get n (ds_ctx ds) = None) ->
  ds_named n (fst (ds_add_files files tags pol ds)) = Some d.
Proof.
  induction files as [|[m [e|]] r IH]; intros tags pol ds n d H ND Hin M; simpl in *.
  - contradiction.
  - destruct (ds_add m e tags pol ds) as [ds' ok] eqn:E. destruct ok; [|discriminate].
    inversion ND as [|? ? Hnotin ND']; subst.
    assert (Hds' : ds' = fst (ds_add m e tags pol ds)) by now rewrite E.
    assert (Hok : snd (ds_add m e tags pol ds) = true) by now rewrite E.
    destruct Hin as [Hin|Hin].
    + injection Hin as -> ->.
      (* the later files have other names *)
      assert (Keep : forall fs acc, snd (ds_add_files fs tags pol acc) = true -> ~ In n (map fst fs) ->
                ds_named n (fst (ds_add_files fs tags pol acc)) = ds_named n acc).
      { clear. induction fs as [|[k [x|]] fs IHf]; intros acc H Hn; simpl in *.
        - reflexivity.
        - destruct (ds_add k x tags pol acc) as [acc' ok] eqn:E. destruct ok; [|discriminate].
          rewrite IHf; [|exact H|tauto].
          replace acc' with (fst (ds_add k x tags pol acc)) by now rewrite E.
          apply named_other. intros ->. apply Hn. now left.
        - discriminate. }
      rewrite Keep; [|exact H|exact Hnotin]. rewrite Hds'. apply add_ok_named; assumption.
    + apply IH; [exact H|exact ND'|exact Hin|].
      intros Pm. rewrite Hds'. rewrite add_other_name; [now apply M|].
      intros ->. apply Hnotin. change m with (fst (m, Some d)). now apply in_map.
  - discriminate.
Qed.

(* no batch add disturbs what is served under a name outside the batch *)
Theorem add_files_other_name : forall files tags pol ds m,
  ~ In m (map fst files) ->
  ctx_get m (ds_ctx (fst (ds_add_files files tags pol ds))) = ctx_get m (ds_ctx ds).
Proof.
  induction files as [|[k [x|]] r IH]; intros tags pol ds m Hn; simpl in *.
  - reflexivity.
  - destruct (ds_add k x tags pol ds) as [ds' ok] eqn:E.
    assert (Hds' : ds' = fst (ds_add k x tags pol ds)) by now rewrite E.
    destruct ok; simpl.
    + rewrite IH by tauto. rewrite Hds'. apply add_other_name. intros ->. apply Hn. now left.
    + rewrite Hds'. apply add_other_name. intros ->. apply Hn. now left.
  - reflexivity.
Qed.

Theorem add_files_star : forall files tags pol ds, all_star ds -> all_star (fst (ds_add_files files tags pol ds)).
Proof.
  induction files as [|[k [x|]] r IH]; intros tags pol ds Inv; simpl.
  - exact Inv.
  - destruct (ds_add k x tags pol ds) as [ds' ok] eqn:E.
    assert (Inv' : all_star ds') by (replace ds' with (fst (ds_add k x tags pol ds)) by (now rewrite E); now apply star_add).
    destruct ok; simpl; [now apply IH|exact Inv'].
  - exact Inv.
Qed.

(* ---------- manifest items *)
Lemma item_name_inj manifest a b : item_name manifest a = item_name manifest b -> a = b.
Proof. unfold item_name. intros H. apply append_inj_l in H. simpl in H. now injection H. Qed.

Theorem add_items_star : forall manifest items tags pol ds,
  all_star ds -> all_star (ds_add_items manifest items tags pol ds).
Proof.
  unfold ds_add_items. induction items as [|[k [x|]] r IH]; intros tags pol ds Inv; simpl.
  - exact Inv.
  - apply IH. now apply star_add.
  - now apply IH.
Qed.

Theorem add_items_other_name : forall manifest items tags pol ds m,
  (forall it, In it (map fst items) -> m <> item_name manifest it) ->
  ctx_get m (ds_ctx (ds_add_items manifest items tags pol ds)) = ctx_get m (ds_ctx ds).
Proof.
  unfold ds_add_items. induction items as [|[k [x|]] r IH]; intros tags pol ds m Hn; simpl in *.
  - reflexivity.
  - rewrite IH by (intros it Hit; apply Hn; now right). apply add_other_name. apply Hn. now left.
  - apply IH. intros it Hit. apply Hn. now right.
Qed.

(* every item that decodes is served as "<manifest>/<item>" (item names are distinct: they are the keys of a map) *)
Theorem add_items_named : forall manifest items tags pol ds k d,
  NoDup (map fst items) -> In (k, Some d) items -> pol <> PMustCreate ->
  (pol = PMergeTags -> ctx_get (item_name manifest k) (ds_ctx ds) = None) ->
  ds_named (item_name manifest k) (ds_add_items manifest items tags pol ds) = Some d.
Proof.
  unfold ds_add_items. induction items as [|[j [x|]] r IH]; intros tags pol ds k d ND Hin Np M; simpl in *.
  - contradiction.
  - inversion ND as [|? ? Hnotin ND']; subst. destruct Hin as [Hin|Hin].
    + injection Hin as -> ->. unfold ds_named.
      change (fold_left _ r ?a) with (ds_add_items manifest r tags pol a).
      rewrite add_items_other_name.
      * apply add_ok_named; [now apply add_ok_unless_must|exact M].
      * intros it Hit E. apply item_name_inj in E. subst it. contradiction.
    + apply IH; [exact ND'|exact Hin|exact Np|]. intros Pm. rewrite add_other_name; [now apply M|].
      intros E. apply item_name_inj in E. subst j. apply Hnotin. change k with (fst (k, Some d)). now apply in_map.
  - inversion ND as [|? ? Hnotin ND']; subst. destruct Hin as [Hin|Hin]; [discriminate|].
    apply IH; assumption.
Qed.

(* an item that does not decode is skipped: the call goes on, and nothing is registered for it *)
Theorem add_items_skips_undecodable : forall manifest l1 k l2 tags pol ds,
  ds_add_items manifest (l1 ++ (k, None) :: l2) tags pol ds = ds_add_items manifest (l1 ++ l2) tags pol ds.
Proof. intros. unfold ds_add_items. rewrite !fold_left_app. reflexivity. Qed.

(* ---------- manifest items are handed out by a Go map: the ORDER in which AddDocumentsFromManifest meets them is
   the map's iteration order.  What is served under every name does not depend on it (only the position of the new
   layers among themselves does). *)
Definition add_effect (doc : node) (tags : list string) (pol : policy) (old : option (node * list string))
  : option (node * list string) :=
  match old with
  | Some (od, ot) =>
      match pol with
      | PMustCreate => Some (od, ot)
      | PMergeTags => Some (od, unique (("*"%string :: tags) ++ ot))
      | PNone => Some (doc, "*"%string :: tags)
      end
  | None => Some (doc, "*"%string :: tags)
  end.

Lemma add_own name doc tags pol ds :
  ctx_get name (ds_ctx (fst (ds_add name doc tags pol ds))) = add_effect doc tags pol (ctx_get name (ds_ctx ds)).
Proof.
  unfold ds_add, add_effect. destruct (ctx_get name (ds_ctx ds)) as [[od ot]|] eqn:E; [destruct pol|]; simpl;
    try (now rewrite ctx_get_set_same). exact E.
Qed.

Lemma add_items_other_decoded : forall manifest items tags pol ds m,
  (forall k d, In (k, Some d) items -> m <> item_name manifest k) ->
  ctx_get m (ds_ctx (ds_add_items manifest items tags pol ds)) = ctx_get m (ds_ctx ds).
Proof.
  unfold ds_add_items. induction items as [|[k [x|]] r IH]; intros tags pol ds m Hn; simpl in *.
  - reflexivity.
  - rewrite IH by (intros j d Hj; apply (Hn j d); now right). apply add_other_name. apply (Hn k x). now left.
  - apply IH. intros j d Hj. apply (Hn j d). now right.
Qed.

Lemma add_items_own : forall manifest items tags pol ds k d,
  NoDup (map fst items) -> In (k, Some d) items ->
  ctx_get (item_name manifest k) (ds_ctx (ds_add_items manifest items tags pol ds)) =
  add_effect d tags pol (ctx_get (item_name manifest k) (ds_ctx ds)).
Proof.
  unfold ds_add_items. induction items as [|[j [x|]] r IH]; intros tags pol ds k d ND Hin; simpl in *.
  - contradiction.
  - inversion ND as [|? ? Hnotin ND']; subst. destruct Hin as [Hin|Hin].
    + injection Hin as -> ->.
      change (fold_left _ r ?a) with (ds_add_items manifest r tags pol a).
      rewrite add_items_other_decoded; [apply add_own|].
      intros i e Hi E. apply item_name_inj in E. subst i. apply Hnotin.
      change k with (fst (k, Some e)). now apply in_map.
    + change (fold_left _ r ?a) with (ds_add_items manifest r tags pol a).
      unfold ds_add_items in IH. unfold ds_add_items. rewrite (IH tags pol _ k d ND' Hin).
      rewrite add_other_name; [reflexivity|].
      intros E. apply item_name_inj in E. subst j. apply Hnotin. change k with (fst (k, Some d)). now apply in_map.
  - inversion ND as [|? ? Hnotin ND']; subst. destruct Hin as [Hin|Hin]; [discriminate|]. now apply IH.
Qed.

Theorem add_items_order_independent : forall manifest items items' tags pol ds m,
  Permutation items items' -> NoDup (map fst items) ->
  ctx_get m (ds_ctx (ds_add_items manifest items tags pol ds)) =
  ctx_get m (ds_ctx (ds_add_items manifest items' tags pol ds)).
Proof.
  intros manifest items items' tags pol ds m P ND.
  assert (ND' : NoDup (map fst items')).
  { eapply Permutation_NoDup; [|exact ND]. now apply Permutation_map. }
  destruct (existsb (fun it => String.eqb m (item_name manifest (fst it)) &&
                               match snd it with Some _ => true | None => false end) items) eqn:E.
  - apply existsb_exists in E as [[k [d|]] [Hin Hb]]; simpl in Hb; [|now rewrite andb_false_r in Hb].
    rewrite andb_true_r in Hb. apply String.eqb_eq in Hb. subst m.
    rewrite (add_items_own manifest items tags pol ds k d ND Hin).
    rewrite (add_items_own manifest items' tags pol ds k d ND'); [reflexivity|].
    eapply Permutation_in; eauto.
  - assert (Hn : forall k d, In (k, Some d) items -> m <> item_name manifest k).
    { intros k d Hin ->. assert (X : existsb (fun it => String.eqb (item_name manifest k) (item_name manifest (fst it)) &&
                               match snd it with Some _ => true | None => false end) items = true).
      { apply existsb_exists. exists (k, Some d). split; [exact Hin|]. simpl. now rewrite String.eqb_refl. }
      rewrite X in E. discriminate. }
    rewrite (add_items_other_decoded manifest items tags pol ds m Hn).
    rewrite (add_items_other_decoded manifest items' tags pol ds m); [reflexivity|].
    intros k d Hin. apply (Hn k d). eapply Permutation_in; [apply Permutation_sym; exact P|exact Hin].
Qed.
