From Coq Require Import List String Ascii ZArith Lia Bool Arith.
From YT Require Import Base.Str Base.KV Model.Doc Model.Dom Model.Path Model.Builder Model.Overlay Model.DocSet
  Proofs.OverlayProofs.
Import ListNotations.
Local Open Scope list_scope.

Lemma ctx_get_set_same n c l : ctx_get n (ctx_set n c l) = Some c.
Proof.
  induction l as [|[n' c'] r IH]; simpl; [now rewrite String.eqb_refl|].
  destruct (String.eqb_spec n n') as [->|N]; simpl; [now rewrite String.eqb_refl|].
  destruct (String.eqb_spec n n'); [contradiction|exact IH].
Qed.
Lemma ctx_get_set_other n m c l : m <> n -> ctx_get m (ctx_set n c l) = ctx_get m l.
Proof.
  intros N. induction l as [|[n' c'] r IH]; simpl.
  - destruct (String.eqb_spec m n); [contradiction|reflexivity].
  - destruct (String.eqb_spec n n') as [->|N2]; simpl.
    + destruct (String.eqb_spec m n'); [contradiction|reflexivity].
    + destruct (String.eqb m n'); [reflexivity|exact IH].
Qed.

(* ---------- re-add policies *)
(* must-create fails and changes nothing *)
Theorem must_create_unchanged name doc tags ds c :
  ctx_get name (ds_ctx ds) = Some c -> ds_add name doc tags PMustCreate ds = (ds, false).
Proof. intros H. unfold ds_add. rewrite H. destruct c. reflexivity. Qed.

(* merge-tags keeps the stored document and unions the tags *)
Theorem merge_tags_spec name doc tags ds olddoc oldtags :
  ctx_get name (ds_ctx ds) = Some (olddoc, oldtags) ->
  let ds' := fst (ds_add name doc tags PMergeTags ds) in
  snd (ds_add name doc tags PMergeTags ds) = true /\
  ctx_get name (ds_ctx ds') = Some (olddoc, unique (("*"%string :: tags) ++ oldtags)).
Proof. intros H. unfold ds_add. rewrite H. simpl. split; [reflexivity|apply ctx_get_set_same]. Qed.

(* the default makes the newly added document, with the tags given on that call, the one served *)
Theorem default_readd_spec name doc tags ds :
  let ds' := fst (ds_add name doc tags PNone ds) in
  snd (ds_add name doc tags PNone ds) = true /\
  ctx_get name (ds_ctx ds') = Some (doc, "*"%string :: tags) /\ ds_named name ds' = Some doc.
Proof.
  unfold ds_add, ds_named. destruct (ctx_get name (ds_ctx ds)) as [[od ot]|]; simpl;
    rewrite ctx_get_set_same; auto.
Qed.

(* a first add of any policy registers the document *)
Theorem add_new_spec name doc tags pol ds :
  ctx_get name (ds_ctx ds) = None ->
  ds_named name (fst (ds_add name doc tags pol ds)) = Some doc /\ snd (ds_add name doc tags pol ds) = true.
Proof. intros H. unfold ds_add, ds_named. rewrite H. simpl. now rewrite ctx_get_set_same. Qed.

(* no add touches what is served under another name *)
Theorem add_other_name name m doc tags pol ds :
  m <> name -> ctx_get m (ds_ctx (fst (ds_add name doc tags pol ds))) = ctx_get m (ds_ctx ds).
Proof.
  intros N. unfold ds_add. destruct (ctx_get name (ds_ctx ds)) as [[od ot]|]; [destruct pol|]; simpl;
    try reflexivity; now apply ctx_get_set_other.
Qed.

(* ---------- every stored context carries the '*' tag, hence AsOne == TaggedSubset('*') *)
Definition all_star (ds : docset) : Prop :=
  forall n d ts, ctx_get n (ds_ctx ds) = Some (d, ts) -> smem "*"%string ts = true.

Lemma smem_app_r x a b : smem x b = true -> smem x (a ++ b) = true.
Proof. unfold smem. rewrite existsb_app. intros ->. apply orb_true_r. Qed.
Lemma smem_app_l x a b : smem x a = true -> smem x (a ++ b) = true.
Proof. unfold smem. rewrite existsb_app. intros ->. reflexivity. Qed.

Lemma unique_keeps x : forall l acc, smem x acc = true \/ smem x l = true ->
  smem x (fold_left (fun acc s => if smem s acc then acc else acc ++ [s]) l acc) = true.
Proof.
  induction l as [|s r IH]; intros acc H; simpl.
  - destruct H as [H|H]; [exact H|discriminate].
  - apply IH. destruct H as [H|H].
    + left. destruct (smem s acc); [exact H|now apply smem_app_l].
    + unfold smem in H. simpl in H. apply orb_prop in H as [H|H].
      * apply String.eqb_eq in H. subst s. left. destruct (smem x acc) eqn:E; [exact E|].
        apply smem_app_r. unfold smem. simpl. now rewrite String.eqb_refl.
      * right. exact H.
Qed.

Lemma star_add name doc tags pol ds : all_star ds -> all_star (fst (ds_add name doc tags pol ds)).
Proof.
  intros Inv n d ts G.
  assert (Hnew : smem "*"%string ("*"%string :: tags) = true) by reflexivity.
  destruct (String.eqb_spec n name) as [->|N].
  - unfold ds_add in G. destruct (ctx_get name (ds_ctx ds)) as [[od ot]|] eqn:E.
    + destruct pol; simpl in G.
      * rewrite ctx_get_set_same in G. injection G as <- <-. exact Hnew.
      * rewrite ctx_get_set_same in G. injection G as <- <-. unfold unique. apply unique_keeps. right.
        reflexivity.
      * rewrite E in G. injection G as <- <-. eapply Inv; eauto.
    + simpl in G. rewrite ctx_get_set_same in G. injection G as <- <-. exact Hnew.
  - rewrite add_other_name in G by exact N. eapply Inv; eauto.
Qed.

Lemma filtered_ext sel1 sel2 ds :
  (forall n d ts, ctx_get n (ds_ctx ds) = Some (d, ts) -> sel1 ts = sel2 ts) ->
  ds_filtered sel1 ds = ds_filtered sel2 ds.
Proof.
  intros H. unfold ds_filtered. generalize (@nil (string * list (string * node))) as ov.
  induction (ds_names ds) as [|n r IH]; intros ov; [reflexivity|].
  simpl. destruct (ctx_get n (ds_ctx ds)) as [[d ts]|] eqn:E; [|apply IH].
  rewrite (H n d ts E). apply IH.
Qed.

Theorem as_one_is_star ds : all_star ds -> ds_as_one ds = ds_tagged ["*"%string] ds.
Proof.
  intros Inv. unfold ds_as_one, ds_tagged. apply filtered_ext. intros n d ts G.
  specialize (Inv n d ts G). unfold contains_any_of. symmetry.
  unfold smem in Inv. apply existsb_exists in Inv as [x [Hin Ex]]. apply String.eqb_eq in Ex. subst x.
  apply existsb_exists. exists "*"%string. split; [exact Hin|reflexivity].
Qed.

(* ---------- the layers of a subset: selected names, first occurrences, in insertion order *)
Theorem filtered_names sel ds :
  layer_names (ds_filtered sel ds) =
  fold_left (fun names n => match ctx_get n (ds_ctx ds) with
                            | Some (Con _, tags) => if sel tags then note names n else names
                            | _ => names
                            end) (ds_names ds) [].
Proof.
  unfold ds_filtered.
  change (@nil string) with (layer_names (@nil (string * list (string * node)))).
  generalize (@nil (string * list (string * node))) as ov.
  induction (ds_names ds) as [|n r IH]; intros ov; [reflexivity|].
  cbn [fold_left]. destruct (ctx_get n (ds_ctx ds)) as [[d ts]|]; [|apply IH].
  destruct (sel ts); [|destruct d; apply IH].
  rewrite IH. rewrite write_names. destruct d; reflexivity.
Qed.

(* ---------- unnamed documents receive distinct generated names *)
Lemma append_inj_l (p a b : string) : (p ++ a = p ++ b)%string -> a = b.
Proof. induction p as [|c p IH]; simpl; intros H; [exact H|]. injection H as H. auto. Qed.

Theorem unnamed_distinct a b : unnamed_name a = unnamed_name b -> a = b.
Proof. unfold unnamed_name. intros H. apply append_inj_l in H. now apply nat2s_inj. Qed.

Theorem unnamed_counter_increases doc tags pol ds :
  ds_unnamed (fst (ds_add_unnamed doc tags pol ds)) = S (ds_unnamed ds).
Proof.
  unfold ds_add_unnamed, ds_add. simpl.
  destruct (ctx_get (unnamed_name (S (ds_unnamed ds))) (ds_ctx ds)) as [[od ot]|]; [destruct pol|]; reflexivity.
Qed.
