From Coq Require Import List String Ascii ZArith Lia Bool Arith.
From YT Require Import Base.Str Base.KV Model.Doc Model.Dom Model.Builder.
Import ListNotations.
Local Open Scope list_scope.
Local Open Scope nat_scope.

(* ---------- structured read = string-level Lookup *)
Fixpoint get_path (p : spath) (kvs : list (string * node)) : option node :=
  match p with
  | [] => None
  | [c] => get_comp c kvs
  | c :: r => match get_comp c kvs with
              | Some (Con s) => get_path r s
              | _ => None
              end
  end.

Lemma child_get_comp name kvs : child name kvs = get_comp (comp_parse name) kvs.
Proof. unfold child, get_comp. destruct (comp_parse name) as [b i]. reflexivity. Qed.

Lemma lookup_comps_get_path : forall pc kvs, lookup_comps pc kvs = get_path (map comp_parse pc) kvs.
Proof.
  induction pc as [|c r IH]; intros kvs; [reflexivity|].
  destruct r as [|c' r'].
  - simpl. apply child_get_comp.
  - change (lookup_comps (c :: c' :: r') kvs) with
      (match child c kvs with Some (Con kvs') => lookup_comps (c' :: r') kvs' | _ => None end).
    change (get_path (map comp_parse (c :: c' :: r')) kvs) with
      (match get_comp (comp_parse c) kvs with
       | Some (Con s) => get_path (map comp_parse (c' :: r')) s | _ => None end).
    rewrite child_get_comp. destruct (get_comp (comp_parse c) kvs) as [[| |s]|]; auto.
Qed.

(* ---------- lists *)
Lemma pad_to_length l n : List.length (pad_to l n) = Nat.max (List.length l) n.
Proof. unfold pad_to. rewrite app_length, repeat_length. lia. Qed.

Lemma list_upd_length l i v : List.length (list_upd l i v) = List.length l.
Proof. revert i. induction l as [|x r IH]; intros [|j]; simpl; auto. Qed.

Lemma nth_error_list_upd_same l i v : i < List.length l -> nth_error (list_upd l i v) i = Some v.
Proof.
  revert i. induction l as [|x r IH]; intros [|j] H; simpl in *; try lia; [reflexivity|].
  apply IH. lia.
Qed.

Lemma nth_error_list_upd_other l i j v : i <> j -> nth_error (list_upd l i v) j = nth_error l j.
Proof.
  revert i j. induction l as [|x r IH]; intros [|i] [|j] H; simpl; try reflexivity; try lia.
  apply IH. lia.
Qed.

Lemma nth_error_pad_to l n j :
  nth_error (pad_to l n) j =
    if j <? List.length l then nth_error l j else if j <? n then Some null else None.
Proof.
  unfold pad_to. destruct (Nat.ltb_spec j (List.length l)) as [H|H].
  - now rewrite nth_error_app1.
  - rewrite nth_error_app2 by lia.
    destruct (Nat.ltb_spec j n) as [H2|H2].
    + apply nth_error_repeat. lia.
    + apply nth_error_None. rewrite repeat_length. lia.
Qed.

(* ListBuilder.Set: length is the max, the slot holds the value, pads are null, others unchanged *)
Theorem list_set_length l i v : List.length (list_set l i v) = Nat.max (List.length l) (S i).
Proof. unfold list_set. now rewrite list_upd_length, pad_to_length. Qed.

Theorem list_set_same l i v : nth_error (list_set l i v) i = Some v.
Proof. unfold list_set. apply nth_error_list_upd_same. rewrite pad_to_length. lia. Qed.

Theorem list_set_other l i j v : j <> i ->
  nth_error (list_set l i v) j =
    if j <? List.length l then nth_error l j else if j <? i then Some null else None.
Proof.
  intros H. unfold list_set. rewrite nth_error_list_upd_other by auto.
  rewrite nth_error_pad_to. destruct (j <? List.length l); [reflexivity|].
  destruct (Nat.ltb_spec j (S i)), (Nat.ltb_spec j i); try reflexivity; lia.
Qed.
Theorem list_append_spec (l : list node) (v : node) j :
  nth_error (l ++ [v]) j =
    if j <? List.length l then nth_error l j else if j =? List.length l then Some v else None.
Proof.
  destruct (Nat.ltb_spec j (List.length l)) as [H|H].
  - now rewrite nth_error_app1.
  - rewrite nth_error_app2 by lia. destruct (Nat.eqb_spec j (List.length l)) as [->|N].
    + now rewrite Nat.sub_diag.
    + destruct (j - List.length l) as [|[|k]] eqn:E; try lia; reflexivity.
Qed.

(* ---------- set then get *)
Lemma follow_set_idx : forall idxs x v, follow_idx (set_idx x idxs v) idxs = Some v.
Proof.
  induction idxs as [|i r IH]; intros x v; [reflexivity|].
  simpl. rewrite nth_error_list_upd_same by (rewrite pad_to_length; lia). apply IH.
Qed.

Lemma get_add_comp_same c v kvs : get_comp c (add_comp c v kvs) = Some v.
Proof.
  unfold get_comp, add_comp. destruct c as [k idxs]. cbn [fst snd].
  destruct idxs as [|i r]; rewrite kv_get_set_same; [reflexivity|]. apply follow_set_idx.
Qed.

Theorem get_add_at_same : forall p v kvs, p <> [] -> get_path p (add_at p v kvs) = Some v.
Proof.
  induction p as [|c r IH]; intros v kvs NE; [contradiction|].
  destruct r as [|c' r'].
  - simpl. apply get_add_comp_same.
  - change (add_at (c :: c' :: r') v kvs) with
      (add_comp c (Con (add_at (c' :: r') v
         (match get_comp c kvs with Some (Con s) => s | _ => [] end))) kvs).
    change (get_path (c :: c' :: r') ?K) with
      (match get_comp c K with Some (Con s) => get_path (c' :: r') s | _ => None end).
    rewrite get_add_comp_same. apply IH. discriminate.
Qed.

Lemma split_on_nonempty c l cur : split_on c l cur <> [].
Proof. revert cur. induction l as [|x r IH]; intros cur; simpl; [discriminate|].
  destruct (Ascii.eqb x c); [discriminate|apply IH]. Qed.

Lemma parse_path_nonempty path : parse_path path <> [].
Proof.
  unfold parse_path, split_dots. intro H. apply map_eq_nil in H. apply map_eq_nil in H.
  now apply split_on_nonempty in H.
Qed.

(* "A value written at a path is what lookup returns there" — for EVERY non-empty path string *)
Theorem lookup_add_value_at path v kvs :
  path <> ""%string -> lookup path (Con (add_value_at path v kvs)) = Some v.
Proof.
  intros NE. unfold lookup. destruct (String.eqb_spec path ""%string); [contradiction|].
  rewrite lookup_comps_get_path. unfold add_value_at, parse_path.
  apply get_add_at_same. apply parse_path_nonempty.
Qed.

(* ---------- frame at the level of top-level keys *)
Lemma kv_get_add_comp_other c v kvs k : k <> fst c -> kv_get k (add_comp c v kvs) = kv_get k kvs.
Proof.
  intros N. unfold add_comp. destruct (snd c); now rewrite kv_get_set_other.
Qed.

Theorem add_at_frame_key : forall p v kvs k,
  match p with c :: _ => k <> fst c | [] => True end ->
  kv_get k (add_at p v kvs) = kv_get k kvs.
Proof.
  intros [|c [|c' r]] v kvs k H; simpl; [reflexivity| |]; now apply kv_get_add_comp_other.
Qed.

(* ---------- well-formedness is preserved *)
Lemma wf_null : wf null = true. Proof. reflexivity. Qed.

Lemma forallb_list_upd l i v : forallb wf l = true -> wf v = true -> forallb wf (list_upd l i v) = true.
Proof.
  revert i. induction l as [|x r IH]; intros [|j] H Hv; simpl in *; auto.
  - apply andb_prop in H as [_ H2]. now rewrite Hv, H2.
  - apply andb_prop in H as [H1 H2]. now rewrite H1, IH.
Qed.

Lemma forallb_pad_to l n : forallb wf l = true -> forallb wf (pad_to l n) = true.
Proof.
  intros H. unfold pad_to. rewrite forallb_app, H. simpl.
  apply forallb_forall. intros x Hx. apply repeat_spec in Hx. now subst.
Qed.

Lemma wf_as_list x : wf x = true -> forallb wf (as_list x) = true.
Proof. destruct x; simpl; auto. Qed.

Lemma wf_nth l i : forallb wf l = true -> wf (nth i l null) = true.
Proof.
  intros H. destruct (nth_in_or_default i l null) as [Hin|E]; [|rewrite E; reflexivity].
  rewrite forallb_forall in H. auto.
Qed.

Lemma wf_set_idx : forall idxs x v, wf x = true -> wf v = true -> wf (set_idx x idxs v) = true.
Proof.
  induction idxs as [|i r IH]; intros x v Wx Wv; [exact Wv|].
  simpl. apply forallb_list_upd.
  - apply forallb_pad_to, wf_as_list, Wx.
  - apply IH; [|exact Wv]. apply wf_nth, forallb_pad_to, wf_as_list, Wx.
Qed.

Definition wf_kvs (kvs : list (string * node)) : bool :=
  sorted_keys kvs && forallb (fun kv => wf (snd kv)) kvs.

Lemma wf_kvs_get kvs k x : wf_kvs kvs = true -> kv_get k kvs = Some x -> wf x = true.
Proof.
  unfold wf_kvs. intros H G. apply andb_prop in H as [_ H]. apply get_in in G.
  rewrite forallb_forall in H. apply (H _ G).
Qed.

Lemma wf_kvs_set kvs k v : wf_kvs kvs = true -> wf v = true -> wf_kvs (kv_set k v kvs) = true.
Proof.
  unfold wf_kvs. intros H Wv. apply andb_prop in H as [S W].
  rewrite kv_set_sorted by exact S. simpl.
  clear S. induction kvs as [|[k' v'] r IH]; simpl; [now rewrite Wv|].
  simpl in W. apply andb_prop in W as [W1 W2].
  destruct (scmp k k'); simpl; rewrite ?Wv, ?W1, ?W2; auto.
Qed.

Lemma wf_kvs_del kvs k : wf_kvs kvs = true -> wf_kvs (kv_del k kvs) = true.
Proof.
  unfold wf_kvs. intros H. apply andb_prop in H as [S W].
  rewrite kv_del_sorted by exact S. simpl.
  clear S. induction kvs as [|[k' v'] r IH]; simpl; [reflexivity|].
  simpl in W. apply andb_prop in W as [W1 W2].
  destruct (String.eqb k k'); simpl; rewrite ?W1; auto.
Qed.

Lemma wf_add_comp c v kvs : wf_kvs kvs = true -> wf v = true -> wf_kvs (add_comp c v kvs) = true.
Proof.
  intros H Wv. unfold add_comp. destruct (snd c) as [|i r]; [now apply wf_kvs_set|].
  apply wf_kvs_set; [exact H|]. apply wf_set_idx; [|exact Wv].
  destruct (kv_get (fst c) kvs) eqn:G; [eapply wf_kvs_get; eauto|reflexivity].
Qed.

Lemma wf_follow_idx : forall idxs n x, wf n = true -> follow_idx n idxs = Some x -> wf x = true.
Proof.
  induction idxs as [|i r IH]; intros n x W F; simpl in F; [now injection F as <-|].
  destruct n as [|xs|]; try discriminate. destruct (nth_error xs i) as [y|] eqn:E; [|discriminate].
  eapply IH; [|exact F]. simpl in W. rewrite forallb_forall in W. apply W. eapply nth_error_In; eauto.
Qed.

Lemma wf_get_comp c kvs x : wf_kvs kvs = true -> get_comp c kvs = Some x -> wf x = true.
Proof.
  unfold get_comp. intros H G. destruct (kv_get (fst c) kvs) as [n|] eqn:E; [|discriminate].
  eapply wf_follow_idx; [|exact G]. eapply wf_kvs_get; eauto.
Qed.

Lemma wf_con kvs : wf (Con kvs) = wf_kvs kvs. Proof. reflexivity. Qed.

Theorem wf_add_at : forall p v kvs, wf_kvs kvs = true -> wf v = true -> wf_kvs (add_at p v kvs) = true.
Proof.
  induction p as [|c r IH]; intros v kvs H Wv; [exact H|].
  destruct r as [|c' r'].
  - simpl. now apply wf_add_comp.
  - change (add_at (c :: c' :: r') v kvs) with
      (add_comp c (Con (add_at (c' :: r') v
         (match get_comp c kvs with Some (Con s) => s | _ => [] end))) kvs).
    apply wf_add_comp; [exact H|]. rewrite wf_con. apply IH; [|exact Wv].
    destruct (get_comp c kvs) as [[| |s]|] eqn:G; try reflexivity.
    apply (wf_get_comp _ _ _ H) in G. exact G.
Qed.

Theorem wf_remove_at_comps : forall pc kvs, wf_kvs kvs = true -> wf_kvs (remove_at_comps pc kvs) = true.
Proof.
  induction pc as [|c r IH]; intros kvs H; [exact H|].
  destruct r as [|c' r'].
  - simpl. now apply wf_kvs_del.
  - change (remove_at_comps (c :: c' :: r') kvs) with
      (match child c kvs with
       | Some (Con s) => add_comp (comp_parse c) (Con (remove_at_comps (c' :: r') s)) kvs
       | _ => kvs end).
    destruct (child c kvs) as [[| |s]|] eqn:G; try exact H.
    apply wf_add_comp; [exact H|]. rewrite wf_con. apply IH.
    rewrite child_get_comp in G. apply (wf_get_comp _ _ _ H) in G. exact G.
Qed.

(* ---------- remove then get *)
Lemma comp_parse_plain t : plain_comp t = true -> comp_parse t = (t, []).
Proof.
  unfold plain_comp, comp_parse. intros H.
  destruct (rev (la t)) as [|c r] eqn:E.
  - simpl. assert (t = ""%string) as ->; [|reflexivity].
    apply (f_equal (@rev _)) in E. rewrite rev_involutive in E. simpl in E.
    rewrite <- (sl_la t), E. reflexivity.
  - cbn [List.length strip_chain]. destruct (strip_index (c :: r)); [discriminate|].
    rewrite <- E, rev_involutive, sl_la. reflexivity.
Qed.

Lemma get_comp_add_comp_con c s kvs s' :
  get_comp c kvs = Some (Con s) -> get_comp c (add_comp c (Con s') kvs) = Some (Con s').
Proof. intros _. apply get_add_comp_same. Qed.

Theorem lookup_remove_at_comps : forall pc kvs,
  wf_kvs kvs = true -> pc <> [] -> plain_comp (last pc ""%string) = true ->
  lookup_comps pc (remove_at_comps pc kvs) = None.
Proof.
  induction pc as [|c r IH]; intros kvs H NE P; [contradiction|].
  destruct r as [|c' r'].
  - simpl in *. rewrite child_get_comp, (comp_parse_plain _ P). unfold get_comp. simpl.
    rewrite kv_get_del_same; [reflexivity|]. unfold wf_kvs in H. now apply andb_prop in H as [S _].
  - change (remove_at_comps (c :: c' :: r') kvs) with
      (match child c kvs with
       | Some (Con s) => add_comp (comp_parse c) (Con (remove_at_comps (c' :: r') s)) kvs
       | _ => kvs end).
    change (lookup_comps (c :: c' :: r') ?K) with
      (match child c K with Some (Con k') => lookup_comps (c' :: r') k' | _ => None end).
    destruct (child c kvs) as [[| |s]|] eqn:G; try (rewrite G; reflexivity).
    rewrite child_get_comp, get_add_comp_same. apply IH.
    + rewrite child_get_comp in G. apply (wf_get_comp _ _ _ H) in G. exact G.
    + discriminate.
    + exact P.
Qed.

Lemma split_dots_nonempty path : split_dots path <> [].
Proof. unfold split_dots. intro H. apply map_eq_nil in H. now apply split_on_nonempty in H. Qed.

(* "removing a path makes lookup return nothing there" (last component a plain key) *)
Theorem lookup_remove_at path kvs :
  wf_kvs kvs = true -> plain_comp (last (split_dots path) ""%string) = true ->
  lookup path (Con (remove_at path kvs)) = None.
Proof.
  intros H P. unfold lookup. destruct (String.eqb path ""%string); [reflexivity|].
  apply lookup_remove_at_comps; auto. apply split_dots_nonempty.
Qed.

Theorem remove_at_frame_key : forall pc kvs k,
  match pc with c :: _ => k <> fst (comp_parse c) /\ k <> c | [] => True end ->
  kv_get k (remove_at_comps pc kvs) = kv_get k kvs.
Proof.
  intros [|c [|c' r]] kvs k H; [reflexivity| |].
  - simpl. destruct H as [_ H]. now rewrite kv_get_del_other.
  - change (remove_at_comps (c :: c' :: r) kvs) with
      (match child c kvs with
       | Some (Con s) => add_comp (comp_parse c) (Con (remove_at_comps (c' :: r) s)) kvs
       | _ => kvs end).
    destruct (child c kvs) as [[| |s]|]; try reflexivity.
    destruct H as [H _]. now apply kv_get_add_comp_other.
Qed.

(* ---------- every step of a history preserves well-formedness *)
Lemma wf_upd_at path f kvs :
  wf_kvs kvs = true -> (forall n, wf n = true -> wf (f n) = true) -> wf_kvs (upd_at path f kvs) = true.
Proof.
  intros H Hf. unfold upd_at. destruct (lookup_comps (split_dots path) kvs) as [n|] eqn:G; [|exact H].
  apply wf_add_at; [exact H|]. apply Hf.
  rewrite lookup_comps_get_path in G. clear -H G.
  revert kvs H G. generalize (map comp_parse (split_dots path)) as p.
  induction p as [|c r IH]; intros kvs H G; [discriminate|].
  destruct r as [|c' r'].
  - simpl in G. eapply wf_get_comp; eauto.
  - change (get_path (c :: c' :: r') kvs) with
      (match get_comp c kvs with Some (Con s) => get_path (c' :: r') s | _ => None end) in G.
    destruct (get_comp c kvs) as [[| |s]|] eqn:E; try discriminate.
    apply (IH s); [|exact G]. apply (wf_get_comp _ _ _ H) in E. exact E.
Qed.

Definition compact_kvs := fix go (l : list (string * node)) : list (string * node) :=
  match l with
  | [] => []
  | (k, x) :: r =>
      match x with
      | Con _ => match compact x with Con [] => go r | x' => (k, x') :: go r end
      | _ => (k, x) :: go r
      end
  end.
Lemma compact_con kvs : compact (Con kvs) = Con (compact_kvs kvs).
Proof. reflexivity. Qed.

Lemma compact_kvs_keys_sub kvs k0 : lt_all k0 kvs = true -> lt_all k0 (compact_kvs kvs) = true.
Proof.
  induction kvs as [|[k x] r IH]; intros H; [reflexivity|].
  simpl in H. apply andb_prop in H as [H1 H2]. specialize (IH H2). cbn [compact_kvs].
  fold compact_kvs. destruct x as [| |s]; [simpl; now rewrite H1, IH..|].
  destruct (compact (Con s)) as [| |[|? ?]]; simpl; rewrite ?H1, ?IH; auto.
Qed.

Theorem wf_compact : forall n, wf n = true -> wf (compact n) = true.
Proof.
  induction n as [v|xs IH|kvs IH] using node_ind'; intros W; try exact W.
  rewrite compact_con, wf_con. rewrite wf_con in W. unfold wf_kvs in *.
  apply andb_prop in W as [S W].
  induction IH as [|[k x] r Hx _ IHr]; [reflexivity|].
  simpl in S, W. apply andb_prop in S as [S1 S2]. apply andb_prop in W as [W1 W2].
  specialize (IHr S2 W2). apply andb_prop in IHr as [I1 I2].
  simpl in Hx. specialize (Hx W1).
  assert (Hc : sorted_keys ((k, compact x) :: compact_kvs r) = true /\
               forallb (fun kv => wf (snd kv)) ((k, compact x) :: compact_kvs r) = true).
  { simpl. rewrite (compact_kvs_keys_sub _ _ S1), I1, Hx, I2. auto. }
  destruct Hc as [C1 C2].
  simpl. destruct x as [v|xs|s].
  - simpl. simpl in C1, C2. now rewrite C1, C2.
  - simpl. simpl in C1, C2. now rewrite C1, C2.
  - destruct (compact (Con s)) as [v'|xs'|[|kv' s']] eqn:E.
    + now rewrite C1, C2.
    + now rewrite C1, C2.
    + now rewrite I1, I2.
    + now rewrite C1, C2.
Qed.

Theorem bstep_wf d o : wf d = true ->
  match o with
  | OAddValue _ v | OAddValueAt _ v | OListSet _ _ v | OListMustSet _ _ v | OListAppend _ v => wf v = true
  | _ => True
  end -> wf (bstep d o) = true.
Proof.
  intros W Hv. destruct d as [v|xs|kvs]; try exact W.
  unfold bstep. rewrite wf_con in *.
  destruct o; simpl.
  - now apply wf_add_comp.
  - now apply wf_add_at.
  - now apply wf_add_comp.
  - now apply wf_add_comp.
  - now apply wf_kvs_del.
  - now apply wf_remove_at_comps.
  - apply wf_upd_at; [exact W|]. intros n Wn. simpl. apply forallb_list_upd; [|exact Hv].
    apply forallb_pad_to, wf_as_list, Wn.
  - apply wf_upd_at; [exact W|]. intros n Wn. simpl. apply forallb_list_upd; [|exact Hv].
    apply wf_as_list, Wn.
  - apply wf_upd_at; [exact W|]. intros n Wn. simpl. rewrite forallb_app, (wf_as_list _ Wn). simpl.
    now rewrite Hv.
  - apply wf_upd_at; [exact W|]. intros n Wn. reflexivity.
  - pose proof (wf_compact (Con kvs)) as C. rewrite compact_con in *. rewrite wf_con in C. now apply C.
Qed.
