From Coq Require Import List String Ascii ZArith Lia Bool Arith.
From YT Require Import Base.Str Base.KV Model.Doc Model.Equals.
Import ListNotations.
Local Open Scope list_scope.

Definition eq_list (f : node -> node -> bool) := fix go (l1 l2 : list node) : bool :=
  match l1, l2 with [], [] => true | x :: r1, y :: r2 => f x y && go r1 r2 | _, _ => false end.
Definition eq_own (f : node -> node -> bool) (k2 : list (string * node)) :=
  fix go (l : list (string * node)) : bool :=
  match l with
  | [] => true
  | (k, v) :: r => match kv_get k k2 with Some w => f v w | None => false end && go r
  end.
Lemma equals_lst xs ys : equals (Lst xs) (Lst ys) = eq_list equals xs ys.
Proof. reflexivity. Qed.
Lemma equals_con k1 k2 : equals (Con k1) (Con k2) =
  Nat.eqb (List.length k1) (List.length k2) && eq_own equals k2 k1.
Proof. reflexivity. Qed.

Theorem equals_sound : forall a, wf a = true -> forall b, wf b = true -> equals a b = true -> a = b.
Proof.
  induction a as [v|xs IH|k1 IH] using node_ind'; intros Wa b Wb E.
  - destruct b; simpl in E; try discriminate. f_equal. now destruct (scalar_eqb_spec v v0).
  - destruct b as [|ys|]; try discriminate. rewrite equals_lst in E. f_equal.
    simpl in Wa, Wb. revert ys Wb E.
    induction IH as [|x r Hx _ IHr]; intros [|y ys] Wb E; simpl in E; try discriminate; [reflexivity|].
    simpl in Wa, Wb. apply andb_prop in Wa as [Wx Wr], Wb as [Wy Wys], E as [E1 E2].
    f_equal; [apply Hx; auto|apply IHr; auto].
  - destruct b as [| |k2]; try discriminate. rewrite equals_con in E.
    apply andb_prop in E as [EL EO]. apply Nat.eqb_eq in EL.
    simpl in Wa, Wb. apply andb_prop in Wa as [S1 W1], Wb as [S2 W2].
    f_equal.
    assert (Hsub : forall k v, In (k, v) k1 -> kv_get k k2 = Some v).
    { clear EL S1. revert W1 EO.
      induction IH as [|[k v] r Hv _ IHr]; intros W1 EO q w Hin; [contradiction|].
      simpl in W1, EO. apply andb_prop in W1 as [Wv Wr], EO as [E1 E2].
      destruct Hin as [[= -> ->]|Hin]; [|eapply IHr; eauto].
      destruct (kv_get q k2) as [w'|] eqn:G; [|discriminate].
      f_equal. symmetry. apply Hv; auto. simpl.
      apply get_in in G. rewrite forallb_forall in W2. apply (W2 _ G). }
    apply sorted_ext; auto. intros q.
    destruct (kv_get q k1) as [v|] eqn:G1.
    + symmetry. apply Hsub. now apply get_in.
    + destruct (kv_get q k2) as [w|] eqn:G2; [|reflexivity]. exfalso.
      assert (incl (kv_keys k2) (kv_keys k1)) as Hincl.
      { apply NoDup_length_incl; [apply sorted_nodup; auto|unfold kv_keys; rewrite !map_length; lia|].
        intros x Hx. apply in_map_iff in Hx as [[k v] [Ek Hin]]. simpl in Ek; subst.
        eapply get_some_key, Hsub; eauto. }
      apply get_some_key in G2. apply Hincl in G2.
      apply in_map_iff in G2 as [[k v] [Ek Hin]]. simpl in Ek; subst.
      apply in_get in Hin; [congruence|apply sorted_nodup; auto].
Qed.

Lemma eq_own_refl full l :
  (forall k v, In (k, v) l -> kv_get k full = Some v) ->
  Forall (fun kv => wf (snd kv) = true -> equals (snd kv) (snd kv) = true) l ->
  forallb (fun kv => wf (snd kv)) l = true ->
  eq_own equals full l = true.
Proof.
  intros G F. revert G. induction F as [|[k v] r Hv _ IHr]; intros G W; simpl; [reflexivity|].
  simpl in W. apply andb_prop in W as [Wv Wr].
  rewrite (G k v) by (left; reflexivity). simpl in Hv. rewrite Hv by auto. simpl.
  apply IHr; auto. intros; apply G; right; auto.
Qed.

Theorem equals_refl : forall a, wf a = true -> equals a a = true.
Proof.
  induction a as [v|xs IH|k1 IH] using node_ind'; intros W.
  - simpl. now destruct (scalar_eqb_spec v v).
  - rewrite equals_lst. simpl in W. induction IH as [|x r Hx _ IHr]; simpl; [reflexivity|].
    simpl in W. apply andb_prop in W as [Wx Wr]. rewrite Hx, IHr; auto.
  - rewrite equals_con, Nat.eqb_refl. simpl. simpl in W. apply andb_prop in W as [S W].
    apply eq_own_refl; auto. intros; apply in_get; auto. apply sorted_nodup; auto.
Qed.

Theorem equals_iff_eq a b : wf a = true -> wf b = true -> (equals a b = true <-> a = b).
Proof. intros Wa Wb. split; [apply equals_sound; auto|intros <-; apply equals_refl; auto]. Qed.

Corollary equals_sym a b : wf a = true -> wf b = true -> equals a b = equals b a.
Proof.
  intros Wa Wb. destruct (equals a b) eqn:E1, (equals b a) eqn:E2; try reflexivity.
  - apply equals_iff_eq in E1; auto. subst. rewrite equals_refl in E2; auto.
  - apply equals_iff_eq in E2; auto. subst. rewrite equals_refl in E1; auto.
Qed.

Corollary equals_trans a b c : wf a = true -> wf b = true -> wf c = true ->
  equals a b = true -> equals b c = true -> equals a c = true.
Proof.
  intros Wa Wb Wc E1 E2. apply equals_iff_eq in E1, E2; auto. subst. now apply equals_refl.
Qed.

Lemma equals_same_as a b : equals a b = true -> same_as a b = true.
Proof. destruct a, b; simpl; auto; discriminate. Qed.

Lemma map_id_Forall {A} (f : A -> A) l : Forall (fun x => f x = x) l -> map f l = l.
Proof. induction 1 as [|x r Hx _ IH]; simpl; [reflexivity|]. now rewrite Hx, IH. Qed.

Theorem clone_eq : forall a, clone a = a.
Proof.
  induction a as [v|xs IH|kvs IH] using node_ind'; simpl; [reflexivity| |].
  - f_equal. now apply map_id_Forall.
  - f_equal. apply map_id_Forall. eapply Forall_impl; [|exact IH].
    intros [k v] H. simpl in *. now rewrite H.
Qed.

Corollary clone_equals a : wf a = true -> equals (clone a) a = true /\ equals a (clone a) = true /\ same_as (clone a) a = true.
Proof. intros W. rewrite clone_eq. repeat split; [now apply equals_refl..|destruct a; reflexivity]. Qed.
