(* Proofs/ReconstructListsProofs.v — reconstruction on the whole domain of C08: L and R agree
   wherever both define a position (same kind, equal scalars) and differ by added keys, removed keys
   and arbitrarily different lists.  After Apply(R, Diff(L,R)) every flattened path of L resolves to
   its leaf.  New with respect to ReconstructKeyedProofs: the Delete of a differing list is NOT
   harmless for the leaves below it — but its path is a proper prefix of theirs, hence strictly
   smaller, hence the sort puts it before the Adds that rebuild the list. *)
From Coq Require Import List String Ascii ZArith Lia Bool Arith Permutation.
From YT Require Import Base.Str Base.KV Base.Sort Model.Doc Model.Dom Model.Pointer Model.Path Model.Builder
  Model.Equals Model.Diff Model.Apply
  Proofs.StrProofs Proofs.EqualsProofs Proofs.BuilderProofs Proofs.PathProofs Proofs.FrameProofs Proofs.RebuildProofs
  Proofs.DiffProofs Proofs.DiffOrderProofs Proofs.DiffNilProofs Proofs.ApplyProofs Proofs.ApplyLookupProofs
  Proofs.ReconstructProofs Proofs.ReconstructKeyedProofs.
Import ListNotations.
Local Open Scope list_scope.

(* ---------- the domain *)
Fixpoint compat_g (l r : node) {struct l} : Prop :=
  match l, r with
  | Leaf a, Leaf b => a = b
  | Lst _, Lst _ => True
  | Con kl, Con kr =>
      fold_right (fun kx acc =>
                    match kx with
                    | (k, x) => match kv_get k kr with Some y => compat_g x y | None => True end /\ acc
                    end) True kl
  | _, _ => False
  end.

Lemma compat_g_con kl kr :
  compat_g (Con kl) (Con kr) <->
  forall k x y, In (k, x) kl -> kv_get k kr = Some y -> compat_g x y.
Proof.
  cbn [compat_g]. induction kl as [|[k x] rest IH].
  - split; [intros _ k x y []|intros _; exact Logic.I].
  - cbn [fold_right]. split.
    + intros [H1 H2] k' x' y' [E|Hin] G.
      * injection E as <- <-. now rewrite G in H1.
      * rewrite IH in H2. eapply H2; eauto.
    + intros H. split.
      * destruct (kv_get k kr) as [y|] eqn:G; [|trivial]. apply (H k x y); [now left|exact G].
      * rewrite IH. intros k' x' y' Hin G. apply (H k' x' y'); [now right|exact G].
Qed.

(* ---------- positions of lists reached through keys only *)
Definition is_key (s : step) : bool := match s with K _ => true | I _ => false end.
Definition lst_pos (l : node) (tau : list step) : Prop :=
  (exists xs, get_steps tau l = Some (Lst xs)) /\ forallb is_key tau = true /\ forallb step_safe tau = true.

Lemma lst_pos_under_key k x kl tau :
  kv_get k kl = Some x -> key_safe k = true -> lst_pos x tau -> lst_pos (Con kl) (K k :: tau).
Proof.
  intros G Sk [[xs Gx] [Fk Fs]]. split; [exists xs; simpl; now rewrite G|].
  split; simpl; [exact Fk|now rewrite Sk, Fs].
Qed.

(* the classification, the completeness of the Adds, and: below a deleted list every leaf is re-added *)
Theorem diff_general_class : forall l r path,
  wf l = true -> keys_safe l = true -> wf r = true -> keys_safe r = true -> compat_g l r ->
  (forall m, In m (diff_node canonical l r path) ->
     exists tau, mpath m = relpath path tau /\
       ((mt m = MAdd /\ In (tau, mval m) (flatten_steps l)) \/
        (mt m = MDelete /\ del_pos l tau) \/
        (mt m = MDelete /\ lst_pos l tau /\
         forall rest v, In (tau ++ rest, v) (flatten_steps l) ->
           In (mkMod MAdd (relpath path (tau ++ rest)) v SNull) (diff_node canonical l r path)))) /\
  (forall sigma v, In (sigma, v) (flatten_steps l) ->
     get_steps sigma r = Some (Leaf v) \/
     In (mkMod MAdd (relpath path sigma) v SNull) (diff_node canonical l r path)).
Proof.
  induction l as [a|xs IH|kl IH] using node_ind'; intros r path Wl Sl Wr Sr C.
  - destruct r as [b|ys|kr]; simpl in C; try contradiction. subst b. split.
    + intros m H. simpl in H. now destruct (scalar_eqb_spec a a).
    + intros sigma v H. simpl in H. destruct H as [[= <- <-]|[]]. now left.
  - destruct r as [b|ys|kr]; simpl in C; try contradiction.
    rewrite diff_node_lst. destruct (equals (Lst xs) (Lst ys)) eqn:E.
    + apply equals_iff_eq in E; auto. injection E as <-. split.
      * intros m [].
      * intros sigma v H. left. now apply flatten_steps_get.
    + assert (Hadd : forall sigma v, In (sigma, v) (flatten_steps (Lst xs)) ->
                In (mkMod MAdd (relpath path sigma) v SNull) (mkMod MDelete path SNull SNull :: adds canonical (Lst xs) path)).
      { intros sigma v H. right. rewrite adds_flatten, flatten_node_steps, map_map. apply in_map_iff.
        exists (sigma, v). split; [reflexivity|exact H]. }
      split.
      * intros m [<-|Hm].
        -- exists []. split; [reflexivity|]. right. right. split; [reflexivity|]. split.
           ++ split; [exists xs; reflexivity|split; reflexivity].
           ++ intros rest v H. simpl app in *. now apply Hadd.
        -- apply adds_class in Hm as [Ht [tau [Ep Hf]]]. exists tau. split; [exact Ep|]. left. now split.
      * intros sigma v H. right. now apply Hadd.
  - destruct r as [b|ys|kr]; try (simpl in C; contradiction).
    rewrite compat_g_con in C.
    assert (SKl : sorted_keys kl = true) by (simpl in Wl; now apply andb_prop in Wl as [? _]).
    assert (Wk : forall y, In y kl -> wf (snd y) = true).
    { simpl in Wl. apply andb_prop in Wl as [_ Wl]. now rewrite forallb_forall in Wl. }
    assert (Sk : forall y, In y kl -> key_safe (fst y) = true /\ keys_safe (snd y) = true).
    { unfold keys_safe in Sl. simpl in Sl. rewrite forallb_forall in Sl. intros y Hy.
      specialize (Sl y Hy). now apply andb_prop in Sl. }
    assert (Skr : forall y, In y kr -> key_safe (fst y) = true /\ keys_safe (snd y) = true).
    { unfold keys_safe in Sr. simpl in Sr. rewrite forallb_forall in Sr. intros y Hy.
      specialize (Sr y Hy). now apply andb_prop in Sr. }
    rewrite Forall_forall in IH.
    rewrite diff_node_con, dn_left_map. unfold blocks, canonical.
    (* membership of a left block in the whole *)
    assert (InL : forall k x m, In (k, x) kl ->
              In m (match kv_get k kr with
                    | Some y => diff_node canonical x y (to_path path k)
                    | None => adds canonical x (to_path path k)
                    end) ->
              In m (List.concat (map snd (dn_left_blocks canonical kr path kl)) ++
                    List.concat (map snd (dn_right kl path kr)))).
    { intros k x m Hin Hm. apply in_or_app. left. unfold dn_left_blocks. rewrite map_map. apply in_concat_map.
      exists (k, x). split; [exact Hin|]. simpl. destruct (Sk _ Hin) as [Sk1 _]. simpl in Sk1.
      now rewrite child_plain_key by now apply key_safe_plain. }
    split.
    + intros m H. apply in_app_or in H as [H|H].
      * unfold dn_left_blocks in H. rewrite map_map in H. apply in_concat_map in H as [[k x] [Hin Hm]].
        simpl in Hm. destruct (Sk _ Hin) as [Sk1 Sk2]. simpl in Sk1, Sk2.
        pose proof (in_get k x kl (sorted_nodup kl SKl) Hin) as Gl.
        rewrite child_plain_key in Hm by now apply key_safe_plain.
        destruct (kv_get k kr) as [y|] eqn:G.
        -- assert (Cy : child k kr = Some y) by (rewrite child_plain_key by (now apply key_safe_plain); exact G).
           assert (Wy : wf y = true) by exact (child_wf k kr y Sk1 Wr Cy).
           assert (Sy : keys_safe y = true) by exact (child_safe k kr y Sk1 Sr Cy).
           destruct (IH (k, x) Hin y (to_path path k) (Wk _ Hin) Sk2 Wy Sy (C k x y Hin G)) as [A1 _].
           destruct (A1 m Hm) as [tau [Ep Hc]]. exists (K k :: tau). split; [exact Ep|].
           destruct Hc as [[Ht Hf]|[[Ht Hd]|[Ht [Hl Hre]]]].
           ++ left. split; [exact Ht|]. rewrite flatten_steps_con. eapply fs_kvs_In; eauto.
           ++ right. left. split; [exact Ht|]. now apply (del_pos_under_key k x).
           ++ right. right. split; [exact Ht|]. split; [now apply (lst_pos_under_key k x)|].
              intros rest v Hr. simpl app in Hr. rewrite flatten_steps_con in Hr.
              apply In_fs_kvs in Hr as [k' [x' [rest' [E [Hk' Hr']]]]]. injection E as <- <-.
              pose proof (in_get k x' kl (sorted_nodup kl SKl) Hk') as Gl'. rewrite Gl in Gl'. injection Gl' as <-.
              apply (InL k x); [exact Hin|]. rewrite G. apply (Hre rest v Hr').
        -- apply adds_class in Hm as [Ht [tau [Ep Hf]]]. exists (K k :: tau). split; [exact Ep|].
           left. split; [exact Ht|]. rewrite flatten_steps_con. eapply fs_kvs_In; eauto.
      * unfold dn_right in H. rewrite map_map in H. apply in_concat_map in H as [[k y] [Hin Hm]].
        simpl in Hm. destruct (Skr _ Hin) as [Sk1 _]. simpl in Sk1.
        rewrite child_plain_key in Hm by now apply key_safe_plain.
        destruct (kv_get k kl) as [x|] eqn:G; [contradiction|]. destruct Hm as [<-|[]].
        exists [K k]. split; [reflexivity|]. right. left. split; [reflexivity|].
        exists [], k, kl. repeat split; auto.
    + intros sigma v H. rewrite flatten_steps_con in H.
      apply In_fs_kvs in H as [k [x [rest [-> [Hin Hr]]]]].
      destruct (Sk _ Hin) as [Sk1 Sk2]. simpl in Sk1, Sk2.
      destruct (kv_get k kr) as [y|] eqn:G.
      * assert (Cy : child k kr = Some y) by (rewrite child_plain_key by (now apply key_safe_plain); exact G).
        assert (Wy : wf y = true) by exact (child_wf k kr y Sk1 Wr Cy).
        assert (Sy : keys_safe y = true) by exact (child_safe k kr y Sk1 Sr Cy).
        destruct (IH (k, x) Hin y (to_path path k) (Wk _ Hin) Sk2 Wy Sy (C k x y Hin G)) as [_ A2].
        destruct (A2 rest v Hr) as [Hg|Ha].
        -- left. simpl. now rewrite G.
        -- right. apply (InL k x); [exact Hin|]. now rewrite G.
      * right. apply (InL k x); [exact Hin|]. rewrite G.
        rewrite adds_flatten, flatten_node_steps, map_map. apply in_map_iff.
        exists (rest, v). split; [reflexivity|exact Hr].
Qed.

(* ---------- a list position and a leaf position of one tree: ancestor, or divergent *)
Lemma lst_pos_vs_leaf : forall tau l xs sigma v,
  wf l = true -> get_steps tau l = Some (Lst xs) -> In (sigma, v) (flatten_steps l) ->
  (exists rest, sigma = tau ++ rest /\ rest <> []) \/ diverge tau sigma.
Proof.
  induction tau as [|s tau IH]; intros l xs sigma v W G Hin.
  - left. exists sigma. split; [reflexivity|]. simpl in G. injection G as ->.
    rewrite flatten_steps_lst in Hin. apply In_fs_list in Hin as [j [x [rest [-> _]]]]. discriminate.
  - destruct s as [a|i]; simpl in G.
    + destruct l as [w|ys|kl]; try discriminate.
      destruct (kv_get a kl) as [x|] eqn:Ga; [|discriminate].
      rewrite flatten_steps_con in Hin. apply In_fs_kvs in Hin as [k' [x' [rest [-> [Hk Hr]]]]].
      destruct (String.eqb_spec a k') as [->|NE]; [|right; now apply d_key].
      simpl in W. apply andb_prop in W as [SK W].
      rewrite (in_get k' x' kl (sorted_nodup kl SK) Hk) in Ga. injection Ga as <-.
      rewrite forallb_forall in W.
      destruct (IH x' xs rest v (W (k', x') Hk) G Hr) as [[rest' [-> NE']]|D].
      * left. exists rest'. split; [reflexivity|exact NE'].
      * right. now apply d_cons.
    + destruct l as [w|ys|kl]; try discriminate.
      destruct (nth_error ys i) as [x|] eqn:Ni; [|discriminate].
      rewrite flatten_steps_lst in Hin. apply In_fs_list in Hin as [j [x' [rest [-> [Nj Hr]]]]].
      simpl. destruct (Nat.eq_dec i j) as [->|NE]; [|right; now apply d_idx].
      rewrite Ni in Nj. injection Nj as <-. simpl in W. rewrite forallb_forall in W.
      destruct (IH x xs rest v (W x (nth_error_In _ _ Ni)) G Hr) as [[rest' [-> NE']]|D].
      * left. exists rest'. split; [reflexivity|exact NE'].
      * right. now apply d_cons.
Qed.

(* ---------- a proper prefix renders to a strictly smaller path *)
Lemma ascii_compare_refl c : Ascii.compare c c = Eq.
Proof.
  pose proof (Ascii.compare_antisym c c) as H. destruct (Ascii.compare c c); simpl in H; congruence.
Qed.

Lemma ltb_prefix : forall a b, b <> ""%string -> String.ltb a (a ++ b) = true.
Proof.
  intros a b NE. unfold String.ltb. induction a as [|c a IH]; simpl.
  - destruct b; [contradiction|reflexivity].
  - now rewrite ascii_compare_refl.
Qed.

Lemma render_step_extends acc s : acc <> ""%string -> exists suf, render_step acc s = (acc ++ suf)%string /\ suf <> ""%string.
Proof.
  intros NE. destruct s as [k|i]; simpl.
  - unfold to_path. destruct (String.eqb_spec acc ""%string); [contradiction|].
    exists ("." ++ k)%string. split; [reflexivity|discriminate].
  - unfold idx_path. exists ("[" ++ nat2s i ++ "]")%string. split; [reflexivity|discriminate].
Qed.

Lemma append_nonempty_l (a b : string) : a <> ""%string -> (a ++ b)%string <> ""%string.
Proof. destruct a; [contradiction|discriminate]. Qed.

Lemma relpath_extends : forall rest acc, acc <> ""%string -> rest <> [] ->
  exists suf, relpath acc rest = (acc ++ suf)%string /\ suf <> ""%string.
Proof.
  induction rest as [|s rest IH]; intros acc NE NR; [contradiction|].
  rewrite relpath_cons. destruct (render_step_extends acc s NE) as [suf [E Hs]]. rewrite E.
  destruct rest as [|s' rest'].
  - exists suf. split; [reflexivity|exact Hs].
  - destruct (IH (acc ++ suf)%string (append_nonempty_l _ _ NE)) as [suf' [E' Hs']]; [discriminate|].
    rewrite E'. exists (suf ++ suf')%string. split; [now rewrite append_assoc|now apply append_nonempty_l].
Qed.

Lemma render_prefix_lt tau rest :
  render_steps tau <> ""%string -> rest <> [] ->
  String.ltb (render_steps tau) (render_steps (tau ++ rest)) = true.
Proof.
  intros NE NR. unfold render_steps. rewrite fold_left_app.
  destruct (relpath_extends rest (fold_left render_step tau ""%string) NE NR) as [suf [E Hs]].
  unfold relpath in E. rewrite E. now apply ltb_prefix.
Qed.

(* ---------- splitting a sorted list at one of its elements *)
Lemma sorted_split {A} (key : A -> string) : forall l x, sorted key l -> In x l ->
  exists pre post, l = pre ++ x :: post /\ Forall (fun y => kle (key x) (key y) = true) post.
Proof.
  induction l as [|a l IH]; intros x S Hin; [contradiction|].
  inversion S as [|? ? Fa Sl]; subst. destruct Hin as [->|Hin].
  - exists [], l. split; [reflexivity|exact Fa].
  - destruct (IH x Sl Hin) as [pre [post [-> Fp]]]. exists (a :: pre), post. split; [reflexivity|exact Fp].
Qed.

(* ---------- decidable membership of modifications *)
Lemma scalar_eq_dec (a b : scalar) : {a = b} + {a <> b}.
Proof. decide equality; try apply Z.eq_dec; try apply string_dec; apply bool_dec. Qed.
Lemma modif_eq_dec (a b : modif) : {a = b} + {a <> b}.
Proof. decide equality; try apply scalar_eq_dec; try apply string_dec. decide equality. Qed.

(* ---------- folding a path-sorted modification list *)
Definition anc (sigma : list step) (m : modif) : Prop :=
  mt m = MDelete /\ String.ltb (mpath m) (render_steps sigma) = true.

Lemma fold_sorted_complete : forall ms k0 r0 v kvs,
  forallb step_safe (K k0 :: r0) = true -> sorted mpath ms ->
  (forall m, In m ms -> harmless (K k0 :: r0) v m \/ anc (K k0 :: r0) m) ->
  In (mkMod MAdd (render_steps (K k0 :: r0)) v SNull) ms ->
  lookup (render_steps (K k0 :: r0)) (Con (fold_left apply_single ms kvs)) = Some (Leaf v).
Proof.
  intros ms k0 r0 v kvs S0 Srt H Hin.
  destruct (sorted_split mpath ms _ Srt Hin) as [pre [post [-> Fp]]].
  rewrite fold_left_app. cbn [fold_left].
  apply fold_harmless; [exact S0| |].
  - intros m Hm. destruct (H m) as [Hh|[_ Hl]]; [apply in_or_app; right; now right|exact Hh|].
    rewrite Forall_forall in Fp. specialize (Fp m Hm). unfold kle in Fp. cbn [mpath] in Fp.
    rewrite Hl in Fp. discriminate.
  - left. rewrite apply_single_add by exact S0. apply lookup_add_value_at. now apply render_steps_nonempty.
Qed.

Lemma keys_split_last : forall tau, tau <> [] -> forallb is_key tau = true -> forallb step_safe tau = true ->
  exists p last, tau = steps_of p ++ [K last] /\ Forall (fun c => key_safe (fst c) = true) p /\ key_safe last = true.
Proof.
  intros tau NE Fk Fs. destruct (@exists_last _ tau NE) as [init [s ->]].
  rewrite forallb_app in Fk, Fs. apply andb_prop in Fk as [Fki Fks]. apply andb_prop in Fs as [Fsi Fss].
  simpl in Fks, Fss. destruct s as [last|i]; [|discriminate]. rewrite andb_true_r in Fss.
  destruct init as [|s' init'].
  - exists [], last. repeat split; auto.
  - simpl in Fki. destruct s' as [a|i]; [|discriminate].
    exists (group (K a :: init')), last. rewrite group_spec. split; [reflexivity|].
    split; [now apply group_safe|exact Fss].
Qed.

Theorem reconstruct_general kl kr p v :
  wf (Con kl) = true -> keys_safe (Con kl) = true -> wf (Con kr) = true -> keys_safe (Con kr) = true ->
  compat_g (Con kl) (Con kr) ->
  In (p, v) (flatten (Con kl)) ->
  lookup p (apply (Con kr) (diff (Con kl) (Con kr))) = Some (Leaf v).
Proof.
  intros Wl Sl Wr Sr C Hin.
  rewrite flatten_steps_render in Hin.
  apply in_map_iff in Hin as [[sigma w] [E Hs]]. simpl in E. injection E as <- <-.
  pose proof (flatten_steps_safe _ _ _ Sl Hs) as Ss.
  assert (Hs' := Hs). rewrite flatten_steps_con in Hs'. apply In_fs_kvs in Hs' as [k0 [x0 [r0 [-> _]]]].
  destruct (diff_general_class (Con kl) (Con kr) ""%string Wl Sl Wr Sr C) as [A1 A2].
  unfold apply, diff, diff_ord, diff_raw, sort_mods.
  set (raw := diff_node canonical (Con kl) (Con kr) ""%string) in *.
  pose proof (isort_perm mpath raw) as P.
  set (theAdd := mkMod MAdd (render_steps (K k0 :: r0)) w SNull).
  (* every modification is harmless for this leaf, or the Delete of a list above it — and then the leaf is re-added *)
  assert (Cls : forall m, In m (isort mpath raw) ->
            harmless (K k0 :: r0) w m \/ (anc (K k0 :: r0) m /\ In theAdd (isort mpath raw))).
  { intros m Hm. apply (Permutation_in _ P) in Hm.
    destruct (A1 m Hm) as [tau [Ep [[Ht Hf]|[[Ht Hd]|[Ht [[[xs Gx] [Fk Fs]] Hre]]]]]].
    - left. left. split; [exact Ht|].
      pose proof (flatten_steps_safe _ _ _ Sl Hf) as St.
      assert (Hf' := Hf). rewrite flatten_steps_con in Hf'. apply In_fs_kvs in Hf' as [k [x [r [-> _]]]].
      exists k, r. split; [exact Ep|]. split; [exact St|].
      destruct (step_list_eq_dec (K k :: r) (K k0 :: r0)) as [Eq|NE].
      + left. split; [exact Eq|]. rewrite Eq in Hf.
        pose proof (flatten_steps_get _ _ _ Wl Hf) as G1. pose proof (flatten_steps_get _ _ _ Wl Hs) as G2.
        congruence.
      + right. exact (flatten_steps_diverge (Con kl) (K k :: r) (mval m) (K k0 :: r0) w Wl Hf Hs NE).
    - left. right. split; [exact Ht|].
      destruct Hd as [pi [k [kl' [-> [Gp [Gn [Sk Sp]]]]]]].
      assert (Dv : diverge (pi ++ [K k]) (K k0 :: r0))
        by exact (del_pos_diverge pi (Con kl) k kl' (K k0 :: r0) w Wl Gp Gn Hs).
      destruct pi as [|s pi'].
      + exists [], k. split; [exact Ep|]. split; [constructor|]. split; [exact Sk|exact Dv].
      + destruct s as [a|i]; [|simpl in Gp; discriminate].
        exists (group (K a :: pi')), k. rewrite group_spec. split; [exact Ep|].
        split; [now apply group_safe|]. split; [exact Sk|exact Dv].
    - assert (NEt : tau <> []) by (intros ->; simpl in Gx; discriminate).
      destruct (lst_pos_vs_leaf tau (Con kl) xs (K k0 :: r0) w Wl Gx Hs) as [[rest [Eq NEr]]|D].
      + right. split.
        * split; [exact Ht|]. rewrite Ep. change (relpath ""%string tau) with (render_steps tau). rewrite Eq.
          apply render_prefix_lt; [|exact NEr].
          destruct tau as [|s tau']; [contradiction|]. destruct s as [a|i]; [|simpl in Fk; discriminate].
          now apply render_steps_nonempty.
        * eapply Permutation_in; [apply Permutation_sym; exact P|].
          rewrite Eq in Hs. specialize (Hre rest w Hs). unfold theAdd. rewrite Eq. exact Hre.
      + left. right. split; [exact Ht|].
        destruct (keys_split_last tau NEt Fk Fs) as [pp [last [Et [Fp Sl']]]].
        exists pp, last. rewrite <- Et. split; [exact Ep|]. split; [exact Fp|]. split; [exact Sl'|exact D]. }
  destruct (in_dec modif_eq_dec theAdd (isort mpath raw)) as [Hadd|Hno].
  - apply fold_sorted_complete; [exact Ss|apply isort_sorted| |exact Hadd].
    intros m Hm. destruct (Cls m Hm) as [Hh|[Ha _]]; [now left|now right].
  - apply fold_harmless; [exact Ss| |].
    + intros m Hm. destruct (Cls m Hm) as [Hh|[_ Hi]]; [exact Hh|contradiction].
    + left. destruct (A2 (K k0 :: r0) w Hs) as [G|Ha].
      * rewrite lookup_render_steps by exact Ss. exact G.
      * exfalso. apply Hno. eapply Permutation_in; [apply Permutation_sym; exact P|exact Ha].
Qed.
