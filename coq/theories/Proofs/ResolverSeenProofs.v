(* Proofs/ResolverSeenProofs.v — the visited stack matters through the cycle check ONLY: with more bodies on it an answer
   stays what it was or turns into a cycle report; it never becomes another string, and it never needs more fuel. *)
From Coq Require Import List Arith Lia Bool.
From YT Require Import Model.Resolver Proofs.ResolverProofs.
Import ListNotations.

Section R.
Variable tbl : toks -> option toks.
Notation resolve := (resolve tbl).
Notation step := (step tbl).
Notation lookup_ph := (lookup_ph tbl).

Definition sub_seen (a b : list toks) : Prop :=
  forall body, existsb (toks_eqb body) a = true -> existsb (toks_eqb body) b = true.

Lemma sub_seen_cons x a b : sub_seen a b -> sub_seen (x :: a) (x :: b).
Proof.
  intros H body. simpl. intros E. apply orb_prop in E as [E|E]; [now rewrite E|].
  rewrite (H body E). apply orb_true_r.
Qed.
Lemma sub_seen_refl a : sub_seen a a.
Proof. intros body E. exact E. Qed.

Definition same_or_cycle (r r' : res) : Prop := r' = r \/ exists b, r' = RCycle b.

Lemma seen_mono : forall f seen seen' s r,
  resolve f seen s = r -> r <> ROut -> sub_seen seen seen' -> same_or_cycle r (resolve f seen' s).
Proof.
  induction f as [|f IH]; intros seen seen' s r H Hr Sub; [simpl in H; congruence|].
  rewrite resolve_S in *. unfold step in *.
  destruct (split_pre s) as [[before after]|]; [|left; exact H].
  destruct (find_end 0 after) as [[body rest]|]; [|left; exact H].
  destruct (existsb (toks_eqb body) seen) eqn:Eseen.
  - rewrite (Sub body Eseen). left. exact H.
  - destruct (existsb (toks_eqb body) seen') eqn:Eseen'; [right; eexists; reflexivity|].
    pose proof (sub_seen_cons body _ _ Sub) as Sub'.
    destruct (resolve f (body :: seen) body) as [key| |] eqn:E1; cbn [bind] in H; [| |congruence].
    + destruct (IH _ _ _ _ E1 ltac:(discriminate) Sub') as [K|[b K]]; rewrite K; cbn [bind];
        [|right; eexists; reflexivity].
      destruct (lookup_ph key) as [pv|].
      * destruct (resolve f (body :: seen) pv) as [v| |] eqn:E2; cbn [bind] in H; [| |congruence].
        -- destruct (IH _ _ _ _ E2 ltac:(discriminate) Sub') as [K2|[b K2]]; rewrite K2; cbn [bind];
             [|right; eexists; reflexivity].
           destruct (resolve f seen rest) as [r0| |] eqn:E3; cbn [bind] in H; [| |congruence].
           ++ destruct (IH _ _ _ _ E3 ltac:(discriminate) Sub) as [K3|[b K3]]; rewrite K3; cbn [bind];
                [left; exact H|right; eexists; reflexivity].
           ++ destruct (IH _ _ _ _ E3 ltac:(discriminate) Sub) as [K3|[b K3]]; rewrite K3; cbn [bind];
                [left; exact H|right; eexists; reflexivity].
        -- destruct (IH _ _ _ _ E2 ltac:(discriminate) Sub') as [K2|[b K2]]; rewrite K2; cbn [bind];
             [left; exact H|right; eexists; reflexivity].
      * destruct (resolve f seen rest) as [r0| |] eqn:E3; cbn [bind] in H; [| |congruence].
        -- destruct (IH _ _ _ _ E3 ltac:(discriminate) Sub) as [K3|[b K3]]; rewrite K3; cbn [bind];
             [left; exact H|right; eexists; reflexivity].
        -- destruct (IH _ _ _ _ E3 ltac:(discriminate) Sub) as [K3|[b K3]]; rewrite K3; cbn [bind];
             [left; exact H|right; eexists; reflexivity].
    + destruct (IH _ _ _ _ E1 ltac:(discriminate) Sub') as [K|[b K]]; rewrite K; cbn [bind];
        [left; exact H|right; eexists; reflexivity].
Qed.

(* in particular: a string obtained at top level (empty stack) is the string obtained under ANY stack, unless a cycle
   is reported there; and termination is inherited by every larger stack, with the same fuel *)
Corollary top_answer_under_any_stack f s r seen :
  resolve f [] s = ROk r -> resolve f seen s = ROk r \/ exists b, resolve f seen s = RCycle b.
Proof.
  intros H. apply (seen_mono f [] seen s (ROk r) H); [discriminate|]. intros body E. discriminate.
Qed.

Corollary terminates_under_larger_stack f seen seen' s :
  resolve f seen s <> ROut -> sub_seen seen seen' -> resolve f seen' s <> ROut.
Proof.
  intros H Sub. destruct (seen_mono f seen seen' s _ eq_refl H Sub) as [K|[b K]]; rewrite K; [exact H|discriminate].
Qed.
End R.
