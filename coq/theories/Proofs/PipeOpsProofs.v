From Coq Require Import List String Ascii ZArith Lia Bool Arith.
From YT Require Import Base.Str Base.KV Model.Doc Model.Dom Model.Pointer Model.Path Model.Builder Model.Codec
  Model.Merge Model.Equals Model.Patch Model.Base64 Model.Analytics Model.K8s Model.Pipeline Model.PipeOps
  Proofs.BuilderProofs Proofs.CodecProofs Proofs.PatchProofs.
Import ListNotations.
Local Open Scope list_scope.

(* ---------- lenient rendering *)
Lemma has_open_none l : contains_l (la "{{"%string) l = false -> has_open l = None.
Proof.
  change (la "{{"%string) with ["{"%char; "{"%char].
  induction l as [|c r IH]; intros H; [reflexivity|].
  cbn [contains_l] in H. apply orb_false_iff in H as [H1 H2]. cbn [has_open].
  destruct r as [|d r']; [reflexivity|].
  cbn [prefix_l] in H1. rewrite andb_true_r in H1.
  rewrite (Ascii.eqb_sym c), (Ascii.eqb_sym d), H1. apply IH. exact H2.
Qed.

(* text without "{{" is returned unchanged, whatever the template engine *)
Theorem render_lenient_no_braces (data_t : Type) (render : string -> data_t -> option string) s d :
  containsb "{{"%string s = false -> render_lenient data_t render s d = s.
Proof.
  intros H. unfold render_lenient, possibly_template. unfold containsb in H. now rewrite (has_open_none _ H).
Qed.

(* text whose rendering fails is returned unchanged *)
Theorem render_lenient_failing (data_t : Type) (render : string -> data_t -> option string) s d :
  render s d = None -> render_lenient data_t render s d = s.
Proof. intros H. unfold render_lenient. destruct (possibly_template s); [now rewrite H|reflexivity]. Qed.

(* ---------- export follows its documented rule and is total *)
Theorem export_unknown_format target : export_rule FUnknown target = WErr.
Proof. reflexivity. Qed.

Theorem export_text_rule target :
  export_rule FText target =
    match target with
    | None => WText ""%string
    | Some (Leaf v) => WText (fmt_scalar v)
    | Some _ => WErrAfterOpen
    end.
Proof. reflexivity. Qed.

Theorem export_doc_rule f target : f = FYaml \/ f = FJson \/ f = FProps ->
  export_rule f target = match target with Some (Con kvs) => WDoc (Con kvs) | _ => WDoc (Con []) end.
Proof. intros [H|[H|H]]; subst f; reflexivity. Qed.

(* ---------- import *)
Theorem import_text_exact dec content : import_value dec IText content = Some (Leaf (SStr content)).
Proof. reflexivity. Qed.
Theorem import_default_is_text dec content : import_value dec IDefault content = import_value dec IText content.
Proof. reflexivity. Qed.
Theorem import_binary_b64 dec content :
  import_value dec IBinary content = Some (Leaf (SStr (Z_str (b64_enc (str_Z content))))).
Proof. reflexivity. Qed.

Theorem import_at_path dec m path content data v :
  path <> ""%string -> import_value dec m content = Some v ->
  exists d', import_op dec m path content data = (d', true) /\ lookup path (Con d') = Some v.
Proof.
  intros NE H. unfold import_op. rewrite H. destruct (String.eqb_spec path ""%string); [contradiction|].
  eexists. split; [reflexivity|]. now apply lookup_add_value_at.
Qed.

(* exporting a subtree and importing that file elsewhere yields the codec's image of the subtree *)
Theorem export_import_roundtrip (dec : import_mode -> string -> res gval) (enc : gval -> string)
        (norm : gval -> gval) m sub path data :
  (m = IYaml \/ m = IJson) -> (forall v, dec m (enc v) = ROk (norm v)) -> path <> ""%string ->
  exists d', import_op dec m path (enc (as_map (Con sub))) data = (d', true) /\
             lookup path (Con d') = Some (from_map (norm (as_map (Con sub)))).
Proof.
  intros Hm Law NE. apply import_at_path; [exact NE|].
  unfold import_value. destruct Hm as [H|H]; subst m; now rewrite Law.
Qed.

(* ---------- set: what ends up at the target, and the frame *)
Theorem set_replace_path path payload data other :
  path <> ""%string -> from_val (GMap payload) = Con other ->
  exists d', set_op SReplace path (Some payload) data = Some d' /\ lookup path (Con d') = Some (Con other).
Proof.
  intros NE F. unfold set_op. rewrite F. destruct (String.eqb_spec path ""%string); [contradiction|].
  eexists. split; [reflexivity|]. now apply lookup_add_value_at.
Qed.

Theorem set_merge_path strat path payload data other :
  strat = SMerge \/ strat = SUnset -> path <> ""%string -> from_val (GMap payload) = Con other ->
  exists d', set_op strat path (Some payload) data = Some d' /\
             lookup path (Con d') = Some (match lookup path (Con data) with
                                          | Some (Con dest) => merge false (Con dest) (Con other)
                                          | _ => Con other
                                          end).
Proof.
  intros Hs NE F. unfold set_op. rewrite F. destruct (String.eqb_spec path ""%string); [contradiction|].
  destruct Hs as [H|H]; subst strat; destruct (lookup path (Con data)) as [[| |dest]|];
    eexists; (split; [reflexivity|]); now apply lookup_add_value_at.
Qed.

Theorem set_errors strat path data :
  set_op strat path None data = None /\ forall p, set_op SUnknown path (Some p) data = None.
Proof.
  split; [reflexivity|]. intros p. unfold set_op. destruct (from_val (GMap p)); reflexivity.
Qed.

(* only the target changes: a top-level entry other than the one the path goes through is untouched *)
Theorem set_frame_path strat path payload data d' k :
  path <> ""%string -> set_op strat path (Some payload) data = Some d' ->
  match parse_path path with c :: _ => k <> fst c | [] => True end ->
  kv_get k d' = kv_get k data.
Proof.
  intros NE S Hk. unfold set_op in S. destruct (from_val (GMap payload)) as [| |other]; try discriminate.
  destruct (String.eqb_spec path ""%string); [contradiction|].
  destruct strat; try discriminate;
    try (destruct (lookup path (Con data)) as [[| |dest]|]); injection S as <-;
    unfold add_value_at; now apply add_at_frame_key.
Qed.

(* the patch operation is patch.Do on the parsed pointers *)
Theorem patch_op_spec k path from value d p :
  ptr_of_string path = Some p -> from = ""%string ->
  patch_op k path from value d =
    match k with
    | KAdd => impl_do d (PAdd p value) | KRemove => impl_do d (PRemove p)
    | KReplace => impl_do d (PReplace p value) | KMove => impl_do d (PMove None p)
    | KCopy => impl_do d (PCopy None p) | KTest => impl_do d (PTest p value) | KOther => (d, false)
    end.
Proof. intros H ->. unfold patch_op. rewrite H. simpl. destruct k; reflexivity. Qed.

(* env: nothing selected, nothing stored *)
Theorem env_none_selected incl excl path env data :
  (forall e, In e env -> incl (fst e) && negb (excl (fst e)) = false) -> env_op incl excl path env data = data.
Proof.
  unfold env_op. revert data. induction env as [|e r IH]; intros data H; [reflexivity|].
  simpl. rewrite (H e (or_introl eq_refl)). apply IH. intros e' He'. apply H. now right.
Qed.

Theorem env_selected_stored incl excl path name value data :
  incl name && negb (excl name) = true ->
  lookup (to_path path ("Env." ++ name)%string)
         (Con (env_op incl excl path [(name, value)] data)) = Some (Leaf (SStr value)).
Proof.
  intros H. unfold env_op. simpl. rewrite H. apply lookup_add_value_at.
  unfold to_path. destruct (String.eqb path ""); [discriminate|]. destruct path; discriminate.
Qed.

(* ---------- templateFile *)
(* at the root it writes exactly the rendering of the file's text against the data *)
Theorem template_file_root t file output data :
  file <> ""%string -> output <> ""%string ->
  template_file_op (Some t) file output None data = TFWritten (render t data).
Proof.
  intros Hf Ho. unfold template_file_op.
  destruct (String.eqb_spec file ""); [contradiction|]. destruct (String.eqb_spec output ""); [contradiction|]. reflexivity.
Qed.

(* with a path: the rendering against the container found there *)
Theorem template_file_at_path t file output p data kvs :
  file <> ""%string -> output <> ""%string -> lookup p (Con data) = Some (Con kvs) ->
  template_file_op (Some t) file output (Some p) data = TFWritten (render t kvs).
Proof.
  intros Hf Ho L. unfold template_file_op, template_file_scope. rewrite L.
  destruct (String.eqb_spec file ""); [contradiction|]. destruct (String.eqb_spec output ""); [contradiction|]. reflexivity.
Qed.

(* it fails exactly when a name is missing, the template cannot be read, or the path does not lead to a mapping *)
Theorem template_file_fails_iff t file output path data :
  template_file_op t file output path data = TFErr <->
  file = ""%string \/ output = ""%string \/ t = None \/ template_file_scope path data = None.
Proof.
  unfold template_file_op. destruct (String.eqb_spec file "") as [->|Nf]; [tauto|].
  destruct (String.eqb_spec output "") as [->|No]; [tauto|].
  destruct (template_file_scope path data) as [d|]; [|tauto]. destruct t as [t|]; [|tauto].
  split; [discriminate|]. intros [H|[H|[H|H]]]; try contradiction; discriminate.
Qed.
