From Coq Require Import List String Ascii ZArith Lia Bool Arith.
From YT Require Import Base.Str Base.KV Model.Doc Model.Dom Model.Path Model.Equals Model.Mem.
Import ListNotations.
Local Open Scope list_scope.

(* a read never modifies the document ... *)
Theorem reads_pure tid o m : fst (fst (rd tid o m)) = m.
Proof. reflexivity. Qed.

Lemma self_eqb m : same_alloc m m = true.
Proof. destruct m as [v|a xs|a kvs]; try reflexivity; apply Bool.eqb_reflx. Qed.

(* ... emits no write ... *)
Theorem reads_emit_no_write tid o m : forallb (fun e => negb (is_write e)) (snd (rd tid o m)) = true.
Proof. unfold rd, touch. simpl. now rewrite self_eqb. Qed.

(* ... and returns what the content determines *)
Theorem reads_agree_with_model tid o m : snd (fst (rd tid o m)) = read_spec o (erase m).
Proof. reflexivity. Qed.

(* for every schedule — any length, any number of threads, any interleaving — the document is
   unchanged, every observation equals the single-threaded one, and the trace has no write:
   no two events conflict *)
Theorem interleaving_invariant : forall sched m,
  let '(m', obs, evs) := run sched m in
  m' = m /\
  Forall2 (fun so ob => fst ob = fst so /\ snd ob = read_spec (snd so) (erase m)) sched obs /\
  forallb (fun e => negb (is_write e)) evs = true.
Proof.
  induction sched as [|[tid o] r IH]; intros m; simpl.
  - repeat split; constructor.
  - specialize (IH m). unfold rd, touch. simpl. rewrite self_eqb.
    destruct (run r m) as [[m2 obs] evs]. destruct IH as [E [F W]]. simpl.
    split; [exact E|]. split; [|exact W]. constructor; [split; reflexivity|exact F].
Qed.

(* the pinned tree refutes all three on a container whose map is nil (e.g. decoded from {}) *)
Example pinned_tree_refuted :
  touch_pinned (RChild "x") (MCon false []) <> MCon false [] /\ touch (RChild "x") (MCon false []) = MCon false [].
Proof. split; [discriminate|reflexivity]. Qed.
