(* Proofs/ResolverBalancedProofs.v — termination for ANY table and ANY input in which every placeholder is closed
   ("balanced" texts): nested placeholders, defaults (whose text is resolved AGAIN), recursive and cyclic tables, all at
   once.  The point that made this case hard is that a default is a piece of RESOLVED text, so the bodies met while it is
   resolved again are not obviously pieces of the original texts.  They are: in balanced texts the only prefixes that
   survive a resolution are those of placeholders left as they were written (unknown key, no default), copied verbatim
   from the original text, and cutting resolved text at a separator leaves at worst some closing delimiters in front.
   [safe] captures this shape and is preserved by resolution and by taking a default; every body met is then in the finite
   set U of bodies of the original texts, a body is pushed on the visited stack before anything is expanded for it, and a
   body already there is the reported cycle. *)
From Coq Require Import List Arith Lia Bool.
From YT Require Import Model.Resolver Proofs.ResolverProofs Proofs.ResolverTermProofs.
Import ListNotations.

Section B.
Variable tbl : toks -> option toks.
Variable U : list toks.        (* the placeholder bodies of the input and of the values, nested ones included *)
Notation resolve := (resolve tbl).

(* balanced: every prefix has its suffix, no suffix stands alone; every body is in U *)
Inductive bal : toks -> Prop :=
| bal_nil : bal []
| bal_tok t s : t <> TPre -> t <> TSuf -> bal s -> bal (t :: s)
| bal_ph body rest : In body U -> bal body -> bal rest -> bal (TPre :: body ++ TSuf :: rest).

(* the shape of resolved text and of its suffixes: as above, but suffixes may stand alone *)
Inductive safe : toks -> Prop :=
| safe_nil : safe []
| safe_tok t s : t <> TPre -> safe s -> safe (t :: s)
| safe_ph body rest : In body U -> bal body -> safe rest -> safe (TPre :: body ++ TSuf :: rest).

Lemma bal_safe s : bal s -> safe s.
Proof. induction 1; [constructor|now constructor|now constructor]. Qed.

Lemma safe_app a b : safe a -> safe b -> safe (a ++ b).
Proof.
  induction 1 as [|t s Ht Hs IH|body rest Hin Hb Hr IH]; intros Sb; simpl; [exact Sb|apply safe_tok; auto|].
  rewrite <- app_assoc. simpl. apply safe_ph; auto.
Qed.

(* the scanner's matching agrees with the grammar *)
Lemma find_end_bal body : bal body -> forall n x,
  find_end n (body ++ x) = match find_end n x with Some (b, a) => Some (body ++ b, a) | None => None end.
Proof.
  induction 1 as [|t s Ht1 Ht2 Hs IH|bd rest Hin Hb IHb Hr IHr]; intros n x; simpl.
  - destruct (find_end n x) as [[b a]|]; reflexivity.
  - destruct t; try congruence; rewrite IH; destruct (find_end n x) as [[b a]|]; reflexivity.
  - rewrite <- app_assoc. rewrite IHb. simpl. rewrite IHr.
    destruct (find_end n x) as [[b a]|]; [|reflexivity]. rewrite <- app_assoc. reflexivity.
Qed.

Lemma split_pre_before_safe : forall s b a, split_pre s = Some (b, a) -> safe b.
Proof.
  induction s as [|t r IH]; intros b a H; [discriminate|].
  destruct t; simpl in H; try (destruct (split_pre r) as [[b' a']|] eqn:E; [|discriminate];
    injection H as <- <-; apply safe_tok; [discriminate|eapply IH; reflexivity]).
  injection H as <- <-. apply safe_nil.
Qed.

(* what the scan of a safe text finds: a body of U, closed, followed by safe text *)
Lemma scan_safe s : safe s -> forall before after, split_pre s = Some (before, after) ->
  exists body rest, find_end 0 after = Some (body, rest) /\ In body U /\ bal body /\ safe rest.
Proof.
  induction 1 as [|t s Ht Hs IH|body rest Hin Hb Hr IH]; intros before after H.
  - discriminate.
  - destruct t; try congruence; simpl in H; (destruct (split_pre s) as [[b' a']|] eqn:E; [|discriminate]);
      injection H as <- <-; eapply IH; reflexivity.
  - simpl in H. injection H as <- <-. exists body, rest. split; [|auto].
    rewrite (find_end_bal body Hb 0 (TSuf :: rest)). simpl. now rewrite app_nil_r.
Qed.

Lemma split_sep_app x y :
  split_sep (x ++ y) = match split_sep x with
                       | Some (k, d) => Some (k, d ++ y)
                       | None => match split_sep y with Some (k, d) => Some (x ++ k, d) | None => None end
                       end.
Proof.
  induction x as [|t r IH]; simpl; [destruct (split_sep y) as [[k d]|]; reflexivity|].
  destruct t; try reflexivity; rewrite IH; destruct (split_sep r) as [[k d]|]; try reflexivity;
    destruct (split_sep y) as [[k d]|]; reflexivity.
Qed.

(* a default — what follows the first separator of a safe text — is safe *)
Lemma split_sep_safe : forall n s, length s <= n -> safe s -> forall k d, split_sep s = Some (k, d) -> safe d.
Proof.
  induction n as [|n IH]; intros s Ls Hs k d H.
  - destruct s; [discriminate|simpl in Ls; lia].
  - inversion Hs as [|t s' Ht Hs' E|body rest Hin Hb Hr E]; subst.
    + discriminate.
    + simpl in Ls. destruct t; try congruence; simpl in H.
      * destruct (split_sep s') as [[k' d']|] eqn:E; [|discriminate]. injection H as <- <-.
        eapply (IH s'); [lia|exact Hs'|exact E].
      * injection H as <- <-. exact Hs'.
      * destruct (split_sep s') as [[k' d']|] eqn:E; [|discriminate]. injection H as <- <-.
        eapply (IH s'); [lia|exact Hs'|exact E].
    + simpl in Ls. rewrite app_length in Ls. simpl in Ls. simpl in H.
      rewrite split_sep_app in H.
      destruct (split_sep body) as [[k1 d1]|] eqn:E1.
      * injection H as <- <-. apply safe_app.
        -- eapply (IH body); [lia|now apply bal_safe|exact E1].
        -- apply safe_tok; [discriminate|exact Hr].
      * simpl in H. destruct (split_sep rest) as [[k2 d2]|] eqn:E2; [|discriminate].
        injection H as <- <-. eapply (IH rest); [lia|exact Hr|exact E2].
Qed.

Definition safe_tbl : Prop := forall k v, tbl k = Some v -> safe v.

(* resolution preserves the shape *)
Lemma resolve_safe : safe_tbl -> forall f seen s r, resolve f seen s = ROk r -> safe s -> safe r.
Proof.
  intros Tb. induction f as [|f IH]; intros seen s r H Hs; [discriminate|].
  rewrite resolve_S in H. unfold Resolver.step in H.
  destruct (split_pre s) as [[before after]|] eqn:SP; [|injection H as <-; exact Hs].
  destruct (scan_safe s Hs before after SP) as [body [rest [FE [Hin [Hb Hr]]]]]. rewrite FE in H.
  destruct (existsb (toks_eqb body) seen); [discriminate|].
  pose proof (split_pre_before_safe _ _ _ SP) as Sbefore.
  destruct (resolve f (body :: seen) body) as [key| |] eqn:Ek; cbn [bind] in H; try discriminate.
  pose proof (IH _ _ _ Ek (bal_safe _ Hb)) as Skey.
  destruct (Resolver.lookup_ph tbl key) as [pv|] eqn:LP.
  - assert (Spv : safe pv).
    { unfold Resolver.lookup_ph in LP. destruct (tbl key) as [v0|] eqn:T; [injection LP as <-; eapply Tb; eauto|].
      destruct (split_sep key) as [[k d]|] eqn:SS; [|discriminate].
      destruct (tbl k) as [v1|] eqn:Tk; injection LP as <-; [eapply Tb; eauto|].
      eapply split_sep_safe; [apply le_n|exact Skey|exact SS]. }
    destruct (resolve f (body :: seen) pv) as [v| |] eqn:Ev; cbn [bind] in H; try discriminate.
    destruct (resolve f seen rest) as [r0| |] eqn:Er; cbn [bind] in H; try discriminate.
    injection H as <-. apply safe_app; [exact Sbefore|]. apply safe_app; [eapply IH; eauto|eapply IH; eauto].
  - destruct (resolve f seen rest) as [r0| |] eqn:Er; cbn [bind] in H; try discriminate.
    injection H as <-. apply safe_app; [exact Sbefore|]. apply safe_ph; [exact Hin|exact Hb|eapply IH; eauto].
Qed.

(* ---------- termination *)
Lemma lift f g seen s : f <= g -> resolve f seen s <> ROut -> resolve g seen s = resolve f seen s.
Proof. intros Le H. now apply (resolve_mono_le tbl f g seen s _ Le eq_refl). Qed.

Theorem balanced_terminates : safe_tbl -> forall u seen, unvisited U seen <= u ->
  forall n s, length s <= n -> safe s -> exists f, resolve f seen s <> ROut.
Proof.
  intros Tb. induction u as [|u IHu]; intros seen Hu; induction n as [|n IHn]; intros s Ls Hs.
  1, 3: (destruct s; [|simpl in Ls; lia]; exists 1; discriminate).
  all: destruct (split_pre s) as [[before after]|] eqn:SP;
    [|exists 1; rewrite resolve_S; unfold Resolver.step; rewrite SP; discriminate].
  all: destruct (scan_safe s Hs before after SP) as [body [rest [FE [Hin [Hb Hr]]]]].
  all: destruct (existsb (toks_eqb body) seen) eqn:NS;
    [exists 1; rewrite resolve_S; unfold Resolver.step; rewrite SP, FE, NS; discriminate|].
  all: pose proof (unvisited_push U body seen Hin NS) as Lt.
  - lia.
  - assert (Hu' : unvisited U (body :: seen) <= u) by lia.
    pose proof (split_pre_length _ _ _ SP) as L1. pose proof (find_end_length _ _ _ _ FE) as L2.
    assert (Lrest : length rest <= n) by lia.
    destruct (IHn rest Lrest Hr) as [fr Fr].
    destruct (IHu (body :: seen) Hu' (length body) body (le_n _) (bal_safe _ Hb)) as [fb Fb].
    destruct (resolve fb (body :: seen) body) as [key| |] eqn:Ek; [| |congruence].
    + pose proof (resolve_safe Tb _ _ _ _ Ek (bal_safe _ Hb)) as Skey.
      destruct (Resolver.lookup_ph tbl key) as [pv|] eqn:LP.
      * assert (Spv : safe pv).
        { unfold Resolver.lookup_ph in LP. destruct (tbl key) as [v0|] eqn:T; [injection LP as <-; eapply Tb; eauto|].
          destruct (split_sep key) as [[k d]|] eqn:SS; [|discriminate].
          destruct (tbl k) as [v1|] eqn:Tk; injection LP as <-; [eapply Tb; eauto|].
          eapply split_sep_safe; [apply le_n|exact Skey|exact SS]. }
        destruct (IHu (body :: seen) Hu' (length pv) pv (le_n _) Spv) as [fv Fv].
        exists (S (Nat.max fb (Nat.max fv fr))). rewrite resolve_S. unfold Resolver.step. rewrite SP, FE, NS.
        rewrite (lift fb _ (body :: seen) body) by (try lia; rewrite Ek; discriminate). rewrite Ek. cbn [bind]. rewrite LP.
        rewrite (lift fv _ (body :: seen) pv) by (try lia; exact Fv).
        destruct (resolve fv (body :: seen) pv) as [v| |] eqn:Ev; cbn [bind]; [|discriminate|congruence].
        rewrite (lift fr _ seen rest) by (try lia; exact Fr).
        destruct (resolve fr seen rest) as [r0| |] eqn:Er; cbn [bind]; [discriminate|discriminate|congruence].
      * exists (S (Nat.max fb fr)). rewrite resolve_S. unfold Resolver.step. rewrite SP, FE, NS.
        rewrite (lift fb _ (body :: seen) body) by (try lia; rewrite Ek; discriminate). rewrite Ek. cbn [bind]. rewrite LP.
        rewrite (lift fr _ seen rest) by (try lia; exact Fr).
        destruct (resolve fr seen rest) as [r0| |] eqn:Er; cbn [bind]; [discriminate|discriminate|congruence].
    + exists (S fb). rewrite resolve_S. unfold Resolver.step. rewrite SP, FE, NS, Ek. cbn [bind]. discriminate.
Qed.

Corollary balanced_terminates_top : safe_tbl -> forall s, safe s -> exists f, resolve_top tbl f s <> ROut.
Proof.
  intros Tb s Hs. unfold resolve_top. eapply (balanced_terminates Tb (unvisited U []) [] (le_n _) (length s) s (le_n _) Hs).
Qed.
End B.
