(* Proofs/ResolverNestedProofs.v — termination for ANY table (values may mention placeholders, cyclically or not) and
   placeholders NESTED to any depth (keys computed by placeholders, in the input and in the values), for text without
   the default separator: resolution ends with a string or a cycle report, never out of fuel, with an explicit bound.
   Every body that can be met is a piece of the input or of a value (resolved text is only ever used as a KEY, and
   without a separator a key is looked up as it is), so the bodies form a finite set U; a body is pushed on the visited
   stack before anything is expanded for it, and a body already there is the reported cycle.
   Measure: (bodies of U not yet visited, length of the text). *)
From Coq Require Import List Arith Lia Bool.
From YT Require Import Model.Resolver Proofs.ResolverProofs Proofs.ResolverTermProofs.
Import ListNotations.

Section N.
Variable tbl : toks -> option toks.
Variable U : list toks.        (* every placeholder body of the input and of the values, the nested ones included *)
Variable L : nat.              (* bound on the length of the input and of every value *)
Notation resolve := (resolve tbl).

(* every body the scan of s can meet — at top level, inside a body, after a placeholder — is in U *)
Inductive nscan : toks -> Prop :=
| ns_none s : split_pre s = None -> nscan s
| ns_unterm s b a : split_pre s = Some (b, a) -> find_end 0 a = None -> nscan s
| ns_ph s before after body rest :
    split_pre s = Some (before, after) -> find_end 0 after = Some (body, rest) ->
    In body U -> nscan body -> nscan rest -> nscan s.

Definition nested_tbl : Prop := forall k v, tbl k = Some v -> nscan v /\ length v <= L /\ nosep v = true.

Lemma nosep_app a b : nosep (a ++ b) = nosep a && nosep b.
Proof. unfold nosep. apply forallb_app. Qed.

Theorem nested_terminates : nested_tbl -> forall n seen s,
  nscan s -> nosep s = true -> length s <= L -> unvisited U seen * S L + length s < n ->
  resolve n seen s <> ROut /\ (forall r, resolve n seen s = ROk r -> nosep r = true).
Proof.
  intros Tb. induction n as [n IH] using lt_wf_ind. intros seen s Sc Ns Ls Hn.
  destruct n as [|n]; [lia|]. rewrite resolve_S. unfold Resolver.step.
  destruct (split_pre s) as [[before after]|] eqn:SP; [|split; [discriminate|intros r E; now injection E as <-]].
  destruct (find_end 0 after) as [[body rest]|] eqn:FE; [|split; [discriminate|intros r E; now injection E as <-]].
  pose proof (split_pre_length _ _ _ SP) as L1. pose proof (find_end_length _ _ _ _ FE) as L2.
  destruct (split_pre_nosep _ _ _ SP Ns) as [Nb Na]. destruct (find_end_nosep _ _ _ _ FE Na) as [Nbody Nrest].
  inversion Sc as [s0 E|s0 b a E1 E2|s0 before0 after0 body0 rest0 E1 E2 InU Sb Sr]; subst; try congruence.
  rewrite SP in E1. injection E1 as <- <-. rewrite FE in E2. injection E2 as <- <-.
  destruct (existsb (toks_eqb body) seen) eqn:NS; [split; [discriminate|intros r E; discriminate]|].
  pose proof (unvisited_push U body seen InU NS) as Lt.
  assert (Drop : unvisited U (body :: seen) * S L + S L <= unvisited U seen * S L) by nia.
  (* the three recursive calls, all with fuel n *)
  assert (Hbody : resolve n (body :: seen) body <> ROut /\ (forall r, resolve n (body :: seen) body = ROk r -> nosep r = true))
    by (apply IH; [lia|exact Sb|exact Nbody|lia|lia]).
  assert (Hrest : resolve n seen rest <> ROut /\ (forall r, resolve n seen rest = ROk r -> nosep r = true))
    by (apply IH; [lia|exact Sr|exact Nrest|lia|lia]).
  assert (Hval : forall pv, nscan pv -> length pv <= L -> nosep pv = true ->
            resolve n (body :: seen) pv <> ROut /\ (forall r, resolve n (body :: seen) pv = ROk r -> nosep r = true))
    by (intros pv Sp Lp Np; apply IH; [lia|exact Sp|exact Np|exact Lp|lia]).
  destruct Hbody as [Hb1 Hb2]. destruct Hrest as [Hr1 Hr2].
  destruct (resolve n (body :: seen) body) as [key| |] eqn:Ek; cbn [bind]; [| split; [discriminate|intros r E; discriminate] | congruence].
  pose proof (Hb2 key eq_refl) as Nk.
  unfold Resolver.lookup_ph. rewrite (split_sep_nosep _ Nk).
  destruct (tbl key) as [pv|] eqn:T.
  - destruct (Tb _ _ T) as [Sp [Lp Np]]. destruct (Hval pv Sp Lp Np) as [Hv1 Hv2].
    destruct (resolve n (body :: seen) pv) as [v| |] eqn:Ev; cbn [bind]; [| split; [discriminate|intros r E; discriminate] | congruence].
    pose proof (Hv2 v eq_refl) as Nv.
    destruct (resolve n seen rest) as [r0| |] eqn:Er; cbn [bind]; [| split; [discriminate|intros r E; discriminate] | congruence].
    split; [discriminate|]. intros r E. injection E as <-. rewrite !nosep_app, Nb, Nv, (Hr2 r0 eq_refl). reflexivity.
  - destruct (resolve n seen rest) as [r0| |] eqn:Er; cbn [bind]; [| split; [discriminate|intros r E; discriminate] | congruence].
    split; [discriminate|]. intros r E. injection E as <-.
    rewrite nosep_app, Nb. cbn [andb]. change (TPre :: body ++ TSuf :: r0) with ([TPre] ++ body ++ [TSuf] ++ r0).
    rewrite !nosep_app, Nbody, (Hr2 r0 eq_refl). reflexivity.
Qed.

Corollary nested_terminates_top : nested_tbl -> forall s, nscan s -> nosep s = true -> length s <= L ->
  resolve_top tbl (S (length U * S L + length s)) s <> ROut.
Proof.
  intros Tb s Sc Ns Ls. apply nested_terminates; auto.
  assert (unvisited U [] <= length U).
  { unfold unvisited. generalize (fun u : toks => negb (existsb (toks_eqb u) [])) as g. intros g.
    induction U as [|x r IHr]; [simpl; lia|]. simpl. destruct (g x); simpl; lia. }
  assert (unvisited U [] * S L <= length U * S L) by nia. lia.
Qed.
End N.
