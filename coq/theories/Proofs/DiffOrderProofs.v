(* Proofs/DiffOrderProofs.v — the result of Diff does not depend on the order in which Go ranges
   over the maps it walks.  An iteration order is any function that permutes the per-key emission
   blocks; with path-safe keys the blocks of two different keys never share a path, hence the
   per-path subsequences, and therefore the stably sorted result, are the same for every order. *)
From Coq Require Import List String Ascii ZArith Lia Bool Arith Permutation.
From YT Require Import Base.Str Base.KV Base.Sort Model.Doc Model.Dom Model.Equals Model.Diff
  Proofs.EqualsProofs Proofs.StrProofs Proofs.BuilderProofs Proofs.PathProofs Proofs.DiffProofs.
Import ListNotations.
Local Open Scope list_scope.

Definition perm_order (o : order) : Prop := forall ph path bs, Permutation bs (o ph path bs).

Lemma canonical_perm : perm_order canonical.
Proof. intros ph path bs. apply Permutation_refl. Qed.

(* ---------- "q lies at or below position pre" *)
Definition sepc (c : ascii) : bool := Ascii.eqb c DOT || Ascii.eqb c LBR.
Definition tail_ok (r : list ascii) : Prop := r = [] \/ exists c t, r = c :: t /\ sepc c = true.
Definition under (pre q : string) : Prop :=
  pre = ""%string \/ exists r, la q = la pre ++ r /\ tail_ok r.

Lemma under_refl p : under p p.
Proof. right. exists []. split; [now rewrite app_nil_r|now left]. Qed.

Lemma tail_ok_app r1 r2 : tail_ok r1 -> tail_ok r2 -> tail_ok (r1 ++ r2).
Proof.
  intros [->|[c [t [-> Hc]]]] H2; [exact H2|].
  right. exists c, (t ++ r2). split; [reflexivity|exact Hc].
Qed.

Lemma under_trans a b c : under a b -> under b c -> under a c.
Proof.
  intros [->|[r1 [E1 T1]]] H2; [now left|].
  destruct H2 as [->|[r2 [E2 T2]]].
  - simpl in E1. destruct (la a) eqn:Ea; [|discriminate]. left. apply la_inj. now rewrite Ea.
  - right. exists (r1 ++ r2). split; [|now apply tail_ok_app].
    now rewrite E2, E1, app_assoc.
Qed.

Lemma under_to_path path k : under path (to_path path k).
Proof.
  unfold to_path. destruct (String.eqb_spec path ""%string) as [->|NE]; [now left|].
  right. exists (DOT :: la k). split.
  - now rewrite la_app.
  - right. exists DOT, (la k). split; reflexivity.
Qed.

Lemma under_idx_path path i : under path (idx_path path i).
Proof.
  right. exists (LBR :: la (nat2s i) ++ [RBR]). split.
  - apply la_idx_path.
  - right. eexists _, _. split; reflexivity.
Qed.

(* two different safe keys below one parent have disjoint sub-spaces *)
Lemma split_unique : forall l1 l2 r1 r2,
  forallb (fun c => negb (sepc c)) l1 = true -> forallb (fun c => negb (sepc c)) l2 = true ->
  tail_ok r1 -> tail_ok r2 -> l1 ++ r1 = l2 ++ r2 -> l1 = l2.
Proof.
  induction l1 as [|c l1 IH]; intros [|d l2] r1 r2 F1 F2 T1 T2 E; simpl in *.
  - reflexivity.
  - exfalso. apply andb_prop in F2 as [Fd _].
    destruct T1 as [->|[c' [t [-> Hc]]]]; [discriminate|]. injection E as -> _. now rewrite Hc in Fd.
  - exfalso. apply andb_prop in F1 as [Fc _].
    destruct T2 as [->|[c' [t [-> Hc]]]]; [discriminate|]. injection E as <- _. now rewrite Hc in Fc.
  - apply andb_prop in F1 as [_ F1]. apply andb_prop in F2 as [_ F2].
    injection E as -> E. f_equal. apply (IH l2 r1 r2 F1 F2 T1 T2 E).
Qed.

Lemma safe_nosep k : key_safe k = true -> forallb (fun c => negb (sepc c)) (la k) = true.
Proof.
  intros H. apply key_safe_chars in H as [_ H]. rewrite forallb_forall in *. intros c Hc.
  destruct (safe_char_props c (H c Hc)) as [D [L _]]. unfold sepc. now rewrite D, L.
Qed.

Lemma to_path_la path : exists pfx, forall k', la (to_path path k') = pfx ++ la k'.
Proof.
  unfold to_path. destruct (String.eqb path ""%string).
  - exists []. reflexivity.
  - exists (la path ++ [DOT]). intros k'. rewrite la_app. change ("." ++ k')%string with (String DOT k').
    rewrite la_string, <- app_assoc. reflexivity.
Qed.

Lemma to_path_nonempty path k : key_safe k = true -> to_path path k <> ""%string.
Proof.
  intros S E. destruct (to_path_la path) as [pfx H]. specialize (H k). rewrite E in H. simpl in H.
  apply key_safe_chars in S as [NE _]. destruct pfx; [|discriminate]. simpl in H.
  apply NE. apply la_inj. now rewrite <- H.
Qed.

Lemma under_disjoint path k1 k2 q :
  key_safe k1 = true -> key_safe k2 = true ->
  under (to_path path k1) q -> under (to_path path k2) q -> k1 = k2.
Proof.
  intros S1 S2 [E1|[r1 [E1 T1]]]; [now apply to_path_nonempty in E1|].
  intros [E2|[r2 [E2 T2]]]; [now apply to_path_nonempty in E2|].
  destruct (to_path_la path) as [pfx H]. rewrite (H k1) in E1. rewrite (H k2) in E2.
  rewrite E1 in E2. rewrite <- !app_assoc in E2. apply app_inv_head in E2.
  apply la_inj. apply (split_unique (la k1) (la k2) r1 r2); auto using safe_nosep.
Qed.

(* ---------- per-path filters over blocks *)
Notation fkp := (fk mpath).

Lemma fk_app p (a b : list modif) : fkp p (a ++ b) = fkp p a ++ fkp p b.
Proof. unfold fk. apply filter_app. Qed.

Lemma fk_nil_of_not_in p (l : list modif) : (forall m, In m l -> mpath m <> p) -> fkp p l = [].
Proof.
  induction l as [|m r IH]; intros H; [reflexivity|]. simpl.
  destruct (String.eqb_spec (mpath m) p) as [E|NE]; [exfalso; apply (H m); [now left|exact E]|].
  apply IH. intros m' Hm. apply H. now right.
Qed.

Definition all_under (pre : string) (l : list modif) : Prop := forall m, In m l -> under pre (mpath m).

Definition blocks_ok (path : string) (bs : list (string * list modif)) : Prop :=
  NoDup (map fst bs) /\
  forall b, In b bs -> key_safe (fst b) = true /\ all_under (to_path path (fst b)) (snd b).

Lemma blocks_ok_disjoint path bs b1 b2 p :
  blocks_ok path bs -> In b1 bs -> In b2 bs -> fst b1 <> fst b2 ->
  fkp p (snd b1) = [] \/ fkp p (snd b2) = [].
Proof.
  intros [_ H] I1 I2 NE.
  destruct (H b1 I1) as [S1 U1]. destruct (H b2 I2) as [S2 U2].
  destruct (fkp p (snd b1)) as [|m t] eqn:E1; [now left|]. right.
  apply fk_nil_of_not_in. intros m2 Hm2 E2.
  assert (Hm : In m (fkp p (snd b1))) by (rewrite E1; now left).
  unfold fk in Hm. apply filter_In in Hm as [Hm Hp]. apply String.eqb_eq in Hp.
  apply NE. eapply (under_disjoint path _ _ p); eauto.
  - rewrite <- Hp. now apply U1.
  - rewrite <- E2. now apply U2.
Qed.

Lemma fk_concat_perm p (bs bs' : list (string * list modif)) :
  Permutation bs bs' ->
  NoDup (map fst bs) ->
  (forall b1 b2, In b1 bs -> In b2 bs -> fst b1 <> fst b2 ->
                 fkp p (snd b1) = [] \/ fkp p (snd b2) = []) ->
  fkp p (List.concat (map snd bs)) = fkp p (List.concat (map snd bs')).
Proof.
  induction 1 as [|x l l' HP IH|x y l|l l' l'' HP1 IH1 HP2 IH2]; intros ND D.
  - reflexivity.
  - simpl. rewrite !fk_app. f_equal. apply IH.
    + now inversion ND.
    + intros b1 b2 I1 I2 NE. apply D; [now right|now right|exact NE].
  - simpl. rewrite !fk_app.
    simpl in ND. inversion ND as [|? ? N1 ND']; subst.
    assert (NE : fst x <> fst y) by (intros E; apply N1; left; now symmetry).
    destruct (D x y) as [E|E]; [right; now left|now left|exact NE| |]; rewrite E; simpl;
      rewrite ?app_nil_r; reflexivity.
  - rewrite IH1 by assumption. apply IH2.
    + eapply Permutation_NoDup; [|exact ND]. now apply Permutation_map.
    + intros b1 b2 I1 I2 NE. apply D; [| |exact NE]; (eapply Permutation_in; [apply Permutation_sym; exact HP1|assumption]).
Qed.

Lemma fk_concat_ext p (bs bs' : list (string * list modif)) :
  Forall2 (fun b b' => fkp p (snd b) = fkp p (snd b')) bs bs' ->
  fkp p (List.concat (map snd bs)) = fkp p (List.concat (map snd bs')).
Proof. induction 1 as [|b b' l l' H _ IH]; simpl; [reflexivity|]. now rewrite !fk_app, H, IH. Qed.

Lemma blocks_fk o ph path bs p :
  perm_order o -> blocks_ok path bs ->
  fkp p (blocks o ph path bs) = fkp p (List.concat (map snd bs)).
Proof.
  intros PO OK. unfold blocks. symmetry. apply fk_concat_perm.
  - apply PO.
  - apply OK.
  - intros b1 b2. now apply blocks_ok_disjoint with (path := path) (bs := bs).
Qed.

Lemma blocks_in o ph path bs m :
  perm_order o -> In m (blocks o ph path bs) -> exists b, In b bs /\ In m (snd b).
Proof.
  intros PO H. unfold blocks in H. apply in_concat in H as [l [Hl Hm]].
  apply in_map_iff in Hl as [b [<- Hb]]. exists b. split; [|exact Hm].
  eapply Permutation_in; [apply Permutation_sym, PO|exact Hb].
Qed.

(* ---------- adds *)
Definition adds_go (o : order) (path : string) :=
  fix go (l : list node) (i : nat) : list modif :=
    match l with
    | [] => []
    | x :: r => adds o x (idx_path path i) ++ go r (S i)
    end.
Definition adds_blocks (o : order) (path : string) (kvs : list (string * node)) :=
  map (fun kv => (fst kv, adds o (snd kv) (to_path path (fst kv)))) kvs.

Lemma adds_lst o xs path : adds o (Lst xs) path = adds_go o path xs 0.
Proof. reflexivity. Qed.
Lemma adds_con o kvs path : adds o (Con kvs) path = blocks o 0 path (adds_blocks o path kvs).
Proof.
  simpl. f_equal. induction kvs as [|[k x] r IH]; [reflexivity|]. simpl. now rewrite IH.
Qed.

Lemma adds_blocks_fst o path kvs : map fst (adds_blocks o path kvs) = kv_keys kvs.
Proof. unfold adds_blocks, kv_keys. rewrite map_map. reflexivity. Qed.

Lemma adds_under o : perm_order o -> forall n path, keys_safe n = true -> all_under path (adds o n path).
Proof.
  intros PO. induction n as [v|xs IH|kvs IH] using node_ind'; intros path S m Hm.
  - simpl in Hm. destruct Hm as [<-|[]]. apply under_refl.
  - rewrite adds_lst in Hm. unfold keys_safe in S. simpl in S.
    revert Hm. generalize 0. induction IH as [|x r Hx _ IHr]; intros i Hm; [contradiction|].
    simpl in S. apply andb_prop in S as [Sx Sr]. simpl in Hm. apply in_app_or in Hm as [Hm|Hm].
    + eapply under_trans; [apply under_idx_path|]. apply (Hx (idx_path path i) Sx m Hm).
    + apply (IHr Sr (S i) Hm).
  - rewrite adds_con in Hm. apply blocks_in in Hm as [b [Hb Hm]]; [|exact PO].
    unfold adds_blocks in Hb. apply in_map_iff in Hb as [[k x] [<- Hin]]. simpl in Hm.
    unfold keys_safe in S. simpl in S. rewrite forallb_forall in S. specialize (S _ Hin). simpl in S.
    apply andb_prop in S as [_ Sx]. rewrite Forall_forall in IH.
    eapply under_trans; [apply under_to_path|]. apply (IH _ Hin (to_path path k) Sx m Hm).
Qed.

Lemma adds_blocks_ok o path kvs :
  perm_order o -> sorted_keys kvs = true -> keys_safe (Con kvs) = true ->
  blocks_ok path (adds_blocks o path kvs).
Proof.
  intros PO SK S. split.
  - rewrite adds_blocks_fst. now apply sorted_nodup.
  - intros b Hb. unfold adds_blocks in Hb. apply in_map_iff in Hb as [[k x] [<- Hin]]. simpl.
    unfold keys_safe in S. simpl in S. rewrite forallb_forall in S. specialize (S _ Hin). simpl in S.
    apply andb_prop in S as [Sk Sx]. split; [exact Sk|]. now apply adds_under.
Qed.

Theorem adds_order_independent o : perm_order o -> forall n path p,
  wf n = true -> keys_safe n = true -> fkp p (adds o n path) = fkp p (adds canonical n path).
Proof.
  intros PO. induction n as [v|xs IH|kvs IH] using node_ind'; intros path p W S.
  - reflexivity.
  - rewrite !adds_lst. unfold keys_safe in S. simpl in S, W.
    generalize 0. induction IH as [|x r Hx _ IHr]; intros i; [reflexivity|].
    simpl in S, W. apply andb_prop in S as [Sx Sr]. apply andb_prop in W as [Wx Wr].
    simpl. rewrite !fk_app. f_equal; [now apply Hx|now apply IHr].
  - rewrite !adds_con. simpl in W. apply andb_prop in W as [SK W].
    rewrite !blocks_fk; try (apply adds_blocks_ok; auto using canonical_perm); auto using canonical_perm.
    apply fk_concat_ext. unfold adds_blocks.
    unfold keys_safe in S. simpl in S. rewrite forallb_forall in S, W.
    clear SK. induction IH as [|[k x] r Hx _ IHr]; [constructor|].
    simpl. constructor.
    + simpl. apply Hx.
      * apply (W (k, x)). now left.
      * specialize (S (k, x) (or_introl eq_refl)). simpl in S. now apply andb_prop in S as [_ S2].
    + apply IHr; intros y Hy; [apply W|apply S]; now right.
Qed.

(* ---------- diff_node *)
Lemma diff_under o : perm_order o -> forall l r path,
  keys_safe l = true -> keys_safe r = true -> all_under path (diff_node o l r path).
Proof.
  intros PO. induction l as [v|xs IH|kvs IH] using node_ind'; intros r path Sl Sr m Hm.
  - destruct r as [w|ys|kr]; simpl in Hm.
    + destruct (scalar_eqb v w); [contradiction|]. destruct Hm as [<-|[]]. apply under_refl.
    + destruct Hm as [<-|Hm]; [apply under_refl|]. now apply (adds_under o PO (Lst ys) path Sr).
    + destruct Hm as [<-|Hm]; [apply under_refl|]. now apply (adds_under o PO (Con kr) path Sr).
  - destruct r as [w|ys|kr].
    + simpl in Hm. destruct Hm as [<-|Hm]; [apply under_refl|].
      now apply (adds_under o PO (Leaf w) path Sr).
    + change (diff_node o (Lst xs) (Lst ys) path) with
        (if equals (Lst xs) (Lst ys) then [] else mkMod MDelete path SNull SNull :: adds o (Lst xs) path) in Hm.
      destruct (equals (Lst xs) (Lst ys)); [contradiction|].
      destruct Hm as [<-|Hm]; [apply under_refl|]. now apply (adds_under o PO (Lst xs) path Sl).
    + change (diff_node o (Lst xs) (Con kr) path) with
        (mkMod MDelete path SNull SNull :: adds o (Con kr) path) in Hm.
      destruct Hm as [<-|Hm]; [apply under_refl|]. now apply (adds_under o PO (Con kr) path Sr).
  - destruct r as [w|ys|kr].
    + simpl in Hm. destruct Hm as [<-|Hm]; [apply under_refl|].
      now apply (adds_under o PO (Leaf w) path Sr).
    + change (diff_node o (Con kvs) (Lst ys) path) with
        (mkMod MDelete path SNull SNull :: adds o (Lst ys) path) in Hm.
      destruct Hm as [<-|Hm]; [apply under_refl|]. now apply (adds_under o PO (Lst ys) path Sr).
    + rewrite diff_node_con in Hm. apply in_app_or in Hm as [Hm|Hm];
        (apply blocks_in in Hm as [b [Hb Hm]]; [|exact PO]).
      * assert (G : forall sub, (forall y, In y sub -> In y kvs) -> In b (dn_left o kr path sub) ->
                  under path (mpath m)).
        { induction sub as [|[k x] rest IHs]; intros Sub Hb'; [contradiction|].
          simpl in Hb'. destruct Hb' as [<-|Hb'].
          - simpl in Hm. assert (Hin : In (k, x) kvs) by (apply Sub; now left).
            unfold keys_safe in Sl. simpl in Sl. rewrite forallb_forall in Sl.
            specialize (Sl _ Hin). simpl in Sl. apply andb_prop in Sl as [Sk Sx].
            eapply under_trans; [apply under_to_path|].
            destruct (child k kr) as [n2|] eqn:C.
            + rewrite Forall_forall in IH. apply (IH _ Hin n2 (to_path path k) Sx); [|exact Hm].
              rewrite child_plain_key in C by now apply key_safe_plain.
              apply get_in in C. unfold keys_safe in Sr. simpl in Sr. rewrite forallb_forall in Sr.
              specialize (Sr _ C). simpl in Sr. now apply andb_prop in Sr as [_ ?].
            + now apply (adds_under o PO x (to_path path k) Sx).
          - apply IHs; [|exact Hb']. intros y Hy. apply Sub. now right. }
        apply (G kvs); auto.
      * unfold dn_right in Hb. apply in_map_iff in Hb as [[k x] [<- Hin]]. simpl in Hm.
        destruct (child k kvs); [contradiction|]. destruct Hm as [<-|[]]. simpl. apply under_to_path.
Qed.

Definition dn_left_blocks (o : order) (kr : list (string * node)) (path : string) (kl : list (string * node)) :=
  map (fun kv => (fst kv, match child (fst kv) kr with
                          | Some n2 => diff_node o (snd kv) n2 (to_path path (fst kv))
                          | None => adds o (snd kv) (to_path path (fst kv))
                          end)) kl.
Lemma dn_left_map o kr path kl : dn_left o kr path kl = dn_left_blocks o kr path kl.
Proof. induction kl as [|[k x] r IH]; [reflexivity|]. simpl. now rewrite IH. Qed.

Lemma child_safe k kr n2 :
  key_safe k = true -> keys_safe (Con kr) = true -> child k kr = Some n2 -> keys_safe n2 = true.
Proof.
  intros Sk Sr C. rewrite child_plain_key in C by now apply key_safe_plain.
  apply get_in in C. unfold keys_safe in Sr. simpl in Sr. rewrite forallb_forall in Sr.
  specialize (Sr _ C). simpl in Sr. now apply andb_prop in Sr as [_ ?].
Qed.
Lemma child_wf k kr n2 :
  key_safe k = true -> wf (Con kr) = true -> child k kr = Some n2 -> wf n2 = true.
Proof.
  intros Sk W C. rewrite child_plain_key in C by now apply key_safe_plain.
  apply get_in in C. simpl in W. apply andb_prop in W as [_ W]. rewrite forallb_forall in W.
  apply (W _ C).
Qed.

Lemma dn_left_ok o kr path kl :
  perm_order o -> sorted_keys kl = true -> keys_safe (Con kl) = true -> keys_safe (Con kr) = true ->
  blocks_ok path (dn_left_blocks o kr path kl).
Proof.
  intros PO SK Sl Sr. split.
  - unfold dn_left_blocks. rewrite map_map. simpl. now apply sorted_nodup.
  - intros b Hb. unfold dn_left_blocks in Hb. apply in_map_iff in Hb as [[k x] [<- Hin]]. simpl.
    unfold keys_safe in Sl. simpl in Sl. rewrite forallb_forall in Sl. specialize (Sl _ Hin). simpl in Sl.
    apply andb_prop in Sl as [Sk Sx]. split; [exact Sk|].
    destruct (child k kr) as [n2|] eqn:C.
    + apply diff_under; auto. eapply child_safe; eauto.
    + now apply adds_under.
Qed.

Lemma dn_right_ok kl path kr :
  sorted_keys kr = true -> keys_safe (Con kr) = true -> blocks_ok path (dn_right kl path kr).
Proof.
  intros SK Sr. split.
  - unfold dn_right. rewrite map_map. simpl. now apply sorted_nodup.
  - intros b Hb. unfold dn_right in Hb. apply in_map_iff in Hb as [[k x] [<- Hin]]. simpl.
    unfold keys_safe in Sr. simpl in Sr. rewrite forallb_forall in Sr. specialize (Sr _ Hin). simpl in Sr.
    apply andb_prop in Sr as [Sk _]. split; [exact Sk|].
    intros m Hm. destruct (child k kl); [contradiction|]. destruct Hm as [<-|[]]. apply under_refl.
Qed.

Lemma fk_cons_ext p (m : modif) l l' : fkp p l = fkp p l' -> fkp p (m :: l) = fkp p (m :: l').
Proof. intros H. simpl. destruct (String.eqb (mpath m) p); congruence. Qed.

Lemma diff_node_mismatch o l r path :
  match l, r with Con _, Con _ | Lst _, Lst _ | Leaf _, Leaf _ => False | _, _ => True end ->
  diff_node o l r path = mkMod MDelete path SNull SNull :: adds o r path.
Proof. destruct l, r; intros H; try contradiction; reflexivity. Qed.

Lemma diff_node_lst o xs ys path :
  diff_node o (Lst xs) (Lst ys) path =
  if equals (Lst xs) (Lst ys) then [] else mkMod MDelete path SNull SNull :: adds o (Lst xs) path.
Proof. reflexivity. Qed.

Theorem diff_node_order_independent o : perm_order o -> forall l r path p,
  wf l = true -> keys_safe l = true -> wf r = true -> keys_safe r = true ->
  fkp p (diff_node o l r path) = fkp p (diff_node canonical l r path).
Proof.
  intros PO. induction l as [v|xs IH|kvs IH] using node_ind'; intros r path p Wl Sl Wr Sr.
  - destruct r as [w|ys|kr].
    + reflexivity.
    + rewrite !diff_node_mismatch by exact I. apply fk_cons_ext. now apply adds_order_independent.
    + rewrite !diff_node_mismatch by exact I. apply fk_cons_ext. now apply adds_order_independent.
  - destruct r as [w|ys|kr].
    + reflexivity.
    + rewrite !diff_node_lst. destruct (equals (Lst xs) (Lst ys)); [reflexivity|].
      apply fk_cons_ext. now apply adds_order_independent.
    + rewrite !diff_node_mismatch by exact I. apply fk_cons_ext. now apply adds_order_independent.
  - destruct r as [w|ys|kr].
    + reflexivity.
    + rewrite !diff_node_mismatch by exact I. apply fk_cons_ext. now apply adds_order_independent.
    + rewrite !diff_node_con, !fk_app, !dn_left_map.
      assert (SKl : sorted_keys kvs = true) by (simpl in Wl; now apply andb_prop in Wl as [? _]).
      assert (SKr : sorted_keys kr = true) by (simpl in Wr; now apply andb_prop in Wr as [? _]).
      rewrite !blocks_fk; auto using canonical_perm, dn_left_ok, dn_right_ok.
      f_equal. apply fk_concat_ext. unfold dn_left_blocks.
      assert (Wk : forall y, In y kvs -> wf (snd y) = true).
      { simpl in Wl. apply andb_prop in Wl as [_ Wl]. now rewrite forallb_forall in Wl. }
      assert (Sk : forall y, In y kvs -> key_safe (fst y) = true /\ keys_safe (snd y) = true).
      { unfold keys_safe in Sl. simpl in Sl. rewrite forallb_forall in Sl. intros y Hy.
        specialize (Sl y Hy). now apply andb_prop in Sl. }
      clear SKl Wl Sl. induction IH as [|[k x] rest Hx _ IHr]; [constructor|].
      simpl. constructor.
      * simpl. destruct (Sk (k, x) (or_introl eq_refl)) as [Sk1 Sk2]. simpl in Sk1, Sk2.
        destruct (child k kr) as [n2|] eqn:C.
        -- apply Hx; auto.
           ++ apply (Wk (k, x)). now left.
           ++ eapply child_wf; eauto.
           ++ eapply child_safe; eauto.
        -- apply adds_order_independent; auto. apply (Wk (k, x)). now left.
      * apply IHr; intros y Hy; [apply Wk|apply Sk]; now right.
Qed.

(* Diff is the same whatever order the maps are ranged over *)
Theorem diff_order_independent o l r :
  perm_order o ->
  wf l = true -> keys_safe l = true -> wf r = true -> keys_safe r = true ->
  diff_ord o l r = diff l r.
Proof.
  intros PO Wl Sl Wr Sr. unfold diff. apply diff_ord_determined. intros p.
  unfold diff_raw. now apply diff_node_order_independent.
Qed.
