(* Proofs/FlattenSortedProofs.v — Flatten lists the scalar positions in ONE canonical order (members by
   name, items by index, lexicographically along the position), so two documents with the same set
   of (position, value) pairs have the same flattened LIST. *)
From Coq Require Import List String Ascii ZArith Lia Bool Arith Permutation Sorted.
From YT Require Import Base.Str Base.KV Base.Sort Model.Doc Model.Dom Model.Pointer Model.Path Model.Builder
  Model.Equals Model.Diff Model.Apply
  Proofs.StrProofs Proofs.BuilderProofs Proofs.PathProofs Proofs.FrameProofs Proofs.RebuildProofs
  Proofs.RebuildExactProofs Proofs.FlattenMapProofs Proofs.ReconstructListsProofs Proofs.ReconstructExactProofs.
Import ListNotations.
Local Open Scope list_scope.

(* ---------- the order *)
Inductive slt : list step -> list step -> Prop :=
| slt_key k k' r r' : String.ltb k k' = true -> slt (K k :: r) (K k' :: r')
| slt_idx i j r r' : i < j -> slt (I i :: r) (I j :: r')
| slt_cons s r r' : slt r r' -> slt (s :: r) (s :: r').

Lemma slt_irrefl : forall a, ~ slt a a.
Proof.
  induction a as [|s a IH]; intros H; inversion H; subst.
  - rewrite ltb_irrefl in *. discriminate.
  - lia.
  - now apply IH.
Qed.

Lemma slt_asym : forall a b, slt a b -> slt b a -> False.
Proof.
  induction a as [|s a IH]; intros b H1 H2; inversion H1; subst; inversion H2; subst.
  - match goal with H : String.ltb k k' = true |- _ => apply ltb_asym in H end. congruence.
  - rewrite ltb_irrefl in *. discriminate.
  - lia.
  - lia.
  - rewrite ltb_irrefl in *. discriminate.
  - lia.
  - eapply IH; eauto.
Qed.

(* ---------- two strictly sorted lists with the same elements are the same list *)
Lemma sorted_perm_eq {A} (R : A -> A -> Prop) (asym : forall a b, R a b -> R b a -> False) :
  forall l l', Permutation l l' -> StronglySorted R l -> StronglySorted R l' -> l = l'.
Proof.
  induction l as [|a r IH]; intros l' P S S'.
  - apply Permutation_nil in P. now subst.
  - destruct l' as [|a' r']; [apply Permutation_sym, Permutation_nil in P; discriminate|].
    inversion S as [|? ? Sr Fa]; subst. inversion S' as [|? ? Sr' Fa']; subst.
    assert (E : a = a').
    { assert (H1 : In a' (a :: r)) by (apply (Permutation_in _ (Permutation_sym P)); now left).
      assert (H2 : In a (a' :: r')) by (apply (Permutation_in _ P); now left).
      destruct H1 as [H1|H1]; [exact H1|]. destruct H2 as [H2|H2]; [now symmetry|].
      rewrite Forall_forall in Fa, Fa'. exfalso. apply (asym a a'); [now apply Fa|now apply Fa']. }
    subst a'. f_equal. apply IH; auto. now apply Permutation_cons_inv in P.
Qed.

Lemma ss_app {A} (R : A -> A -> Prop) : forall l1 l2,
  StronglySorted R l1 -> StronglySorted R l2 -> (forall a b, In a l1 -> In b l2 -> R a b) ->
  StronglySorted R (l1 ++ l2).
Proof.
  induction l1 as [|x r IH]; intros l2 S1 S2 X; [exact S2|].
  inversion S1 as [|? ? Sr Fx]; subst. simpl. constructor.
  - apply IH; auto. intros a b Ha Hb. apply X; [now right|exact Hb].
  - apply Forall_app. split; [exact Fx|]. apply Forall_forall. intros b Hb. apply X; [now left|exact Hb].
Qed.

Lemma ss_map {A B} (R : A -> A -> Prop) (Q : B -> B -> Prop) (f : A -> B) :
  (forall a b, R a b -> Q (f a) (f b)) -> forall l, StronglySorted R l -> StronglySorted Q (map f l).
Proof.
  intros H l S. induction S as [|a l S IH Fa]; simpl; constructor; [exact IH|].
  apply Forall_map. eapply Forall_impl; [|exact Fa]. intros b. apply H.
Qed.

Definition plt (a b : list step * scalar) : Prop := slt (fst a) (fst b).

(* ---------- Flatten's order is that order *)
Theorem flatten_steps_sorted : forall d, wf d = true -> StronglySorted plt (flatten_steps d).
Proof.
  induction d as [v|xs IH|kvs IH] using node_ind'; intros W.
  - repeat constructor.
  - rewrite flatten_steps_lst. simpl in W. rewrite forallb_forall in W. rewrite Forall_forall in IH.
    assert (G : forall l i, (forall x, In x l -> In x xs) ->
              StronglySorted plt (fs_list l i) /\
              forall e, In e (fs_list l i) -> exists j r, fst e = I j :: r /\ i <= j).
    { induction l as [|x r IHl]; intros i Sub; [split; [constructor|intros e []]|].
      destruct (IHl (S i) (fun y Hy => Sub y (or_intror Hy))) as [Sr Hr]. split.
      - simpl. apply ss_app.
        + apply (ss_map plt plt (fun e => (I i :: fst e, snd e))); [intros a b H; apply slt_cons; exact H|].
          apply IH; [apply Sub; now left|apply W, Sub; now left].
        + exact Sr.
        + intros a b Ha Hb. apply in_map_iff in Ha as [[s w] [<- _]].
          destruct (Hr b Hb) as [j [rr [Eb Lj]]]. unfold plt. cbn [fst]. rewrite Eb. apply slt_idx. lia.
      - intros e He. simpl in He. apply in_app_or in He as [He|He].
        + apply in_map_iff in He as [[s w] [<- _]]. exists i, s. split; [reflexivity|lia].
        + destruct (Hr e He) as [j [rr [Ee Lj]]]. exists j, rr. split; [exact Ee|lia]. }
    apply (G xs 0). auto.
  - rewrite flatten_steps_con. simpl in W. apply andb_prop in W as [SK W]. rewrite forallb_forall in W.
    rewrite Forall_forall in IH.
    assert (G : forall l, (forall x, In x l -> In x kvs) -> sorted_keys l = true ->
              StronglySorted plt (fs_kvs l) /\
              forall e, In e (fs_kvs l) -> exists k r, fst e = K k :: r /\ In k (map fst l)).
    { induction l as [|[k x] r IHl]; intros Sub S; [split; [constructor|intros e []]|].
      simpl in S. apply andb_prop in S as [Lt Sr0].
      destruct (IHl (fun y Hy => Sub y (or_intror Hy)) Sr0) as [Sr Hr]. split.
      - simpl. apply ss_app.
        + apply (ss_map plt plt (fun e => (K k :: fst e, snd e))); [intros a b H; apply slt_cons; exact H|].
          apply (IH (k, x)); [apply Sub; now left|apply (W (k, x)), Sub; now left].
        + exact Sr.
        + intros a b Ha Hb. apply in_map_iff in Ha as [[s w] [<- _]].
          destruct (Hr b Hb) as [k' [rr [Eb Hk']]]. unfold plt. cbn [fst]. rewrite Eb. apply slt_key.
          unfold lt_all in Lt. rewrite forallb_forall in Lt. apply in_map_iff in Hk' as [[k2 x2] [<- H2]].
          apply (Lt (k2, x2) H2).
      - intros e He. simpl in He. apply in_app_or in He as [He|He].
        + apply in_map_iff in He as [[s w] [<- _]]. exists k, s. split; [reflexivity|now left].
        + destruct (Hr e He) as [k' [rr [Ee Hk']]]. exists k', rr. split; [exact Ee|now right]. }
    apply (G kvs); auto.
Qed.

(* ---------- the same (position, value) pairs: the same flattened list *)
Theorem flatten_steps_determined d1 d2 :
  wf d1 = true -> wf d2 = true ->
  (forall tau w, In (tau, w) (flatten_steps d1) <-> In (tau, w) (flatten_steps d2)) ->
  flatten_steps d1 = flatten_steps d2.
Proof.
  intros W1 W2 X. apply (sorted_perm_eq plt).
  - intros a b. apply slt_asym.
  - apply NoDup_Permutation.
    + apply nodup_of_fst. now apply flatten_steps_nodup.
    + apply nodup_of_fst. now apply flatten_steps_nodup.
    + intros [tau w]. apply X.
  - now apply flatten_steps_sorted.
  - now apply flatten_steps_sorted.
Qed.

(* ---------- C08: Flatten(Apply(R, Diff(L,R))) = Flatten(L), as lists *)
Theorem reconstruct_flatten_eq kl kr :
  wf (Con kl) = true -> keys_safe (Con kl) = true -> wf (Con kr) = true -> keys_safe (Con kr) = true ->
  compat_g (Con kl) (Con kr) -> eis (Con kl) = true ->
  flatten (apply (Con kr) (diff (Con kl) (Con kr))) = flatten (Con kl).
Proof.
  intros Wl Sl Wr Sr C E. destruct (reconstruct_steps_exact kl kr Wl Sl Wr Sr C E) as [WF X].
  rewrite !flatten_steps_render. f_equal. now apply flatten_steps_determined.
Qed.

(* ---------- C02: re-inserting every flattened pair in ANY order into the empty document gives a
   document whose flattened LIST is the original one *)
Theorem rebuild_flatten_eq kvs (l : list (string * scalar)) :
  wf (Con kvs) = true -> keys_safe (Con kvs) = true -> eis (Con kvs) = true ->
  Permutation l (flatten (Con kvs)) ->
  flatten (Con (fold_left put_path l [])) = flatten (Con kvs).
Proof.
  intros W S E P.
  pose proof P as P0.
  rewrite flatten_steps_render in P.
  set (f := fun e : list step * scalar => (render_steps (fst e), snd e)) in *.
  apply Permutation_map_inv in P as [l' [-> P']]. apply Permutation_sym in P'.
  assert (Fl : Forall (fun e => exists k r, fst e = K k :: r /\ forallb step_safe (K k :: r) = true) l').
  { apply Forall_forall. intros [s x] He. apply (Permutation_in _ P') in He.
    pose proof (flatten_steps_safe _ _ _ S He) as Ss.
    rewrite flatten_steps_con in He. apply In_fs_kvs in He as [k [y [rest [-> _]]]].
    exists k, rest. split; [reflexivity|exact Ss]. }
  subst f. rewrite (rebuild_paths l' [] Fl).
  rewrite !flatten_steps_render. f_equal. apply flatten_steps_determined.
  - apply rebuild_wf. reflexivity.
  - exact W.
  - intros tau w. apply (rebuild_exact kvs l' W E P').
Qed.
