(* Proofs/PropsPathProofs.v — props.ParsePath of a flatten-style path has one segment per step;
   its JSON-pointer translation evaluates to the same leaf (C02). *)
From Coq Require Import List String Ascii ZArith NArith Lia Bool Arith.
From YT Require Import Base.Str Base.KV Model.Doc Model.Dom Model.Pointer Model.Path Model.Builder
  Proofs.StrProofs Proofs.BuilderProofs Proofs.PathProofs Proofs.ListCompProofs Proofs.PointerProofs.
Import ListNotations.
Local Open Scope list_scope.

Definition seg_of (s : step) : pseg := match s with K k => PKey k | I i => PIdx i end.

(* ---------- trimming is a no-op on text whose first and last characters are not trimmed *)
Lemma hd_rev_last {A} (d : A) : forall l, l <> [] -> hd d (rev l) = last l d.
Proof.
  induction l as [|a m IH]; intros NE; [contradiction|].
  simpl rev. destruct m as [|b m'].
  - reflexivity.
  - assert (NE' : b :: m' <> []) by discriminate. specialize (IH NE').
    change (last (a :: b :: m') d) with (last (b :: m') d). rewrite <- IH.
    destruct (rev (b :: m')) eqn:E.
    + exfalso. apply (f_equal (@List.length A)) in E. rewrite rev_length in E. discriminate.
    + reflexivity.
Qed.

Lemma drop_while_hd q l d : l <> [] -> q (hd d l) = false -> drop_while q l = l.
Proof. destruct l as [|a m]; intros NE H; [contradiction|]. simpl in *. now rewrite H. Qed.

Lemma trim_with_ends q l d :
  l <> [] -> q (hd d l) = false -> q (last l d) = false -> trim_with q l = l.
Proof.
  intros NE H1 H2. unfold trim_with. rewrite (drop_while_hd q l d NE H1).
  rewrite (drop_while_hd q (rev l) d).
  - apply rev_involutive.
  - intro E. apply NE. apply (f_equal (@rev ascii)) in E. now rewrite rev_involutive in E.
  - now rewrite hd_rev_last.
Qed.

(* ---------- first and last character of a rendered path *)
Lemma last_app_ne {A} (a b : list A) d : b <> [] -> last (a ++ b) d = last b d.
Proof.
  intros NE. induction a as [|x a IH]; [reflexivity|].
  simpl app. destruct (a ++ b) eqn:E.
  - destruct a; simpl in E; [contradiction|discriminate].
  - rewrite <- IH. reflexivity.
Qed.

Lemma hd_app_ne {A} (a b : list A) d : a <> [] -> hd d (a ++ b) = hd d a.
Proof. destruct a; [contradiction|reflexivity]. Qed.

Definition jl (cs : list string) : list ascii := la (join_with "."%string cs).

Lemma jl_cons c c' r : jl (c :: c' :: r) = la c ++ DOT :: jl (c' :: r).
Proof. unfold jl. rewrite join_with_cons, !la_app. reflexivity. Qed.

Lemma jl_hd d : forall c r, la c <> [] -> hd d (jl (c :: r)) = hd d (la c).
Proof.
  intros c [|c' r] NE.
  - reflexivity.
  - rewrite jl_cons. now apply hd_app_ne.
Qed.

Lemma jl_last d : forall cs, cs <> [] -> Forall (fun c => la c <> []) cs ->
  last (jl cs) d = last (la (last cs ""%string)) d.
Proof.
  induction cs as [|c r IH]; intros NE F; [contradiction|].
  inversion F as [|? ? Hc Fr]; subst.
  destruct r as [|c' r'].
  - reflexivity.
  - rewrite jl_cons.
    change (la c ++ DOT :: jl (c' :: r')) with (la c ++ ([DOT] ++ jl (c' :: r'))).
    assert (NEj : jl (c' :: r') <> []).
    { inversion Fr as [|? ? Hc' _]; subst. destruct r' as [|c'' r''].
      - exact Hc'.
      - rewrite jl_cons. destruct (la c'); [contradiction|discriminate]. }
    rewrite last_app_ne by (destruct (jl (c' :: r')); [contradiction|discriminate]).
    rewrite last_app_ne by exact NEj.
    change (last (c :: c' :: r') ""%string) with (last (c' :: r') ""%string).
    apply IH; [discriminate|exact Fr].
Qed.

Definition nice (c : ascii) : Prop := is_space c = false /\ Ascii.eqb c DOT = false.

Lemma safe_nice c : safe_char c = true -> nice c.
Proof. intros H. destruct (safe_char_props c H) as [D [_ [_ [_ [_ S]]]]]. split; assumption. Qed.
Lemma rbr_nice : nice RBR. Proof. split; reflexivity. Qed.

Lemma render_comp_la_ne k idxs : key_safe k = true -> la (render_comp (k, idxs)) <> [].
Proof.
  intros S. rewrite la_render_comp. apply key_safe_chars in S as [NE _].
  destruct (la k) eqn:E; [|discriminate]. exfalso. apply NE. apply la_inj. now rewrite E.
Qed.

Lemma render_comp_hd_nice k idxs : key_safe k = true -> nice (hd DOT (la (render_comp (k, idxs)))).
Proof.
  intros S. rewrite la_render_comp. apply key_safe_chars in S as [NE F].
  destruct (la k) as [|a m] eqn:E.
  - exfalso. apply NE. apply la_inj. now rewrite E.
  - simpl. simpl in F. apply andb_prop in F as [Fa _]. now apply safe_nice.
Qed.

Lemma groups_last idxs : idxs <> [] -> last (groups idxs) DOT = RBR.
Proof.
  induction idxs as [|i r IH]; intros NE; [contradiction|].
  rewrite groups_cons. destruct r as [|j r'].
  - unfold groups. cbn [flat_map].
    change (LBR :: la (nat2s i) ++ [RBR]) with ((LBR :: la (nat2s i)) ++ [RBR]).
    rewrite (last_app_ne (LBR :: la (nat2s i)) [RBR] DOT); [reflexivity|discriminate].
  - replace (LBR :: la (nat2s i) ++ RBR :: groups (j :: r')) with
      ((LBR :: la (nat2s i) ++ [RBR]) ++ groups (j :: r'))
      by (cbn [app]; rewrite <- app_assoc; reflexivity).
    rewrite last_app_ne; [apply IH; discriminate|]. rewrite groups_cons. discriminate.
Qed.

Lemma render_comp_last_nice k idxs : key_safe k = true -> nice (last (la (render_comp (k, idxs))) DOT).
Proof.
  intros S. rewrite la_render_comp. destruct idxs as [|i r].
  - unfold groups. simpl. rewrite app_nil_r. apply key_safe_chars in S as [NE F].
    destruct (la k) as [|a m] eqn:E.
    + exfalso. apply NE. apply la_inj. now rewrite E.
    + rewrite forallb_forall in F. apply safe_nice, F.
      rewrite <- E. destruct (@exists_last _ (la k)) as [m' [z Ez]]; [rewrite E; discriminate|].
      rewrite Ez, last_last. apply in_or_app. right. now left.
  - rewrite last_app_ne by (rewrite groups_cons; discriminate).
    rewrite groups_last by discriminate. apply rbr_nice.
Qed.

(* ---------- ParsePath of a rendered path: one segment per step *)
Theorem props_parse_spath p :
  p <> [] -> Forall (fun c => key_safe (fst c) = true) p ->
  props_parse (render_steps (steps_of p)) = map seg_of (steps_of p).
Proof.
  intros NE Fs.
  assert (Fne : Forall (fun c => fst c <> ""%string) p).
  { eapply Forall_impl; [|exact Fs]. intros c Hc. now apply key_safe_chars in Hc as [? _]. }
  unfold render_steps. rewrite render_steps_from by assumption.
  unfold dot_join. simpl String.eqb. cbv iota.
  unfold props_parse, render_spath. fold (jl (map render_comp p)).
  set (cs := map render_comp p).
  assert (NEc : cs <> []) by (intro E; apply map_eq_nil in E; contradiction).
  assert (Fc : Forall (fun c => la c <> []) cs).
  { unfold cs. apply Forall_map. eapply Forall_impl; [|exact Fs]. intros [k i] Hc. now apply render_comp_la_ne. }
  assert (NEj : jl cs <> []).
  { destruct cs as [|c r]; [contradiction|]. inversion Fc; subst. destruct r as [|c' r'].
    - assumption.
    - rewrite jl_cons. destruct (la c); [contradiction|discriminate]. }
  assert (Hhd : nice (hd DOT (jl cs))).
  { unfold cs in *. destruct p as [|[k i] r]; [contradiction|]. simpl map.
    inversion Fs; subst. rewrite jl_hd by now apply render_comp_la_ne. now apply render_comp_hd_nice. }
  assert (Hlast : nice (last (jl cs) DOT)).
  { rewrite jl_last by assumption. unfold cs.
    destruct (@exists_last _ p NE) as [p' [[k i] Ep]]. rewrite Ep, map_app. simpl map.
    rewrite last_last. apply render_comp_last_nice.
    rewrite Ep in Fs. apply Forall_app in Fs as [_ Fl]. now inversion Fl. }
  destruct Hhd as [H1s H1d]. destruct Hlast as [H2s H2d].
  rewrite (trim_with_ends is_space (jl cs) DOT NEj H1s H2s).
  rewrite (trim_with_ends (fun c => Ascii.eqb c DOT) (jl cs) DOT NEj H1d H2d).
  unfold jl. rewrite split_join.
  - unfold cs. rewrite map_map. clear -Fs.
    induction Fs as [|[k idxs] r Sk _ IH]; [reflexivity|].
    simpl in Sk. cbn [map flat_map]. rewrite sl_la, parse_list_comp_render by exact Sk.
    unfold steps_of in *. cbn [flat_map fst snd]. rewrite IH.
    destruct idxs as [|i is].
    + reflexivity.
    + cbn [map app]. rewrite map_app, map_map. reflexivity.
  - exact NEc.
  - unfold cs. apply Forall_map. eapply Forall_impl; [|exact Fs]. intros [k0 i0] Hc. simpl in Hc.
    apply nodot_render_comp. now apply key_safe_nodot.
Qed.

Theorem props_parse_steps k r :
  forallb step_safe (K k :: r) = true ->
  props_parse (render_steps (K k :: r)) = map seg_of (K k :: r).
Proof.
  intros S. rewrite <- (group_spec k r). apply props_parse_spath.
  - intro E0. pose proof (group_spec k r) as G. rewrite E0 in G. discriminate.
  - now apply group_safe.
Qed.

(* ---------- the JSON-pointer translation of a flatten-style path *)
Definition tok_of (s : step) : string := match s with K k => k | I i => nat2s i end.

Lemma seg_str_of s : seg_str (seg_of s) = tok_of s.
Proof. destruct s; reflexivity. Qed.

(* bytes that need no escaping *)
Definition plain_N (c : N) : Prop := N.eqb c TILDE = false /\ N.eqb c SLASH = false.

Lemma esc_id t : Forall plain_N t -> esc t = t.
Proof.
  induction 1 as [|c r [H1 H2] _ IH]; [reflexivity|]. simpl. now rewrite H1, H2, IH.
Qed.

Lemma ptr_print_plain toks :
  Forall (Forall plain_N) toks -> ptr_print toks = flat_map (fun t => SLASH :: t) toks.
Proof.
  induction 1 as [|t r Ht _ IH]; [reflexivity|]. simpl. now rewrite (esc_id t Ht), IH.
Qed.

Lemma N_of_ascii_neq (a b : ascii) :
  Ascii.eqb a b = false -> N.eqb (N.of_nat (nat_of_ascii a)) (N.of_nat (nat_of_ascii b)) = false.
Proof.
  intros H. apply N.eqb_neq. intros E. apply Nat2N.inj in E.
  apply (f_equal ascii_of_nat) in E. rewrite !ascii_nat_embedding in E. subst.
  now rewrite Ascii.eqb_refl in H.
Qed.

Lemma is_digit_plain c : is_digit c = true -> Ascii.eqb c "/"%char = false /\ Ascii.eqb c "~"%char = false.
Proof. destruct c as [[] [] [] [] [] [] [] []]; intros H; vm_compute in H; try discriminate; split; reflexivity. Qed.

Lemma bytes_plain_chars l :
  (forall c, In c l -> Ascii.eqb c "/"%char = false /\ Ascii.eqb c "~"%char = false) ->
  Forall plain_N (map (fun a => N.of_nat (nat_of_ascii a)) l).
Proof.
  intros H. apply Forall_map. apply Forall_forall. intros c Hc. destruct (H c Hc) as [H1 H2]. split.
  - exact (N_of_ascii_neq c "~"%char H2).
  - exact (N_of_ascii_neq c "/"%char H1).
Qed.

Lemma tok_plain s : step_safe s = true -> Forall plain_N (bytes_N (tok_of s)).
Proof.
  intros S. unfold bytes_N. apply bytes_plain_chars. intros c Hc. destruct s as [k|i]; simpl in *.
  - apply key_safe_chars in S as [_ F]. rewrite forallb_forall in F.
    destruct (safe_char_props c (F c Hc)) as [_ [_ [_ [A [B _]]]]]. now split.
  - pose proof (nat2s_digits i) as F. rewrite forallb_forall in F. now apply is_digit_plain, F.
Qed.

Lemma N_bytes_bytes_N s : N_bytes (bytes_N s) = s.
Proof.
  unfold N_bytes, bytes_N. rewrite map_map.
  rewrite <- (sl_la s) at 2. f_equal. induction (la s) as [|a r IH]; [reflexivity|].
  simpl. now rewrite Nat2N.id, ascii_nat_embedding, IH.
Qed.

Theorem prop2ptr_steps sigma :
  forallb step_safe sigma = true -> prop2ptr (map seg_of sigma) = Some (map tok_of sigma).
Proof.
  intros S. unfold prop2ptr.
  assert (E : flat_map (fun s => SLASH :: bytes_N (seg_str s)) (map seg_of sigma) =
              ptr_print (map (fun s => bytes_N (tok_of s)) sigma)).
  { rewrite ptr_print_plain.
    - rewrite !flat_map_concat_map, !map_map. f_equal. apply map_ext. intros s. now rewrite seg_str_of.
    - apply Forall_map. rewrite forallb_forall in S. apply Forall_forall. intros s Hs. now apply tok_plain, S. }
  rewrite E, parse_print. rewrite map_map. f_equal. apply map_ext. intros s. apply N_bytes_bytes_N.
Qed.

(* ---------- canonical indexes: nat2s never has a leading zero *)
Lemma to_uint_no_leading_zero n r : Nat.to_uint n = Decimal.D0 r -> r = Decimal.Nil.
Proof.
  intros E. pose proof (DecimalNat.Unsigned.to_of (Nat.to_uint n)) as H.
  rewrite DecimalNat.Unsigned.of_to in H. rewrite E in H. unfold Decimal.unorm in H.
  destruct (Decimal.nzhead (Decimal.D0 r)) eqn:Z.
  - now injection H.
  - exfalso. apply (DecimalFacts.nzhead_nonzero (Decimal.D0 r) u). exact Z.
  - discriminate. - discriminate. - discriminate. - discriminate. - discriminate.
  - discriminate. - discriminate. - discriminate. - discriminate.
Qed.

Lemma canon_index_nat2s i : List.length (la (nat2s i)) <= 18 -> canon_index (nat2s i) = Some i.
Proof.
  intros L. unfold canon_index. pose proof (nat2s_la_nonempty i) as NE. pose proof (nat2s_digits i) as D.
  destruct (la (nat2s i)) as [|c r] eqn:E; [contradiction|]. rewrite D.
  assert (Z : (Ascii.eqb c "0"%char && negb (match r with [] => true | _ => false end)) = false).
  { destruct (Ascii.eqb_spec c "0"%char) as [->|]; [|reflexivity]. simpl.
    destruct r as [|c' r']; [reflexivity|]. exfalso.
    unfold nat2s in E. destruct (Nat.to_uint i) as [|u|u|u|u|u|u|u|u|u|u] eqn:U; simpl in E;
      try (unfold la in E; simpl in E; discriminate).
    apply to_uint_no_leading_zero in U. subst u. unfold la in E. simpl in E. discriminate. }
  rewrite Z. apply Nat.leb_le in L. rewrite Nat.ltb_antisym, L. simpl. apply s2nat_nat2s.
Qed.

Definition idx_small (sigma : list step) : Prop :=
  forall i, In (I i) sigma -> List.length (la (nat2s i)) <= 18.

Theorem rfc_eval_steps : forall sigma d x,
  idx_small sigma -> get_steps sigma d = Some x -> rfc6901_eval (map tok_of sigma) d = Some x.
Proof.
  induction sigma as [|s r IH]; intros d x Sm G; [exact G|].
  assert (Sm' : idx_small r) by (intros i Hi; apply Sm; now right).
  destruct s as [k|i]; simpl in *.
  - destruct d as [v|xs|kvs]; try discriminate. destruct (kv_get k kvs) as [y|]; [|discriminate]. now apply IH.
  - destruct d as [v|xs|kvs]; try discriminate.
    rewrite canon_index_nat2s by (apply Sm; now left).
    destruct (nth_error xs i) as [y|]; [|discriminate]. now apply IH.
Qed.

Lemma tok_plain_tok s : step_safe s = true -> plain_tok (tok_of s) = true.
Proof.
  destruct s as [k|i]; simpl; intros S.
  - apply key_safe_plain in S. exact S.
  - unfold plain_tok, strip_index.
    destruct (rev (la (nat2s i))) as [|c r] eqn:E; [reflexivity|].
    assert (Hc : is_digit c = true).
    { pose proof (nat2s_digits i) as D. rewrite forallb_forall in D. apply D. apply in_rev. rewrite E. now left. }
    destruct (Ascii.eqb c RBR) eqn:R; [|reflexivity]. now rewrite is_digit_not_rbr in R.
Qed.

(* the flattened path of a leaf, translated by xform.PointerFromPropPathString, evaluates to that leaf *)
Theorem pointer_of_flatten_path k r d x :
  forallb step_safe (K k :: r) = true -> idx_small (K k :: r) ->
  get_steps (K k :: r) d = Some x ->
  exists toks, pointer_of_prop_path (render_steps (K k :: r)) = Some toks /\
               snd (ptr_eval toks d) = Some x.
Proof.
  intros S Sm G. exists (map tok_of (K k :: r)). split.
  - unfold pointer_of_prop_path. rewrite props_parse_steps by exact S. now apply prop2ptr_steps.
  - rewrite eval_refines_rfc.
    + now apply rfc_eval_steps.
    + rewrite forallb_forall in *. intros t Ht. apply in_map_iff in Ht as [s [<- Hs]]. now apply tok_plain_tok, S.
Qed.

(* every flattened (path, leaf) pair: ParsePath has one segment per step and the pointer
   translation evaluates to that leaf *)
Theorem pointer_flatten kvs p v :
  wf (Con kvs) = true -> keys_safe (Con kvs) = true ->
  In (p, v) (flatten (Con kvs)) ->
  exists sigma, p = render_steps sigma /\ In (sigma, v) (flatten_steps (Con kvs)) /\
    props_parse p = map seg_of sigma /\
    (idx_small sigma ->
     exists toks, pointer_of_prop_path p = Some toks /\ snd (ptr_eval toks (Con kvs)) = Some (Leaf v)).
Proof.
  intros W S H. rewrite flatten_steps_render in H.
  apply in_map_iff in H as [[sigma w] [E Hin]]. simpl in E. injection E as <- <-.
  pose proof (flatten_steps_safe _ _ _ S Hin) as Ss.
  pose proof (flatten_steps_get _ _ _ W Hin) as G.
  exists sigma. split; [reflexivity|]. split; [exact Hin|].
  rewrite flatten_steps_con in Hin. apply In_fs_kvs in Hin as [k [x [rest [-> _]]]].
  split; [now apply props_parse_steps|].
  intros Sm. now apply pointer_of_flatten_path.
Qed.
