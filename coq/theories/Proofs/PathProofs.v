(* Proofs/PathProofs.v — flatten-style paths: rendering, parsing back, lookup, pointers *)
From Coq Require Import List String Ascii ZArith NArith Lia Bool Arith.
From YT Require Import Base.Str Base.KV Model.Doc Model.Dom Model.Pointer Model.Path Model.Builder
  Proofs.StrProofs Proofs.BuilderProofs Proofs.PointerProofs.
Import ListNotations.
Local Open Scope list_scope.
Local Open Scope nat_scope.

(* ---------- step lists and their grouping into components *)
Definition steps_of (p : spath) : list step := flat_map (fun c => K (fst c) :: map I (snd c)) p.

Definition group_f (s : step) (acc : spath * list nat) : spath * list nat :=
  match s with
  | I i => (fst acc, i :: snd acc)
  | K k => ((k, snd acc) :: fst acc, [])
  end.
Definition group_raw (sigma : list step) : spath * list nat := fold_right group_f ([], []) sigma.
Definition group (sigma : list step) : spath := fst (group_raw sigma).

Lemma group_raw_spec sigma :
  sigma = map I (snd (group_raw sigma)) ++ steps_of (fst (group_raw sigma)).
Proof.
  induction sigma as [|s r IH]; [reflexivity|].
  unfold group_raw in *. simpl. destruct s as [k|i]; simpl.
  - f_equal. exact IH.
  - f_equal. exact IH.
Qed.

Lemma group_spec k r : steps_of (group (K k :: r)) = K k :: r.
Proof.
  pose proof (group_raw_spec (K k :: r)) as H. unfold group.
  unfold group_raw in *. simpl in *. injection H as H. f_equal. symmetry. exact H.
Qed.

(* ---------- rendering *)
Definition dot_join (acc s : string) : string := if String.eqb acc ""%string then s else (acc ++ "." ++ s)%string.
Definition render_spath (p : spath) : string := join_with "."%string (map render_comp p).

Lemma idx_path_prefix a b i : idx_path (a ++ b)%string i = (a ++ idx_path b i)%string.
Proof. unfold idx_path. now rewrite <- !append_assoc. Qed.

Lemma fold_idx_prefix : forall idxs a b,
  fold_left idx_path idxs (a ++ b)%string = (a ++ fold_left idx_path idxs b)%string.
Proof. induction idxs as [|i r IH]; intros a b; simpl; [reflexivity|]. now rewrite idx_path_prefix, IH. Qed.

Lemma fold_render_I : forall idxs acc,
  fold_left render_step (map I idxs) acc = fold_left idx_path idxs acc.
Proof. induction idxs as [|i r IH]; intros acc; simpl; auto. Qed.

Lemma append_nonempty_r a b : b <> ""%string -> (a ++ b)%string <> ""%string.
Proof. destruct a; simpl; [auto|discriminate]. Qed.

Lemma idx_path_nonempty s i : idx_path s i <> ""%string.
Proof. unfold idx_path. apply append_nonempty_r. discriminate. Qed.

Lemma render_comp_nonempty k idxs : k <> ""%string -> render_comp (k, idxs) <> ""%string.
Proof.
  unfold render_comp. simpl. revert k. induction idxs as [|i r IH]; intros k H; simpl; [exact H|].
  apply IH. apply idx_path_nonempty.
Qed.

Lemma dot_join_nonempty acc s : s <> ""%string -> dot_join acc s <> ""%string.
Proof.
  unfold dot_join. intros H. destruct (String.eqb acc ""); [exact H|].
  apply append_nonempty_r, append_nonempty_r, H.
Qed.

Lemma join_with_cons sep x y r : join_with sep (x :: y :: r) = (x ++ sep ++ join_with sep (y :: r))%string.
Proof. reflexivity. Qed.

Lemma render_steps_from : forall p acc,
  p <> [] -> Forall (fun c => fst c <> ""%string) p ->
  fold_left render_step (steps_of p) acc = dot_join acc (render_spath p).
Proof.
  induction p as [|[k idxs] r IH]; intros acc NE F; [contradiction|].
  inversion F as [|? ? Hk Fr]; subst. simpl in Hk.
  unfold steps_of. simpl. rewrite fold_left_app, fold_render_I. fold (steps_of r).
  destruct r as [|c' r'].
  - simpl. unfold render_spath. simpl. unfold to_path, dot_join.
    destruct (String.eqb acc ""); [reflexivity|]. rewrite fold_idx_prefix.
    change (acc ++ "." ++ k)%string with (acc ++ ("." ++ k))%string.
    rewrite fold_idx_prefix. unfold render_comp. simpl.
    change ("." ++ fold_left idx_path idxs k)%string with (String "." (fold_left idx_path idxs k)).
    reflexivity.
  - rewrite IH by (auto; discriminate). unfold render_spath.
    change (map render_comp ((k, idxs) :: c' :: r')) with (render_comp (k, idxs) :: map render_comp (c' :: r')).
    change (map render_comp (c' :: r')) with (render_comp c' :: map render_comp r').
    rewrite join_with_cons.
    assert (Hne : fold_left idx_path idxs (to_path acc k) <> ""%string).
    { unfold to_path. destruct (String.eqb acc "").
      - apply (render_comp_nonempty k idxs Hk).
      - change (acc ++ "." ++ k)%string with (acc ++ ("." ++ k))%string. rewrite fold_idx_prefix.
        apply append_nonempty_r. rewrite fold_idx_prefix. discriminate. }
    unfold dot_join at 1. destruct (String.eqb_spec (fold_left idx_path idxs (to_path acc k)) ""); [contradiction|].
    unfold to_path, dot_join. destruct (String.eqb acc "").
    + reflexivity.
    + change (acc ++ "." ++ k)%string with (acc ++ ("." ++ k))%string.
      rewrite !fold_idx_prefix. unfold render_comp at 1. simpl fst. simpl snd.
      rewrite <- !append_assoc. reflexivity.
Qed.

(* ---------- splitting on dots *)
Definition nodot (l : list ascii) : bool := forallb (fun c => negb (Ascii.eqb c DOT)) l.

Lemma split_on_nodot : forall a rest cur,
  nodot a = true -> split_on DOT (a ++ rest) cur = split_on DOT rest (rev a ++ cur).
Proof.
  induction a as [|c a IH]; intros rest cur H; [reflexivity|].
  simpl in H. apply andb_prop in H as [H1 H2]. simpl.
  destruct (Ascii.eqb c DOT); [discriminate|]. rewrite IH by auto. simpl. now rewrite <- app_assoc.
Qed.

Lemma split_join : forall (cs : list string),
  cs <> [] -> Forall (fun c => nodot (la c) = true) cs ->
  split_on DOT (la (join_with "."%string cs)) [] = map la cs.
Proof.
  induction cs as [|c r IH]; intros NE F; [contradiction|].
  inversion F as [|? ? Hc Fr]; subst.
  destruct r as [|c' r'].
  - simpl. rewrite <- (app_nil_r (la c)). rewrite split_on_nodot by auto. simpl.
    now rewrite !app_nil_r, rev_involutive.
  - rewrite join_with_cons, !la_app. rewrite split_on_nodot by auto.
    change (la ".") with [DOT]. cbn [app split_on]. replace (Ascii.eqb DOT DOT) with true by reflexivity.
    rewrite app_nil_r, rev_involutive. rewrite map_cons. f_equal. apply IH; [discriminate|auto].
Qed.

Lemma nodot_digits l : forallb is_digit l = true -> nodot l = true.
Proof.
  unfold nodot. intros H. rewrite forallb_forall in *. intros c Hc. specialize (H c Hc).
  destruct (Ascii.eqb_spec c DOT) as [->|]; [vm_compute in H; discriminate|reflexivity].
Qed.

Lemma nodot_app a b : nodot (a ++ b) = nodot a && nodot b.
Proof. apply forallb_app. Qed.

Lemma nodot_idx_path s i : nodot (la s) = true -> nodot (la (idx_path s i)) = true.
Proof.
  intros H. rewrite la_idx_path, nodot_app, H. simpl. rewrite nodot_app.
  rewrite nodot_digits by apply nat2s_digits. reflexivity.
Qed.

Lemma nodot_render_comp k idxs : nodot (la k) = true -> nodot (la (render_comp (k, idxs))) = true.
Proof.
  unfold render_comp. simpl. revert k. induction idxs as [|i r IH]; intros k H; simpl; [exact H|].
  apply IH. now apply nodot_idx_path.
Qed.

(* ---------- safe keys *)
Lemma key_safe_chars k : key_safe k = true -> k <> ""%string /\ forallb safe_char (la k) = true.
Proof.
  unfold key_safe. destruct (la k) as [|c r] eqn:E; [discriminate|]. intros H. split; [|exact H].
  intros ->. discriminate.
Qed.

Lemma key_safe_nodot k : key_safe k = true -> nodot (la k) = true.
Proof.
  intros H. apply key_safe_chars in H as [_ H]. unfold nodot. rewrite forallb_forall in *.
  intros c Hc. destruct (safe_char_props c (H c Hc)) as [D _]. now rewrite D.
Qed.

Lemma key_safe_plain k : key_safe k = true -> plain_comp k = true.
Proof.
  intros H. apply key_safe_chars in H as [NE H]. unfold plain_comp, strip_index.
  destruct (rev (la k)) as [|c r] eqn:E; [reflexivity|].
  assert (Hin : In c (la k)). { apply in_rev. rewrite E. left. reflexivity. }
  rewrite forallb_forall in H. destruct (safe_char_props c (H c Hin)) as [_ [_ [R _]]]. now rewrite R.
Qed.

Definition step_safe (s : step) : bool := match s with K k => key_safe k | I _ => true end.

Lemma group_safe sigma : forallb step_safe sigma = true ->
  Forall (fun c => key_safe (fst c) = true) (group sigma).
Proof.
  unfold group, group_raw. induction sigma as [|s r IH]; intros H; [constructor|].
  simpl in H. apply andb_prop in H as [H1 H2]. specialize (IH H2). simpl.
  destruct s as [k|i]; simpl; [constructor; auto|exact IH].
Qed.

(* ---------- structured reads *)
Lemma get_steps_I : forall idxs n rest,
  get_steps (map I idxs ++ rest) n = match follow_idx n idxs with Some x => get_steps rest x | None => None end.
Proof.
  induction idxs as [|i r IH]; intros n rest; [reflexivity|].
  simpl. destruct n as [|xs|]; try reflexivity. destruct (nth_error xs i); [apply IH|reflexivity].
Qed.

Lemma get_steps_path : forall p kvs, p <> [] ->
  get_steps (steps_of p) (Con kvs) = get_path p kvs.
Proof.
  induction p as [|[k idxs] r IH]; intros kvs NE; [contradiction|].
  unfold steps_of. simpl. fold (steps_of r).
  destruct r as [|c' r'].
  - simpl. rewrite app_nil_r. unfold get_comp. simpl.
    destruct (kv_get k kvs) as [n|]; [|reflexivity].
    rewrite <- (app_nil_r (map I idxs)), get_steps_I. destruct (follow_idx n idxs); reflexivity.
  - change (get_path ((k, idxs) :: c' :: r') kvs) with
      (match get_comp (k, idxs) kvs with Some (Con s) => get_path (c' :: r') s | _ => None end).
    unfold get_comp. simpl fst. simpl snd.
    destruct (kv_get k kvs) as [n|]; [|reflexivity].
    rewrite get_steps_I. destruct c' as [k' i'].
    destruct (follow_idx n idxs) as [[| |s]|]; try reflexivity.
    apply IH. discriminate.
Qed.

(* ---------- Lookup of a rendered step list *)
Theorem lookup_render_steps k r kvs :
  forallb step_safe (K k :: r) = true ->
  lookup (render_steps (K k :: r)) (Con kvs) = get_steps (K k :: r) (Con kvs).
Proof.
  intros S. set (sigma := K k :: r) in *. set (p := group sigma).
  assert (Hp : steps_of p = sigma) by apply group_spec.
  assert (NE : p <> []). { intro E. rewrite E in Hp. discriminate. }
  pose proof (group_safe sigma S) as Fs. fold p in Fs.
  assert (Fne : Forall (fun c => fst c <> ""%string) p).
  { eapply Forall_impl; [|exact Fs]. intros c Hc. now apply key_safe_chars in Hc as [? _]. }
  unfold render_steps. rewrite <- Hp, render_steps_from by assumption.
  unfold dot_join. simpl String.eqb. cbv iota.
  assert (Rne : render_spath p <> ""%string).
  { unfold render_spath. destruct p as [|[k0 i0] [|c' r']]; [contradiction| |].
    - simpl. inversion Fne; subst. now apply render_comp_nonempty.
    - rewrite map_cons, map_cons, join_with_cons. inversion Fne; subst.
      intro E. apply (render_comp_nonempty k0 i0); [assumption|].
      destruct (render_comp (k0, i0)); [reflexivity|discriminate]. }
  unfold lookup. destruct (String.eqb_spec (render_spath p) ""); [contradiction|].
  rewrite lookup_comps_get_path. unfold split_dots, render_spath.
  rewrite split_join.
  - rewrite !map_map.
    assert (E : map (fun x => comp_parse (sl (la (render_comp x)))) p = p).
    { clear -Fs. induction Fs as [|[k0 i0] r0 Hk _ IH]; [reflexivity|]. simpl. rewrite IH. f_equal.
      rewrite sl_la. apply comp_parse_render. now apply key_safe_plain. }
    rewrite E. symmetry. now apply get_steps_path.
  - intro E. apply map_eq_nil in E. contradiction.
  - apply Forall_map. eapply Forall_impl; [|exact Fs]. intros [k0 i0] Hc. simpl in Hc.
    apply nodot_render_comp. now apply key_safe_nodot.
Qed.

(* ---------- Flatten = rendered step lists *)
Definition fs_list := fix go (l : list node) (i : nat) : list (list step * scalar) :=
  match l with
  | [] => []
  | x :: r => map (fun e => (I i :: fst e, snd e)) (flatten_steps x) ++ go r (S i)
  end.
Definition fs_kvs := fix go (l : list (string * node)) : list (list step * scalar) :=
  match l with
  | [] => []
  | (k, x) :: r => map (fun e => (K k :: fst e, snd e)) (flatten_steps x) ++ go r
  end.
Definition fn_list (path : string) := fix go (l : list node) (i : nat) : list (string * scalar) :=
  match l with
  | [] => []
  | x :: r => flatten_node x (idx_path path i) ++ go r (S i)
  end.
Definition fn_kvs (path : string) := fix go (l : list (string * node)) : list (string * scalar) :=
  match l with
  | [] => []
  | (k, x) :: r => flatten_node x (to_path path k) ++ go r
  end.

Lemma flatten_steps_lst xs : flatten_steps (Lst xs) = fs_list xs 0. Proof. reflexivity. Qed.
Lemma flatten_steps_con kvs : flatten_steps (Con kvs) = fs_kvs kvs. Proof. reflexivity. Qed.
Lemma flatten_node_lst xs p : flatten_node (Lst xs) p = fn_list p xs 0. Proof. reflexivity. Qed.
Lemma flatten_node_con kvs p : flatten_node (Con kvs) p = fn_kvs p kvs. Proof. reflexivity. Qed.

Definition rend (acc : string) (e : list step * scalar) : string * scalar :=
  (fold_left render_step (fst e) acc, snd e).

Theorem flatten_node_steps : forall n acc,
  flatten_node n acc = map (rend acc) (flatten_steps n).
Proof.
  induction n as [v|xs IH|kvs IH] using node_ind'; intros acc.
  - reflexivity.
  - rewrite flatten_node_lst, flatten_steps_lst. generalize 0 as i.
    induction IH as [|x r Hx _ IHr]; intros i; [reflexivity|].
    simpl. rewrite map_app, map_map, IHr, Hx. f_equal.
  - rewrite flatten_node_con, flatten_steps_con.
    induction IH as [|[k x] r Hx _ IHr]; [reflexivity|].
    simpl. simpl in Hx. rewrite map_app, map_map, IHr, Hx. f_equal.
Qed.

Corollary flatten_steps_render d :
  flatten d = map (fun e => (render_steps (fst e), snd e)) (flatten_steps d).
Proof. unfold flatten. rewrite flatten_node_steps. reflexivity. Qed.

(* ---------- every flattened step list resolves to its leaf *)
Lemma In_fs_list : forall xs i sigma v,
  In (sigma, v) (fs_list xs i) ->
  exists j x rest, sigma = I (i + j) :: rest /\ nth_error xs j = Some x /\ In (rest, v) (flatten_steps x).
Proof.
  induction xs as [|x r IH]; intros i sigma v H; [contradiction|].
  simpl in H. apply in_app_or in H as [H|H].
  - apply in_map_iff in H as [[rest w] [E Hin]]. simpl in E. injection E as <- <-.
    exists 0, x, rest. rewrite Nat.add_0_r. auto.
  - apply IH in H as [j [y [rest [E [N Hin]]]]]. exists (S j), y, rest.
    rewrite <- Nat.add_succ_comm. auto.
Qed.

Lemma In_fs_kvs : forall kvs sigma v,
  In (sigma, v) (fs_kvs kvs) ->
  exists k x rest, sigma = K k :: rest /\ In (k, x) kvs /\ In (rest, v) (flatten_steps x).
Proof.
  induction kvs as [|[k x] r IH]; intros sigma v H; [contradiction|].
  simpl in H. apply in_app_or in H as [H|H].
  - apply in_map_iff in H as [[rest w] [E Hin]]. simpl in E. injection E as <- <-.
    exists k, x, rest. simpl. auto.
  - apply IH in H as [k' [y [rest [E [N Hin]]]]]. exists k', y, rest. simpl. auto.
Qed.

Theorem flatten_steps_get : forall d sigma v,
  wf d = true -> In (sigma, v) (flatten_steps d) -> get_steps sigma d = Some (Leaf v).
Proof.
  induction d as [w|xs IH|kvs IH] using node_ind'; intros sigma v W H.
  - simpl in H. destruct H as [[= <- <-]|[]]. reflexivity.
  - rewrite flatten_steps_lst in H. apply In_fs_list in H as [j [x [rest [-> [N Hin]]]]].
    simpl. rewrite N. rewrite Forall_forall in IH. apply (IH x (nth_error_In _ _ N)); [|exact Hin].
    simpl in W. rewrite forallb_forall in W. apply W. eapply nth_error_In; eauto.
  - rewrite flatten_steps_con in H. apply In_fs_kvs in H as [k [x [rest [-> [Hk Hin]]]]].
    simpl in W. apply andb_prop in W as [S W].
    simpl. rewrite (in_get k x kvs (sorted_nodup kvs S) Hk).
    rewrite Forall_forall in IH. apply (IH (k, x) Hk); auto.
    rewrite forallb_forall in W. apply (W (k, x) Hk).
Qed.

Theorem flatten_steps_safe : forall d sigma v,
  keys_safe d = true -> In (sigma, v) (flatten_steps d) -> forallb step_safe sigma = true.
Proof.
  unfold keys_safe.
  induction d as [w|xs IH|kvs IH] using node_ind'; intros sigma v W H.
  - simpl in H. destruct H as [[= <- <-]|[]]. reflexivity.
  - rewrite flatten_steps_lst in H. apply In_fs_list in H as [j [x [rest [-> [N Hin]]]]].
    simpl. rewrite Forall_forall in IH. apply (IH x (nth_error_In _ _ N) rest v); [|exact Hin].
    simpl in W. rewrite forallb_forall in W. apply W. eapply nth_error_In; eauto.
  - rewrite flatten_steps_con in H. apply In_fs_kvs in H as [k [x [rest [-> [Hk Hin]]]]].
    simpl in W. rewrite forallb_forall in W. specialize (W (k, x) Hk). simpl in W.
    apply andb_prop in W as [W1 W2]. simpl. rewrite W1. simpl.
    rewrite Forall_forall in IH. apply (IH (k, x) Hk _ v); auto.
Qed.

(* ---------- C02: Lookup resolves every flattened path to that leaf *)
Theorem lookup_flatten kvs p v :
  wf (Con kvs) = true -> keys_safe (Con kvs) = true ->
  In (p, v) (flatten (Con kvs)) -> lookup p (Con kvs) = Some (Leaf v).
Proof.
  intros W S H. rewrite flatten_steps_render in H.
  apply in_map_iff in H as [[sigma w] [E Hin]]. simpl in E. injection E as <- <-.
  pose proof (flatten_steps_safe _ _ _ S Hin) as Ss.
  pose proof (flatten_steps_get _ _ _ W Hin) as G.
  rewrite flatten_steps_con in Hin. apply In_fs_kvs in Hin as [k [x [rest [-> _]]]].
  rewrite lookup_render_steps by exact Ss. exact G.
Qed.

(* ---------- |Flatten| = number of scalar positions *)
Fixpoint scalar_count (n : node) : nat :=
  match n with
  | Leaf _ => 1
  | Lst xs => fold_right (fun x acc => scalar_count x + acc) 0 xs
  | Con kvs => fold_right (fun kv acc => scalar_count (snd kv) + acc) 0 kvs
  end.

Theorem flatten_steps_count : forall d, List.length (flatten_steps d) = scalar_count d.
Proof.
  induction d as [w|xs IH|kvs IH] using node_ind'; [reflexivity| |].
  - rewrite flatten_steps_lst. simpl.
    assert (A : forall i, List.length (fs_list xs i) = fold_right (fun x acc => scalar_count x + acc) 0 xs).
    { induction IH as [|x r Hx _ IHr]; intros i; [reflexivity|].
      simpl. rewrite app_length, map_length, Hx, IHr. reflexivity. }
    apply A.
  - rewrite flatten_steps_con. simpl.
    induction IH as [|[k x] r Hx _ IHr]; [reflexivity|].
    simpl. simpl in Hx. rewrite app_length, map_length, Hx, IHr. reflexivity.
Qed.

Corollary flatten_count d : List.length (flatten d) = scalar_count d.
Proof. rewrite flatten_steps_render, map_length. apply flatten_steps_count. Qed.

(* ---------- completeness: every scalar position is listed *)
Lemma fs_list_In : forall xs i j x rest v,
  nth_error xs j = Some x -> In (rest, v) (flatten_steps x) -> In (I (i + j) :: rest, v) (fs_list xs i).
Proof.
  induction xs as [|y r IH]; intros i j x rest v N Hin; [destruct j; discriminate|].
  simpl. apply in_or_app. destruct j as [|j].
  - left. simpl in N. injection N as ->. rewrite Nat.add_0_r.
    apply in_map_iff. exists (rest, v). auto.
  - right. replace (i + S j) with (S i + j) by lia. eapply IH; eauto.
Qed.

Lemma fs_kvs_In : forall kvs k x rest v,
  In (k, x) kvs -> In (rest, v) (flatten_steps x) -> In (K k :: rest, v) (fs_kvs kvs).
Proof.
  induction kvs as [|[k' y] r IH]; intros k x rest v Hk Hin; [contradiction|].
  simpl. apply in_or_app. destruct Hk as [[= -> ->]|Hk].
  - left. apply in_map_iff. exists (rest, v). auto.
  - right. eapply IH; eauto.
Qed.

Theorem flatten_steps_complete : forall d sigma v,
  get_steps sigma d = Some (Leaf v) -> In (sigma, v) (flatten_steps d).
Proof.
  induction d as [w|xs IH|kvs IH] using node_ind'; intros sigma v G.
  - destruct sigma as [|[k|i] r]; simpl in G; try discriminate. injection G as ->. left. reflexivity.
  - destruct sigma as [|[k|i] r]; simpl in G; try discriminate.
    destruct (nth_error xs i) as [x|] eqn:N; [|discriminate].
    rewrite flatten_steps_lst. change i with (0 + i). eapply fs_list_In; eauto.
    rewrite Forall_forall in IH. apply IH; auto. eapply nth_error_In; eauto.
  - destruct sigma as [|[k|i] r]; simpl in G; try discriminate.
    destruct (kv_get k kvs) as [x|] eqn:N; [|discriminate].
    rewrite flatten_steps_con. apply get_in in N. eapply fs_kvs_In; eauto.
    rewrite Forall_forall in IH. apply (IH (k, x) N); auto.
Qed.

(* ---------- distinct positions have distinct paths (injectivity of rendering on safe steps) *)
Lemma render_steps_group k r :
  forallb step_safe (K k :: r) = true ->
  map comp_parse (split_dots (render_steps (K k :: r))) = group (K k :: r).
Proof.
  intros S. set (sigma := K k :: r) in *. set (p := group sigma).
  assert (Hp : steps_of p = sigma) by apply group_spec.
  assert (NE : p <> []). { intro E. rewrite E in Hp. discriminate. }
  pose proof (group_safe sigma S) as Fs. fold p in Fs.
  assert (Fne : Forall (fun c => fst c <> ""%string) p).
  { eapply Forall_impl; [|exact Fs]. intros c Hc. now apply key_safe_chars in Hc as [? _]. }
  unfold render_steps. rewrite <- Hp, render_steps_from by assumption.
  unfold dot_join. simpl String.eqb. cbv iota.
  unfold split_dots, render_spath. rewrite split_join.
  - rewrite !map_map. clear -Fs. induction Fs as [|[k0 i0] r0 Hk _ IH]; [reflexivity|].
    simpl. rewrite IH. f_equal. rewrite sl_la. apply comp_parse_render. now apply key_safe_plain.
  - intro E. apply map_eq_nil in E. contradiction.
  - apply Forall_map. eapply Forall_impl; [|exact Fs]. intros [k0 i0] Hc. simpl in Hc.
    apply nodot_render_comp. now apply key_safe_nodot.
Qed.

Theorem render_steps_inj k r k' r' :
  forallb step_safe (K k :: r) = true -> forallb step_safe (K k' :: r') = true ->
  render_steps (K k :: r) = render_steps (K k' :: r') -> K k :: r = K k' :: r'.
Proof.
  intros S S' E. rewrite <- (group_spec k r), <- (group_spec k' r').
  rewrite <- (render_steps_group k r S), <- (render_steps_group k' r' S'), E. reflexivity.
Qed.
