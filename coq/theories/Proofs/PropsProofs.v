From Coq Require Import List String Ascii ZArith Lia Bool Arith Permutation.
From YT Require Import Base.Str Base.KV Base.Sort Model.Doc Model.Dom Model.Builder Model.Props Proofs.BuilderProofs.
Import ListNotations.
Local Open Scope list_scope.

(* ---------- determinism: the processing order is a function of the key set *)
Lemma fk_nodup {A} k (l : list (string * A)) : NoDup (map fst l) ->
  fk fst k l = match kv_get k l with Some v => [(k, v)] | None => [] end.
Proof.
  induction l as [|[k' v'] r IH]; intros ND; [reflexivity|].
  inversion ND as [|? ? Hnotin ND']; subst. unfold fk in *. simpl.
  destruct (String.eqb_spec k' k) as [->|N].
  - rewrite String.eqb_refl. f_equal. rewrite IH by exact ND'.
    rewrite get_none_notin; [reflexivity|exact Hnotin].
  - destruct (String.eqb_spec k k'); [congruence|]. now apply IH.
Qed.

Lemma kv_get_perm' {A} (l l' : list (string * A)) q :
  NoDup (map fst l) -> Permutation l l' -> kv_get q l = kv_get q l'.
Proof.
  intros ND P.
  assert (ND' : NoDup (map fst l')) by (eapply Permutation_NoDup; [apply Permutation_map; exact P|exact ND]).
  destruct (kv_get q l) as [v|] eqn:G.
  - symmetry. apply in_get; auto. eapply Permutation_in; [exact P|]. now apply get_in.
  - destruct (kv_get q l') as [v'|] eqn:G'; [|reflexivity].
    apply get_in in G'. apply (Permutation_in _ (Permutation_sym P)) in G'.
    apply in_get in G'; auto. congruence.
Qed.

Theorem sort_kv_perm kv kv' : NoDup (map fst kv) -> Permutation kv kv' -> sort_kv kv = sort_kv kv'.
Proof.
  intros ND P. unfold sort_kv. apply stable_sort_unique. intros k.
  assert (ND' : NoDup (map fst kv')) by (eapply Permutation_NoDup; [apply Permutation_map; exact P|exact ND]).
  rewrite !fk_nodup by assumption. now rewrite (kv_get_perm' kv kv' k ND P).
Qed.

(* "Decoding the same text always yields the same document, whatever the keys": the result does
   not depend on the order in which the Go map hands out its entries *)
Theorem unflatten_deterministic kv kv' :
  NoDup (map fst kv) -> Permutation kv kv' -> unflatten kv = unflatten kv'.
Proof. intros ND P. unfold unflatten. now rewrite (sort_kv_perm kv kv' ND P). Qed.

Theorem from_properties_deterministic kv kv' :
  NoDup (map fst kv) -> Permutation kv kv' -> from_properties kv = from_properties kv'.
Proof. intros ND P. unfold from_properties. now rewrite (sort_kv_perm kv kv' ND P). Qed.

(* ---------- conflict-free key sets: every pair is a leaf of the tree, in ANY processing order *)
Lemma get_dotted_nil_kvs p : get_dotted p [] = None.
Proof. destruct p as [|x [|y r]]; reflexivity. Qed.

Lemma get_unflatten_same : forall pc v kvs, pc <> [] -> get_dotted pc (unflatten_set pc v kvs) = Some v.
Proof.
  induction pc as [|c r IH]; intros v kvs NE; [contradiction|].
  destruct r as [|c' r'].
  - simpl. apply kv_get_set_same.
  - change (unflatten_set (c :: c' :: r') v kvs) with
      (kv_set c (Con (unflatten_set (c' :: r') v (match kv_get c kvs with Some (Con s) => s | _ => [] end))) kvs).
    change (get_dotted (c :: c' :: r') ?K) with
      (match kv_get c K with Some (Con s) => get_dotted (c' :: r') s | _ => None end).
    rewrite kv_get_set_same. apply IH. discriminate.
Qed.

Lemma get_unflatten_other : forall p q v kvs,
  conflict p q = false -> get_dotted p (unflatten_set q v kvs) = get_dotted p kvs.
Proof.
  induction p as [|x p' IH]; intros q v kvs C; [discriminate|].
  destruct q as [|y q']; [unfold conflict in C; simpl in C; discriminate|].
  unfold conflict in C. simpl in C.
  destruct (String.eqb_spec x y) as [->|N].
  - rewrite String.eqb_refl in C. simpl in C.
    destruct p' as [|x' p'']; [discriminate|]. destruct q' as [|y' q'']; [simpl in C; discriminate|].
    change (unflatten_set (y :: y' :: q'') v kvs) with
      (kv_set y (Con (unflatten_set (y' :: q'') v (match kv_get y kvs with Some (Con s) => s | _ => [] end))) kvs).
    change (get_dotted (y :: x' :: p'') ?K) with
      (match kv_get y K with Some (Con s) => get_dotted (x' :: p'') s | _ => None end).
    rewrite kv_get_set_same. rewrite IH by exact C.
    destruct (kv_get y kvs) as [[| |s]|]; try reflexivity; apply get_dotted_nil_kvs.
  - assert (Hset : forall w, kv_get x (kv_set y w kvs) = kv_get x kvs) by (intros; now apply kv_get_set_other).
    destruct q' as [|y' q'']; destruct p' as [|x' p''];
      cbn [unflatten_set get_dotted]; rewrite Hset; reflexivity.
Qed.

Definition step_un (acc : list (string * node)) (e : string * node) :=
  unflatten_set (split_dots (fst e)) (snd e) acc.

Lemma fold_preserves : forall kv acc p w,
  get_dotted p acc = Some w ->
  Forall (fun e => conflict p (split_dots (fst e)) = false) kv ->
  get_dotted p (fold_left step_un kv acc) = Some w.
Proof.
  induction kv as [|e r IH]; intros acc p w G F; [exact G|].
  inversion F as [|? ? He Fr]; subst. simpl. apply IH; [|exact Fr].
  unfold step_un. now rewrite get_unflatten_other.
Qed.

(* pairwise: no key is a dotted prefix of another (this also forbids equal keys) *)
Fixpoint conflict_free (kv : list (string * node)) : Prop :=
  match kv with
  | [] => True
  | e :: r => Forall (fun e' => conflict (split_dots (fst e)) (split_dots (fst e')) = false) r /\ conflict_free r
  end.

Lemma conflict_sym p q : conflict p q = conflict q p.
Proof. unfold conflict. apply orb_comm. Qed.

Theorem unflatten_pairs : forall kv acc k v,
  conflict_free kv -> In (k, v) kv ->
  get_dotted (split_dots k) (fold_left step_un kv acc) = Some v.
Proof.
  induction kv as [|e r IH]; intros acc k v CF Hin; [contradiction|].
  destruct CF as [F CF]. simpl. destruct Hin as [->|Hin].
  - apply fold_preserves; [|exact F]. unfold step_un. simpl. apply get_unflatten_same.
    apply split_dots_nonempty.
  - now apply IH.
Qed.

Corollary unflatten_ord_pairs kv k v :
  conflict_free kv -> In (k, v) kv -> get_dotted (split_dots k) (unflatten_ord kv) = Some v.
Proof. intros CF Hin. unfold unflatten_ord. now apply (unflatten_pairs kv [] k v). Qed.

(* ---------- exactness: the tree has no other leaves than the decoded pairs *)
Lemma get_unflatten_set_cases : forall pc q v kvs x,
  is_con v = false ->
  get_dotted q (unflatten_set pc v kvs) = Some x -> is_con x = false ->
  (q = pc /\ x = v) \/ get_dotted q kvs = Some x.
Proof.
  induction pc as [|c r IH]; intros q v kvs x Hv G Hx; [now right|].
  destruct r as [|c' r'].
  - (* last component *)
    simpl in G. destruct q as [|k qr]; [discriminate|].
    destruct qr as [|k' qr'].
    + simpl in *. destruct (String.eqb_spec k c) as [->|NE].
      * rewrite kv_get_set_same in G. injection G as <-. now left.
      * rewrite kv_get_set_other in G by exact NE. now right.
    + change (get_dotted (k :: k' :: qr') ?K) with
        (match kv_get k K with Some (Con s) => get_dotted (k' :: qr') s | _ => None end) in *.
      destruct (String.eqb_spec k c) as [->|NE].
      * rewrite kv_get_set_same in G. destruct v; try discriminate.
      * rewrite kv_get_set_other in G by exact NE. now right.
  - change (unflatten_set (c :: c' :: r') v kvs) with
      (kv_set c (Con (unflatten_set (c' :: r') v (match kv_get c kvs with Some (Con s) => s | _ => [] end))) kvs) in G.
    destruct q as [|k qr]; [discriminate|].
    destruct qr as [|k' qr'].
    + simpl in *. destruct (String.eqb_spec k c) as [->|NE].
      * rewrite kv_get_set_same in G. injection G as <-. discriminate.
      * rewrite kv_get_set_other in G by exact NE. now right.
    + change (get_dotted (k :: k' :: qr') ?K) with
        (match kv_get k K with Some (Con s) => get_dotted (k' :: qr') s | _ => None end) in *.
      destruct (String.eqb_spec k c) as [->|NE].
      * rewrite kv_get_set_same in G.
        apply IH in G; [|exact Hv|exact Hx]. destruct G as [[-> ->]|G]; [now left|right].
        destruct (kv_get c kvs) as [[w|xs|s]|]; try (now rewrite get_dotted_nil_kvs in G). exact G.
      * rewrite kv_get_set_other in G by exact NE. now right.
Qed.

Theorem unflatten_exact : forall kv acc q x,
  Forall (fun e => is_con (snd e) = false) kv ->
  get_dotted q (fold_left step_un kv acc) = Some x -> is_con x = false ->
  (exists k, In (k, x) kv /\ split_dots k = q) \/ get_dotted q acc = Some x.
Proof.
  induction kv as [|[k v] r IH]; intros acc q x F G Hx; [now right|].
  inversion F as [|? ? Hv Fr]; subst. simpl in G, Hv.
  apply IH in G; [|exact Fr|exact Hx]. destruct G as [[k' [Hin E]]|G].
  - left. exists k'. split; [now right|exact E].
  - unfold step_un in G. simpl in G.
    apply get_unflatten_set_cases in G; [|exact Hv|exact Hx].
    destruct G as [[-> ->]|G]; [|now right]. left. exists k. split; [now left|reflexivity].
Qed.

Corollary unflatten_ord_exact kv q x :
  Forall (fun e => is_con (snd e) = false) kv ->
  get_dotted q (unflatten_ord kv) = Some x -> is_con x = false ->
  exists k, In (k, x) kv /\ split_dots k = q.
Proof.
  intros F G Hx. unfold unflatten_ord in G.
  destruct (unflatten_exact kv [] q x F G Hx) as [H|H]; [exact H|].
  now rewrite get_dotted_nil_kvs in H.
Qed.
