From Coq Require Import List String Ascii ZArith NArith Lia Bool Arith.
From YT Require Import Base.Str Base.KV Model.Doc Model.Dom Model.Pointer.
Import ListNotations.
Local Open Scope list_scope.

Lemma esc_app a b : esc (a ++ b) = esc a ++ esc b.
Proof.
  induction a as [|c a IH]; simpl; [reflexivity|].
  destruct (N.eqb c TILDE); [simpl; now rewrite IH|].
  destruct (N.eqb c SLASH); simpl; now rewrite IH.
Qed.

(* scanning an escaped token followed by [rest]: the token is appended to the current segment *)
Lemma scan_esc t : forall cs rest,
  scan (esc t ++ rest) cs = scan rest (cs ++ t).
Proof.
  induction t as [|c t IH]; intros cs rest; simpl.
  - now rewrite app_nil_r.
  - destruct (N.eqb_spec c TILDE) as [->|NT].
    + simpl. rewrite IH, <- app_assoc. reflexivity.
    + destruct (N.eqb_spec c SLASH) as [->|NS].
      * simpl. rewrite IH, <- app_assoc. reflexivity.
      * simpl. destruct (N.eqb_spec c TILDE); [contradiction|].
        destruct (N.eqb_spec c SLASH); [contradiction|].
        rewrite IH, <- app_assoc. reflexivity.
Qed.

Lemma scan_print : forall toks t cs,
  scan (esc t ++ ptr_print toks) cs = (cs ++ t) :: toks.
Proof.
  induction toks as [|t' toks IH]; intros t cs.
  - simpl. rewrite scan_esc. reflexivity.
  - simpl. rewrite scan_esc. simpl. rewrite IH. reflexivity.
Qed.

Theorem parse_print toks : ptr_parse (ptr_print toks) = Ok toks.
Proof.
  destruct toks as [|t toks]; [reflexivity|].
  simpl. rewrite scan_print. reflexivity.
Qed.

(* ---- the other direction, on the RFC grammar *)
Definition print_from (cs : list N) (toks : list (list N)) : list N :=
  match toks with
  | [] => []
  | t :: r => esc cs ++ ptr_print (t :: r)
  end.

Lemma print_scan_aux : forall n s, List.length s <= n -> forall cs,
  valid_body s = true ->
  ptr_print (scan s cs) = SLASH :: esc cs ++ s.
Proof.
  induction n as [|n IH]; intros s Hlen cs V.
  - destruct s; [|simpl in Hlen; lia]. simpl. now rewrite !app_nil_r.
  - destruct s as [|c r]; [simpl; now rewrite !app_nil_r|].
    simpl in Hlen. simpl in V. simpl.
    destruct (N.eqb_spec c TILDE) as [->|NT].
    + destruct r as [|d r']; [discriminate|].
      apply andb_prop in V as [Vd V']. simpl in Hlen.
      destruct (N.eqb_spec d ONE) as [->|N1].
      * rewrite (IH r' ltac:(lia) _ V').
        rewrite esc_app. simpl. rewrite <- app_assoc. reflexivity.
      * destruct (N.eqb_spec d ZERO) as [->|N0]; [|simpl in Vd; discriminate].
        rewrite (IH r' ltac:(lia) _ V').
        rewrite esc_app. simpl. rewrite <- app_assoc. reflexivity.
    + destruct (N.eqb_spec c SLASH) as [->|NS].
      * simpl. rewrite (IH r ltac:(lia) _ V). simpl. reflexivity.
      * rewrite (IH r ltac:(lia) _ V).
        rewrite esc_app. simpl.
        destruct (N.eqb_spec c TILDE); [contradiction|].
        destruct (N.eqb_spec c SLASH); [contradiction|].
        rewrite <- app_assoc. reflexivity.
Qed.

Theorem print_parse s : valid6901 s = true ->
  exists toks, ptr_parse s = Ok toks /\ ptr_print toks = s.
Proof.
  destruct s as [|c r]; simpl; intros V.
  - exists []. split; reflexivity.
  - apply andb_prop in V as [Vc V]. apply N.eqb_eq in Vc. subst c. simpl.
    exists (scan r []). split; [reflexivity|].
    rewrite (print_scan_aux (List.length r) r (le_n _) [] V). reflexivity.
Qed.

Theorem parse_rejects c r : c <> SLASH -> ptr_parse (c :: r) = Err.
Proof. intros H. simpl. destruct (N.eqb_spec c SLASH); [contradiction|reflexivity]. Qed.

Lemma scan_nonempty_aux : forall n s, List.length s <= n -> forall cs, scan s cs <> [].
Proof.
  induction n as [|n IH]; intros s Hlen cs.
  - destruct s; [simpl; discriminate|simpl in Hlen; lia].
  - destruct s as [|c r]; simpl; [discriminate|]. simpl in Hlen.
    destruct (N.eqb c TILDE).
    + destruct r as [|d r']; [simpl; discriminate|]. simpl in Hlen.
      destruct (N.eqb d ONE); [apply IH; lia|].
      destruct (N.eqb d ZERO); [apply IH; lia|]. apply IH; simpl; lia.
    + destruct (N.eqb c SLASH); [discriminate|]. apply IH; lia.
Qed.
Lemma scan_nonempty s cs : scan s cs <> [].
Proof. exact (scan_nonempty_aux _ s (le_n _) cs). Qed.

(* a parsed non-empty pointer always has at least one token (the trailing empty token is kept) *)
Theorem parse_nonempty c r toks : ptr_parse (c :: r) = Ok toks -> toks <> [].
Proof.
  simpl. destruct (N.eqb c SLASH); [|discriminate]. intros [= <-]. apply scan_nonempty.
Qed.

(* ---- evaluation *)
Lemma child_plain t kvs : plain_tok t = true -> child t kvs = kv_get t kvs.
Proof.
  unfold plain_tok, child, comp_parse. intros H.
  destruct (rev (la t)) as [|c r] eqn:E.
  - simpl. assert (t = ""%string) as ->.
    { apply (f_equal (@rev _)) in E. rewrite rev_involutive in E. simpl in E.
      rewrite <- (sl_la t), E. reflexivity. }
    simpl. destruct (kv_get ""%string kvs); reflexivity.
  - cbn [List.length strip_chain]. destruct (strip_index (c :: r)); [discriminate|].
    rewrite <- E, rev_involutive, sl_la. destruct (kv_get t kvs); reflexivity.
Qed.

(* evaluation IS the RFC 6901 reference, for every pointer (no condition on the tokens any more) *)
Theorem eval_from_is_rfc : forall p d, snd (ptr_eval_from p d) = rfc6901_eval p d.
Proof.
  induction p as [|t r IH]; intros d; [reflexivity|]. simpl.
  destruct d as [v|xs|kvs]; [reflexivity| |].
  - destruct (canon_index t) as [i|]; [|reflexivity].
    destruct (nth_error xs i) as [x|]; [|reflexivity].
    specialize (IH x). destruct (ptr_eval_from r x). simpl in *. exact IH.
  - destruct (kv_get t kvs) as [x|]; [|reflexivity].
    specialize (IH x). destruct (ptr_eval_from r x). simpl in *. exact IH.
Qed.

Theorem eval_is_rfc p d : snd (ptr_eval p d) = rfc6901_eval p d.
Proof. destruct p as [|t r]; [reflexivity|]. apply eval_from_is_rfc. Qed.

Theorem eval_from_refines_rfc : forall p d,
  forallb plain_tok p = true -> snd (ptr_eval_from p d) = rfc6901_eval p d.
Proof. intros p d _. apply eval_from_is_rfc. Qed.

Theorem eval_refines_rfc p d :
  forallb plain_tok p = true -> snd (ptr_eval p d) = rfc6901_eval p d.
Proof. intros _. apply eval_is_rfc. Qed.

(* when the pointer resolves, the trail has one node per token and ends with the result *)
Theorem eval_from_trail : forall p d tr n,
  p <> [] -> ptr_eval_from p d = (tr, Some n) ->
  List.length tr = List.length p /\ last tr d = n.
Proof.
  induction p as [|t r IH]; intros d tr n NE E; [contradiction|].
  simpl in E.
  assert (forall x, ptr_eval_from r x = ptr_eval_from r x) as _ by reflexivity.
  assert (Hstep : forall x, (let '(tr0, res) := ptr_eval_from r x in (x :: tr0, res)) = (tr, Some n) ->
                  List.length tr = S (List.length r) /\ last tr d = n).
  { intros x Hx. destruct (ptr_eval_from r x) as [tr0 res] eqn:Er.
    injection Hx as <- ->. destruct r as [|t' r'].
    - simpl in Er. injection Er as <- <-. simpl. auto.
    - destruct (IH x tr0 n ltac:(discriminate) Er) as [L1 L2]. split; [cbn [List.length] in *; lia|].
      destruct tr0 as [|y tr1]; [simpl in L1; discriminate|].
      change (last (x :: y :: tr1) d) with (last (y :: tr1) d).
      rewrite <- L2. clear. revert y. induction tr1 as [|z tr1 IHt]; intros y; [reflexivity|].
      change (last (y :: z :: tr1) d) with (last (z :: tr1) d).
      change (last (y :: z :: tr1) x) with (last (z :: tr1) x). apply IHt. }
  destruct d as [v|xs|kvs]; [discriminate| |].
  - destruct (canon_index t) as [i|]; [|discriminate].
    destruct (nth_error xs i) as [x|]; [|discriminate]. exact (Hstep x E).
  - destruct (kv_get t kvs) as [x|]; [|discriminate]. exact (Hstep x E).
Qed.

(* no step is ever taken from a leaf, a missing member or an out-of-range index: the result is
   None (never a panic; totality of the definition is the "never panics" clause) *)
Theorem eval_leaf_none t r v : snd (ptr_eval (t :: r) (Leaf v)) = None.
Proof. reflexivity. Qed.
