(* Proofs/ReconstructKeyedProofs.v — reconstruction for documents that differ by added and removed
   keys (at any depth; lists, where both sides have one, identical): after Apply(R, Diff(L,R)) every
   flattened path of L resolves to its leaf.  Every modification of such a diff is an Add of a leaf
   position of L or a Delete of a position absent from L; both kinds diverge from every other leaf
   position of L, so no modification disturbs a leaf that is already in place — whatever the order. *)
From Coq Require Import List String Ascii ZArith Lia Bool Arith Permutation.
From YT Require Import Base.Str Base.KV Base.Sort Model.Doc Model.Dom Model.Pointer Model.Path Model.Builder
  Model.Equals Model.Diff Model.Apply
  Proofs.StrProofs Proofs.EqualsProofs Proofs.BuilderProofs Proofs.PathProofs Proofs.FrameProofs Proofs.RebuildProofs
  Proofs.DiffProofs Proofs.DiffOrderProofs Proofs.DiffNilProofs Proofs.ApplyProofs Proofs.ApplyLookupProofs
  Proofs.ReconstructProofs.
Import ListNotations.
Local Open Scope list_scope.

(* R agrees with L wherever both define a position; lists present on both sides are identical *)
Fixpoint compat_k (l r : node) {struct l} : Prop :=
  match l, r with
  | Leaf a, Leaf b => a = b
  | Lst xs, Lst ys => xs = ys
  | Con kl, Con kr =>
      fold_right (fun kx acc =>
                    match kx with
                    | (k, x) => match kv_get k kr with Some y => compat_k x y | None => True end /\ acc
                    end) True kl
  | _, _ => False
  end.

Lemma compat_k_con kl kr :
  compat_k (Con kl) (Con kr) <->
  forall k x y, In (k, x) kl -> kv_get k kr = Some y -> compat_k x y.
Proof.
  cbn [compat_k]. induction kl as [|[k x] rest IH].
  - split; [intros _ k x y []|intros _; exact Logic.I].
  - cbn [fold_right]. split.
    + intros [H1 H2] k' x' y' [E|Hin] G.
      * injection E as <- <-. now rewrite G in H1.
      * rewrite IH in H2. eapply H2; eauto.
    + intros H. split.
      * destruct (kv_get k kr) as [y|] eqn:G; [|trivial]. apply (H k x y); [now left|exact G].
      * rewrite IH. intros k' x' y' Hin G. apply (H k' x' y'); [now right|exact G].
Qed.

(* a position absent from l whose parent container exists in l *)
Definition del_pos (l : node) (tau : list step) : Prop :=
  exists pi k kl', tau = pi ++ [K k] /\ get_steps pi l = Some (Con kl') /\ kv_get k kl' = None /\
                   key_safe k = true /\ forallb step_safe pi = true.

Definition relpath (path : string) (tau : list step) : string := fold_left render_step tau path.

Lemma relpath_cons path s tau : relpath path (s :: tau) = relpath (render_step path s) tau.
Proof. reflexivity. Qed.

Lemma del_pos_under_key k x kl tau :
  kv_get k kl = Some x -> key_safe k = true -> del_pos x tau -> del_pos (Con kl) (K k :: tau).
Proof.
  intros G Sk [pi [k' [kl' [-> [Gp [Gn [Sk' Sp]]]]]]].
  exists (K k :: pi), k', kl'. repeat split; auto.
  - simpl. now rewrite G.
  - simpl. now rewrite Sk, Sp.
Qed.

(* ---------- classification of the modifications, and completeness of the Adds *)
Definition mod_class (l : node) (path : string) (m : modif) : Prop :=
  exists tau, mpath m = relpath path tau /\
    ((mt m = MAdd /\ In (tau, mval m) (flatten_steps l)) \/ (mt m = MDelete /\ del_pos l tau)).

Lemma adds_class : forall x path m,
  In m (adds canonical x path) -> mt m = MAdd /\ exists tau, mpath m = relpath path tau /\ In (tau, mval m) (flatten_steps x).
Proof.
  intros x path m H. rewrite adds_flatten, flatten_node_steps, map_map in H.
  apply in_map_iff in H as [[tau v] [<- Hin]]. unfold add_of, rend. simpl. split; [reflexivity|].
  exists tau. split; [reflexivity|exact Hin].
Qed.

Lemma in_concat_map {A B} (f : A -> list B) l b : In b (List.concat (map f l)) <-> exists a, In a l /\ In b (f a).
Proof.
  rewrite in_concat. split.
  - intros [x [Hx Hb]]. apply in_map_iff in Hx as [a [<- Ha]]. eauto.
  - intros [a [Ha Hb]]. exists (f a). split; [now apply in_map|exact Hb].
Qed.

Theorem diff_keyed_class : forall l r path,
  wf l = true -> keys_safe l = true -> wf r = true -> keys_safe r = true -> compat_k l r ->
  (forall m, In m (diff_node canonical l r path) -> mod_class l path m) /\
  (forall sigma v, In (sigma, v) (flatten_steps l) ->
     get_steps sigma r = Some (Leaf v) \/
     In (mkMod MAdd (relpath path sigma) v SNull) (diff_node canonical l r path)).
Proof.
  induction l as [a|xs IH|kl IH] using node_ind'; intros r path Wl Sl Wr Sr C.
  - destruct r as [b|ys|kr]; simpl in C; try contradiction. subst b. split.
    + intros m H. simpl in H. now destruct (scalar_eqb_spec a a).
    + intros sigma v H. simpl in H. destruct H as [[= <- <-]|[]]. now left.
  - destruct r as [b|ys|kr]; simpl in C; try contradiction. subst ys. split.
    + intros m H. rewrite diff_node_lst, equals_refl in H by exact Wl. contradiction.
    + intros sigma v H. left. now apply flatten_steps_get.
  - destruct r as [b|ys|kr]; try (simpl in C; contradiction).
    rewrite compat_k_con in C.
    assert (SKl : sorted_keys kl = true) by (simpl in Wl; now apply andb_prop in Wl as [? _]).
    assert (Wk : forall y, In y kl -> wf (snd y) = true).
    { simpl in Wl. apply andb_prop in Wl as [_ Wl]. now rewrite forallb_forall in Wl. }
    assert (Sk : forall y, In y kl -> key_safe (fst y) = true /\ keys_safe (snd y) = true).
    { unfold keys_safe in Sl. simpl in Sl. rewrite forallb_forall in Sl. intros y Hy.
      specialize (Sl y Hy). now apply andb_prop in Sl. }
    assert (Skr : forall y, In y kr -> key_safe (fst y) = true /\ keys_safe (snd y) = true).
    { unfold keys_safe in Sr. simpl in Sr. rewrite forallb_forall in Sr. intros y Hy.
      specialize (Sr y Hy). now apply andb_prop in Sr. }
    rewrite Forall_forall in IH.
    rewrite diff_node_con, dn_left_map. unfold blocks, canonical.
    split.
    + intros m H. apply in_app_or in H as [H|H].
      * unfold dn_left_blocks in H. rewrite map_map in H. apply in_concat_map in H as [[k x] [Hin Hm]].
        simpl in Hm. destruct (Sk _ Hin) as [Sk1 Sk2]. simpl in Sk1, Sk2.
        pose proof (in_get k x kl (sorted_nodup kl SKl) Hin) as Gl.
        rewrite child_plain_key in Hm by now apply key_safe_plain.
        destruct (kv_get k kr) as [y|] eqn:G.
        -- assert (Cy : child k kr = Some y) by (rewrite child_plain_key by (now apply key_safe_plain); exact G).
           assert (Wy : wf y = true) by exact (child_wf k kr y Sk1 Wr Cy).
           assert (Sy : keys_safe y = true) by exact (child_safe k kr y Sk1 Sr Cy).
           destruct (IH (k, x) Hin y (to_path path k) (Wk _ Hin) Sk2 Wy Sy (C k x y Hin G)) as [A1 _].
           destruct (A1 m Hm) as [tau [Ep Hc]]. exists (K k :: tau). split; [exact Ep|].
           destruct Hc as [[Ht Hf]|[Ht Hd]].
           ++ left. split; [exact Ht|]. rewrite flatten_steps_con. eapply fs_kvs_In; eauto.
           ++ right. split; [exact Ht|]. now apply (del_pos_under_key k x).
        -- apply adds_class in Hm as [Ht [tau [Ep Hf]]]. exists (K k :: tau). split; [exact Ep|].
           left. split; [exact Ht|]. rewrite flatten_steps_con. eapply fs_kvs_In; eauto.
      * unfold dn_right in H. rewrite map_map in H. apply in_concat_map in H as [[k y] [Hin Hm]].
        simpl in Hm. destruct (Skr _ Hin) as [Sk1 _]. simpl in Sk1.
        rewrite child_plain_key in Hm by now apply key_safe_plain.
        destruct (kv_get k kl) as [x|] eqn:G; [contradiction|]. destruct Hm as [<-|[]].
        exists [K k]. split; [reflexivity|]. right. split; [reflexivity|].
        exists [], k, kl. repeat split; auto.
    + intros sigma v H. rewrite flatten_steps_con in H.
      apply In_fs_kvs in H as [k [x [rest [-> [Hin Hr]]]]].
      destruct (Sk _ Hin) as [Sk1 Sk2]. simpl in Sk1, Sk2.
      destruct (kv_get k kr) as [y|] eqn:G.
      * assert (Cy : child k kr = Some y) by (rewrite child_plain_key by (now apply key_safe_plain); exact G).
           assert (Wy : wf y = true) by exact (child_wf k kr y Sk1 Wr Cy).
        assert (Sy : keys_safe y = true) by exact (child_safe k kr y Sk1 Sr Cy).
        destruct (IH (k, x) Hin y (to_path path k) (Wk _ Hin) Sk2 Wy Sy (C k x y Hin G)) as [_ A2].
        destruct (A2 rest v Hr) as [Hg|Ha].
        -- left. simpl. now rewrite G.
        -- right. apply in_or_app. left. unfold dn_left_blocks. rewrite map_map. apply in_concat_map.
           exists (k, x). split; [exact Hin|]. simpl.
           rewrite child_plain_key by now apply key_safe_plain. rewrite G. exact Ha.
      * right. apply in_or_app. left. unfold dn_left_blocks. rewrite map_map. apply in_concat_map.
        exists (k, x). split; [exact Hin|]. simpl.
        rewrite child_plain_key by now apply key_safe_plain. rewrite G.
        rewrite adds_flatten, flatten_node_steps, map_map. apply in_map_iff.
        exists (rest, v). split; [reflexivity|exact Hr].
Qed.

(* ---------- a Delete position diverges from every leaf position of l *)
Lemma del_pos_diverge : forall pi l k kl' sigma v,
  wf l = true ->
  get_steps pi l = Some (Con kl') -> kv_get k kl' = None ->
  In (sigma, v) (flatten_steps l) -> diverge (pi ++ [K k]) sigma.
Proof.
  induction pi as [|s pi IH]; intros l k kl' sigma v W G N Hin.
  - simpl in G. injection G as ->. rewrite flatten_steps_con in Hin.
    apply In_fs_kvs in Hin as [k' [x [rest [-> [Hk _]]]]]. simpl. apply d_key.
    intros ->. simpl in W. apply andb_prop in W as [SK _].
    rewrite (in_get k' x kl' (sorted_nodup kl' SK) Hk) in N. discriminate.
  - destruct s as [a|i]; simpl in G.
    + destruct l as [w|xs|kl]; try discriminate.
      destruct (kv_get a kl) as [x|] eqn:Ga; [|discriminate].
      rewrite flatten_steps_con in Hin. apply In_fs_kvs in Hin as [k' [x' [rest [-> [Hk Hr]]]]].
      simpl. destruct (String.eqb_spec a k') as [->|NE]; [|now apply d_key].
      apply d_cons. simpl in W. apply andb_prop in W as [SK W].
      rewrite (in_get k' x' kl (sorted_nodup kl SK) Hk) in Ga. injection Ga as <-.
      rewrite forallb_forall in W. apply (IH x' k kl' rest v (W (k', x') Hk) G N Hr).
    + destruct l as [w|xs|kl]; try discriminate.
      destruct (nth_error xs i) as [x|] eqn:Ni; [|discriminate].
      rewrite flatten_steps_lst in Hin. apply In_fs_list in Hin as [j [x' [rest [-> [Nj Hr]]]]].
      simpl. destruct (Nat.eq_dec i j) as [->|NE]; [|now apply d_idx].
      apply d_cons. rewrite Ni in Nj. injection Nj as <-.
      simpl in W. rewrite forallb_forall in W.
      apply (IH x k kl' rest v (W x (nth_error_In _ _ Ni)) G N Hr).
Qed.

(* ---------- one modification that is harmless for the leaf at sigma *)
Definition harmless (sigma : list step) (v : scalar) (m : modif) : Prop :=
  (mt m = MAdd /\ exists k r, mpath m = render_steps (K k :: r) /\ forallb step_safe (K k :: r) = true /\
                  ((K k :: r = sigma /\ mval m = v) \/ diverge (K k :: r) sigma))
  \/ (mt m = MDelete /\ exists p last, mpath m = render_steps (steps_of p ++ [K last]) /\
        Forall (fun c => key_safe (fst c) = true) p /\ key_safe last = true /\
        diverge (steps_of p ++ [K last]) sigma).

Lemma apply_single_delete path v o kvs :
  apply_single kvs (mkMod MDelete path v o) = remove_at path kvs.
Proof. reflexivity. Qed.

Lemma render_steps_nonempty k r : forallb step_safe (K k :: r) = true -> render_steps (K k :: r) <> ""%string.
Proof.
  intros S E. pose proof (split_dots_render k r S) as H. rewrite E in H.
  pose proof (group_safe (K k :: r) S) as Fs.
  destruct (group (K k :: r)) as [|[k1 i1] [|c2 rest]] eqn:G.
  - pose proof (group_spec k r) as GS. rewrite G in GS. discriminate.
  - simpl in H. injection H as H. inversion Fs as [|? ? Sk _]; subst. simpl in Sk.
    apply key_safe_chars in Sk as [NE _]. symmetry in H. now apply (render_comp_nonempty k1 i1 NE).
  - simpl in H. discriminate.
Qed.

Lemma harmless_keeps k0 r0 v m kvs :
  forallb step_safe (K k0 :: r0) = true ->
  harmless (K k0 :: r0) v m ->
  lookup (render_steps (K k0 :: r0)) (Con kvs) = Some (Leaf v) ->
  lookup (render_steps (K k0 :: r0)) (Con (apply_single kvs m)) = Some (Leaf v).
Proof.
  intros S0 H L. destruct H as [[Ht [k [r [Ep [S [[E Ev]|D]]]]]]|[Ht [p [last [Ep [Fp [Sl D]]]]]]].
  - destruct m as [t pth val old]. cbn [mt mpath mval] in *. injection E as Ek Er. subst k r t pth val.
    rewrite apply_single_add by exact S0.
    apply lookup_add_value_at. now apply render_steps_nonempty.
  - destruct m as [t pth val old]. cbn [mt mpath mval] in *. subst t pth.
    rewrite apply_single_add by exact S.
    rewrite add_value_at_frame; auto. rewrite L. discriminate.
  - destruct m as [t pth val old]. cbn [mt mpath mval] in *. subst t pth.
    rewrite apply_single_delete.
    rewrite remove_at_frame; auto. rewrite L. discriminate.
Qed.

Lemma fold_harmless : forall ms k0 r0 v kvs,
  forallb step_safe (K k0 :: r0) = true ->
  (forall m, In m ms -> harmless (K k0 :: r0) v m) ->
  lookup (render_steps (K k0 :: r0)) (Con kvs) = Some (Leaf v) \/
    In (mkMod MAdd (render_steps (K k0 :: r0)) v SNull) ms ->
  lookup (render_steps (K k0 :: r0)) (Con (fold_left apply_single ms kvs)) = Some (Leaf v).
Proof.
  induction ms as [|m ms IH]; intros k0 r0 v kvs S0 H Hor.
  - destruct Hor as [L|[]]. exact L.
  - simpl. apply IH; [exact S0|intros m' Hm'; apply H; now right|].
    destruct Hor as [L|[E|Hin]].
    + left. apply harmless_keeps; auto. apply H. now left.
    + left. subst m. rewrite apply_single_add by exact S0. apply lookup_add_value_at.
      now apply render_steps_nonempty.
    + now right.
Qed.

Lemma step_list_eq_dec (a b : list step) : {a = b} + {a <> b}.
Proof. apply list_eq_dec. decide equality; [apply string_dec|apply Nat.eq_dec]. Qed.

Theorem reconstruct_keyed kl kr p v :
  wf (Con kl) = true -> keys_safe (Con kl) = true -> wf (Con kr) = true -> keys_safe (Con kr) = true ->
  compat_k (Con kl) (Con kr) ->
  In (p, v) (flatten (Con kl)) ->
  lookup p (apply (Con kr) (diff (Con kl) (Con kr))) = Some (Leaf v).
Proof.
  intros Wl Sl Wr Sr C Hin.
  rewrite flatten_steps_render in Hin.
  apply in_map_iff in Hin as [[sigma w] [E Hs]]. simpl in E. injection E as <- <-.
  pose proof (flatten_steps_safe _ _ _ Sl Hs) as Ss.
  assert (Hs' := Hs). rewrite flatten_steps_con in Hs'. apply In_fs_kvs in Hs' as [k0 [x0 [r0 [-> _]]]].
  destruct (diff_keyed_class (Con kl) (Con kr) ""%string Wl Sl Wr Sr C) as [A1 A2].
  unfold apply, diff, diff_ord, diff_raw, sort_mods.
  set (raw := diff_node canonical (Con kl) (Con kr) ""%string) in *.
  pose proof (isort_perm mpath raw) as P.
  apply fold_harmless; [exact Ss| |].
  - intros m Hm. apply (Permutation_in _ P) in Hm.
    destruct (A1 m Hm) as [tau [Ep [[Ht Hf]|[Ht Hd]]]].
    + left. split; [exact Ht|].
      pose proof (flatten_steps_safe _ _ _ Sl Hf) as St.
      assert (Hf' := Hf). rewrite flatten_steps_con in Hf'. apply In_fs_kvs in Hf' as [k [x [r [-> _]]]].
      exists k, r. split; [exact Ep|]. split; [exact St|].
      destruct (step_list_eq_dec (K k :: r) (K k0 :: r0)) as [Eq|NE].
      * left. split; [exact Eq|]. rewrite Eq in Hf.
        pose proof (flatten_steps_get _ _ _ Wl Hf) as G1. pose proof (flatten_steps_get _ _ _ Wl Hs) as G2.
        congruence.
      * right. exact (flatten_steps_diverge (Con kl) (K k :: r) (mval m) (K k0 :: r0) w Wl Hf Hs NE).
    + right. split; [exact Ht|].
      destruct Hd as [pi [k [kl' [-> [Gp [Gn [Sk Sp]]]]]]].
      assert (Dv : diverge (pi ++ [K k]) (K k0 :: r0)) by exact (del_pos_diverge pi (Con kl) k kl' (K k0 :: r0) w Wl Gp Gn Hs).
      destruct pi as [|s pi'].
      * exists [], k. split; [exact Ep|]. split; [constructor|]. split; [exact Sk|exact Dv].
      * destruct s as [a|i]; [|simpl in Gp; discriminate].
        exists (group (K a :: pi')), k. rewrite group_spec. split; [exact Ep|].
        split; [now apply group_safe|]. split; [exact Sk|exact Dv].
  - destruct (A2 (K k0 :: r0) w Hs) as [G|Ha].
    + left. rewrite lookup_render_steps by exact Ss. exact G.
    + right. eapply Permutation_in; [apply Permutation_sym; exact P|exact Ha].
Qed.
