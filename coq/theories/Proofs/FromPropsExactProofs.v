(* Proofs/FromPropsExactProofs.v — Builder().FromProperties has NO OTHER leaves than the pairs of the
   flat map: a write along member steps only never pads, so every leaf of the result lies below the
   position of one of the written keys, inside the written value. *)
From Coq Require Import List String Ascii ZArith Lia Bool Arith Permutation.
From YT Require Import Base.Str Base.KV Base.Sort Model.Doc Model.Dom Model.Pointer Model.Path Model.Builder Model.Props
  Proofs.StrProofs Proofs.BuilderProofs Proofs.PathProofs Proofs.FrameProofs Proofs.RebuildProofs
  Proofs.ApplyLookupProofs Proofs.PropsProofs Proofs.ReconstructProofs Proofs.FromPropsProofs.
Import ListNotations.
Local Open Scope list_scope.

Lemma in_kv_set : forall (l : list (string * node)) k v q x,
  In (q, x) (kv_set k v l) -> (q = k /\ x = v) \/ In (q, x) l.
Proof.
  induction l as [|[k' v'] r IH]; intros k v q x H.
  - simpl in H. destruct H as [[= <- <-]|[]]. now left.
  - simpl in H. destruct (scmp k k').
    + destruct H as [[= <- <-]|H]; [now left|right; now right].
    + destruct H as [[= <- <-]|H]; [now left|right; exact H].
    + destruct H as [H|H]; [right; now left|]. apply IH in H as [H|H]; [now left|right; now right].
Qed.

(* leaves below a child of the container view of n are leaves of n *)
Lemma leaves_kid c n tau w :
  In (tau, w) (flatten_steps (Con (as_con (kid c n)))) -> In (K c :: tau, w) (flatten_steps (Con (as_con n))).
Proof.
  unfold kid. destruct (kv_get c (as_con n)) as [x|] eqn:G; [|intros []].
  intros H. rewrite flatten_steps_con. apply (fs_kvs_In _ c x); [now apply get_in|].
  destruct x as [a|xs|s]; try contradiction. exact H.
Qed.

Theorem flatten_set_ksteps : forall cs v n tau w,
  In (tau, w) (flatten_steps (set_steps (ksteps cs) v n)) ->
  (cs <> [] /\ In (tau, w) (flatten_steps (Con (as_con n)))) \/
  exists rest, tau = ksteps cs ++ rest /\ In (rest, w) (flatten_steps v).
Proof.
  induction cs as [|c r IH]; intros v n tau w H.
  - right. exists tau. split; [reflexivity|exact H].
  - cbn [ksteps map set_steps] in H. fold (ksteps r) in H.
    rewrite flatten_steps_con in H. apply In_fs_kvs in H as [k' [x [rest' [-> [Hk Hr]]]]].
    apply in_kv_set in Hk as [[-> ->]|Hk].
    + apply IH in Hr as [[NE Hr]|[rest [-> Hr]]].
      * left. split; [discriminate|]. now apply leaves_kid.
      * right. exists rest. split; [reflexivity|exact Hr].
    + left. split; [discriminate|]. rewrite flatten_steps_con. now apply (fs_kvs_In _ k' x).
Qed.

Definition below (KV : list (string * node)) (tau : list step) (w : scalar) : Prop :=
  exists k v rest, In (k, v) KV /\ tau = ksteps (split_dots k) ++ rest /\ In (rest, w) (flatten_steps v).

Lemma fold_putn_below : forall (kv KV : list (string * node)) n,
  (forall e, In e kv -> In e KV) ->
  (forall tau w, In (tau, w) (flatten_steps (Con (as_con n))) -> below KV tau w) ->
  forall tau w,
  In (tau, w) (flatten_steps (Con (as_con (fold_left putn (map (fun e => (ksteps (split_dots (fst e)), snd e)) kv) n)))) ->
  below KV tau w.
Proof.
  induction kv as [|[k v] r IH]; intros KV n Sub P tau w H; [now apply P|].
  cbn [map fold_left] in H. apply (IH KV _ (fun e He => Sub e (or_intror He))) in H; [exact H|].
  intros tau' w' H'. unfold putn in H'. cbn [fst snd] in H'.
  destruct (split_dots k) as [|c cs] eqn:Ecs.
  - (* impossible for real keys; the write replaces the whole node *)
    cbn [ksteps map set_steps] in H'. exists k, v, tau'. split; [apply Sub; now left|]. rewrite Ecs. split; [reflexivity|].
    destruct v as [a|xs|s]; try contradiction. exact H'.
  - assert (Hs : set_steps (ksteps (c :: cs)) v n = Con (as_con (set_steps (ksteps (c :: cs)) v n))) by reflexivity.
    rewrite <- Hs in H'. apply flatten_set_ksteps in H' as [[_ H']|[rest [-> H']]].
    + now apply P.
    + exists k, v, rest. split; [apply Sub; now left|]. rewrite Ecs. split; [reflexivity|exact H'].
Qed.

Theorem from_properties_ord_exact kv tau w :
  Forall (fun e => key_ok (fst e)) kv ->
  In (tau, w) (flatten_steps (Con (from_properties_ord kv))) -> below kv tau w.
Proof.
  intros F H. unfold from_properties_ord in H. change (fold_left _ kv []) with (fold_left put_prop kv []) in H.
  rewrite fold_put_prop in H by exact F.
  apply (fold_putn_below kv kv (Con [])); [auto|intros ? ? []|].
  destruct (fold_left putn _ (Con [])) as [a|xs|s] eqn:E; try exact H.
  - pose proof (fold_put_prop kv [] F) as A. rewrite E in A. discriminate.
  - pose proof (fold_put_prop kv [] F) as A. rewrite E in A. discriminate.
Qed.

(* on path strings, for scalar values: every flattened entry of the built document is a pair of the map *)
Theorem from_properties_flatten_exact kv p w :
  Forall (fun e => key_ok (fst e)) kv -> Forall (fun e => exists a, snd e = Leaf a) kv ->
  In (p, w) (flatten (from_properties kv)) -> In (p, Leaf w) kv.
Proof.
  intros F L H. unfold from_properties in H.
  assert (P : Permutation (sort_kv kv) kv) by apply isort_perm.
  assert (F' : Forall (fun e => key_ok (fst e)) (sort_kv kv)) by (eapply Permutation_Forall; [apply Permutation_sym, P|exact F]).
  rewrite flatten_steps_render in H. apply in_map_iff in H as [[tau w'] [E H]]. simpl in E. injection E as <- <-.
  apply (from_properties_ord_exact _ _ _ F') in H as [k [v [rest [Hin [-> Hr]]]]].
  apply (Permutation_in _ P) in Hin. rewrite Forall_forall in F, L.
  destruct (L _ Hin) as [a Ea]. simpl in Ea. subst v. simpl in Hr. destruct Hr as [[= <- <-]|[]].
  rewrite app_nil_r. destruct (key_ok_render k (F _ Hin)) as [Ek _]. simpl in Ek. rewrite <- Ek. exact Hin.
Qed.

(* both halves: for conflict-free, path-safe keys with scalar values the flattened view of the built
   document IS the flat map *)
Theorem from_properties_flatten_iff kv p w :
  Forall (fun e => key_ok (fst e)) kv -> Forall (fun e => exists a, snd e = Leaf a) kv -> conflict_free kv ->
  (In (p, w) (flatten (from_properties kv)) <-> In (p, Leaf w) kv).
Proof.
  intros F L CF. split; [now apply from_properties_flatten_exact|].
  intros Hin. pose proof (from_properties_pairs kv p (Leaf w) F CF Hin) as Lk.
  rewrite Forall_forall in F. destruct (key_ok_render p (F _ Hin)) as [Ek [Sk [c [r Ec]]]]. simpl in Ek.
  unfold from_properties in *. rewrite Ek in Lk at 1. rewrite Ec in *. rewrite lookup_render_steps in Lk by exact Sk.
  apply flatten_steps_complete in Lk. rewrite flatten_steps_render. apply in_map_iff.
  exists (K c :: r, w). split; [|exact Lk]. simpl. now rewrite Ek.
Qed.
