From Coq Require Import List String Ascii ZArith Lia Bool Arith Permutation.
From YT Require Import Base.Str Base.KV Base.Sort Model.Doc Model.Dom Model.Path Model.Builder Model.Merge
  Model.Overlay Model.Resolver Model.Analytics Model.AnalyticsEvents Proofs.AnalyticsProofs.
Import ListNotations.
Local Open Scope list_scope.

(* the defaults are instances *)
Theorem ph_resolve_is_default keyf ov :
  ph_resolve keyf ov = ph_resolve_m keyf (fun s => possibly (la s)) ov.
Proof. reflexivity. Qed.
Theorem dep_resolve_is_default keyf src refs : dep_resolve keyf src refs = dep_resolve_m mentions keyf src refs.
Proof. reflexivity. Qed.

(* FailedKeys under any matcher: exactly the selected keys whose value resolution leaves unchanged *)
Theorem failed_exact_m keyf matcher ov k :
  In k (failed_keys (ph_resolve_m keyf matcher ov)) <->
  exists v, In (k, v) (flatten (o_merged false ov)) /\ keyf k = true /\
            matcher (fmt_scalar v) = true /\ unresolved (o_merged false ov) (fmt_scalar v) = true.
Proof.
  unfold ph_resolve_m, ph_selected. simpl. rewrite sort_strings_elements, in_map_iff. split.
  - intros [[k' v] [E H]]. simpl in E. subst k'. apply filter_In in H as [H1 H2].
    simpl in H2. apply andb_prop in H2 as [H2 H4]. apply andb_prop in H2 as [H2 H3]. exists v. auto.
  - intros [v [H1 [H2 [H3 H4]]]]. exists (k, v). split; [reflexivity|]. apply filter_In. split; [exact H1|].
    simpl. now rewrite H2, H3, H4.
Qed.

(* OnPlaceholderEncountered is told exactly the selected (key, value text) pairs ... *)
Theorem seen_exact keyf matcher ov k s :
  In (PhSeen k s) (ph_events keyf matcher ov) <->
  exists v, In (k, v) (flatten (o_merged false ov)) /\ s = fmt_scalar v /\ keyf k = true /\ matcher s = true.
Proof.
  unfold ph_events. rewrite in_flat_map. split.
  - intros [[k' v] [Hin H]]. cbv zeta in H. destruct (ph_selected keyf matcher (k', v)) eqn:S; [|contradiction].
    simpl in H. destruct H as [H|H].
    + injection H as E1 E2. simpl in E2. subst k' s. unfold ph_selected in S. simpl in S.
      apply andb_prop in S as [S1 S2]. exists v. auto.
    + destruct (unresolved _ _); simpl in H; [destruct H as [H|[]]; discriminate|contradiction].
  - intros [v [Hin [-> [Hk Hm]]]]. exists (k, v). split; [exact Hin|]. cbv zeta.
    unfold ph_selected. simpl. rewrite Hk, Hm. simpl. now left.
Qed.

(* ... OnResolutionFailure exactly those among them that resolution leaves unchanged, with the locations that hold
   that very text, and never for a pair OnPlaceholderEncountered was not told first *)
Theorem failed_event_exact keyf matcher ov k s co :
  In (PhFailed k s co) (ph_events keyf matcher ov) <->
  exists v, In (k, v) (flatten (o_merged false ov)) /\ s = fmt_scalar v /\ keyf k = true /\ matcher s = true /\
            unresolved (o_merged false ov) s = true /\ co = coords (fun x => scalar_eqb x (SStr s)) ov.
Proof.
  unfold ph_events. rewrite in_flat_map. split.
  - intros [[k' v] [Hin H]]. cbv zeta in H. destruct (ph_selected keyf matcher (k', v)) eqn:S; [|contradiction].
    simpl in H. destruct H as [H|H]; [discriminate|].
    destruct (unresolved (o_merged false ov) (fmt_scalar v)) eqn:U; simpl in H; [|contradiction].
    destruct H as [H|[]]. injection H as E1 E2 E3. simpl in E2, E3. subst k' s co.
    unfold ph_selected in S. simpl in S. apply andb_prop in S as [S1 S2]. exists v. auto 7.
  - intros [v [Hin [-> [Hk [Hm [Hu ->]]]]]]. exists (k, v). split; [exact Hin|]. cbv zeta.
    unfold ph_selected. simpl. rewrite Hk, Hm, Hu. simpl. right. now left.
Qed.

Theorem failed_after_seen keyf matcher ov k s co :
  In (PhFailed k s co) (ph_events keyf matcher ov) -> In (PhSeen k s) (ph_events keyf matcher ov).
Proof.
  intros H. apply failed_event_exact in H as [v [H1 [H2 [H3 [H4 _]]]]]. apply seen_exact. exists v. auto.
Qed.

(* the report and the failure callbacks agree: FailedKeys are the keys OnResolutionFailure was called with *)
Theorem failed_keys_are_failed_events keyf matcher ov k :
  In k (failed_keys (ph_resolve_m keyf matcher ov)) <-> exists s co, In (PhFailed k s co) (ph_events keyf matcher ov).
Proof.
  rewrite failed_exact_m. split.
  - intros [v [H1 [H2 [H3 H4]]]]. exists (fmt_scalar v), (coords (fun x => scalar_eqb x (SStr (fmt_scalar v))) ov).
    apply failed_event_exact. exists v. auto 7.
  - intros [s [co H]]. apply failed_event_exact in H as [v [H1 [-> [H3 [H4 [H5 _]]]]]]. exists v. auto.
Qed.

(* dependency resolver with any mention matcher: the callback receives exactly the non-empty per-document search results,
   and Map[k] is their concatenation in document order *)
Theorem dep_event_exact ment keyf src refs k co :
  In (k, co) (dep_events ment keyf src refs) <->
  In k (filter keyf (map fst (flatten (o_merged false src)))) /\
  exists d, In d (src :: refs) /\ co = coords (ment k) d /\ co <> [].
Proof.
  unfold dep_events. rewrite in_flat_map. split.
  - intros [k' [Hk H]]. apply filter_In in H as [H Hne]. apply in_map_iff in H as [d [E Hd]].
    injection E as -> <-. split; [exact Hk|]. exists d. repeat split; auto.
    simpl in Hne. intros X. rewrite X in Hne. discriminate.
  - intros [Hk [d [Hd [-> Hne]]]]. exists k. split; [exact Hk|]. apply filter_In. split.
    + apply in_map_iff. exists d. auto.
    + simpl. destruct (coords (ment k) d); [contradiction|reflexivity].
Qed.

Lemma flat_map_filter_nonempty {A B} (f : A -> list B) (l : list A) :
  flat_map f l = flat_map (fun x => x) (filter (fun x => nonempty x) (map f l)).
Proof.
  induction l as [|a l IH]; simpl; [reflexivity|]. destruct (f a) eqn:E; simpl; [exact IH|]. now rewrite IH.
Qed.

Lemma fm_events (ment : string -> scalar -> bool) k (ds : list overlay) :
  flat_map (coords (ment k)) ds =
  flat_map snd (filter (fun e => nonempty (snd e)) (map (fun d => (k, coords (ment k) d)) ds)).
Proof.
  induction ds as [|d ds IH]; [reflexivity|].
  cbn [flat_map map filter snd]. destruct (coords (ment k) d) eqn:C; cbn [nonempty]; [exact IH|].
  cbn [flat_map snd]. now rewrite IH.
Qed.

Theorem dep_map_is_events ment keyf src refs k cs :
  In (k, cs) (dep_map (dep_resolve_m ment keyf src refs)) ->
  cs = flat_map snd (filter (fun e => nonempty (snd e)) (map (fun d => (k, coords (ment k) d)) (src :: refs))).
Proof.
  unfold dep_resolve_m. cbn [dep_map]. intros H. apply filter_In in H as [H _]. apply in_map_iff in H as [k' [E _]].
  injection E as E1 E2. subst k' cs. exact (fm_events ment k (src :: refs)).
Qed.
