From Coq Require Import ZArith List Bool Lia.
From YT Require Import Model.Base64.
Import ListNotations.
Local Open Scope Z_scope.
Ltac Zify.zify_post_hook ::= Z.div_mod_to_equations.

Definition byte (a : Z) := 0 <= a < 256.
Definition sextet (s : Z) := 0 <= s < 64.

Lemma is_byte_spec a : is_byte a = true <-> byte a.
Proof. unfold is_byte, byte. rewrite andb_true_iff, Z.leb_le, Z.ltb_lt. tauto. Qed.

(* the alphabet is a bijection on sextets, and never produces the padding character *)
Lemma idx_chr s : sextet s -> b64_idx (b64_chr s) = Some s.
Proof.
  unfold sextet, b64_chr, b64_idx. intros H.
  destruct (Z.ltb_spec s 26).
  { replace ((65 <=? 65 + s) && (65 + s <=? 90)) with true by (symmetry; apply andb_true_iff; split; apply Z.leb_le; lia).
    f_equal. lia. }
  destruct (Z.ltb_spec s 52).
  { replace ((65 <=? 97 + (s - 26)) && (97 + (s - 26) <=? 90)) with false
      by (symmetry; apply andb_false_iff; right; apply Z.leb_gt; lia).
    replace ((97 <=? 97 + (s - 26)) && (97 + (s - 26) <=? 122)) with true
      by (symmetry; apply andb_true_iff; split; apply Z.leb_le; lia).
    f_equal. lia. }
  destruct (Z.ltb_spec s 62).
  { replace ((65 <=? 48 + (s - 52)) && (48 + (s - 52) <=? 90)) with false
      by (symmetry; apply andb_false_iff; left; apply Z.leb_gt; lia).
    replace ((97 <=? 48 + (s - 52)) && (48 + (s - 52) <=? 122)) with false
      by (symmetry; apply andb_false_iff; left; apply Z.leb_gt; lia).
    replace ((48 <=? 48 + (s - 52)) && (48 + (s - 52) <=? 57)) with true
      by (symmetry; apply andb_true_iff; split; apply Z.leb_le; lia).
    f_equal. lia. }
  destruct (Z.eqb_spec s 62); [subst; reflexivity|].
  assert (s = 63) by lia. subst. reflexivity.
Qed.

Lemma chr_not_pad s : sextet s -> (b64_chr s =? PAD) = false.
Proof.
  unfold sextet, b64_chr, PAD. intros H. apply Z.eqb_neq.
  destruct (Z.ltb_spec s 26); [lia|]. destruct (Z.ltb_spec s 52); [lia|].
  destruct (Z.ltb_spec s 62); [lia|]. destruct (Z.eqb_spec s 62); lia.
Qed.

Lemma sextet_range a b c : byte a -> byte b -> byte c ->
  let '(w, x, y, z) := enc3 a b c in sextet w /\ sextet x /\ sextet y /\ sextet z.
Proof. unfold byte, sextet, enc3. intros. cbv zeta. lia. Qed.

Lemma group_rt a b c : byte a -> byte b -> byte c ->
  let '(w, x, y, z) := enc3 a b c in dec4 w x y z = (a, b, c).
Proof.
  unfold byte, enc3, dec4. intros Ha Hb Hc. cbv zeta.
  set (n := a * 65536 + b * 256 + c).
  assert (Hn : 0 <= n < 16777216) by (unfold n; lia).
  assert (E : n / 262144 * 262144 + (n / 4096) mod 64 * 4096 + (n / 64) mod 64 * 64 + n mod 64 = n) by lia.
  rewrite E. unfold n. f_equal; [f_equal|]; lia.
Qed.

(* the padded tail groups *)
Lemma group1_rt a : byte a ->
  let '(w, x, _, _) := enc3 a 0 0 in let '(a', _, _) := dec4 w x 0 0 in a' = a.
Proof. unfold byte, enc3, dec4. intros Ha. cbv zeta. lia. Qed.

Lemma group2_rt a b : byte a -> byte b ->
  let '(w, x, y, _) := enc3 a b 0 in let '(a', b', _) := dec4 w x y 0 in (a', b') = (a, b).
Proof. unfold byte, enc3, dec4. intros Ha Hb. cbv zeta. f_equal; lia. Qed.

Lemma dec_group (w x y z : Z) rest :
  sextet w -> sextet x -> sextet y -> sextet z ->
  b64_dec (b64_chr w :: b64_chr x :: b64_chr y :: b64_chr z :: rest) =
  match b64_dec rest with
  | Some r => let '(a, b, c) := dec4 w x y z in Some (a :: b :: c :: r)
  | None => None
  end.
Proof.
  intros Hw Hx Hy Hz. cbn [b64_dec].
  rewrite !idx_chr by assumption. rewrite (chr_not_pad y Hy), (chr_not_pad z Hz). reflexivity.
Qed.

(* every byte string, including the empty one, survives encode-then-decode *)
Theorem b64_roundtrip : forall bs, Forall byte bs -> b64_dec (b64_enc bs) = Some bs.
Proof.
  intros bs. remember (length bs) as n eqn:Hn. revert bs Hn.
  induction n as [n IH] using lt_wf_ind. intros bs Hn F.
  destruct bs as [|a [|b [|c r]]].
  - reflexivity.
  - inversion F as [|? ? Ha _]; subst. cbn [b64_enc].
    pose proof (sextet_range a 0 0 Ha ltac:(unfold byte; lia) ltac:(unfold byte; lia)) as S.
    pose proof (group1_rt a Ha) as G.
    destruct (enc3 a 0 0) as [[[w x] y] z]. destruct S as [Sw [Sx _]].
    cbn [b64_dec]. rewrite !idx_chr by assumption. rewrite Z.eqb_refl. cbn [andb].
    destruct (dec4 w x 0 0) as [[a' b'] c']. now subst.
  - inversion F as [|? ? Ha F']; subst. inversion F' as [|? ? Hb _]; subst. cbn [b64_enc].
    pose proof (sextet_range a b 0 Ha Hb ltac:(unfold byte; lia)) as S.
    pose proof (group2_rt a b Ha Hb) as G.
    destruct (enc3 a b 0) as [[[w x] y] z]. destruct S as [Sw [Sx [Sy _]]].
    cbn [b64_dec]. rewrite !idx_chr by assumption. rewrite (chr_not_pad y Sy). cbn [andb].
    rewrite Z.eqb_refl. destruct (dec4 w x y 0) as [[a' b'] c']. injection G as -> ->. reflexivity.
  - inversion F as [|? ? Ha F1]; subst. inversion F1 as [|? ? Hb F2]; subst. inversion F2 as [|? ? Hc F3]; subst.
    cbn [b64_enc].
    pose proof (sextet_range a b c Ha Hb Hc) as S. pose proof (group_rt a b c Ha Hb Hc) as G.
    destruct (enc3 a b c) as [[[w x] y] z]. destruct S as [Sw [Sx [Sy Sz]]].
    rewrite dec_group by assumption.
    rewrite (IH (length r)); [|simpl; lia|reflexivity|exact F3].
    now rewrite G.
Qed.

(* the encoding of n bytes has 4 * ceil(n/3) characters *)
Theorem b64_enc_length : forall bs, Z.of_nat (length (b64_enc bs)) = 4 * ((Z.of_nat (length bs) + 2) / 3).
Proof.
  intros bs. remember (length bs) as n eqn:Hn. revert bs Hn.
  induction n as [n IH] using lt_wf_ind. intros bs Hn.
  destruct bs as [|a [|b [|c r]]]; subst; try reflexivity.
  cbn [b64_enc]. destruct (enc3 a b c) as [[[w x] y] z]. cbn [length].
  rewrite !Nat2Z.inj_succ. rewrite (IH (length r)); [|simpl; lia|reflexivity]. lia.
Qed.
