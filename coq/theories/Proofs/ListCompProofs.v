(* Proofs/ListCompProofs.v — utils.ParseListPathComponent on rendered components:
   parse_list_comp "k[i1]...[in]" = Some (k, [i1..in])  (n > 0),  = None for a bare safe key. *)
From Coq Require Import List String Ascii ZArith Lia Bool Arith.
From YT Require Import Base.Str Base.KV Model.Doc Model.Dom Model.Path Proofs.StrProofs Proofs.PathProofs.
Import ListNotations.
Local Open Scope list_scope.

Definition grp (i : nat) : list ascii := LBR :: la (nat2s i) ++ [RBR].
Definition groups (idxs : list nat) : list ascii := flat_map grp idxs.

Lemma la_render_comp k idxs : la (render_comp (k, idxs)) = la k ++ groups idxs.
Proof.
  unfold render_comp. simpl. revert k. induction idxs as [|i r IH]; intros k; simpl.
  - now rewrite app_nil_r.
  - rewrite IH, la_idx_path. rewrite <- app_assoc. simpl. now rewrite <- app_assoc.
Qed.

Definition no_c (x : ascii) (l : list ascii) : Prop := forall c, In c l -> Ascii.eqb c x = false.

Lemma index_of_char_none x l : no_c x l -> index_of_char x l = None.
Proof.
  induction l as [|c r IH]; intros H; [reflexivity|]. simpl.
  rewrite (H c (or_introl eq_refl)). rewrite IH; [reflexivity|]. intros d Hd. apply H. now right.
Qed.

Lemma index_of_char_app x pre rest : no_c x pre -> index_of_char x (pre ++ x :: rest) = Some (List.length pre).
Proof.
  induction pre as [|c r IH]; intros H; simpl.
  - now rewrite Ascii.eqb_refl.
  - rewrite (H c (or_introl eq_refl)). rewrite IH; [reflexivity|]. intros d Hd. apply H. now right.
Qed.

Lemma is_digit_not_rbr c : is_digit c = true -> Ascii.eqb c RBR = false.
Proof. destruct c as [[] [] [] [] [] [] [] []]; intros H; vm_compute in H; try discriminate; reflexivity. Qed.

Lemma digits_no_lbr ds : forallb is_digit ds = true -> no_c LBR ds.
Proof. intros H c Hc. rewrite forallb_forall in H. now apply is_digit_not_lbr, H. Qed.
Lemma digits_no_rbr ds : forallb is_digit ds = true -> no_c RBR ds.
Proof. intros H c Hc. rewrite forallb_forall in H. now apply is_digit_not_rbr, H. Qed.
Lemma safe_no_lbr k : key_safe k = true -> no_c LBR (la k).
Proof.
  intros H c Hc. apply key_safe_chars in H as [_ H]. rewrite forallb_forall in H.
  now destruct (safe_char_props c (H c Hc)) as [_ [L _]].
Qed.
Lemma safe_no_rbr k : key_safe k = true -> no_c RBR (la k).
Proof.
  intros H c Hc. apply key_safe_chars in H as [_ H]. rewrite forallb_forall in H.
  now destruct (safe_char_props c (H c Hc)) as [_ [_ [R _]]].
Qed.

Lemma no_c_app x a b : no_c x a -> no_c x b -> no_c x (a ++ b).
Proof. intros Ha Hb c Hc. apply in_app_or in Hc as [Hc|Hc]; auto. Qed.
Lemma no_c_nil x : no_c x []. Proof. intros c []. Qed.

(* ---------- has_index_group *)
Definition digits_scan := fix digits (l' : list ascii) (seen : bool) : bool :=
  match l' with
  | d :: r' => if is_digit d then digits r' true else seen && Ascii.eqb d RBR
  | [] => false
  end.

Lemma has_index_group_cons c r :
  has_index_group (c :: r) = (if Ascii.eqb c LBR then digits_scan r false else false) || has_index_group r.
Proof. reflexivity. Qed.

Lemma digits_scan_ok : forall ds seen rest,
  forallb is_digit ds = true -> (ds <> [] \/ seen = true) -> digits_scan (ds ++ RBR :: rest) seen = true.
Proof.
  induction ds as [|d r IH]; intros seen rest F H.
  - destruct H as [H|E]; [congruence|]. subst seen. simpl. reflexivity.
  - simpl in F. apply andb_prop in F as [Fd Fr]. simpl. rewrite Fd. apply IH; [exact Fr|now right].
Qed.

Lemma hig_true : forall pre ds rest,
  forallb is_digit ds = true -> ds <> [] -> has_index_group (pre ++ LBR :: ds ++ RBR :: rest) = true.
Proof.
  induction pre as [|c r IH]; intros ds rest F NE.
  - simpl app. rewrite has_index_group_cons, Ascii.eqb_refl, digits_scan_ok; auto.
  - simpl app. rewrite has_index_group_cons, IH by assumption. apply orb_true_r.
Qed.

Lemma hig_false l : no_c LBR l -> has_index_group l = false.
Proof.
  induction l as [|c r IH]; intros H; [reflexivity|].
  rewrite has_index_group_cons, (H c (or_introl eq_refl)), IH; [reflexivity|].
  intros d Hd. apply H. now right.
Qed.

(* ---------- scan_indexes *)
Lemma skipn_len_app {A} (a b : list A) : skipn (List.length a) (a ++ b) = b.
Proof. induction a; simpl; auto. Qed.
Lemma firstn_len_app {A} (a b : list A) : firstn (List.length a) (a ++ b) = a.
Proof. induction a; simpl; [now destruct b|]. now f_equal. Qed.

Lemma atoi0_nat2s i : atoi0 (la (nat2s i)) = i.
Proof.
  unfold atoi0. pose proof (nat2s_la_nonempty i) as NE.
  destruct (la (nat2s i)) eqn:E; [contradiction|]. rewrite <- E.
  rewrite nat2s_digits, sl_la, s2nat_nat2s. reflexivity.
Qed.

Lemma groups_cons i r : groups (i :: r) = LBR :: la (nat2s i) ++ RBR :: groups r.
Proof. unfold groups. simpl. now rewrite <- app_assoc. Qed.

Lemma scan_groups : forall idxs fuel pre,
  no_c LBR pre -> no_c RBR pre -> List.length idxs <= fuel ->
  scan_indexes fuel (pre ++ groups idxs) = idxs.
Proof.
  induction idxs as [|i r IH]; intros fuel pre NL NR Hf.
  - unfold groups. simpl. rewrite app_nil_r. destruct fuel; [reflexivity|].
    simpl. now rewrite index_of_char_none.
  - destruct fuel as [|f]; [simpl in Hf; lia|]. simpl in Hf.
    rewrite groups_cons. set (ds := la (nat2s i)). set (rest := groups r).
    assert (Fd : forallb is_digit ds = true) by apply nat2s_digits.
    cbn [scan_indexes].
    rewrite (index_of_char_app LBR pre (ds ++ RBR :: rest) NL).
    replace (pre ++ LBR :: ds ++ RBR :: rest) with ((pre ++ LBR :: ds) ++ RBR :: rest)
      by (rewrite <- app_assoc; reflexivity).
    rewrite (index_of_char_app RBR (pre ++ LBR :: ds) rest).
    2:{ apply no_c_app; [exact NR|]. intros c [<-|Hc]; [reflexivity|]. now apply (digits_no_rbr ds Fd). }
    rewrite app_length. simpl List.length.
    assert (Lt : Nat.ltb (List.length pre) (List.length pre + S (List.length ds)) = true)
      by (apply Nat.ltb_lt; lia).
    rewrite Lt. f_equal.
    + replace (List.length pre + S (List.length ds) - List.length pre - 1) with (List.length ds) by lia.
      replace ((pre ++ LBR :: ds) ++ RBR :: rest) with ((pre ++ [LBR]) ++ ds ++ RBR :: rest)
        by (rewrite <- !app_assoc; reflexivity).
      replace (S (List.length pre)) with (List.length (pre ++ [LBR])) by (rewrite app_length; simpl; lia).
      rewrite skipn_len_app, firstn_len_app. apply atoi0_nat2s.
    + replace (S (List.length pre + S (List.length ds))) with (List.length ((pre ++ LBR :: ds) ++ [RBR]))
        by (rewrite !app_length; simpl; lia).
      replace ((pre ++ LBR :: ds) ++ RBR :: rest) with (((pre ++ LBR :: ds) ++ [RBR]) ++ rest)
        by (rewrite <- !app_assoc; reflexivity).
      rewrite skipn_len_app. apply (IH f []); auto using no_c_nil. lia.
Qed.

Lemma groups_length idxs : List.length idxs <= List.length (groups idxs).
Proof. induction idxs as [|i r IH]; [simpl; lia|]. rewrite groups_cons. simpl. rewrite app_length. simpl. lia. Qed.

Theorem parse_list_comp_render k idxs :
  key_safe k = true ->
  parse_list_comp (render_comp (k, idxs)) =
  match idxs with [] => None | _ => Some (k, idxs) end.
Proof.
  intros S. unfold parse_list_comp. rewrite la_render_comp.
  destruct idxs as [|i r].
  - unfold groups. simpl. rewrite app_nil_r. now rewrite hig_false by now apply safe_no_lbr.
  - rewrite groups_cons.
    rewrite hig_true; [|apply nat2s_digits|apply nat2s_la_nonempty].
    rewrite index_of_char_app by now apply safe_no_lbr.
    rewrite firstn_len_app, sl_la. f_equal. f_equal.
    rewrite <- groups_cons. apply scan_groups; [now apply safe_no_lbr|now apply safe_no_rbr|].
    rewrite app_length. pose proof (groups_length (i :: r)). lia.
Qed.
