From Coq Require Import List String Ascii ZArith Lia Bool Arith.
From YT Require Import Base.Str Base.KV Model.Doc Model.Dom Model.Pointer Model.Path Model.Builder Model.Equals
  Model.Diff Model.Patch Model.Xform Proofs.PropsPathProofs.
Import ListNotations.
Local Open Scope list_scope.

(* the operation object made of a modification at a flattened path of d addresses that very leaf of d: a Change becomes a
   replace of it, a Delete a remove of it (list indexes below 10^18, as for C02's pointer translation) *)
Theorem mod2pop_addresses_leaf kvs m v :
  wf (Con kvs) = true -> keys_safe (Con kvs) = true -> In (mpath m, v) (flatten (Con kvs)) ->
  exists sigma, mpath m = render_steps sigma /\
    (idx_small sigma -> exists o, mod2pop m = Some o /\ snd (ptr_eval (pop_path o) (Con kvs)) = Some (Leaf v)).
Proof.
  intros W S H. destruct (pointer_flatten kvs (mpath m) v W S H) as [sigma [E [_ [_ P]]]].
  exists sigma. split; [exact E|]. intros Sm. destruct (P Sm) as [toks [Pt Ev]].
  unfold mod2pop. rewrite Pt. eexists. split; [reflexivity|]. destruct (mt m); exact Ev.
Qed.

(* the kind of operation follows the kind of modification, whatever the path *)
Theorem mod2pop_kind m o : mod2pop m = Some o ->
  match mt m, o with
  | MAdd, PAdd _ (Some (Leaf v)) | MChange, PReplace _ (Some (Leaf v)) => v = mval m
  | MDelete, PRemove _ => True
  | _, _ => False
  end.
Proof.
  unfold mod2pop. destruct (pointer_of_prop_path (mpath m)) as [toks|]; [|discriminate].
  intros H. injection H as <-. destruct (mt m); reflexivity.
Qed.
