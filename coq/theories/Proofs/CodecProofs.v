From Coq Require Import List String Ascii ZArith Lia Bool Arith Permutation.
From YT Require Import Base.Str Base.KV Model.Doc Model.Codec.
Import ListNotations.
Local Open Scope list_scope.

Section GvalInd.
  Variable P : gval -> Prop.
  Hypothesis Hnil : P GNil.
  Hypothesis Hbool : forall b, P (GBool b).
  Hypothesis Hint : forall z, P (GInt z).
  Hypothesis Hflt : forall z, P (GFlt z).
  Hypothesis Hstr : forall s, P (GStr s).
  Hypothesis Hoth : forall t, P (GOther t).
  Hypothesis HS : forall xs, Forall P xs -> P (GSlice xs).
  Hypothesis HM : forall kvs, Forall (fun kv => P (snd kv)) kvs -> P (GMap kvs).
  Fixpoint gval_ind' (v : gval) : P v :=
    match v with
    | GNil => Hnil | GBool b => Hbool b | GInt z => Hint z | GFlt z => Hflt z
    | GStr s => Hstr s | GOther t => Hoth t
    | GSlice xs => HS xs ((fix go l : Forall P l :=
                            match l with [] => Forall_nil _ | x :: r => Forall_cons _ (gval_ind' x) (go r) end) xs)
    | GMap kvs => HM kvs ((fix go l : Forall (fun kv => P (snd kv)) l :=
                             match l with
                             | [] => Forall_nil _
                             | (k, x) :: r => Forall_cons (k, x) (gval_ind' x) (go r)
                             end) kvs)
    end.
End GvalInd.

Definition fm_list := fix go (l : list gval) : list node :=
  match l with [] => [] | x :: r => from_val x :: go r end.
Definition fm_kvs := fix go (l : list (string * gval)) (acc : list (string * node)) : list (string * node) :=
  match l with [] => acc | (k, x) :: r => go r (kv_set k (from_val x) acc) end.
Lemma from_val_slice xs : from_val (GSlice xs) = Lst (fm_list xs).
Proof. reflexivity. Qed.
Lemma from_val_map kvs : from_val (GMap kvs) = Con (fm_kvs kvs []).
Proof. reflexivity. Qed.
Lemma fm_list_map xs : fm_list xs = map from_val xs.
Proof. induction xs as [|x r IH]; simpl; [reflexivity|]. now rewrite IH. Qed.

(* all keys of [acc] are below [k] *)
Definition all_lt {A} (acc : list (string * A)) (k : string) : Prop :=
  Forall (fun kv => String.ltb (fst kv) k = true) acc.

Lemma kv_set_append {A} k (v : A) acc : all_lt acc k -> kv_set k v acc = acc ++ [(k, v)].
Proof.
  induction 1 as [|[k' v'] r H _ IH]; simpl; [reflexivity|].
  simpl in H. pose proof (scmp_spec k k') as S. destruct (scmp k k'); cbn in S.
  - subst. rewrite ltb_irrefl in H. discriminate.
  - destruct S as [L _]. rewrite (ltb_asym _ _ H) in L. discriminate.
  - now rewrite IH.
Qed.

Lemma fm_kvs_sorted : forall kvs acc,
  sorted_keys kvs = true ->
  (forall kv, In kv kvs -> all_lt acc (fst kv)) ->
  fm_kvs kvs acc = acc ++ map (fun kv => (fst kv, from_val (snd kv))) kvs.
Proof.
  induction kvs as [|[k x] r IH]; intros acc S H; simpl; [now rewrite app_nil_r|].
  apply sorted_cons_inv in S as [Sr Fk].
  rewrite kv_set_append by (apply (H (k, x)); left; reflexivity).
  rewrite IH; auto.
  - rewrite <- app_assoc. reflexivity.
  - intros [k' x'] Hin. unfold all_lt. apply Forall_app. split.
    + specialize (H (k', x') (or_intror Hin)). exact H.
    + constructor; [|constructor]. simpl. rewrite Forall_forall in Fk. apply (Fk _ Hin).
Qed.

Lemma map_ext_Forall {A B} (f g : A -> B) l : Forall (fun x => f x = g x) l -> map f l = map g l.
Proof. induction 1 as [|x r Hx _ IH]; simpl; [reflexivity|]. now rewrite Hx, IH. Qed.

(* AsMap(FromMap(m)) == m : nothing dropped, added, reordered or retyped *)
Theorem as_map_from_map : forall m, gwf m = true -> as_val (from_val m) = m.
Proof.
  induction m as [| | | | | |xs IH|kvs IH] using gval_ind'; intros W; try reflexivity.
  - rewrite from_val_slice, fm_list_map. simpl. f_equal. rewrite map_map.
    simpl in W. rewrite <- (map_id xs) at 2. apply map_ext_Forall.
    rewrite forallb_forall in W. rewrite Forall_forall in *. intros x Hx. apply IH; auto.
  - rewrite from_val_map. simpl in W. apply andb_prop in W as [S W].
    rewrite fm_kvs_sorted; [|exact S|intros; constructor]. simpl. f_equal.
    rewrite map_map. simpl. rewrite <- (map_id kvs) at 2. apply map_ext_Forall.
    rewrite forallb_forall in W. rewrite Forall_forall in *. intros [k x] Hx. simpl.
    f_equal. apply (IH _ Hx). apply (W _ Hx).
Qed.

(* the converse round trip, for every well-formed document *)
Lemma scalar_roundtrip s : from_val (scalar_val s) = Leaf s.
Proof. destruct s; reflexivity. Qed.

Lemma sorted_map_snd {A B} (f : A -> B) (l : list (string * A)) :
  sorted_keys (map (fun kv => (fst kv, f (snd kv))) l) = sorted_keys l.
Proof.
  induction l as [|[k v] r IH]; simpl; [reflexivity|]. rewrite IH. f_equal.
  unfold lt_all. rewrite forallb_map. reflexivity.
Qed.

Theorem from_map_as_map : forall d, wf d = true -> from_val (as_val d) = d.
Proof.
  induction d as [s|xs IH|kvs IH] using node_ind'; intros W.
  - apply scalar_roundtrip.
  - simpl as_val. rewrite from_val_slice, fm_list_map, map_map. f_equal.
    simpl in W. rewrite <- (map_id xs) at 2. apply map_ext_Forall.
    rewrite forallb_forall in W. rewrite Forall_forall in *. intros x Hx. apply IH; auto.
  - simpl as_val. rewrite from_val_map. simpl in W. apply andb_prop in W as [S W].
    rewrite fm_kvs_sorted; [|now rewrite sorted_map_snd|intros; constructor]. simpl. f_equal.
    rewrite map_map. simpl. rewrite <- (map_id kvs) at 2. apply map_ext_Forall.
    rewrite forallb_forall in W. rewrite Forall_forall in *. intros [k x] Hx. simpl.
    f_equal. apply (IH _ Hx). apply (W _ Hx).
Qed.

Lemma as_val_gwf : forall d, wf d = true -> gwf (as_val d) = true.
Proof.
  induction d as [s|xs IH|kvs IH] using node_ind'; intros W.
  - destruct s; reflexivity.
  - simpl. rewrite forallb_map. simpl in W. rewrite forallb_forall in *. rewrite Forall_forall in IH.
    intros x Hx. apply IH; auto.
  - simpl. simpl in W. apply andb_prop in W as [S W]. rewrite sorted_map_snd, S. simpl.
    rewrite forallb_map. rewrite forallb_forall in *. rewrite Forall_forall in IH.
    intros [k x] Hx. simpl. apply (IH _ Hx). apply (W _ Hx).
Qed.

Theorem from_map_wf : forall m, gwf m = true -> wf (from_val m) = true.
Proof.
  intros m W. pose proof (as_map_from_map m W) as E.
  (* from_val m is determined by its image: prove wf by structural induction instead *)
  clear E. induction m as [| | | | | |xs IH|kvs IH] using gval_ind'; try reflexivity.
  - rewrite from_val_slice, fm_list_map. simpl. rewrite forallb_map. simpl in W.
    rewrite forallb_forall in *. rewrite Forall_forall in IH. intros x Hx. apply IH; auto.
  - rewrite from_val_map. simpl in W. apply andb_prop in W as [S W].
    rewrite fm_kvs_sorted; [|exact S|intros; constructor]. simpl.
    rewrite sorted_map_snd, S. simpl. rewrite forallb_map.
    rewrite forallb_forall in *. rewrite Forall_forall in IH.
    intros [k x] Hx. simpl. apply (IH _ Hx). apply (W _ Hx).
Qed.

(* FromReader: an error of the decoder is returned; otherwise exactly the DOM of the decoded value *)
Theorem from_reader_spec (text : Type) (dec : text -> res gval) t :
  from_reader text dec t = match dec t with RErr e => RErr e | ROk m => ROk (from_map m) end.
Proof. reflexivity. Qed.

Theorem from_reader_as_map (text : Type) (dec : text -> res gval) t m :
  dec t = ROk m -> gwf m = true ->
  exists d, from_reader text dec t = ROk d /\ as_map d = m.
Proof.
  intros E W. unfold from_reader. rewrite E. eexists. split; [reflexivity|].
  now apply as_map_from_map.
Qed.

Theorem from_reader_err (text : Type) (dec : text -> res gval) t e :
  dec t = RErr e -> from_reader text dec t = RErr e.
Proof. intros E. unfold from_reader. now rewrite E. Qed.

(* Serialize: the encoder's verdict (bytes or error) on the plain value is returned unchanged;
   hence equal documents serialise identically whenever the encoder is a function *)
Theorem serialize_spec (text : Type) (enc : gval -> res text) d :
  serialize text enc d = enc (as_map d).
Proof. reflexivity. Qed.

Theorem serialize_err (text : Type) (enc : gval -> res text) d e :
  enc (as_map d) = RErr e -> serialize text enc d = RErr e.
Proof. intros E. unfold serialize. exact E. Qed.

(* the iteration order of the Go map does not matter: installing the entries in any order of
   distinct keys yields the same container *)
Lemma fm_kvs_get : forall kvs acc q,
  NoDup (kv_keys kvs) ->
  kv_get q (fm_kvs kvs acc) =
    match kv_get q (map (fun kv => (fst kv, from_val (snd kv))) kvs) with
    | Some v => Some v
    | None => kv_get q acc
    end.
Proof.
  induction kvs as [|[k x] r IH]; intros acc q ND; simpl; [reflexivity|].
  inversion ND as [|? ? Hnotin ND']; subst.
  rewrite IH by exact ND'.
  destruct (kv_get q (map (fun kv => (fst kv, from_val (snd kv))) r)) as [v|] eqn:G.
  - destruct (String.eqb_spec q k); [|reflexivity]. subst q. exfalso. apply Hnotin.
    apply get_some_key in G. unfold kv_keys in *. rewrite map_map in G. simpl in G. exact G.
  - destruct (String.eqb_spec q k).
    + subst. now rewrite kv_get_set_same.
    + now rewrite kv_get_set_other.
Qed.

Lemma fm_kvs_sorted_acc : forall kvs acc, sorted_keys acc = true -> sorted_keys (fm_kvs kvs acc) = true.
Proof.
  induction kvs as [|[k x] r IH]; intros acc S; simpl; [exact S|]. apply IH. now apply kv_set_sorted.
Qed.

Lemma kv_get_perm {A} (l l' : list (string * A)) q :
  NoDup (kv_keys l) -> Permutation l l' -> kv_get q l = kv_get q l'.
Proof.
  intros ND P.
  assert (ND' : NoDup (kv_keys l')).
  { unfold kv_keys. eapply Permutation_NoDup; [apply Permutation_map; exact P|exact ND]. }
  destruct (kv_get q l) as [v|] eqn:G.
  - symmetry. apply in_get; auto. eapply Permutation_in; [exact P|]. now apply get_in.
  - destruct (kv_get q l') as [v'|] eqn:G'; [|reflexivity].
    apply get_in in G'. apply (Permutation_in _ (Permutation_sym P)) in G'.
    apply in_get in G'; auto. congruence.
Qed.

Theorem from_map_order_independent kvs kvs' :
  NoDup (kv_keys kvs) -> Permutation kvs kvs' ->
  from_val (GMap kvs) = from_val (GMap kvs').
Proof.
  intros ND P. rewrite !from_val_map. f_equal.
  assert (ND' : NoDup (kv_keys kvs')).
  { unfold kv_keys. eapply Permutation_NoDup; [apply Permutation_map; exact P|exact ND]. }
  apply sorted_ext; try (apply fm_kvs_sorted_acc; reflexivity).
  intros q. rewrite !fm_kvs_get by assumption.
  set (f := fun kv : string * gval => (fst kv, from_val (snd kv))).
  rewrite (kv_get_perm (map f kvs) (map f kvs') q); [reflexivity| |now apply Permutation_map].
  unfold kv_keys. rewrite map_map. simpl. exact ND.
Qed.
