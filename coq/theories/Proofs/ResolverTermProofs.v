(* Proofs/ResolverTermProofs.v — termination of placeholder resolution for FLAT tables (no value
   mentions a prefix), for EVERY input: nesting, defaults, defaults re-resolved from resolved text,
   repetition, unterminated tails, values with stray separators and suffixes.
   Measure: the number of prefix tokens.  Values add none; the body of a placeholder, the text after
   it, and a default (a suffix of the resolved key) each hold fewer prefix tokens than the text being
   scanned, and every body on the "seen" stack holds at least as many — so no body is met twice:
   resolution never reports a cycle and never runs out of fuel. *)
From Coq Require Import List Arith Lia Bool.
From YT Require Import Model.Resolver Proofs.ResolverProofs.
Import ListNotations.

Fixpoint cpre (s : toks) : nat :=
  match s with [] => 0 | TPre :: r => S (cpre r) | _ :: r => cpre r end.

Lemma cpre_app a b : cpre (a ++ b) = cpre a + cpre b.
Proof. induction a as [|t r IH]; [reflexivity|]. destruct t; simpl; rewrite IH; reflexivity. Qed.

Lemma split_pre_cpre s b a : split_pre s = Some (b, a) -> cpre b = 0 /\ cpre s = S (cpre a).
Proof.
  revert b a. induction s as [|t r IH]; intros b a H; [discriminate|].
  destruct t; simpl in *; try (destruct (split_pre r) as [[b' a']|]; [|discriminate];
    injection H as <- <-; destruct (IH _ _ eq_refl) as [A B]; simpl; auto).
  injection H as <- <-. auto.
Qed.

Lemma split_pre_none_cpre s : split_pre s = None -> cpre s = 0.
Proof.
  induction s as [|t r IH]; intros H; [reflexivity|].
  destruct t; simpl in *; try discriminate; destruct (split_pre r) as [[b a]|]; try discriminate; auto.
Qed.

Lemma cpre0_split_pre s : cpre s = 0 -> split_pre s = None.
Proof.
  induction s as [|t r IH]; intros H; [reflexivity|].
  destruct t; simpl in *; try discriminate; now rewrite IH.
Qed.

Lemma find_end_cpre : forall s n b a, find_end n s = Some (b, a) -> cpre s = cpre b + cpre a.
Proof.
  induction s as [|t r IH]; intros n b a H; [discriminate|].
  destruct t; simpl in *.
  - destruct (find_end (S n) r) as [[b' a']|] eqn:E; [|discriminate]. injection H as <- <-. simpl. now rewrite (IH _ _ _ E).
  - destruct n; [injection H as <- <-; reflexivity|].
    destruct (find_end n r) as [[b' a']|] eqn:E; [|discriminate]. injection H as <- <-. simpl. now rewrite (IH _ _ _ E).
  - destruct (find_end n r) as [[b' a']|] eqn:E; [|discriminate]. injection H as <- <-. simpl. now rewrite (IH _ _ _ E).
  - destruct (find_end n r) as [[b' a']|] eqn:E; [|discriminate]. injection H as <- <-. simpl. now rewrite (IH _ _ _ E).
Qed.

Lemma split_sep_cpre s k d : split_sep s = Some (k, d) -> cpre s = cpre k + cpre d.
Proof.
  revert k d. induction s as [|t r IH]; intros k d H; [discriminate|].
  destruct t; simpl in *; try (destruct (split_sep r) as [[k' d']|]; [|discriminate];
    injection H as <- <-; simpl; now rewrite (IH _ _ eq_refl)).
  injection H as <- <-. reflexivity.
Qed.

Lemma toks_eqb_cpre a b : toks_eqb a b = true -> cpre a = cpre b.
Proof.
  revert b. induction a as [|x r IH]; intros [|y s] H; simpl in *; try discriminate; auto.
  apply andb_prop in H as [Hx H]. destruct x, y; simpl in Hx; try discriminate; simpl; now rewrite (IH _ H).
Qed.

Section T.
Variable tbl : toks -> option toks.
Notation resolve := (resolve tbl).

Definition flat_tbl : Prop := forall k v, tbl k = Some v -> cpre v = 0.

Lemma resolve_noprefix f seen s : cpre s = 0 -> resolve (S f) seen s = ROk s.
Proof. intros H. rewrite resolve_S. unfold Resolver.step. now rewrite (cpre0_split_pre _ H). Qed.

Theorem flat_terminates : flat_tbl -> forall n s seen,
  cpre s <= n -> Forall (fun b => cpre s <= cpre b) seen ->
  exists r, resolve (S n) seen s = ROk r /\ cpre r <= cpre s.
Proof.
  intros Flat. induction n as [n IH] using lt_wf_ind. intros s seen Hn Hseen.
  rewrite resolve_S. unfold Resolver.step.
  destruct (split_pre s) as [[before after]|] eqn:SP; [|eexists; split; [reflexivity|lia]].
  destruct (find_end 0 after) as [[body rest]|] eqn:FE; [|eexists; split; [reflexivity|lia]].
  destruct (split_pre_cpre _ _ _ SP) as [Cb Cs]. pose proof (find_end_cpre _ _ _ _ FE) as Ca.
  assert (NS : existsb (toks_eqb body) seen = false).
  { apply not_true_is_false. intro E. apply existsb_exists in E as [b [Hin Eb]].
    rewrite Forall_forall in Hseen. specialize (Hseen b Hin). apply toks_eqb_cpre in Eb. lia. }
  rewrite NS. destruct n as [|n]; [lia|].
  assert (Hbody : exists key, resolve (S n) (body :: seen) body = ROk key /\ cpre key <= cpre body).
  { apply (IH n); [lia|lia|]. constructor; [lia|]. eapply Forall_impl; [|exact Hseen]. simpl. intros; lia. }
  destruct Hbody as [key [Ek Ck]]. rewrite Ek. cbn [bind].
  assert (Hrest : exists r, resolve (S n) seen rest = ROk r /\ cpre r <= cpre rest).
  { apply (IH n); [lia|lia|]. eapply Forall_impl; [|exact Hseen]. simpl. intros; lia. }
  destruct Hrest as [r [Er Cr]].
  assert (Hval : forall pv, cpre pv = 0 ->
            exists out, bind (resolve (S n) (body :: seen) pv)
                          (fun v => bind (resolve (S n) seen rest) (fun r0 => ROk (before ++ v ++ r0))) = ROk out /\
                        cpre out <= cpre s).
  { intros pv Cp. rewrite (resolve_noprefix n _ pv Cp). cbn [bind]. rewrite Er. cbn [bind].
    eexists; split; [reflexivity|]. rewrite !cpre_app. lia. }
  unfold Resolver.lookup_ph.
  destruct (tbl key) as [pv|] eqn:T; [apply Hval; now apply (Flat key)|].
  destruct (split_sep key) as [[k d]|] eqn:SS.
  - destruct (tbl k) as [pv|] eqn:Tk; [apply Hval; now apply (Flat k)|].
    pose proof (split_sep_cpre _ _ _ SS) as Cd.
    assert (Hd : exists v, resolve (S n) (body :: seen) d = ROk v /\ cpre v <= cpre d).
    { apply (IH n); [lia|lia|]. constructor; [lia|]. eapply Forall_impl; [|exact Hseen]. simpl. intros; lia. }
    destruct Hd as [v [Ev Cv]]. rewrite Ev. cbn [bind]. rewrite Er. cbn [bind].
    eexists; split; [reflexivity|]. rewrite !cpre_app. lia.
  - rewrite Er. cbn [bind]. eexists; split; [reflexivity|].
    rewrite cpre_app. simpl. rewrite cpre_app. simpl. lia.
Qed.

Corollary flat_terminates_top : flat_tbl -> forall s,
  exists r, resolve_top tbl (S (cpre s)) s = ROk r.
Proof.
  intros Flat s. destruct (flat_terminates Flat (cpre s) s [] (le_n _) (Forall_nil _)) as [r [E _]].
  exists r. exact E.
Qed.
End T.

(* ================================================================================================
   Termination for ANY table — values may mention placeholders, cyclically or not — when placeholders
   are not nested (no body, in the input or in a value, holds a prefix; so defaults are plain text):
   resolution ends with a string or with a cycle report, never out of fuel, with an explicit bound.
   The bodies that can ever be met form a finite set U (those of the input and of the values); every
   expansion of a value puts one more of them on the visited stack, and a body already there is a
   reported cycle.  Measure: (number of bodies of U not yet visited, length of the text). *)
Lemma toks_eqb_refl a : toks_eqb a a = true.
Proof. induction a as [|t r IH]; [reflexivity|]. simpl. rewrite IH, andb_true_r. destruct t; simpl; auto using Nat.eqb_refl. Qed.

Lemma split_sep_suffix_cpre s k d : split_sep s = Some (k, d) -> cpre s = 0 -> cpre d = 0.
Proof. intros H C. apply split_sep_cpre in H. lia. Qed.

Section U.
Variable tbl : toks -> option toks.
Variable U : list toks.        (* the placeholder bodies of the input and of the values *)
Variable L : nat.              (* bound on the length of every value *)
Notation resolve := (resolve tbl).

(* the top-level scan of s meets only unnested bodies, all of them in U *)
Inductive scan_ok : toks -> Prop :=
| so_none s : split_pre s = None -> scan_ok s
| so_unterm s b a : split_pre s = Some (b, a) -> find_end 0 a = None -> scan_ok s
| so_ph s before after body rest :
    split_pre s = Some (before, after) -> find_end 0 after = Some (body, rest) ->
    In body U -> cpre body = 0 -> scan_ok rest -> scan_ok s.

Definition unnested_tbl : Prop := forall k v, tbl k = Some v -> scan_ok v /\ length v <= L.

Definition unvisited (seen : list toks) : nat :=
  length (filter (fun u => negb (existsb (toks_eqb u) seen)) U).

Lemma filter_length_le {A} (f g : A -> bool) l :
  (forall x, g x = true -> f x = true) -> length (filter g l) <= length (filter f l).
Proof.
  intros H. induction l as [|x r IH]; [simpl; lia|]. simpl.
  destruct (g x) eqn:G; [rewrite (H x G); simpl; lia|]. destruct (f x); simpl; lia.
Qed.

Lemma filter_length_lt {A} (f g : A -> bool) l x :
  (forall y, g y = true -> f y = true) -> In x l -> f x = true -> g x = false ->
  length (filter g l) < length (filter f l).
Proof.
  intros H. induction l as [|y r IH]; intros Hin Fx Gx; [contradiction|]. simpl.
  destruct Hin as [->|Hin].
  - rewrite Fx, Gx. simpl. pose proof (filter_length_le f g r H). lia.
  - specialize (IH Hin Fx Gx). destruct (g y) eqn:G; [rewrite (H y G); simpl; lia|]. destruct (f y); simpl; lia.
Qed.

Lemma unvisited_push body seen :
  In body U -> existsb (toks_eqb body) seen = false -> unvisited (body :: seen) < unvisited seen.
Proof.
  intros Hin NS. unfold unvisited. apply (filter_length_lt _ _ U body); auto.
  - intros y Hy. apply negb_true_iff in Hy. apply negb_true_iff. simpl in Hy. now apply orb_false_elim in Hy as [_ ?].
  - now rewrite NS.
  - simpl. now rewrite toks_eqb_refl.
Qed.

Theorem unnested_terminates : unnested_tbl -> forall n seen s,
  scan_ok s -> length s <= L -> unvisited seen * S L + length s < n ->
  resolve n seen s <> ROut.
Proof.
  intros Tb. induction n as [n IH] using lt_wf_ind. intros seen s Sc Ls Hn.
  destruct n as [|n]; [lia|]. rewrite resolve_S. unfold Resolver.step.
  destruct (split_pre s) as [[before after]|] eqn:SP; [|discriminate].
  destruct (find_end 0 after) as [[body rest]|] eqn:FE; [|discriminate].
  pose proof (split_pre_length _ _ _ SP) as L1. pose proof (find_end_length _ _ _ _ FE) as L2.
  inversion Sc as [s0 E|s0 b a E1 E2|s0 before0 after0 body0 rest0 E1 E2 InU Cb Sr]; subst; try congruence.
  rewrite SP in E1. injection E1 as <- <-. rewrite FE in E2. injection E2 as <- <-.
  destruct (existsb (toks_eqb body) seen) eqn:NS; [discriminate|].
  destruct n as [|n]; [lia|].
  rewrite (resolve_noprefix tbl n _ body Cb). cbn [bind].
  (* the text after the placeholder *)
  assert (Hrest : resolve (S n) seen rest <> ROut) by (apply IH; [lia|exact Sr|lia|lia]).
  (* a looked-up value: one more body is on the stack *)
  assert (Hval : forall pv, scan_ok pv -> length pv <= L -> resolve (S n) (body :: seen) pv <> ROut).
  { intros pv Sp Lp. apply IH; [lia|exact Sp|exact Lp|].
    pose proof (unvisited_push body seen InU NS) as Lt.
    assert (unvisited (body :: seen) * S L + S L <= unvisited seen * S L) by nia. lia. }
  unfold Resolver.lookup_ph.
  assert (Fin : forall (x : res) (f : toks -> res), x <> ROut -> (forall v, f v <> ROut) -> bind x f <> ROut).
  { intros x f Hx Hf. destruct x; cbn [bind]; auto. }
  assert (Tail : forall v, bind (resolve (S n) seen rest) (fun r0 => ROk (before ++ v ++ r0)) <> ROut).
  { intros v. apply Fin; [exact Hrest|discriminate]. }
  destruct (tbl body) as [pv|] eqn:T.
  - destruct (Tb _ _ T) as [Sp Lp]. apply Fin; [now apply Hval|exact Tail].
  - destruct (split_sep body) as [[k d]|] eqn:SS.
    + destruct (tbl k) as [pv|] eqn:Tk.
      * destruct (Tb _ _ Tk) as [Sp Lp]. apply Fin; [now apply Hval|exact Tail].
      * rewrite (resolve_noprefix tbl n _ d (split_sep_suffix_cpre _ _ _ SS Cb)). cbn [bind]. apply Tail.
    + apply Fin; [exact Hrest|discriminate].
Qed.

Corollary unnested_terminates_top : unnested_tbl -> forall s, scan_ok s -> length s <= L ->
  resolve_top tbl (S (length U * S L + length s)) s <> ROut.
Proof.
  intros Tb s Sc Ls. apply unnested_terminates; auto.
  assert (unvisited [] <= length U).
  { unfold unvisited. generalize (fun u : toks => negb (existsb (toks_eqb u) [])) as g. intros g.
    induction U as [|x r IHr]; [simpl; lia|]. simpl. destruct (g x); simpl; lia. }
  assert (unvisited [] * S L <= length U * S L) by nia. lia.
Qed.
End U.
