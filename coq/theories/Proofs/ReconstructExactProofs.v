(* Proofs/ReconstructExactProofs.v — the converse half of reconstruction: after Apply(R, Diff(L,R))
   the document has NO OTHER leaves than those of L (on the domain of C08: L and R agree wherever
   both define a position, every list item of L contains a scalar).
   Invariant: the accumulator is a partial rebuild of L (sim, RebuildExactProofs) EXCEPT below the
   positions whose Delete is still to come. *)
From Coq Require Import List String Ascii ZArith Lia Bool Arith Permutation.
From YT Require Import Base.Str Base.KV Base.Sort Model.Doc Model.Dom Model.Pointer Model.Path Model.Builder
  Model.Equals Model.Diff Model.Apply
  Proofs.StrProofs Proofs.EqualsProofs Proofs.BuilderProofs Proofs.PathProofs Proofs.FrameProofs Proofs.RebuildProofs
  Proofs.RebuildExactProofs Proofs.FlattenMapProofs Proofs.DiffProofs Proofs.DiffOrderProofs Proofs.DiffNilProofs Proofs.ApplyProofs
  Proofs.ApplyLookupProofs Proofs.ReconstructProofs Proofs.ReconstructKeyedProofs Proofs.ReconstructListsProofs.
Import ListNotations.
Local Open Scope list_scope.

(* ---------- positions still to be deleted, as key lists; the part below one key *)
Definition dset := list (list string).

Definition tails (k : string) (D : dset) : dset :=
  flat_map (fun d => match d with
                     | k' :: (_ :: _) as r => if String.eqb k k' then [tl d] else []
                     | _ => []
                     end) D.

Lemma in_tails k D r : In r (tails k D) <-> r <> [] /\ In (k :: r) D.
Proof.
  unfold tails. rewrite in_flat_map. split.
  - intros [d [Hd Hr]]. destruct d as [|k' [|a t]]; try contradiction.
    destruct (String.eqb_spec k k') as [->|NE]; [|contradiction].
    destruct Hr as [<-|[]]. split; [discriminate|exact Hd].
  - intros [NE Hin]. exists (k :: r). split; [exact Hin|].
    destruct r as [|a t]; [contradiction|]. rewrite String.eqb_refl. now left.
Qed.

(* ---------- partial rebuild, except below the positions in D *)
Inductive simD : dset -> node -> node -> Prop :=
| sd_leaf D v : simD D (Leaf v) (Leaf v)
| sd_lst D ns ds : sim (Lst ns) (Lst ds) -> simD D (Lst ns) (Lst ds)
| sd_con D nk dk :
    (forall k x, kv_get k nk = Some x ->
       In [k] D \/ exists y, kv_get k dk = Some y /\ simD (tails k D) x y) ->
    simD D (Con nk) (Con dk).

Lemma sim_simD : forall n d D, sim n d -> simD D n d.
Proof.
  induction n as [v|ns IH|nk IH] using node_ind'; intros d D S.
  - inversion S; subst. constructor.
  - inversion S; subst. now constructor.
  - inversion S as [| |nk' dk Hk]; subst. constructor. intros k x G.
    destruct (Hk k x G) as [y [Gy Sx]]. right. exists y. split; [exact Gy|].
    rewrite Forall_forall in IH. apply (IH (k, x) (get_in k x nk G)). exact Sx.
Qed.

Lemma simD_nil_sim : forall n d, simD [] n d -> sim n d.
Proof.
  induction n as [v|ns IH|nk IH] using node_ind'; intros d S.
  - inversion S; subst. constructor.
  - inversion S; subst. assumption.
  - inversion S as [| |D nk' dk Hk]; subst. constructor. intros k x G.
    destruct (Hk k x G) as [[]|[y [Gy Sx]]]. exists y. split; [exact Gy|].
    rewrite Forall_forall in IH. apply (IH (k, x) (get_in k x nk G)). exact Sx.
Qed.

Lemma sim_refl : forall n, sim n n.
Proof.
  induction n as [v|ns IH|nk IH] using node_ind'.
  - constructor.
  - constructor; [lia|]. intros i x N. right. exists x. split; [exact N|].
    rewrite Forall_forall in IH. apply IH. eapply nth_error_In; eauto.
  - constructor. intros k x G. exists x. split; [exact G|].
    rewrite Forall_forall in IH. apply (IH (k, x) (get_in k x nk G)).
Qed.

(* ---------- an Add whose position is not below any position still to be deleted *)
Definition kprefix (d : list string) (sigma : list step) : Prop := exists rest, sigma = map K d ++ rest.

Theorem simD_set : forall sigma D n d v,
  get_steps sigma d = Some (Leaf v) -> simD D n d ->
  (forall dd, In dd D -> ~ kprefix dd sigma) ->
  simD D (set_steps sigma (Leaf v) n) d.
Proof.
  induction sigma as [|s sigma IH]; intros D n d v G S NP.
  - simpl in G. injection G as ->. constructor.
  - destruct s as [k|i]; simpl in G.
    + destruct d as [w|ds|dk]; try discriminate.
      destruct (kv_get k dk) as [y|] eqn:Gy; [|discriminate].
      inversion S as [| |D' nk dk' Hk]; subst.
      cbn [set_steps as_con]. constructor. intros k' x Hx.
      destruct (String.eqb_spec k' k) as [->|NE].
      * rewrite kv_get_set_same in Hx. injection Hx as <-. right. exists y. split; [exact Gy|].
        unfold kid. cbn [as_con].
        assert (NP' : forall dd, In dd (tails k D) -> ~ kprefix dd sigma).
        { intros dd Hdd [rest E]. apply in_tails in Hdd as [_ Hin]. apply (NP (k :: dd) Hin).
          exists rest. simpl. now rewrite E. }
        destruct (kv_get k nk) as [x0|] eqn:Gx.
        -- destruct (Hk k x0 Gx) as [Hex|[y' [Gy' Sx]]].
           ++ exfalso. apply (NP [k] Hex). exists sigma. reflexivity.
           ++ rewrite Gy in Gy'. injection Gy' as <-. now apply IH.
        -- apply sim_simD. apply sim_set; [exact G|now left].
      * rewrite kv_get_set_other in Hx by exact NE. now apply Hk.
    + destruct d as [w|ds|dk]; try discriminate.
      inversion S as [|D' ns ds' Sl|]; subst.
      constructor. apply (sim_set (I i :: sigma) (Lst ds) (Lst ns) v); [exact G|now right].
Qed.

(* ---------- simD only looks at membership in D *)
Lemma simD_ext : forall n d D D', (forall x, In x D <-> In x D') -> simD D n d -> simD D' n d.
Proof.
  induction n as [v|ns IH|nk IH] using node_ind'; intros d D D' E S.
  - inversion S; subst. constructor.
  - inversion S; subst. now constructor.
  - inversion S as [| |D0 nk' dk Hk]; subst. constructor. intros k x G.
    destruct (Hk k x G) as [Hin|[y [Gy Sx]]]; [left; now apply E|].
    right. exists y. split; [exact Gy|].
    rewrite Forall_forall in IH. apply (IH (k, x) (get_in k x nk G) y (tails k D) (tails k D')); [|exact Sx].
    intros r. rewrite !in_tails. now rewrite E.
Qed.

Lemma simD_noncon D D' x y : is_con x = false -> simD D x y -> simD D' x y.
Proof. intros H S. inversion S; subst; try discriminate; now constructor. Qed.

(* ---------- removal along keys *)
Fixpoint rmk (ks : list string) (k : string) (kvs : list (string * node)) : list (string * node) :=
  match ks with
  | [] => kv_del k kvs
  | a :: r => match kv_get a kvs with
              | Some (Con s) => kv_set a (Con (rmk r k s)) kvs
              | _ => kvs
              end
  end.

Definition plain_path (ks : list string) : spath := map (fun k => (k, [])) ks.

Lemma rm_rmk : forall ks k kvs, rm (plain_path ks) k kvs = rmk ks k kvs.
Proof.
  induction ks as [|a r IH]; intros k kvs; [reflexivity|].
  simpl. unfold get_comp. cbn [fst snd follow_idx].
  destruct (kv_get a kvs) as [[w|xs|s]|]; try reflexivity.
  unfold add_comp. cbn [fst snd]. now rewrite IH.
Qed.

Definition dremove (dd : list string) (D : dset) : dset := remove (list_eq_dec string_dec) dd D.

Lemma in_dremove dd D x : In x (dremove dd D) <-> In x D /\ x <> dd.
Proof.
  unfold dremove. split.
  - intros H. apply in_remove in H. exact H.
  - intros [H1 H2]. now apply in_in_remove.
Qed.

Lemma kv_get_del_inv k k' (l : list (string * node)) x :
  sorted_keys l = true -> kv_get k' (kv_del k l) = Some x -> k' <> k /\ kv_get k' l = Some x.
Proof.
  intros S G. destruct (String.eqb_spec k' k) as [->|NE].
  - rewrite kv_get_del_same in G by exact S. discriminate.
  - rewrite kv_get_del_other in G by exact NE. now split.
Qed.

Theorem simD_rmk : forall ks k D nk dk,
  wf_kvs nk = true -> simD D (Con nk) (Con dk) ->
  simD (dremove (ks ++ [k]) D) (Con (rmk ks k nk)) (Con dk).
Proof.
  induction ks as [|a r IH]; intros k D nk dk W S.
  - inversion S as [| |D0 nk' dk' Hk]; subst. simpl. constructor. intros k' x G.
    assert (SK : sorted_keys nk = true) by (unfold wf_kvs in W; now apply andb_prop in W as [? _]).
    apply kv_get_del_inv in G as [NE G]; [|exact SK].
    destruct (Hk k' x G) as [Hin|[y [Gy Sx]]].
    + left. apply in_dremove. split; [exact Hin|]. intros E. injection E as E. contradiction.
    + right. exists y. split; [exact Gy|]. eapply simD_ext; [|exact Sx].
      intros t. rewrite !in_tails, in_dremove. split; [|tauto].
      intros [Ht Hin]. split; [exact Ht|]. split; [exact Hin|]. intros E. injection E as _ E. contradiction.
  - inversion S as [| |D0 nk' dk' Hk]; subst.
    assert (Hother : forall k' x, k' <> a -> kv_get k' nk = Some x ->
              In [k'] (dremove ((a :: r) ++ [k]) D) \/
              exists y, kv_get k' dk = Some y /\ simD (tails k' (dremove ((a :: r) ++ [k]) D)) x y).
    { intros k' x NE G. destruct (Hk k' x G) as [Hin|[y [Gy Sx]]].
      - left. apply in_dremove. split; [exact Hin|]. simpl. intros E. injection E as _ E. destruct r; discriminate.
      - right. exists y. split; [exact Gy|]. eapply simD_ext; [|exact Sx].
        intros t. rewrite !in_tails, in_dremove. split; [|tauto].
        intros [Ht Hin]. split; [exact Ht|]. split; [exact Hin|]. simpl. intros E. injection E as E _. contradiction. }
    cbn [rmk]. destruct (kv_get a nk) as [xa|] eqn:Ga.
    2:{ constructor. intros k' x G. destruct (String.eqb_spec k' a) as [->|NE]; [congruence|now apply Hother]. }
    destruct xa as [w|xs|s].
    1,2: constructor; intros k' x G; destruct (String.eqb_spec k' a) as [->|NE]; [|now apply Hother];
         rewrite Ga in G; injection G as <-;
         (destruct (Hk a _ Ga) as [Hin|[y [Gy Sx]]];
          [left; apply in_dremove; split; [exact Hin|]; simpl; intros E; injection E as E; destruct r; discriminate
          |right; exists y; split; [exact Gy|]; eapply simD_noncon; [reflexivity|exact Sx]]).
    constructor. intros k' x G. destruct (String.eqb_spec k' a) as [->|NE].
    + rewrite kv_get_set_same in G. injection G as <-.
      destruct (Hk a (Con s) Ga) as [Hin|[y [Gy Sx]]].
      * left. apply in_dremove. split; [exact Hin|]. simpl. intros E. injection E as E. destruct r; discriminate.
      * right. exists y. split; [exact Gy|].
        inversion Sx as [| |D1 s' dk1 Hs]; subst.
        assert (Ws : wf_kvs s = true) by (apply (wf_kvs_get nk a (Con s) W Ga)).
        pose proof (IH k (tails a D) s dk1 Ws Sx) as R.
        eapply simD_ext; [|exact R].
        intros t. rewrite in_dremove, !in_tails, in_dremove. split.
        -- intros [[Ht Hin] NEt]. split; [exact Ht|]. split; [exact Hin|]. simpl. intros E. injection E as E. contradiction.
        -- intros [Ht [Hin NEt]]. split; [now split|]. intros E. apply NEt. simpl. now rewrite E.
    + rewrite kv_get_set_other in G by exact NE. now apply Hother.
Qed.

(* ---------- the diff with its positions made explicit *)
Inductive amod := AAdd (sigma : list step) (v : scalar) | ADel (ks : list string).

Definition lift (k : string) (a : amod) : amod :=
  match a with AAdd s v => AAdd (K k :: s) v | ADel ks => ADel (k :: ks) end.

Definition erase (path : string) (a : amod) : modif :=
  match a with
  | AAdd s v => mkMod MAdd (relpath path s) v SNull
  | ADel ks => mkMod MDelete (relpath path (map K ks)) SNull SNull
  end.

Definition aadds (n : node) : list amod := map (fun e => AAdd (fst e) (snd e)) (flatten_steps n).

Fixpoint adiff (l r : node) {struct l} : list amod :=
  match l, r with
  | Con kl, Con kr =>
      flat_map (fun kx => match kx with
                          | (k, x) => match kv_get k kr with
                                      | Some y => map (lift k) (adiff x y)
                                      | None => map (lift k) (aadds x)
                                      end
                          end) kl
      ++ flat_map (fun ky => match kv_get (fst ky) kl with None => [ADel [fst ky]] | Some _ => [] end) kr
  | Lst xs, Lst ys => if equals (Lst xs) (Lst ys) then [] else ADel [] :: aadds (Lst xs)
  | _, _ => []
  end.

Lemma erase_lift path k a : erase path (lift k a) = erase (to_path path k) a.
Proof. destruct a; reflexivity. Qed.

Lemma adds_erase x path : adds canonical x path = map (erase path) (aadds x).
Proof.
  rewrite adds_flatten, flatten_node_steps. unfold aadds. rewrite !map_map. apply map_ext.
  intros [s v]. reflexivity.
Qed.

Theorem adiff_erase : forall l r path,
  wf l = true -> keys_safe l = true -> wf r = true -> keys_safe r = true -> compat_g l r ->
  diff_node canonical l r path = map (erase path) (adiff l r).
Proof.
  induction l as [a|xs IH|kl IH] using node_ind'; intros r path Wl Sl Wr Sr C.
  - destruct r as [b|ys|kr]; simpl in C; try contradiction. subst b. simpl.
    now destruct (scalar_eqb_spec a a).
  - destruct r as [b|ys|kr]; simpl in C; try contradiction.
    rewrite diff_node_lst. cbn [adiff]. destruct (equals (Lst xs) (Lst ys)); [reflexivity|].
    cbn [map]. f_equal. apply adds_erase.
  - destruct r as [b|ys|kr]; try (simpl in C; contradiction).
    rewrite compat_g_con in C.
    assert (SKl : sorted_keys kl = true) by (simpl in Wl; now apply andb_prop in Wl as [? _]).
    assert (Wk : forall y, In y kl -> wf (snd y) = true).
    { simpl in Wl. apply andb_prop in Wl as [_ Wl]. now rewrite forallb_forall in Wl. }
    assert (Sk : forall y, In y kl -> key_safe (fst y) = true /\ keys_safe (snd y) = true).
    { unfold keys_safe in Sl. simpl in Sl. rewrite forallb_forall in Sl. intros y Hy.
      specialize (Sl y Hy). now apply andb_prop in Sl. }
    assert (Skr : forall y, In y kr -> key_safe (fst y) = true /\ keys_safe (snd y) = true).
    { unfold keys_safe in Sr. simpl in Sr. rewrite forallb_forall in Sr. intros y Hy.
      specialize (Sr y Hy). now apply andb_prop in Sr. }
    rewrite Forall_forall in IH.
    rewrite diff_node_con, dn_left_map. unfold blocks, canonical. cbn [adiff]. rewrite map_app. f_equal.
    + unfold dn_left_blocks. rewrite map_map. cbn [snd].
      rewrite flat_map_concat_map, concat_map, map_map. f_equal.
      apply map_ext_in. intros [k x] Hin. destruct (Sk _ Hin) as [Sk1 Sk2]. simpl in Sk1, Sk2. cbn [fst snd].
      rewrite child_plain_key by now apply key_safe_plain.
      destruct (kv_get k kr) as [y|] eqn:G.
      * assert (Cy : child k kr = Some y) by (rewrite child_plain_key by (now apply key_safe_plain); exact G).
        pose proof (IH (k, x) Hin y (to_path path k) (Wk _ Hin) Sk2 (child_wf k kr y Sk1 Wr Cy) (child_safe k kr y Sk1 Sr Cy) (C k x y Hin G)) as IHx.
        cbn [snd] in IHx. etransitivity; [exact IHx|].
        rewrite map_map. apply map_ext. intros a. now rewrite erase_lift.
      * etransitivity; [apply adds_erase|]. rewrite map_map. apply map_ext. intros a. now rewrite erase_lift.
    + unfold dn_right. rewrite map_map. cbn [snd].
      rewrite flat_map_concat_map, concat_map, map_map. f_equal.
      apply map_ext_in. intros [k y] Hin. destruct (Skr _ Hin) as [Sk1 _]. simpl in Sk1. cbn [fst].
      rewrite child_plain_key by now apply key_safe_plain.
      destruct (kv_get k kl); reflexivity.
Qed.

(* ---------- what the annotated diff contains *)
Lemma adiff_in_con kl kr a :
  In a (adiff (Con kl) (Con kr)) ->
  (exists k x, In (k, x) kl /\
     match kv_get k kr with
     | Some y => exists a', In a' (adiff x y) /\ a = lift k a'
     | None => exists s v, In (s, v) (flatten_steps x) /\ a = AAdd (K k :: s) v
     end)
  \/ (exists k y, In (k, y) kr /\ kv_get k kl = None /\ a = ADel [k]).
Proof.
  cbn [adiff]. intros H. apply in_app_or in H as [H|H]; apply in_flat_map in H as [[k x] [Hin H]].
  - left. exists k, x. split; [exact Hin|]. destruct (kv_get k kr) as [y|].
    + apply in_map_iff in H as [a' [E H]]. exists a'. auto.
    + apply in_map_iff in H as [a' [E H]]. unfold aadds in H. apply in_map_iff in H as [[s v] [E' H]].
      subst. exists s, v. auto.
  - right. cbn [fst] in H. destruct (kv_get k kl) eqn:G; [contradiction|].
    destruct H as [<-|[]]. exists k, x. auto.
Qed.

Theorem adiff_adds_pos : forall l r s v,
  wf l = true -> In (AAdd s v) (adiff l r) -> get_steps s l = Some (Leaf v).
Proof.
  induction l as [a|xs IH|kl IH] using node_ind'; intros r s v W H.
  - destruct r; contradiction.
  - destruct r as [b|ys|kr]; try contradiction. cbn [adiff] in H.
    destruct (equals (Lst xs) (Lst ys)); [contradiction|].
    destruct H as [H|H]; [discriminate|]. unfold aadds in H. apply in_map_iff in H as [[s' v'] [E H]].
    simpl in E. injection E as -> ->. now apply flatten_steps_get.
  - destruct r as [b|ys|kr]; try contradiction.
    assert (SK : sorted_keys kl = true) by (simpl in W; now apply andb_prop in W as [? _]).
    assert (Wk : forall y, In y kl -> wf (snd y) = true).
    { simpl in W. apply andb_prop in W as [_ W]. now rewrite forallb_forall in W. }
    apply adiff_in_con in H as [[k [x [Hin H]]]|[k [y [_ [_ E]]]]]; [|discriminate].
    rewrite Forall_forall in IH.
    destruct (kv_get k kr) as [y|].
    + destruct H as [a' [Ha' E]]. destruct a' as [s' v'|ks]; [|discriminate]. simpl in E. injection E as Es Ev. subst s v.
      simpl. rewrite (in_get k x kl (sorted_nodup kl SK) Hin).
      apply (IH (k, x) Hin y); [apply (Wk _ Hin)|exact Ha'].
    + destruct H as [s' [v' [Hf E]]]. injection E as Es Ev. subst s v.
      simpl. rewrite (in_get k x kl (sorted_nodup kl SK) Hin). apply flatten_steps_get; [apply (Wk _ Hin)|exact Hf].
Qed.

Theorem adiff_adds_safe : forall l r s v,
  keys_safe l = true -> In (AAdd s v) (adiff l r) -> forallb step_safe s = true.
Proof.
  induction l as [a|xs IH|kl IH] using node_ind'; intros r s v S H.
  - destruct r; contradiction.
  - destruct r as [b|ys|kr]; try contradiction. cbn [adiff] in H.
    destruct (equals (Lst xs) (Lst ys)); [contradiction|].
    destruct H as [H|H]; [discriminate|]. unfold aadds in H. apply in_map_iff in H as [[s' v'] [E H]].
    simpl in E. injection E as -> ->. eapply flatten_steps_safe; eauto.
  - destruct r as [b|ys|kr]; try contradiction.
    assert (Sk : forall y, In y kl -> key_safe (fst y) = true /\ keys_safe (snd y) = true).
    { unfold keys_safe in S. simpl in S. rewrite forallb_forall in S. intros y Hy.
      specialize (S y Hy). now apply andb_prop in S. }
    apply adiff_in_con in H as [[k [x [Hin H]]]|[k [y [_ [_ E]]]]]; [|discriminate].
    rewrite Forall_forall in IH. destruct (Sk _ Hin) as [S1 S2]. simpl in S1, S2.
    destruct (kv_get k kr) as [y|].
    + destruct H as [a' [Ha' E]]. destruct a' as [s' v'|ks]; [|discriminate]. simpl in E. injection E as Es Ev. subst s v.
      simpl. rewrite S1. apply (IH (k, x) Hin y s' v' S2 Ha').
    + destruct H as [s' [v' [Hf E]]]. injection E as Es Ev. subst s v.
      simpl. rewrite S1. eapply flatten_steps_safe; eauto.
Qed.

Theorem adiff_dels_ok : forall l r ks,
  wf l = true -> keys_safe l = true -> keys_safe r = true -> In (ADel ks) (adiff l r) ->
  forallb key_safe ks = true /\ forall v, get_steps (map K ks) l <> Some (Leaf v).
Proof.
  induction l as [a|xs IH|kl IH] using node_ind'; intros r ks W S Sr H.
  - destruct r; contradiction.
  - destruct r as [b|ys|kr]; try contradiction. cbn [adiff] in H.
    destruct (equals (Lst xs) (Lst ys)); [contradiction|].
    destruct H as [H|H].
    + injection H as <-. split; [reflexivity|]. intros v. simpl. discriminate.
    + unfold aadds in H. apply in_map_iff in H as [[s' v'] [E _]]. discriminate.
  - destruct r as [b|ys|kr]; try contradiction.
    assert (SK : sorted_keys kl = true) by (simpl in W; now apply andb_prop in W as [? _]).
    assert (Wk : forall y, In y kl -> wf (snd y) = true).
    { simpl in W. apply andb_prop in W as [_ W]. now rewrite forallb_forall in W. }
    assert (Sk : forall y, In y kl -> key_safe (fst y) = true /\ keys_safe (snd y) = true).
    { unfold keys_safe in S. simpl in S. rewrite forallb_forall in S. intros y Hy.
      specialize (S y Hy). now apply andb_prop in S. }
    assert (Skr : forall y, In y kr -> key_safe (fst y) = true /\ keys_safe (snd y) = true).
    { unfold keys_safe in Sr. simpl in Sr. rewrite forallb_forall in Sr. intros y Hy.
      specialize (Sr y Hy). now apply andb_prop in Sr. }
    apply adiff_in_con in H as [[k [x [Hin H]]]|[k [y [Hin [G E]]]]].
    + rewrite Forall_forall in IH. destruct (Sk _ Hin) as [S1 S2]. simpl in S1, S2.
      destruct (kv_get k kr) as [y|] eqn:Gy.
      * destruct H as [a' [Ha' E]]. destruct a' as [s' v'|ks']; [discriminate|]. simpl in E. injection E as ->.
        apply get_in in Gy. destruct (Skr _ Gy) as [_ Sy]. simpl in Sy.
        destruct (IH (k, x) Hin y ks' (Wk _ Hin) S2 Sy Ha') as [F N].
        split; [simpl; now rewrite S1|]. intros v. simpl. rewrite (in_get k x kl (sorted_nodup kl SK) Hin). apply N.
      * destruct H as [s' [v' [_ E]]]. discriminate.
    + injection E as ->. destruct (Skr _ Hin) as [S1 _]. simpl in S1.
      split; [simpl; now rewrite S1|]. intros v. simpl. rewrite G. discriminate.
Qed.

Lemma adiff_con_dels_nonempty kl kr : ~ In (ADel []) (adiff (Con kl) (Con kr)).
Proof.
  intros H. apply adiff_in_con in H as [[k [x [Hin H]]]|[k [y [_ [_ E]]]]]; [|discriminate].
  destruct (kv_get k kr).
  - destruct H as [a' [_ E]]. destruct a'; discriminate.
  - destruct H as [s [v [_ E]]]. discriminate.
Qed.

(* ---------- the positions still to be deleted in a (remaining) annotated modification list *)
Definition dels (A : list amod) : dset := flat_map (fun a => match a with ADel ks => [ks] | AAdd _ _ => [] end) A.

Lemma in_dels ks A : In ks (dels A) <-> In (ADel ks) A.
Proof.
  unfold dels. rewrite in_flat_map. split.
  - intros [a [Hin H]]. destruct a as [s v|ks']; [contradiction|]. destruct H as [<-|[]]. exact Hin.
  - intros H. exists (ADel ks). split; [exact H|now left].
Qed.

(* more exemptions is weaker; the empty position never matters *)
Lemma simD_mono : forall n d D D', (forall x, x <> [] -> In x D -> In x D') -> simD D n d -> simD D' n d.
Proof.
  induction n as [v|ns IH|nk IH] using node_ind'; intros d D D' E S.
  - inversion S; subst. constructor.
  - inversion S; subst. now constructor.
  - inversion S as [| |D0 nk' dk Hk]; subst. constructor. intros k x G.
    destruct (Hk k x G) as [Hin|[y [Gy Sx]]]; [left; apply E; [discriminate|exact Hin]|].
    right. exists y. split; [exact Gy|].
    rewrite Forall_forall in IH. apply (IH (k, x) (get_in k x nk G) y (tails k D) (tails k D')); [|exact Sx].
    intros r NE. rewrite !in_tails. intros [_ Hin]. split; [exact NE|]. apply E; [discriminate|exact Hin].
Qed.

(* ---------- before anything is applied: R is a partial rebuild of L except below the Delete positions *)
Theorem simD_init : forall l r, wf l = true -> wf r = true -> compat_g l r ->
  In (ADel []) (adiff l r) \/ simD (dels (adiff l r)) r l.
Proof.
  induction l as [a|xs IH|kl IH] using node_ind'; intros r Wl Wr C.
  - destruct r as [b|ys|kr]; simpl in C; try contradiction. subst b. right. constructor.
  - destruct r as [b|ys|kr]; simpl in C; try contradiction. cbn [adiff].
    destruct (equals (Lst xs) (Lst ys)) eqn:E.
    + right. apply equals_sound in E; [|exact Wl|exact Wr]. injection E as <-. constructor. apply sim_refl.
    + left. now left.
  - destruct r as [b|ys|kr]; try (simpl in C; contradiction).
    rewrite compat_g_con in C.
    assert (SKl : sorted_keys kl = true) by (simpl in Wl; now apply andb_prop in Wl as [? _]).
    assert (Wk : forall y, In y kl -> wf (snd y) = true).
    { simpl in Wl. apply andb_prop in Wl as [_ Wl]. now rewrite forallb_forall in Wl. }
    assert (Wkr : forall y, In y kr -> wf (snd y) = true).
    { simpl in Wr. apply andb_prop in Wr as [_ Wr]. now rewrite forallb_forall in Wr. }
    rewrite Forall_forall in IH.
    right. constructor. intros k y Gy.
    destruct (kv_get k kl) as [x|] eqn:Gx.
    + pose proof (get_in k x kl Gx) as Hin.
      assert (InL : forall a', In a' (adiff x y) -> In (lift k a') (adiff (Con kl) (Con kr))).
      { intros a' Ha. cbn [adiff]. apply in_or_app. left. apply in_flat_map. exists (k, x). split; [exact Hin|].
        rewrite Gy. apply in_map_iff. exists a'. auto. }
      destruct (IH (k, x) Hin y (Wk _ Hin) (Wkr _ (get_in k y kr Gy)) (C k x y Hin Gy)) as [H0|Hs].
      * left. apply in_dels. apply (InL (ADel []) H0).
      * right. exists x. split; [reflexivity|]. cbn [snd] in Hs. eapply simD_mono; [|exact Hs].
        intros t NE Ht. apply in_tails. split; [exact NE|]. apply in_dels. apply in_dels in Ht. apply (InL (ADel t) Ht).
    + left. apply in_dels. cbn [adiff]. apply in_or_app. right. apply in_flat_map. exists (k, y).
      split; [now apply get_in|]. cbn [fst]. rewrite Gx. now left.
Qed.

(* ---------- sorting commutes with the erasure *)
Lemma insert_map {A B} (f : A -> B) (key : B -> string) x l :
  insert B key (f x) (map f l) = map f (insert A (fun a => key (f a)) x l).
Proof.
  induction l as [|y r IH]; [reflexivity|]. simpl. destruct (kle (key (f x)) (key (f y))); [reflexivity|].
  simpl. now rewrite IH.
Qed.

Lemma isort_map {A B} (f : A -> B) (key : B -> string) l :
  isort key (map f l) = map f (isort (fun a => key (f a)) l).
Proof. induction l as [|x r IH]; [reflexivity|]. simpl. rewrite IH. apply insert_map. Qed.

Definition akey (a : amod) : string := mpath (erase ""%string a).

Lemma step_safe_keys ks : forallb step_safe (map K ks) = forallb key_safe ks.
Proof. induction ks as [|k r IH]; [reflexivity|]. simpl. now rewrite IH. Qed.

Lemma steps_of_plain ks : steps_of (plain_path ks) = map K ks.
Proof. induction ks as [|k r IH]; [reflexivity|]. change (steps_of (plain_path (k :: r))) with (K k :: steps_of (plain_path r)). now rewrite IH. Qed.

Lemma remove_at_rmk init last kvs :
  forallb key_safe (init ++ [last]) = true ->
  remove_at (render_steps (map K (init ++ [last]))) kvs = rmk init last kvs.
Proof.
  intros F. rewrite forallb_app in F. apply andb_prop in F as [Fi Fl]. simpl in Fl. rewrite andb_true_r in Fl.
  assert (Fp : Forall (fun c => key_safe (fst c) = true) (plain_path init)).
  { rewrite forallb_forall in Fi. apply Forall_forall. intros c Hc. unfold plain_path in Hc.
    apply in_map_iff in Hc as [k [<- Hk]]. simpl. now apply Fi. }
  rewrite map_app. cbn [map]. rewrite <- steps_of_plain.
  unfold remove_at. rewrite steps_of_snoc, split_dots_render_spath.
  - rewrite map_app. simpl map. rewrite render_comp_plain_key.
    rewrite remove_at_comps_rm by exact Fp. apply rm_rmk.
  - now destruct (plain_path init).
  - apply Forall_app. split; [exact Fp|]. constructor; [exact Fl|constructor].
Qed.

(* ---------- what every annotated modification must satisfy, relative to L *)
Definition aok (L : node) (a : amod) : Prop :=
  match a with
  | AAdd s v => get_steps s L = Some (Leaf v) /\ forallb step_safe s = true /\ exists k r, s = K k :: r
  | ADel ks => ks <> [] /\ forallb key_safe ks = true /\ forall v, get_steps (map K ks) L <> Some (Leaf v)
  end.

Theorem fold_simD : forall A acc dk,
  sorted akey A -> (forall a, In a A -> aok (Con dk) a) ->
  wf_kvs acc = true -> simD (dels A) (Con acc) (Con dk) ->
  wf_kvs (fold_left apply_single (map (erase ""%string) A) acc) = true /\
  simD [] (Con (fold_left apply_single (map (erase ""%string) A) acc)) (Con dk).
Proof.
  induction A as [|a A IH]; intros acc dk Srt Ok W S.
  - simpl. split; [exact W|exact S].
  - inversion Srt as [|? ? Fa SrtA]; subst.
    assert (OkA : forall a', In a' A -> aok (Con dk) a') by (intros a' H; apply Ok; now right).
    pose proof (Ok a (or_introl eq_refl)) as Oa.
    cbn [map fold_left]. destruct a as [s v|ks].
    + destruct Oa as [G [Ss [k [r ->]]]].
      change (erase ""%string (AAdd (K k :: r) v)) with (mkMod MAdd (render_steps (K k :: r)) v SNull).
      rewrite apply_single_add by exact Ss.
      assert (E : Con (add_value_at (render_steps (K k :: r)) (Leaf v) acc) = set_steps (K k :: r) (Leaf v) (Con acc))
        by (now apply add_value_at_steps).
      apply IH; [exact SrtA|exact OkA| |].
      * rewrite <- wf_con, E. apply wf_set_steps; [exact W|reflexivity].
      * rewrite E. apply simD_set; [exact G|exact S|].
        intros dd Hdd [rest Er]. cbn [dels flat_map app] in Hdd. fold (dels A) in Hdd.
        apply in_dels in Hdd.
        destruct (OkA _ Hdd) as [NEd [Sd NL]].
        destruct rest as [|s0 rest0].
        -- rewrite app_nil_r in Er. rewrite <- Er in NL. now apply (NL v).
        -- rewrite Forall_forall in Fa. specialize (Fa _ Hdd). unfold akey, kle in Fa. cbn [erase mpath] in Fa.
           change (relpath ""%string (map K dd)) with (render_steps (map K dd)) in Fa.
           change (relpath ""%string (K k :: r)) with (render_steps (K k :: r)) in Fa.
           rewrite Er in Fa. rewrite render_prefix_lt in Fa; [discriminate| |discriminate].
           destruct dd as [|k0 t]; [contradiction|]. cbn [map]. apply render_steps_nonempty.
           change (K k0 :: map K t) with (map K (k0 :: t)). now rewrite step_safe_keys.
    + destruct Oa as [NE [Sk NL]].
      destruct (@exists_last _ ks NE) as [init [last ->]].
      change (erase ""%string (ADel (init ++ [last]))) with (mkMod MDelete (render_steps (map K (init ++ [last]))) SNull SNull).
      rewrite apply_single_delete.
      apply IH; [exact SrtA|exact OkA| |].
      * unfold remove_at. now apply wf_remove_at_comps.
      * rewrite remove_at_rmk by exact Sk.
        eapply simD_mono; [|apply simD_rmk; [exact W|exact S]].
        intros x _ Hx. apply in_dremove in Hx as [Hx NEx]. cbn [dels flat_map app] in Hx. fold (dels A) in Hx.
        destruct Hx as [Hx|Hx]; [congruence|exact Hx].
Qed.

(* ---------- C08, the converse: after Apply(R, Diff(L, R)) there are NO OTHER leaves than L's *)
Theorem reconstruct_steps_exact kl kr :
  wf (Con kl) = true -> keys_safe (Con kl) = true -> wf (Con kr) = true -> keys_safe (Con kr) = true ->
  compat_g (Con kl) (Con kr) -> eis (Con kl) = true ->
  wf (apply (Con kr) (diff (Con kl) (Con kr))) = true /\
  forall tau w, In (tau, w) (flatten_steps (apply (Con kr) (diff (Con kl) (Con kr)))) <->
                In (tau, w) (flatten_steps (Con kl)).
Proof.
  intros Wl Sl Wr Sr C E.
  assert (Compl : forall sigma w, In (sigma, w) (flatten_steps (Con kl)) ->
            get_steps sigma (apply (Con kr) (diff (Con kl) (Con kr))) = Some (Leaf w)).
  { intros sigma w Hs. pose proof (flatten_steps_safe _ _ _ Sl Hs) as Ss.
    assert (Hs' := Hs). rewrite flatten_steps_con in Hs'. apply In_fs_kvs in Hs' as [k0 [x0 [r0 [-> _]]]].
    unfold apply. rewrite <- lookup_render_steps by exact Ss.
    apply (reconstruct_general kl kr _ w Wl Sl Wr Sr C).
    rewrite flatten_steps_render. apply in_map_iff. exists (K k0 :: r0, w). split; [reflexivity|exact Hs]. }
  revert Compl.
  unfold apply, diff, diff_ord, diff_raw, sort_mods.
  rewrite (adiff_erase (Con kl) (Con kr) ""%string Wl Sl Wr Sr C), isort_map.
  change (fun a => mpath (erase ""%string a)) with akey.
  set (A := isort akey (adiff (Con kl) (Con kr))).
  pose proof (isort_perm akey (adiff (Con kl) (Con kr))) as P. fold A in P.
  assert (Ok : forall a, In a A -> aok (Con kl) a).
  { intros a Ha. apply (Permutation_in _ P) in Ha. destruct a as [s w|ks]; cbn [aok].
    - pose proof (adiff_adds_pos _ _ _ _ Wl Ha) as G. split; [exact G|].
      split; [now apply (adiff_adds_safe _ _ _ _ Sl Ha)|].
      destruct s as [|[k|i] r]; simpl in G; try discriminate. now exists k, r.
    - destruct (adiff_dels_ok _ _ _ Wl Sl Sr Ha) as [F N]. split; [|now split].
      intros ->. now apply (adiff_con_dels_nonempty kl kr). }
  assert (S0 : simD (dels A) (Con kr) (Con kl)).
  { destruct (simD_init (Con kl) (Con kr) Wl Wr C) as [H0|S0]; [now apply adiff_con_dels_nonempty in H0|].
    eapply simD_mono; [|exact S0]. intros x _ Hx. apply in_dels. apply in_dels in Hx.
    apply (Permutation_in _ (Permutation_sym P)). exact Hx. }
  destruct (fold_simD A kr kl (isort_sorted _ akey _) Ok Wr S0) as [WF SF].
  set (F := fold_left apply_single (map (erase ""%string) A) kr) in *.
  intros Compl. split; [exact WF|]. intros tau w. split.
  - apply (sim_complete_exact (Con F) (Con kl)); auto. now apply simD_nil_sim.
  - intros H. apply flatten_steps_complete. now apply Compl.
Qed.

(* on path strings: exactly L's (path, value) pairs, each once *)
Theorem reconstruct_exact kl kr p v :
  wf (Con kl) = true -> keys_safe (Con kl) = true -> wf (Con kr) = true -> keys_safe (Con kr) = true ->
  compat_g (Con kl) (Con kr) -> eis (Con kl) = true ->
  In (p, v) (flatten (apply (Con kr) (diff (Con kl) (Con kr)))) -> In (p, v) (flatten (Con kl)).
Proof.
  intros Wl Sl Wr Sr C E Hin. destruct (reconstruct_steps_exact kl kr Wl Sl Wr Sr C E) as [_ X].
  rewrite flatten_steps_render in Hin. apply in_map_iff in Hin as [[tau w] [Ep Ht]]. simpl in Ep. injection Ep as <- <-.
  rewrite flatten_steps_render. apply in_map_iff. exists (tau, w). split; [reflexivity|]. now apply X.
Qed.

Lemma nodup_of_fst {A B} (l : list (A * B)) : NoDup (map fst l) -> NoDup l.
Proof.
  induction l as [|[a b] r IH]; intros H; [constructor|]. inversion H as [|? ? Hn Hr]; subst.
  constructor; [|now apply IH]. intros Hin. apply Hn. apply in_map_iff. exists (a, b). auto.
Qed.

Theorem reconstruct_flatten_perm kl kr :
  wf (Con kl) = true -> keys_safe (Con kl) = true -> wf (Con kr) = true -> keys_safe (Con kr) = true ->
  compat_g (Con kl) (Con kr) -> eis (Con kl) = true ->
  Permutation (flatten (apply (Con kr) (diff (Con kl) (Con kr)))) (flatten (Con kl)).
Proof.
  intros Wl Sl Wr Sr C E. destruct (reconstruct_steps_exact kl kr Wl Sl Wr Sr C E) as [WF X].
  rewrite !flatten_steps_render. apply Permutation_map. apply NoDup_Permutation.
  - apply nodup_of_fst. now apply flatten_steps_nodup.
  - apply nodup_of_fst. now apply flatten_steps_nodup.
  - intros [tau w]. apply X.
Qed.
