From Coq Require Import List Arith Lia Bool.
From YT Require Import Model.Resolver.
Import ListNotations.

Section R.
Variable tbl : toks -> option toks.
Notation resolve := (resolve tbl).
Notation step := (step tbl).
Notation lookup_ph := (lookup_ph tbl).

Lemma resolve_S f seen s : resolve (S f) seen s = step (resolve f) seen s.
Proof. reflexivity. Qed.

(* step is monotone in its recursive oracle *)
Lemma step_mono (r1 r2 : list toks -> toks -> res) :
  (forall seen s x, r1 seen s = x -> x <> ROut -> r2 seen s = x) ->
  forall seen s x, step r1 seen s = x -> x <> ROut -> step r2 seen s = x.
Proof.
  intros M seen s x H Hx. unfold step in *.
  destruct (split_pre s) as [[before after]|]; [|exact H].
  destruct (find_end 0 after) as [[body rest]|]; [|exact H].
  destruct (existsb (toks_eqb body) seen); [exact H|].
  destruct (r1 (body::seen) body) as [key| |] eqn:E1; cbn [bind] in H; try congruence.
  - rewrite (M _ _ _ E1) by discriminate. cbn [bind].
    destruct (lookup_ph key) as [pv|].
    + destruct (r1 (body::seen) pv) as [v| |] eqn:E2; cbn [bind] in H; try congruence.
      * rewrite (M _ _ _ E2) by discriminate. cbn [bind].
        destruct (r1 seen rest) as [r0| |] eqn:E3; cbn [bind] in H; try congruence;
        rewrite (M _ _ _ E3) by discriminate; exact H.
      * rewrite (M _ _ _ E2) by discriminate. exact H.
    + destruct (r1 seen rest) as [r0| |] eqn:E3; cbn [bind] in H; try congruence;
      rewrite (M _ _ _ E3) by discriminate; exact H.
  - rewrite (M _ _ _ E1) by discriminate. exact H.
Qed.

(* ---- fuel monotonicity *)
Lemma resolve_mono : forall f seen s r, resolve f seen s = r -> r <> ROut -> resolve (S f) seen s = r.
Proof.
  induction f as [|f IH]; intros seen s r H Hr; [simpl in H; congruence|].
  rewrite resolve_S in *. eapply step_mono; eauto.
Qed.
Lemma resolve_mono_le f g seen s r : f <= g -> resolve f seen s = r -> r <> ROut -> resolve g seen s = r.
Proof. induction 1; auto. intros. apply resolve_mono; auto. Qed.

(* ---- no prefix: identity *)
Lemma resolve_no_pre f seen s : split_pre s = None -> resolve (S f) seen s = ROk s.
Proof. intros H. rewrite resolve_S. unfold step. now rewrite H. Qed.

(* ---- append lemmas for the scanners *)
Lemma split_pre_app_some s1 s2 b a : split_pre s1 = Some (b,a) -> split_pre (s1 ++ s2) = Some (b, a ++ s2).
Proof. revert b a. induction s1 as [|t r IH]; intros b a H; [discriminate|].
  destruct t; simpl in *; try (destruct (split_pre r) as [[b' a']|]; [|discriminate];
    injection H as <- <-; now rewrite (IH _ _ eq_refl)). now injection H as <- <-. Qed.
Lemma split_pre_app_none s1 s2 : split_pre s1 = None ->
  split_pre (s1 ++ s2) = match split_pre s2 with Some (b,a) => Some (s1 ++ b, a) | None => None end.
Proof. induction s1 as [|t r IH]; intros H; simpl; [now destruct (split_pre s2) as [[? ?]|]|].
  destruct t; simpl in *; try discriminate;
  (destruct (split_pre r) as [[b' a']|]; [discriminate|]; rewrite IH by reflexivity;
   now destruct (split_pre s2) as [[? ?]|]). Qed.
Lemma find_end_app n s1 s2 b a : find_end n s1 = Some (b,a) -> find_end n (s1 ++ s2) = Some (b, a ++ s2).
Proof. revert n b a. induction s1 as [|t r IH]; intros n b a H; [discriminate|].
  destruct t; simpl in *.
  - destruct (find_end (S n) r) as [[b' a']|] eqn:E; [|discriminate]. injection H as <- <-. now rewrite (IH _ _ _ E).
  - destruct n; [now injection H as <- <-|].
    destruct (find_end n r) as [[b' a']|] eqn:E; [|discriminate]. injection H as <- <-. now rewrite (IH _ _ _ E).
  - destruct (find_end n r) as [[b' a']|] eqn:E; [|discriminate]. injection H as <- <-. now rewrite (IH _ _ _ E).
  - destruct (find_end n r) as [[b' a']|] eqn:E; [|discriminate]. injection H as <- <-. now rewrite (IH _ _ _ E).
Qed.


(* ---- the homomorphism: a sibling occurrence is not a cycle *)
Theorem resolve_app : forall f seen s1 r1 k, balanced k s1 = true ->
  resolve f seen s1 = ROk r1 ->
  forall g s2 r2, resolve g seen s2 = ROk r2 ->
  resolve (f + g) seen (s1 ++ s2) = ROk (r1 ++ r2).
Proof.
  induction f as [|f IH]; intros seen s1 r1 k B H1 g s2 r2 H2; [discriminate|].
  destruct k as [|k]; [discriminate|]. simpl in B.
  change (S f + g) with (S (f + g)). rewrite resolve_S in *. unfold step in H1 |- *.
  destruct (split_pre s1) as [[before after]|] eqn:SP.
  - rewrite (split_pre_app_some _ s2 _ _ SP).
    destruct (find_end 0 after) as [[body rest]|] eqn:FE; [|discriminate].
    rewrite (find_end_app _ _ s2 _ _ FE).
    destruct (existsb (toks_eqb body) seen); [discriminate|].
    destruct (resolve f (body::seen) body) as [key| |] eqn:E1; cbn [bind] in H1; try discriminate.
    rewrite (resolve_mono_le f (f+g) _ _ _ (Nat.le_add_r _ _) E1) by discriminate. cbn [bind].
    destruct (lookup_ph key) as [pv|].
    + destruct (resolve f (body::seen) pv) as [v| |] eqn:E2; cbn [bind] in H1; try discriminate.
      rewrite (resolve_mono_le f (f+g) _ _ _ (Nat.le_add_r _ _) E2) by discriminate. cbn [bind].
      destruct (resolve f seen rest) as [r0| |] eqn:E3; cbn [bind] in H1; try discriminate.
      injection H1 as <-. rewrite (IH _ _ _ _ B E3 _ _ _ H2). cbn [bind].
      now rewrite <- !app_assoc.
    + destruct (resolve f seen rest) as [r0| |] eqn:E3; cbn [bind] in H1; try discriminate.
      injection H1 as <-. rewrite (IH _ _ _ _ B E3 _ _ _ H2). cbn [bind].
      f_equal. rewrite <- !app_assoc. simpl. now rewrite <- app_assoc.
  - injection H1 as <-. rewrite (split_pre_app_none _ s2 SP).
    destruct g as [|g]; [discriminate|]. rewrite resolve_S in H2. unfold step in H2.
    destruct (split_pre s2) as [[b2 a2]|] eqn:SP2; [|now injection H2 as <-].
    destruct (find_end 0 a2) as [[body rest]|]; [|now injection H2 as <-].
    destruct (existsb (toks_eqb body) seen); [discriminate|].
    assert (L : g <= f + S g) by lia.
    destruct (resolve g (body::seen) body) as [key| |] eqn:E1; cbn [bind] in H2; try discriminate.
    rewrite (resolve_mono_le _ _ _ _ _ L E1) by discriminate. cbn [bind].
    destruct (lookup_ph key) as [pv|].
    + destruct (resolve g (body::seen) pv) as [v| |] eqn:E2; cbn [bind] in H2; try discriminate.
      rewrite (resolve_mono_le _ _ _ _ _ L E2) by discriminate. cbn [bind].
      destruct (resolve g seen rest) as [r0| |] eqn:E3; cbn [bind] in H2; try discriminate.
      rewrite (resolve_mono_le _ _ _ _ _ L E3) by discriminate. cbn [bind].
      injection H2 as <-. now rewrite <- app_assoc.
    + destruct (resolve g seen rest) as [r0| |] eqn:E3; cbn [bind] in H2; try discriminate.
      rewrite (resolve_mono_le _ _ _ _ _ L E3) by discriminate. cbn [bind].
      injection H2 as <-. now rewrite <- app_assoc.
Qed.

(* ---------- plain text, and the basic behaviours on a single placeholder *)
Definition is_chr (t : tok) : bool := match t with TChr _ => true | _ => false end.
Definition no_delim (t : tok) : bool := match t with TPre | TSuf => false | _ => true end.

Lemma split_pre_plain s : forallb no_delim s = true -> split_pre s = None.
Proof.
  induction s as [|t r IH]; intros H; [reflexivity|]. simpl in H. apply andb_prop in H as [H1 H2].
  destruct t; simpl in *; try discriminate; now rewrite IH.
Qed.

Lemma find_end_plain : forall body n rest,
  forallb no_delim body = true -> find_end n (body ++ TSuf :: rest) =
    match n with
    | O => Some (body, rest)
    | S m => match find_end m rest with Some (b, a) => Some (body ++ TSuf :: b, a) | None => None end
    end.
Proof.
  induction body as [|t r IH]; intros n rest H.
  - simpl. destruct n; reflexivity.
  - simpl in H. apply andb_prop in H as [H1 H2]. destruct t; simpl in *; try discriminate.
    + rewrite IH by exact H2. destruct n; [reflexivity|]. destruct (find_end n rest) as [[b a]|]; reflexivity.
    + rewrite IH by exact H2. destruct n; [reflexivity|]. destruct (find_end n rest) as [[b a]|]; reflexivity.
Qed.

(* text outside placeholders is never altered: no prefix, no change *)
Theorem resolve_text f seen s : forallb no_delim s = true -> resolve (S f) seen s = ROk s.
Proof. intros H. apply resolve_no_pre. now apply split_pre_plain. Qed.

(* an unterminated placeholder stays verbatim, together with everything after it *)
Theorem unterminated_verbatim f seen s before after :
  split_pre s = Some (before, after) -> find_end 0 after = None -> resolve (S f) seen s = ROk s.
Proof. intros H1 H2. rewrite resolve_S. unfold Resolver.step. now rewrite H1, H2. Qed.

(* one placeholder with a plain key, surrounded by plain text *)
Lemma single_placeholder f seen before body rest :
  forallb no_delim before = true -> forallb no_delim body = true -> forallb no_delim rest = true ->
  existsb (toks_eqb body) seen = false ->
  resolve (S (S f)) seen (before ++ TPre :: body ++ TSuf :: rest) =
    match lookup_ph body with
    | Some pv => bind (resolve (S f) (body :: seen) pv) (fun v => ROk (before ++ v ++ rest))
    | None => ROk (before ++ TPre :: body ++ TSuf :: rest)
    end.
Proof.
  intros Hb Hk Hr Hs. rewrite resolve_S. unfold Resolver.step.
  rewrite (split_pre_app_none before _ (split_pre_plain _ Hb)). cbn [split_pre]. rewrite app_nil_r.
  rewrite find_end_plain by exact Hk. rewrite Hs.
  rewrite (resolve_text f _ body Hk). cbn [bind].
  destruct (lookup_ph body) as [pv|].
  - unfold toks in *. destruct (resolve (S f) (body :: seen) pv); cbn [bind]; try reflexivity.
    now rewrite (resolve_text f _ rest Hr).
  - now rewrite (resolve_text f _ rest Hr).
Qed.

(* a known key is replaced by its (here: plain) value *)
Theorem known_substituted f before key rest v :
  forallb no_delim before = true -> forallb no_delim key = true -> forallb no_delim rest = true ->
  forallb no_delim v = true -> tbl key = Some v ->
  resolve (S (S f)) [] (before ++ TPre :: key ++ TSuf :: rest) = ROk (before ++ v ++ rest).
Proof.
  intros Hb Hk Hr Hv T. rewrite single_placeholder by auto.
  unfold Resolver.lookup_ph. rewrite T. now rewrite (resolve_text f _ v Hv).
Qed.

(* an unknown key without separator: the placeholder stays verbatim *)
Theorem unknown_verbatim f before key rest :
  forallb no_delim before = true -> forallb is_chr key = true -> forallb no_delim rest = true ->
  tbl key = None ->
  resolve (S (S f)) [] (before ++ TPre :: key ++ TSuf :: rest) = ROk (before ++ TPre :: key ++ TSuf :: rest).
Proof.
  intros Hb Hk Hr T.
  assert (Hk' : forallb no_delim key = true).
  { rewrite forallb_forall in *. intros t Ht. specialize (Hk t Ht). now destruct t. }
  rewrite single_placeholder by auto. unfold Resolver.lookup_ph. rewrite T.
  assert (S0 : split_sep key = None).
  { clear -Hk. induction key as [|t r IH]; [reflexivity|]. simpl in Hk. apply andb_prop in Hk as [H1 H2].
    destruct t; simpl in *; try discriminate. now rewrite IH. }
  now rewrite S0.
Qed.

(* an unknown key with a separator: the text after the FIRST separator is the default *)
Theorem default_used f before key def rest :
  forallb no_delim before = true -> forallb is_chr key = true -> forallb no_delim def = true ->
  forallb no_delim rest = true ->
  tbl (key ++ TSep :: def) = None -> tbl key = None ->
  resolve (S (S f)) [] (before ++ TPre :: (key ++ TSep :: def) ++ TSuf :: rest) = ROk (before ++ def ++ rest).
Proof.
  intros Hb Hk Hd Hr T1 T2.
  assert (Hkd : forallb no_delim (key ++ TSep :: def) = true).
  { rewrite forallb_app. simpl. rewrite Hd, andb_true_r. rewrite forallb_forall in *.
    intros t Ht. specialize (Hk t Ht). now destruct t. }
  rewrite single_placeholder by auto. unfold Resolver.lookup_ph. rewrite T1.
  assert (S0 : split_sep (key ++ TSep :: def) = Some (key, def)).
  { clear -Hk. induction key as [|t r IH]; [reflexivity|]. simpl in Hk. apply andb_prop in Hk as [H1 H2].
    destruct t; simpl in *; try discriminate. now rewrite IH. }
  rewrite S0, T2. now rewrite (resolve_text f _ def Hd).
Qed.

(* a key whose value mentions itself is reported as a cycle *)
Theorem self_reference_cycles f key :
  forallb no_delim key = true -> tbl key = Some (TPre :: key ++ [TSuf]) ->
  resolve (S (S (S f))) [] (TPre :: key ++ [TSuf]) = RCycle key.
Proof.
  intros Hk T. change (TPre :: key ++ [TSuf]) with ([] ++ TPre :: key ++ TSuf :: []).
  rewrite single_placeholder by auto. unfold Resolver.lookup_ph. rewrite T.
  rewrite resolve_S. unfold Resolver.step. cbn [split_pre].
  change (key ++ [TSuf]) with (key ++ TSuf :: []). rewrite find_end_plain by exact Hk.
  simpl existsb. assert (E : toks_eqb key key = true).
  { clear. induction key as [|t r IH]; [reflexivity|]. simpl. rewrite IH, andb_true_r. destruct t; simpl; auto using Nat.eqb_refl. }
  now rewrite E.
Qed.

(* ---------- termination without cycles: tables whose values are pure text, inputs without
   separators (so no default is ever taken from resolved text) *)
Definition chars_tbl : Prop := forall k v, tbl k = Some v -> forallb is_chr v = true.
Definition nosep (s : toks) : bool := forallb (fun t => match t with TSep => false | _ => true end) s.

Lemma split_pre_length s b a : split_pre s = Some (b, a) -> length s = length b + S (length a).
Proof.
  revert b a. induction s as [|t r IH]; intros b a H; [discriminate|].
  destruct t; simpl in *; try (destruct (split_pre r) as [[b' a']|]; [|discriminate];
    injection H as <- <-; simpl; now rewrite (IH _ _ eq_refl)). now injection H as <- <-.
Qed.
Lemma find_end_length : forall s n b a, find_end n s = Some (b, a) -> length s = length b + S (length a).
Proof.
  induction s as [|t r IH]; intros n b a H; [discriminate|].
  destruct t; simpl in *.
  - destruct (find_end (S n) r) as [[b' a']|] eqn:E; [|discriminate]. injection H as <- <-. simpl. now rewrite (IH _ _ _ E).
  - destruct n; [injection H as <- <-; reflexivity|].
    destruct (find_end n r) as [[b' a']|] eqn:E; [|discriminate]. injection H as <- <-. simpl. now rewrite (IH _ _ _ E).
  - destruct (find_end n r) as [[b' a']|] eqn:E; [|discriminate]. injection H as <- <-. simpl. now rewrite (IH _ _ _ E).
  - destruct (find_end n r) as [[b' a']|] eqn:E; [|discriminate]. injection H as <- <-. simpl. now rewrite (IH _ _ _ E).
Qed.
Lemma split_pre_nosep s b a : split_pre s = Some (b, a) -> nosep s = true -> nosep b = true /\ nosep a = true.
Proof.
  revert b a. induction s as [|t r IH]; intros b a H N; [discriminate|].
  simpl in N. apply andb_prop in N as [N1 N2].
  destruct t; simpl in *; try discriminate;
    try (destruct (split_pre r) as [[b' a']|]; [|discriminate]; injection H as <- <-;
         destruct (IH _ _ eq_refl N2) as [A B]; simpl; now rewrite A, B).
  injection H as <- <-. auto.
Qed.
Lemma find_end_nosep : forall s n b a, find_end n s = Some (b, a) -> nosep s = true -> nosep b = true /\ nosep a = true.
Proof.
  induction s as [|t r IH]; intros n b a H N; [discriminate|].
  simpl in N. apply andb_prop in N as [N1 N2]. destruct t; simpl in *; try discriminate.
  - destruct (find_end (S n) r) as [[b' a']|] eqn:E; [|discriminate]. injection H as <- <-.
    destruct (IH _ _ _ E N2) as [A B]. simpl. now rewrite A, B.
  - destruct n; [injection H as <- <-; auto|].
    destruct (find_end n r) as [[b' a']|] eqn:E; [|discriminate]. injection H as <- <-.
    destruct (IH _ _ _ E N2) as [A B]. simpl. now rewrite A, B.
  - destruct (find_end n r) as [[b' a']|] eqn:E; [|discriminate]. injection H as <- <-.
    destruct (IH _ _ _ E N2) as [A B]. simpl. now rewrite A, B.
Qed.
Lemma split_sep_nosep s : nosep s = true -> split_sep s = None.
Proof.
  induction s as [|t r IH]; intros N; [reflexivity|]. simpl in N. apply andb_prop in N as [N1 N2].
  destruct t; simpl in *; try discriminate; now rewrite IH.
Qed.
Lemma chr_nosep v : forallb is_chr v = true -> nosep v = true /\ forallb no_delim v = true.
Proof.
  intros H. unfold nosep. split; rewrite forallb_forall in *; intros t Ht; specialize (H t Ht); now destruct t.
Qed.

Lemma toks_eqb_length a b : toks_eqb a b = true -> length a = length b.
Proof. revert b. induction a as [|x r IH]; intros [|y s] H; simpl in *; try discriminate; auto.
  apply andb_prop in H as [_ H]. now rewrite (IH _ H). Qed.

(* invariant: every body on the "seen" stack is at least as long as the text being scanned
   (placeholder bodies inside that text are strictly shorter, so none of them is on the stack) *)
Theorem chars_terminates : chars_tbl -> forall n s seen,
  length s <= n -> nosep s = true -> Forall (fun b => length s <= length b) seen ->
  exists r, resolve (S n) seen s = ROk r /\ nosep r = true.
Proof.
  intros Flat. induction n as [n IH] using lt_wf_ind. intros s seen Hn Ns Hseen.
  rewrite resolve_S. unfold Resolver.step.
  destruct (split_pre s) as [[before after]|] eqn:SP; [|eexists; split; [reflexivity|exact Ns]].
  destruct (find_end 0 after) as [[body rest]|] eqn:FE; [|eexists; split; [reflexivity|exact Ns]].
  pose proof (split_pre_length _ _ _ SP) as L1. pose proof (find_end_length _ _ _ _ FE) as L2.
  destruct (split_pre_nosep _ _ _ SP Ns) as [Nb Na]. destruct (find_end_nosep _ _ _ _ FE Na) as [Nbody Nrest].
  assert (NS : existsb (toks_eqb body) seen = false).
  { apply not_true_is_false. intro E. apply existsb_exists in E as [b [Hin Eb]].
    rewrite Forall_forall in Hseen. specialize (Hseen b Hin). apply toks_eqb_length in Eb. lia. }
  rewrite NS. destruct n as [|n]; [lia|].
  assert (Hbody : exists key, resolve (S n) (body :: seen) body = ROk key /\ nosep key = true).
  { apply (IH n); [lia|lia|exact Nbody|]. constructor; [lia|]. eapply Forall_impl; [|exact Hseen]. simpl. intros; lia. }
  destruct Hbody as [key [Ek Nk]]. rewrite Ek. cbn [bind].
  assert (Hrest : exists r, resolve (S n) seen rest = ROk r /\ nosep r = true).
  { apply (IH n); [lia|lia|exact Nrest|]. eapply Forall_impl; [|exact Hseen]. simpl. intros; lia. }
  destruct Hrest as [r [Er Nr]].
  unfold Resolver.lookup_ph. rewrite (split_sep_nosep _ Nk).
  destruct (tbl key) as [pv|] eqn:T.
  - destruct (chr_nosep _ (Flat _ _ T)) as [Np Dp].
    rewrite (resolve_text n _ pv Dp). cbn [bind]. rewrite Er. cbn [bind].
    eexists; split; [reflexivity|]. unfold nosep in *. rewrite !forallb_app. now rewrite Nb, Np, Nr.
  - rewrite Er. cbn [bind]. eexists; split; [reflexivity|]. unfold nosep in *.
    rewrite forallb_app. simpl. rewrite forallb_app. simpl. now rewrite Nb, Nbody, Nr.
Qed.

Corollary chars_terminates_top : chars_tbl -> forall s, nosep s = true ->
  exists r, resolve_top tbl (S (length s)) s = ROk r.
Proof.
  intros Flat s N. destruct (chars_terminates Flat (length s) s [] (le_n _) N (Forall_nil _)) as [r [E _]].
  exists r. exact E.
Qed.
End R.
