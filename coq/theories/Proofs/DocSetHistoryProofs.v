(* Proofs/DocSetHistoryProofs.v — over histories of ANY length: the list of names a document set keeps only ever grows at
   its end, so the order in which names were FIRST inserted is never disturbed by later adds or re-adds, however many. *)
From Coq Require Import List String Ascii ZArith Lia Bool Arith.
From YT Require Import Base.Str Base.KV Model.Doc Model.Dom Model.Overlay Model.DocSet Proofs.OverlayProofs Proofs.DocSetProofs.
Import ListNotations.
Local Open Scope list_scope.

Definition extends (a b : list string) : Prop := exists suf, b = a ++ suf.

Lemma extends_refl a : extends a a.
Proof. exists []. now rewrite app_nil_r. Qed.
Lemma extends_trans a b c : extends a b -> extends b c -> extends a c.
Proof. intros [s1 ->] [s2 ->]. exists (s1 ++ s2). now rewrite app_assoc. Qed.

Lemma add_extends name doc tags pol ds : extends (ds_names ds) (ds_names (fst (ds_add name doc tags pol ds))).
Proof.
  unfold ds_add. destruct (ctx_get name (ds_ctx ds)) as [[od ot]|].
  - destruct pol; cbn [fst ds_names]; try apply extends_refl; now exists [name].
  - cbn [fst ds_names]. now exists [name].
Qed.

Lemma add_unnamed_extends doc tags pol ds : extends (ds_names ds) (ds_names (fst (ds_add_unnamed doc tags pol ds))).
Proof.
  unfold ds_add_unnamed.
  exact (add_extends _ doc tags pol (mkDS (ds_names ds) (ds_ctx ds) (S (ds_unnamed ds)))).
Qed.

Lemma add_files_extends files tags pol : forall ds,
  extends (ds_names ds) (ds_names (fst (ds_add_files files tags pol ds))).
Proof.
  induction files as [|[n [d|]] r IH]; intros ds; cbn [ds_add_files]; try apply extends_refl.
  pose proof (add_extends n d tags pol ds) as H.
  destruct (ds_add n d tags pol ds) as [ds' ok] eqn:E. cbn [fst] in H.
  destruct ok.
  - eapply extends_trans; [exact H|apply IH].
  - exact H.
Qed.

Lemma add_items_extends manifest items tags pol : forall ds,
  extends (ds_names ds) (ds_names (ds_add_items manifest items tags pol ds)).
Proof.
  unfold ds_add_items. induction items as [|[k [d|]] r IH]; intros ds; cbn [fold_left fst snd].
  - apply extends_refl.
  - eapply extends_trans; [apply (add_extends (item_name manifest k) d tags pol ds)|apply IH].
  - apply IH.
Qed.

Theorem step_extends ds o : extends (ds_names ds) (ds_names (fst (ds_step ds o))).
Proof.
  destruct o as [name doc tags pol|doc tags pol|files tags pol|manifest [items|] tags pol|manifest [items|] tags pol|ts| |name];
    cbn [ds_step]; try apply extends_refl.
  - pose proof (add_extends name doc tags pol ds) as H. destruct (ds_add name doc tags pol ds). exact H.
  - pose proof (add_unnamed_extends doc tags pol ds) as H. destruct (ds_add_unnamed doc tags pol ds). exact H.
  - pose proof (add_files_extends files tags pol ds) as H. destruct (ds_add_files files tags pol ds). exact H.
  - apply add_items_extends.
  - pose proof (add_extends manifest (props_doc items) tags pol ds) as H.
    destruct (ds_add manifest (props_doc items) tags pol ds). exact H.
Qed.

(* the state after a history *)
Definition ds_after (ds : docset) (ops : list dsop) : docset := fold_left (fun s o => fst (ds_step s o)) ops ds.

Theorem history_extends ops : forall ds, extends (ds_names ds) (ds_names (ds_after ds ops)).
Proof.
  induction ops as [|o r IH]; intros ds; cbn [ds_after fold_left].
  - apply extends_refl.
  - eapply extends_trans; [apply step_extends|apply IH].
Qed.

(* first-insertion order: the names in order of first occurrence *)
Definition first_order (l : list string) : list string := fold_left note l [].

Lemma fold_note_app a b acc : fold_left note (a ++ b) acc = fold_left note b (fold_left note a acc).
Proof. apply fold_left_app. Qed.

Lemma note_extends acc n : extends acc (note acc n).
Proof. unfold note. destruct (smem n acc); [apply extends_refl|now exists [n]]. Qed.

Lemma fold_note_extends l : forall acc, extends acc (fold_left note l acc).
Proof.
  induction l as [|x r IH]; intros acc; cbn [fold_left]; [apply extends_refl|].
  eapply extends_trans; [apply note_extends|apply IH].
Qed.

(* ... of the names after ANY further history begins with the first-insertion order before it *)
Theorem first_order_stable ds ops : extends (first_order (ds_names ds)) (first_order (ds_names (ds_after ds ops))).
Proof.
  destruct (history_extends ops ds) as [suf ->]. unfold first_order. rewrite fold_note_app. apply fold_note_extends.
Qed.
