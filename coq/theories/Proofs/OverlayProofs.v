From Coq Require Import List String Ascii ZArith Lia Bool Arith.
From YT Require Import Base.Str Base.KV Model.Doc Model.Dom Model.Pointer Model.Path Model.Builder Model.Codec
  Model.Equals Model.Merge Model.Overlay Proofs.MergeProofs.
Import ListNotations.
Local Open Scope list_scope.

Definition smem (x : string) (l : list string) : bool := existsb (String.eqb x) l.
Definition note (names : list string) (w : string) : list string := if smem w names then names else names ++ [w].

(* ---------- layer names: order of first write *)
Lemma layer_upd_names name f ov : layer_names (layer_upd name f ov) = note (layer_names ov) name.
Proof.
  unfold note. induction ov as [|[n kvs] r IH]; simpl; [reflexivity|].
  destruct (String.eqb_spec name n) as [->|N]; simpl.
  - reflexivity.
  - rewrite IH. destruct (smem name (layer_names r)); reflexivity.
Qed.

Lemma note_idem names w : note (note names w) w = note names w.
Proof.
  unfold note. destruct (smem w names) eqn:E; [now rewrite E|].
  assert (smem w (names ++ [w]) = true).
  { unfold smem. rewrite existsb_app. simpl. now rewrite String.eqb_refl, orb_true_r. }
  now rewrite H.
Qed.

(* which layer a write operation touches (a leafless container writes nothing) *)
Definition written (o : oop) : option string :=
  match o with
  | OPut layer _ (Con kvs) => match flatten (Con kvs) with [] => None | _ => Some layer end
  | OPut layer _ _ => Some layer
  | OAdd layer (Con _) => Some layer
  | OPopulate layer _ _ => Some layer
  | _ => None
  end.

Lemma fold_upd_names {A} layer (g : A -> list (string * node) -> list (string * node)) : forall (es : list A) ov,
  layer_names (fold_left (fun acc e => layer_upd layer (g e) acc) es ov) =
  match es with [] => layer_names ov | _ => note (layer_names ov) layer end.
Proof.
  induction es as [|e r IH]; intros ov; [reflexivity|].
  simpl. rewrite IH. destruct r; rewrite layer_upd_names; [reflexivity|]. apply note_idem.
Qed.

Theorem write_names ov o :
  layer_names (o_write ov o) = match written o with Some l => note (layer_names ov) l | None => layer_names ov end.
Proof.
  destruct o as [layer path v|layer c|layer path data| | | | |]; simpl; try reflexivity.
  - destruct v as [s|xs|kvs]; try apply layer_upd_names.
    rewrite (fold_upd_names layer (fun e => put_leaf (to_path path (fst e)) (Leaf (snd e)))).
    destruct (flatten (Con kvs)); reflexivity.
  - destruct c; try reflexivity. apply layer_upd_names.
  - apply layer_upd_names.
Qed.

(* LayerNames() after any history = the written layers, first occurrences, in order *)
Theorem names_first_write_order : forall ops ov,
  layer_names (fold_left o_write ops ov) =
  fold_left (fun names o => match written o with Some l => note names l | None => names end) ops (layer_names ov).
Proof.
  induction ops as [|o r IH]; intros ov; [reflexivity|]. simpl. rewrite IH, write_names. reflexivity.
Qed.

(* ---------- isolation: a per-layer lookup sees only that layer's writes *)
Lemma layer_get_upd_other l l' f ov : l <> l' -> layer_get l (layer_upd l' f ov) = layer_get l ov.
Proof.
  intros N. induction ov as [|[n kvs] r IH]; simpl.
  - destruct (String.eqb_spec l l'); [contradiction|reflexivity].
  - destruct (String.eqb_spec l' n) as [->|N2]; simpl.
    + destruct (String.eqb_spec l n); [contradiction|reflexivity].
    + destruct (String.eqb l n); [reflexivity|exact IH].
Qed.

Lemma fold_upd_get_other {A} l l' (g : A -> list (string * node) -> list (string * node)) : l <> l' ->
  forall (es : list A) ov, layer_get l (fold_left (fun acc e => layer_upd l' (g e) acc) es ov) = layer_get l ov.
Proof.
  intros N. induction es as [|e r IH]; intros ov; [reflexivity|]. simpl. rewrite IH. now apply layer_get_upd_other.
Qed.

Definition target (o : oop) : option string :=
  match o with
  | OPut layer _ _ | OAdd layer _ | OPopulate layer _ _ => Some layer
  | _ => None
  end.

Theorem lookup_isolated l p ov o : target o <> Some l -> o_lookup l p (o_write ov o) = o_lookup l p ov.
Proof.
  intros T. unfold o_lookup.
  assert (G : layer_get l (o_write ov o) = layer_get l ov).
  { destruct o as [layer path v|layer c|layer path data| | | | |]; simpl in *; try reflexivity.
    - assert (l <> layer) by congruence. destruct v; try (now apply layer_get_upd_other).
      now apply (fold_upd_get_other l layer).
    - assert (l <> layer) by congruence. destruct c; try reflexivity. now apply layer_get_upd_other.
    - assert (l <> layer) by congruence. now apply layer_get_upd_other. }
  now rewrite G.
Qed.

(* ---------- cross-layer lookup: the hit of the earliest layer that has one *)
Theorem lookup_any_first_hit : forall ov1 l kvs ov2 p n,
  Forall (fun ly => lookup p (Con (snd ly)) = None) ov1 -> lookup p (Con kvs) = Some n ->
  o_lookup_any p (ov1 ++ (l, kvs) :: ov2) = Some n.
Proof.
  induction ov1 as [|[l1 k1] r IH]; intros l kvs ov2 p n F H.
  - cbn [app o_lookup_any]. now rewrite H.
  - inversion F as [|? ? H1 Fr]; subst. cbn [snd] in H1. cbn [app o_lookup_any]. rewrite H1. now apply IH.
Qed.

Theorem lookup_any_none : forall ov p,
  Forall (fun ly => lookup p (Con (snd ly)) = None) ov -> o_lookup_any p ov = None.
Proof.
  induction ov as [|[l k] r IH]; intros p F; [reflexivity|].
  inversion F as [|? ? H1 Fr]; subst. cbn [snd] in H1. cbn [o_lookup_any]. rewrite H1. now apply IH.
Qed.

(* ---------- merged view: fold of merge over the layers in order; a later layer is merged OVER
   the earlier ones, so it wins conflicts (C04's characterisation applies to each step) *)
Theorem merged_fold app ov :
  o_merged app ov = fold_left (merge app) (map (fun l => Con (snd l)) ov) (Con []).
Proof. reflexivity. Qed.

Theorem merged_snoc app ov l kvs :
  o_merged app (ov ++ [(l, kvs)]) = merge app (o_merged app ov) (Con kvs).
Proof. unfold o_merged, merge_all. rewrite map_app, fold_left_app. reflexivity. Qed.

(* ---------- search and walk: per layer, in layer order, exactly the layer's own view *)
Theorem search_per_layer f ov :
  o_search f ov = map (fun l => (fst l, search f (Con (snd l)))) ov.
Proof. reflexivity. Qed.

Theorem walk_per_layer ov :
  o_walk ov = map (fun l => (fst l, flatten (Con (snd l)))) ov.
Proof. reflexivity. Qed.
