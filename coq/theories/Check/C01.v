From Coq Require Import List String Bool Arith ZArith.
From YT Require Export Base.Str Base.KV Model.Doc Model.Codec Check.Common.
Import ListNotations.
Local Open Scope list_scope.

Fixpoint gval_eqb (a b : gval) {struct a} : bool :=
  match a, b with
  | GNil, GNil => true
  | GBool x, GBool y => Bool.eqb x y
  | GInt x, GInt y => Z.eqb x y
  | GFlt x, GFlt y => Z.eqb x y
  | GStr x, GStr y => String.eqb x y
  | GOther x, GOther y => String.eqb x y
  | GSlice xs, GSlice ys =>
      (fix go (l1 l2 : list gval) : bool :=
         match l1, l2 with
         | [], [] => true
         | x :: r1, y :: r2 => gval_eqb x y && go r1 r2
         | _, _ => false
         end) xs ys
  | GMap k1, GMap k2 =>
      (fix go (l1 l2 : list (string * gval)) : bool :=
         match l1, l2 with
         | [], [] => true
         | (ka, x) :: r1, (kb, y) :: r2 => String.eqb ka kb && gval_eqb x y && go r1 r2
         | _, _ => false
         end) k1 k2
  | _, _ => false
  end.

Inductive case :=
| CRound (m : gval) (obs : gval)     (* AsMap(FromMap(m)) *)
| CDom (m : gval) (obs : node)       (* the DOM FromMap built, read back node by node *)
| CAsMap (d : node) (obs : gval).    (* AsMap of a document built with the builder API *)

Definition check (c : case) : bool :=
  match c with
  | CRound m obs => gval_eqb (as_map (from_map m)) obs
  | CDom m obs => node_eqb (from_map m) obs
  | CAsMap d obs => gval_eqb (as_map d) obs
  end.

Definition mismatches (cs : list case) : list nat := bad_indices check cs.
