From Coq Require Import List String Bool Arith ZArith.
From YT Require Export Base.Str Base.KV Model.Doc Model.Dom Model.Path Model.Equals Model.Mem Check.Common.
Import ListNotations.
Local Open Scope list_scope.

Definition entry_eqb (a b : string * scalar) : bool := String.eqb (fst a) (fst b) && scalar_eqb (snd a) (snd b).
Definition mem {A} (eqb : A -> A -> bool) (x : A) (l : list A) : bool := existsb (eqb x) l.
Definition same_set {A} (eqb : A -> A -> bool) (a b : list A) : bool :=
  Nat.eqb (List.length a) (List.length b) && forallb (fun x => mem eqb x b) a && forallb (fun x => mem eqb x a) b.

Definition robs_eqb (a b : robs) : bool :=
  match a, b with
  | ONode x, ONode y => opt_node_eqb x y
  | OFlat x, OFlat y => same_set entry_eqb x y
  | OStrs x, OStrs y => same_set String.eqb x y
  | ODoc x, ODoc y => node_eqb x y
  | OBool x, OBool y => Bool.eqb x y
  | _, _ => false
  end.

(* a document (with its allocation flags), one read-only call, what it returned, and whether the
   representation dump was identical before and after the call *)
Inductive case :=
| CRead (m : mnode) (o : readop) (obs : robs) (unchanged : bool).

Definition check (c : case) : bool :=
  match c with
  | CRead m o obs unchanged =>
      let '(m', ob, evs) := rd 0 o m in
      robs_eqb ob obs && Bool.eqb (negb (existsb is_write evs)) unchanged
  end.

Definition mismatches (cs : list case) : list nat := bad_indices check cs.
