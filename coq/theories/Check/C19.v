From Coq Require Import List String Bool Arith ZArith.
From YT Require Export Base.Str Base.KV Base.Sort Model.Doc Model.Dom Model.Path Model.Builder Model.Merge Model.Overlay
  Model.Resolver Model.Analytics Model.AnalyticsEvents Check.Common.
Import ListNotations.
Local Open Scope list_scope.

Definition coord_eqb (a b : string * string) : bool := String.eqb (fst a) (fst b) && String.eqb (snd a) (snd b).
Definition mem {A} (eqb : A -> A -> bool) (x : A) (l : list A) : bool := existsb (eqb x) l.
Definition count {A} (eqb : A -> A -> bool) (x : A) (l : list A) : nat := List.length (filter (eqb x) l).
(* equality as multisets *)
Definition same_multiset {A} (eqb : A -> A -> bool) (a b : list A) : bool :=
  Nat.eqb (List.length a) (List.length b) && forallb (fun x => Nat.eqb (count eqb x a) (count eqb x b)) a.
Definition cmap_eqb (a b : list (string * list (string * string))) : bool :=
  same_multiset (fun p q => String.eqb (fst p) (fst q) && same_multiset coord_eqb (snd p) (snd q)) a b.

(* layers of an overlay document in order: (name, container) *)
Definition ov_of (l : list (string * node)) : overlay :=
  map (fun e => (fst e, match snd e with Con kvs => kvs | _ => [] end)) l.

Inductive case :=
| CDep (src : list (string * node)) (refs : list (list (string * node)))
       (all orphans : list string) (m : list (string * list (string * string)))
| CPh (kf : kfilter) (ov : list (string * node)) (failed : list string) (co : list (string * list (string * string)))
| CImpact (ov : list (string * node)) (keys : list string) (res : list (string * list (string * string)))
(* placeholder resolver built with a key filter, a value matcher and both callbacks: report + the events heard *)
| CPhM (kf : kfilter) (vm : vmatcher) (ov : list (string * node)) (failed : list string)
       (co : list (string * list (string * string))) (evs : list ph_event)
(* dependency resolver built with a mention matcher and the callback *)
| CDepM (mm : mmatcher) (src : list (string * node)) (refs : list (list (string * node)))
        (all orphans : list string) (m : list (string * list (string * string)))
        (evs : list (string * list (string * string))).

Definition ph_event_eqb (a b : ph_event) : bool :=
  match a, b with
  | PhSeen k v, PhSeen k' v' => String.eqb k k' && String.eqb v v'
  | PhFailed k v co, PhFailed k' v' co' => String.eqb k k' && String.eqb v v' && same_multiset coord_eqb co co'
  | _, _ => false
  end.

Definition check (c : case) : bool :=
  match c with
  | CDep src refs all orphans m =>
      let r := dep_resolve (fun _ => true) (ov_of src) (map ov_of refs) in
      list_eqb String.eqb (all_keys r) all && list_eqb String.eqb (orphan_keys r) orphans && cmap_eqb (dep_map r) m
  | CPh kf ov failed co =>
      let r := ph_resolve (kf_eval kf) (ov_of ov) in
      list_eqb String.eqb (failed_keys r) failed && cmap_eqb (failed_coords r) co
  | CImpact ov keys res => cmap_eqb (impact (ov_of ov) keys) res
  | CPhM kf vm ov failed co evs =>
      let r := ph_resolve_m (kf_eval kf) (vm_eval vm) (ov_of ov) in
      list_eqb String.eqb (failed_keys r) failed && cmap_eqb (failed_coords r) co &&
      same_multiset ph_event_eqb (ph_events (kf_eval kf) (vm_eval vm) (ov_of ov)) evs
  | CDepM mm src refs all orphans m evs =>
      let r := dep_resolve_m (mm_eval mm) (fun _ => true) (ov_of src) (map ov_of refs) in
      list_eqb String.eqb (all_keys r) all && list_eqb String.eqb (orphan_keys r) orphans && cmap_eqb (dep_map r) m &&
      cmap_eqb (dep_events (mm_eval mm) (fun _ => true) (ov_of src) (map ov_of refs)) evs
  end.

Definition mismatches (cs : list case) : list nat := bad_indices check cs.
