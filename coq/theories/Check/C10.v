(* Check/C10.v — correspondence: model output vs. what the Go code returned on the same input *)
From Coq Require Import List String Ascii ZArith NArith Bool Arith.
From YT Require Export Base.Str Base.KV Model.Doc Model.Dom Model.Pointer Check.Common.
Import ListNotations.
Local Open Scope list_scope.

Inductive case :=
| CPrint (toks : list (list N)) (obs : list N)              (* Path.String *)
| CParse (s : list N) (obs : option (list (list N)))        (* ParsePath: None = error *)
| CEval (p : list string) (d : node) (obs_trail : list node) (obs : option node)
| CParent (p : list string) (obs_parent : list string) (obs_last : string).

Definition lN_eqb := list_eqb N.eqb.
Definition llN_eqb := list_eqb lN_eqb.

Definition check (c : case) : bool :=
  match c with
  | CPrint toks obs => lN_eqb (ptr_print toks) obs
  | CParse s obs =>
      match ptr_parse s, obs with
      | Ok t, Some t' => llN_eqb t t'
      | Err, None => true
      | _, _ => false
      end
  | CEval p d tr obs =>
      let '(mtr, mres) := ptr_eval p d in
      list_eqb node_eqb mtr tr && opt_node_eqb mres obs
  | CParent p par lst =>
      list_eqb String.eqb (ptr_parent p) par && String.eqb (ptr_last p) lst
  end.

Definition mismatches (cs : list case) : list nat := bad_indices check cs.
