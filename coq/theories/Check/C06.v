From Coq Require Import List String Bool Arith ZArith.
From YT Require Export Base.Str Base.KV Model.Doc Model.Dom Model.Pointer Model.Path Model.Builder Model.Codec
  Model.Equals Model.Merge Model.Overlay Check.Common.
Import ListNotations.
Local Open Scope list_scope.

Definition entry_eqb (a b : string * scalar) : bool := String.eqb (fst a) (fst b) && scalar_eqb (snd a) (snd b).
Definition mem {A} (eqb : A -> A -> bool) (x : A) (l : list A) : bool := existsb (eqb x) l.
Definition same_set {A} (eqb : A -> A -> bool) (a b : list A) : bool :=
  Nat.eqb (List.length a) (List.length b) && forallb (fun x => mem eqb x b) a && forallb (fun x => mem eqb x a) b.

Definition obs_eqb (a b : oobs) : bool :=
  match a, b with
  | ObsState n1 l1, ObsState n2 l2 => list_eqb String.eqb n1 n2 && list_eqb node_eqb l1 l2
  | ObsNode x, ObsNode y => opt_node_eqb x y
  | ObsCoords x, ObsCoords y =>
      list_eqb (fun p q => String.eqb (fst p) (fst q) && same_set String.eqb (snd p) (snd q)) x y
  | ObsTriples x, ObsTriples y =>
      list_eqb (fun p q => String.eqb (fst p) (fst q) && same_set entry_eqb (snd p) (snd q)) x y
  | ObsDoc x, ObsDoc y => node_eqb x y
  | _, _ => false
  end.

Inductive case :=
| COverlayHist (ops : list oop) (obs : list oobs).

Definition check (c : case) : bool :=
  match c with
  | COverlayHist ops obs => list_eqb obs_eqb (o_run [] ops) obs
  end.

Definition mismatches (cs : list case) : list nat := bad_indices check cs.
