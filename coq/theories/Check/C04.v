From Coq Require Import List String Bool Arith ZArith.
From YT Require Export Base.Str Base.KV Model.Doc Model.Merge Check.Common.
Import ListNotations.
Local Open Scope list_scope.

Inductive case :=
| CMerge (app : bool) (a b : node) (obs : node)          (* AsMap(A.Merge(B, opt)) *)
| CMergeAll (app : bool) (docs : list node) (obs : node). (* overlay Merged(opts) / ConfigHelper *)

Definition check (c : case) : bool :=
  match c with
  | CMerge app a b obs => node_eqb (merge app a b) obs
  | CMergeAll app docs obs => node_eqb (merge_all app docs) obs
  end.

Definition mismatches (cs : list case) : list nat := bad_indices check cs.
