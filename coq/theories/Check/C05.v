From Coq Require Import List String Bool Arith.
From YT Require Export Base.Str Base.KV Model.Doc Model.Equals Check.Common.
Import ListNotations.
Local Open Scope list_scope.

Inductive case :=
| CEq (a b : node) (obs : bool)            (* a.Equals(b) *)
| CEqNil (a : node) (obs : bool)           (* a.Equals(nil) *)
| CSame (a b : node) (obs : bool)          (* a.SameAs(b) *)
| CClone (a : node) (obs : node).          (* plain(a.Clone()) *)

Definition check (c : case) : bool :=
  match c with
  | CEq a b obs => Bool.eqb (equals a b) obs
  | CEqNil a obs => Bool.eqb (equals_opt a None) obs
  | CSame a b obs => Bool.eqb (same_as a b) obs
  | CClone a obs => node_eqb (clone a) obs
  end.

Definition mismatches (cs : list case) : list nat := bad_indices check cs.
