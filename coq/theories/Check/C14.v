From Coq Require Import List String Bool Arith ZArith.
From YT Require Export Base.Str Base.KV Model.Doc Model.Dom Model.Builder Model.Codec Model.Merge Model.Pipeline Check.Common.
From YT Require Check.C12.
Import ListNotations.
Local Open Scope list_scope.

Inductive case :=
| CExec (data : node) (a : action) (evs : list event) (failed : bool) (final : node)
| CExec2 (data : node) (a1 a2 : action) (evs : list event) (failed : bool) (final : node).

Definition check (c : case) : bool :=
  match c with
  | CExec data a evs failed final => Check.C12.check (Check.C12.CExec data a evs failed final)
  | CExec2 data a1 a2 evs failed final => Check.C12.check (Check.C12.CExec2 data a1 a2 evs failed final)
  end.

Definition mismatches (cs : list case) : list nat := bad_indices check cs.
