From Coq Require Import List String Bool Arith ZArith.
From YT Require Export Base.Str Base.KV Model.Doc Model.Dom Model.Pointer Model.Path Model.Builder Model.Codec
  Model.Merge Model.Equals Model.Patch Model.Base64 Model.Analytics Model.K8s Model.Pipeline Model.PipeOps Model.YamlNode Check.Common.
Import ListNotations.
Local Open Scope list_scope.

Definition written_eqb (a b : written) : bool :=
  match a, b with
  | WErr, WErr | WErrAfterOpen, WErrAfterOpen => true
  | WDoc x, WDoc y => node_eqb x y
  | WText x, WText y => String.eqb x y
  | _, _ => false
  end.

Definition data_of (d : node) : list (string * node) := match d with Con kvs => kvs | _ => [] end.

Inductive case :=
| CSet (strat : strategy) (path : string) (payload : option (list (string * gval))) (data : node)
       (obs : option node)                                         (* None = the operation returned an error *)
| CTemplate (t : tmpl) (path : string) (data : node) (obs : node)  (* parseAs none, tiny templates *)
| CPatch (k : patch_kind) (path from : string) (value : option node) (data : node) (obs : node) (ok : bool)
| CImport (m : import_mode) (path content : string) (data : node) (obs : node) (ok : bool)   (* text/binary modes *)
| CExport (f : out_format) (path : option string) (data : node) (obs : written)
| CEnv (incl : string) (excl : option string) (path : string) (env : list (string * string)) (data : node) (obs : node)
| CLenient (s : string) (obs : string)
(* templateFile: [t] the text of the template file (None: no such file); obs: what the output file holds (None: error),
   and the data document afterwards *)
(* dom.YamlNodeDecoder on a parsed tree (anchors numbered); obs: the DOM node it made *)
| CYamlNode (n : ynode) (obs : node)
| CTemplateFile (t : option tmpl) (file output : string) (path : option string) (data : node)
                (obs : option string) (after : node).

Definition no_codec (m : import_mode) (s : string) : res gval := RErr "codec not modelled"%string.

Definition check (c : case) : bool :=
  match c with
  | CSet strat path payload data obs =>
      opt_node_eqb (option_map Con (set_op strat path payload (data_of data))) obs
  | CTemplate t path data obs =>
      node_eqb (Con (add_value_at path (Leaf (SStr (render t (data_of data)))) (data_of data))) obs
  | CPatch k path from value data obs ok =>
      let '(d', r) := patch_op k path from value data in node_eqb d' obs && Bool.eqb r ok
  | CImport m path content data obs ok =>
      let '(d', r) := import_op no_codec m path content (data_of data) in node_eqb (Con d') obs && Bool.eqb r ok
  | CExport f path data obs => written_eqb (export_rule f (export_target path (data_of data))) obs
  | CEnv incl excl path env data obs =>
      node_eqb (Con (env_op (prefixb incl) (fun k => match excl with Some e => prefixb e k | None => false end)
                            path env (data_of data))) obs
  | CLenient s obs => if possibly_template s then true else String.eqb s obs
  | CYamlNode n obs =>
      let env := anchors n in
      let B := fold_right Nat.max 0 (map (fun e => ysize (snd e)) env) in
      node_eqb (decode (S (ysize n + List.length env * S B)) env [] n) obs
  | CTemplateFile t file output path data obs after =>
      node_eqb data after &&
      match template_file_op t file output path (data_of data), obs with
      | TFErr, None => true
      | TFWritten c, Some o => String.eqb c o
      | _, _ => false
      end
  end.

Definition mismatches (cs : list case) : list nat := bad_indices check cs.
