From Coq Require Import List String Bool Arith ZArith.
From YT Require Export Base.Str Base.KV Base.Sort Model.Doc Model.Dom Model.Builder Model.Props Check.Common.
Import ListNotations.
Local Open Scope list_scope.

Inductive case :=
| CUnflatten (kv : list (string * node)) (obs : node)       (* utils.Unflatten, as a tree *)
| CFromProps (kv : list (string * node)) (obs : node)       (* AsMap(Builder().FromProperties(kv)) *)
| CDecode (kv : list (string * node)) (obs : node).         (* props.DecoderFn(render kv), as a tree *)

Definition check (c : case) : bool :=
  match c with
  | CUnflatten kv obs => node_eqb (unflatten kv) obs
  | CFromProps kv obs => node_eqb (from_properties kv) obs
  | CDecode kv obs => node_eqb (unflatten kv) obs
  end.

Definition mismatches (cs : list case) : list nat := bad_indices check cs.
