From Coq Require Import List String Bool Arith ZArith.
From YT Require Export Base.Str Base.KV Model.Doc Model.Dom Model.Builder Check.Common.
Import ListNotations.
Local Open Scope list_scope.

(* a history: start document, operations, and AsMap(doc) observed after every step *)
Inductive case :=
| CHist (d : node) (ops : list bop) (obs : list node).

Definition check (c : case) : bool :=
  match c with
  | CHist d ops obs => list_eqb node_eqb (run_hist d ops) obs
  end.

Definition mismatches (cs : list case) : list nat := bad_indices check cs.
