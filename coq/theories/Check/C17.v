From Coq Require Import List String Bool Arith ZArith.
From YT Require Export Base.Str Base.KV Model.Doc Model.Codec Model.Base64 Model.Analytics Model.K8s Check.Common Check.C01.
Import ListNotations.
Local Open Scope list_scope.

Definition strkv_eqb (a b : list (string * string)) : bool :=
  list_eqb (fun p q => String.eqb (fst p) (fst q) && String.eqb (snd p) (snd q)) a b.
Definition binkv_eqb (a b : list (string * list Z)) : bool :=
  list_eqb (fun p q => String.eqb (fst p) (fst q) && list_eqb Z.eqb (snd p) (snd q)) a b.

Inductive case :=
| CB64Enc (bs : list Z) (obs : list Z)
| CB64Dec (cs : list Z) (obs : option (list Z))
(* ManifestFromBytes on a text whose control YAML decode is [doc]: error, or the two item maps *)
| CLoad (doc : list (string * gval)) (obs : option (list (string * string) * list (string * list Z)))
(* load, apply facade operations, WriteTo; [obs] = control YAML decode of the written bytes *)
| CSave (doc : list (string * gval)) (ops : list mop) (obs : gval).

Definition check (c : case) : bool :=
  match c with
  | CB64Enc bs obs => list_eqb Z.eqb (b64_enc bs) obs
  | CB64Dec cs obs => opt_eqb (list_eqb Z.eqb) (b64_dec cs) obs
  | CLoad doc obs =>
      match load_doc doc, obs with
      | Some m, Some (s, b) => strkv_eqb (m_str m) s && binkv_eqb (m_bin m) b
      | None, None => true
      | _, _ => false
      end
  | CSave doc ops obs =>
      match load_doc doc with
      | Some m => Check.C01.gval_eqb (GMap (save_doc (fold_left m_step ops m))) obs
      | None => false
      end
  end.

Definition mismatches (cs : list case) : list nat := bad_indices check cs.
