From Coq Require Import List String Bool Arith ZArith.
From YT Require Export Base.Str Base.KV Model.Doc Model.Dom Model.Pointer Model.Path Model.Builder Check.Common.
Import ListNotations.
Local Open Scope list_scope.

Definition entry_eqb (a b : string * scalar) : bool := String.eqb (fst a) (fst b) && scalar_eqb (snd a) (snd b).
Definition mem {A} (eqb : A -> A -> bool) (x : A) (l : list A) : bool := existsb (eqb x) l.
(* equality as finite sets/multisets of the same size *)
Definition same_set {A} (eqb : A -> A -> bool) (a b : list A) : bool :=
  Nat.eqb (List.length a) (List.length b) && forallb (fun x => mem eqb x b) a && forallb (fun x => mem eqb x a) b.

Definition pseg_eqb (a b : pseg) : bool :=
  match a, b with
  | PKey x, PKey y => String.eqb x y
  | PIdx x, PIdx y => Nat.eqb x y
  | _, _ => false
  end.

Inductive case :=
| CFlatten (d : node) (obs : list (string * scalar))                 (* Flatten() as a set of pairs *)
| CLookup (d : node) (p : string) (obs : option node)                (* Lookup(p) *)
| CParsePath (raw : string) (obs : list pseg)                        (* props.ParsePath *)
| CPointerEval (d : node) (raw : string) (obs : option node)         (* xform.PointerFromPropPathString(raw).Eval(d) *)
| CSearch (f : spred) (d : node) (obs : list string)                 (* Search(f) as a set *)
| CRebuild (entries : list (string * scalar)) (obs : list (string * scalar)).  (* AddValueAt each, then Flatten *)

Definition check (c : case) : bool :=
  match c with
  | CFlatten d obs => same_set entry_eqb (flatten d) obs
  | CLookup d p obs => opt_node_eqb (lookup p d) obs
  | CParsePath raw obs => list_eqb pseg_eqb (props_parse raw) obs
  | CPointerEval d raw obs =>
      match pointer_of_prop_path raw with
      | Some toks => opt_node_eqb (snd (ptr_eval toks d)) obs
      | None => false
      end
  | CSearch f d obs => same_set String.eqb (search (spred_eval f) d) obs
  | CRebuild entries obs =>
      same_set entry_eqb
        (flatten (Con (fold_left (fun kvs e => add_value_at (fst e) (Leaf (snd e)) kvs) entries []))) obs
  end.

Definition mismatches (cs : list case) : list nat := bad_indices check cs.
