From Coq Require Import List String Bool Arith ZArith.
From YT Require Export Base.Str Base.KV Base.Sort Model.Doc Model.Dom Model.Equals Model.Diff Check.Common.
Import ListNotations.
Local Open Scope list_scope.

Definition mtype_eqb (a b : mtype) : bool :=
  match a, b with MChange, MChange | MDelete, MDelete | MAdd, MAdd => true | _, _ => false end.
Definition modif_eqb (a b : modif) : bool :=
  mtype_eqb (mt a) (mt b) && String.eqb (mpath a) (mpath b) && scalar_eqb (mval a) (mval b)
  && scalar_eqb (mold a) (mold b).

Inductive case :=
| CDiff (l r : node) (obs : list modif)
| COverlay (name : string) (l r : list (string * node)) (obs : list modif).

Definition check (c : case) : bool :=
  match c with
  | CDiff l r obs => list_eqb modif_eqb (diff l r) obs
  | COverlay name l r obs => list_eqb modif_eqb (overlay_docs_at name l r) obs
  end.

Definition mismatches (cs : list case) : list nat := bad_indices check cs.
