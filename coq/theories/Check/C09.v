From Coq Require Import List String Bool Arith ZArith.
From YT Require Export Base.Str Base.KV Model.Doc Model.Dom Model.Pointer Model.Builder Model.Equals Model.Patch Model.Path Model.Diff Model.Xform Check.Common.
Import ListNotations.
Local Open Scope list_scope.

(* a sequence of operations on one document; observed: (AsMap(doc), ok?) after every step *)
Inductive case :=
| CPatch (d : node) (ops : list pop) (obs : list (node * bool))
(* the operation objects xform.DiffMod2PatchOp made of these modifications *)
| CFromDiff (mods : list modif) (ops : list pop).

(* the RFC reference run on the same sequence (a failing step leaves the document as it was) *)
Fixpoint run_rfc (d : node) (ops : list pop) : list (node * bool) :=
  match ops with
  | [] => []
  | o :: r => match rfc_do o d with
              | Some d' => (d', true) :: run_rfc d' r
              | None => (d, false) :: run_rfc d r
              end
  end.

Definition step_eqb (a b : node * bool) : bool := node_eqb (fst a) (fst b) && Bool.eqb (snd a) (snd b).

Definition pop_eqb (a b : pop) : bool :=
  let p := list_eqb String.eqb in
  let v := opt_eqb node_eqb in
  match a, b with
  | PAdd x s, PAdd y t | PReplace x s, PReplace y t | PTest x s, PTest y t => p x y && v s t
  | PRemove x, PRemove y => p x y
  | _, _ => false
  end.

Definition check (c : case) : bool :=
  match c with
  | CFromDiff mods ops => list_eqb (opt_eqb pop_eqb) (map mod2pop mods) (map Some ops)
  | CPatch d ops obs =>
      list_eqb step_eqb (run_patch d ops) obs &&
      (if forallb in_scope ops then list_eqb step_eqb (run_rfc d ops) obs else true)
  end.

Definition mismatches (cs : list case) : list nat := bad_indices check cs.
