From Coq Require Import List Bool Arith.
Import ListNotations.

Fixpoint list_eqb {A} (eqb : A -> A -> bool) (a b : list A) : bool :=
  match a, b with
  | [], [] => true
  | x :: r, y :: s => eqb x y && list_eqb eqb r s
  | _, _ => false
  end.

Definition opt_eqb {A} (eqb : A -> A -> bool) (a b : option A) : bool :=
  match a, b with
  | None, None => true
  | Some x, Some y => eqb x y
  | _, _ => false
  end.

Definition pair_eqb {A B} (ea : A -> A -> bool) (eb : B -> B -> bool) (a b : A * B) : bool :=
  ea (fst a) (fst b) && eb (snd a) (snd b).

Fixpoint bad_from {C} (check : C -> bool) (cs : list C) (i : nat) : list nat :=
  match cs with
  | [] => []
  | c :: r => if check c then bad_from check r (S i) else i :: bad_from check r (S i)
  end.
Definition bad_indices {C} (check : C -> bool) (cs : list C) : list nat := bad_from check cs 0.
