From Coq Require Import List String Bool Arith ZArith.
From YT Require Export Base.Str Base.KV Model.Doc Model.Dom Model.Path Model.Builder Model.Overlay Model.DocSet Check.Common.
Import ListNotations.
Local Open Scope list_scope.

Definition dsobs_eqb (a b : dsobs) : bool :=
  match a, b with
  | DObsOk x, DObsOk y => Bool.eqb x y
  | DObsOverlay n1 l1, DObsOverlay n2 l2 => list_eqb String.eqb n1 n2 && list_eqb node_eqb l1 l2
  | DObsDoc x, DObsDoc y => opt_node_eqb x y
  | _, _ => false
  end.

Inductive case :=
| CDocSet (ops : list dsop) (obs : list dsobs).

Definition check (c : case) : bool :=
  match c with
  | CDocSet ops obs => list_eqb dsobs_eqb (ds_run ds_empty ops) obs
  end.

Definition mismatches (cs : list case) : list nat := bad_indices check cs.
