From Coq Require Import List String Bool Arith ZArith.
From YT Require Export Base.Str Base.KV Base.Sort Model.Doc Model.Dom Model.Pointer Model.Path Model.Builder
  Model.Equals Model.Diff Model.Apply Check.Common.
Import ListNotations.
Local Open Scope list_scope.

Inductive case :=
| CApply (d : node) (mods : list modif) (obs : node)          (* AsMap(Apply(d, mods)) *)
| CApplyDiff (l r : node) (obs : node).                       (* AsMap(Apply(R, Diff(L,R))) *)

Definition check (c : case) : bool :=
  match c with
  | CApply d mods obs => node_eqb (apply d mods) obs
  | CApplyDiff l r obs => node_eqb (apply r (diff l r)) obs
  end.

Definition mismatches (cs : list case) : list nat := bad_indices check cs.
