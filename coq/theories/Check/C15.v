From Coq Require Import List String Bool Arith.
From YT Require Export Base.Str Model.Analytics Model.CloneTbl Check.Common.
From YTGen Require Export CloneTable.
Import ListNotations.
Local Open Scope list_scope.

Fixpoint value_eqb (a b : value) {struct a} : bool :=
  match a, b with
  | VStr x, VStr y | VAtom x, VAtom y => String.eqb x y
  | VOpt None, VOpt None => true
  | VOpt (Some x), VOpt (Some y) => value_eqb x y
  | VList xs, VList ys =>
      (fix go (l1 l2 : list value) : bool :=
         match l1, l2 with
         | [], [] => true
         | x :: r1, y :: r2 => value_eqb x y && go r1 r2
         | _, _ => false
         end) xs ys
  | VRec t1 f1, VRec t2 f2 =>
      String.eqb t1 t2 &&
      (fix go (l1 l2 : list (string * value)) : bool :=
         match l1, l2 with
         | [], [] => true
         | (n1, x) :: r1, (n2, y) :: r2 => String.eqb n1 n2 && value_eqb x y && go r1 r2
         | _, _ => false
         end) f1 f2
  | _, _ => false
  end.

(* the context's data is {x: "X"}: the templates the harness uses are plain text followed by the one
   action "{{ .x }}" (the plain text may itself contain braces) *)
Definition render_x (s : string) : string :=
  let n := String.length s in
  if (Nat.leb 8 n && String.eqb (substring (n - 8) 8 s) "{{ .x }}")%bool
  then (substring 0 (n - 8) s ++ "X")%string else s.

Inductive case :=
| CCloneValue (v : value) (obs : value).       (* a configured action as a value; what CloneWith returned *)

Definition check (c : case) : bool :=
  match c with
  | CCloneValue v obs => value_eqb (clone_v clone_table render_x v) obs
  end.

Definition mismatches (cs : list case) : list nat := bad_indices check cs.
