From Coq Require Import List String Bool Arith ZArith.
From YT Require Export Base.Str Base.KV Model.Doc Model.Dom Model.Builder Model.Codec Model.Merge Model.Pipeline Check.Common.
Import ListNotations.
Local Open Scope list_scope.

Definition lbl_eqb (a b : lbl) : bool :=
  match a, b with
  | LAct x, LAct y | LOp x, LOp y | LInner x, LInner y => String.eqb x y
  | LOps, LOps | LChildren, LChildren => true
  | _, _ => false
  end.
Definition event_eqb (a b : event) : bool :=
  match a, b with
  | EB x, EB y => lbl_eqb x y
  | EA x e, EA y f => lbl_eqb x y && Bool.eqb e f
  | ELog x, ELog y | ETrace x, ETrace y => String.eqb x y
  | _, _ => false
  end.

(* data, tree, observed: listener events, error returned?, final data *)
Inductive case :=
| CExec (data : node) (a : action) (evs : list event) (failed : bool) (final : node)
(* two runs on one executor: the second starts from the state (data, definitions, event log) the
   first one left, whether it failed or not; [failed] is the second run's *)
| CExec2 (data : node) (a1 a2 : action) (evs : list event) (failed : bool) (final : node).

Definition check (c : case) : bool :=
  match c with
  | CExec data a evs failed final =>
      match data with
      | Con kvs =>
          let '(st, r) := exec 40 a (init_state kvs) in
          list_eqb event_eqb (st_ev st) evs &&
          (match r with SOk => negb failed | SErr => failed | SFuel => false end) &&
          node_eqb (Con (st_data st)) final
      | _ => false
      end
  | CExec2 data a1 a2 evs failed final =>
      match data with
      | Con kvs =>
          let '(st1, _) := exec 40 a1 (init_state kvs) in
          let '(st, r) := exec 40 a2 st1 in
          list_eqb event_eqb (st_ev st) evs &&
          (match r with SOk => negb failed | SErr => failed | SFuel => false end) &&
          node_eqb (Con (st_data st)) final
      | _ => false
      end
  end.

Definition mismatches (cs : list case) : list nat := bad_indices check cs.
