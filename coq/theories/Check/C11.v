From Coq Require Import List Bool Arith.
From YT Require Export Model.Resolver Check.Common.
Import ListNotations.

(* observed: Some tokens = the result string re-tokenised; None = "circular reference" panic *)
Inductive case :=
| CResolve (tbl : list (toks * toks)) (input : toks) (obs : option toks).

Definition check (c : case) : bool :=
  match c with
  | CResolve tbl input obs =>
      match resolve_top (tbl_of tbl) 64 input, obs with
      | ROk r, Some o => toks_eqb r o
      | RCycle _, None => true
      | _, _ => false
      end
  end.

Definition mismatches (cs : list case) : list nat := bad_indices check cs.
