(* Base/Str.v — strings as byte sequences (Coq [string]); byte-wise order (Go's [<] on strings);
   decimal rendering and parsing (Go's "%d" and strconv.Atoi on digit strings). *)
From Coq Require Import List String Ascii ZArith NArith Lia Bool Arith DecimalString DecimalNat.
Import ListNotations.
Open Scope string_scope.

(* ---------- order: transitivity and irreflexivity (missing from the 8.16 stdlib) *)
Lemma ascii_compare_lt_trans a b c :
  Ascii.compare a b = Lt -> Ascii.compare b c = Lt -> Ascii.compare a c = Lt.
Proof. unfold Ascii.compare. rewrite !N.compare_lt_iff. lia. Qed.

Lemma ascii_compare_refl a : Ascii.compare a a = Eq.
Proof. unfold Ascii.compare. apply N.compare_refl. Qed.

Lemma compare_lt_trans : forall s1 s2 s3,
  String.compare s1 s2 = Lt -> String.compare s2 s3 = Lt -> String.compare s1 s3 = Lt.
Proof.
  induction s1 as [|a s1 IH]; intros [|b s2] [|c s3]; simpl; try congruence.
  destruct (Ascii.compare a b) eqn:E1; try congruence;
  destruct (Ascii.compare b c) eqn:E2; try congruence; intros H1 H2.
  - apply Ascii.compare_eq_iff in E1, E2; subst. rewrite ascii_compare_refl. eauto.
  - apply Ascii.compare_eq_iff in E1; subst. now rewrite E2.
  - apply Ascii.compare_eq_iff in E2; subst. now rewrite E1.
  - now rewrite (ascii_compare_lt_trans _ _ _ E1 E2).
Qed.

Lemma compare_refl s : String.compare s s = Eq.
Proof. induction s as [|a s IH]; simpl; [reflexivity|]. now rewrite ascii_compare_refl. Qed.

Lemma ltb_trans s1 s2 s3 :
  String.ltb s1 s2 = true -> String.ltb s2 s3 = true -> String.ltb s1 s3 = true.
Proof.
  unfold String.ltb. destruct (String.compare s1 s2) eqn:E1; try discriminate.
  destruct (String.compare s2 s3) eqn:E2; try discriminate. intros _ _.
  now rewrite (compare_lt_trans _ _ _ E1 E2).
Qed.

Lemma ltb_irrefl s : String.ltb s s = false.
Proof. unfold String.ltb. now rewrite compare_refl. Qed.

Lemma ltb_neq s t : String.ltb s t = true -> s <> t.
Proof. intros H ->. rewrite ltb_irrefl in H. discriminate. Qed.

Lemma ltb_asym s t : String.ltb s t = true -> String.ltb t s = false.
Proof.
  intros H. destruct (String.ltb t s) eqn:E; [|reflexivity].
  pose proof (ltb_trans _ _ _ H E) as C. now rewrite ltb_irrefl in C.
Qed.

Lemma ltb_total s t : s <> t -> String.ltb s t = false -> String.ltb t s = true.
Proof.
  unfold String.ltb. intros N H. rewrite String.compare_antisym.
  destruct (String.compare s t) eqn:E; simpl; try reflexivity; try discriminate.
  apply String.compare_eq_iff in E. contradiction.
Qed.

(* three-way comparison used by the sorted-assoc-list operations *)
Inductive cmp3 := CEq | CLt | CGt.
Definition scmp (a b : string) : cmp3 :=
  if String.eqb a b then CEq else if String.ltb a b then CLt else CGt.

Lemma scmp_spec a b :
  match scmp a b with
  | CEq => a = b
  | CLt => String.ltb a b = true /\ a <> b
  | CGt => String.ltb b a = true /\ a <> b
  end.
Proof.
  unfold scmp. destruct (String.eqb_spec a b) as [E|N]; [exact E|].
  destruct (String.ltb a b) eqn:L; split; auto. now apply ltb_total.
Qed.

(* ---------- characters *)
Definition is_digit (c : ascii) : bool :=
  let n := nat_of_ascii c in (48 <=? n)%nat && (n <=? 57)%nat.

Definition LBR : ascii := "["%char.
Definition RBR : ascii := "]"%char.
Definition DOT : ascii := "."%char.

(* key_safe: non-empty, characters in [A-Za-z0-9_-] (the properties' "path-safe keys") *)
Definition safe_char (c : ascii) : bool :=
  let n := nat_of_ascii c in
  ((48 <=? n) && (n <=? 57) || (65 <=? n) && (n <=? 90) || (97 <=? n) && (n <=? 122)
   || (n =? 95) || (n =? 45))%nat.

Definition la (s : string) : list ascii := list_ascii_of_string s.
Definition sl (l : list ascii) : string := string_of_list_ascii l.

Lemma sl_la s : sl (la s) = s.
Proof. apply string_of_list_ascii_of_string. Qed.
Lemma la_sl l : la (sl l) = l.
Proof. apply list_ascii_of_string_of_list_ascii. Qed.

Definition key_safe (k : string) : bool :=
  match la k with [] => false | l => forallb safe_char l end.

(* build a string from byte values: used by the harness printer for non-printable strings *)
Definition S_ (bs : list nat) : string := sl (map ascii_of_nat bs).

(* ---------- decimal *)
Definition nat2s (n : nat) : string := NilZero.string_of_uint (Nat.to_uint n).

(* Go's strconv.Atoi restricted to non-empty ASCII digit strings (signs, overflow: out of scope) *)
Definition s2nat (s : string) : option nat :=
  match s with
  | EmptyString => None
  | _ => option_map Nat.of_uint (NilEmpty.uint_of_string s)
  end.

Lemma to_uint_nonnil n : Nat.to_uint n <> Decimal.Nil.
Proof.
  intro H. pose proof (DecimalNat.Unsigned.of_to n) as E. rewrite H in E.
  destruct n; [|simpl in E; discriminate].
  vm_compute in H. discriminate.
Qed.

Lemma nat2s_nonempty n : nat2s n <> "".
Proof.
  unfold nat2s. intro H.
  pose proof (NilZero.usu (Nat.to_uint n) (to_uint_nonnil n)) as E.
  rewrite H in E. simpl in E. discriminate.
Qed.

Lemma s2nat_nat2s n : s2nat (nat2s n) = Some n.
Proof.
  unfold s2nat. pose proof (nat2s_nonempty n) as NE.
  destruct (nat2s n) eqn:E; [congruence|]. rewrite <- E. clear NE.
  unfold nat2s.
  pose proof (NilZero.usu (Nat.to_uint n) (to_uint_nonnil n)) as U.
  unfold NilZero.uint_of_string in U.
  destruct (NilZero.string_of_uint (Nat.to_uint n)) eqn:E2; [discriminate|].
  rewrite U. simpl. now rewrite DecimalNat.Unsigned.of_to.
Qed.

Lemma nat2s_inj a b : nat2s a = nat2s b -> a = b.
Proof. intros H. pose proof (s2nat_nat2s a) as E. rewrite H, s2nat_nat2s in E. congruence. Qed.

(* canonical array index of RFC 6901 / repaired PathSegment.IsNumeric:
   digits only, no leading zero unless "0".  A token of more than 18 digits denotes an index of at
   least 10^18: in Go it either overflows strconv.Atoi (then the segment is "not numeric") or is an
   index far beyond any list; both mean "no such element", which is what None means to every caller
   here.  (Cutting off there also keeps the unary nat out of reach of such tokens.) *)
Definition canon_index (s : string) : option nat :=
  match la s with
  | [] => None
  | c :: r =>
      if forallb is_digit (c :: r)
      then if (Ascii.eqb c "0"%char && negb (match r with [] => true | _ => false end))
           then None
           else if Nat.ltb 18 (List.length (c :: r)) then None else s2nat s
      else None
  end.

(* ---------- misc list helpers on strings *)
Definition sapp (a b : string) : string := (a ++ b)%string.

Fixpoint split_on (c : ascii) (l : list ascii) (cur : list ascii) : list (list ascii) :=
  match l with
  | [] => [rev cur]
  | x :: r => if Ascii.eqb x c then rev cur :: split_on c r [] else split_on c r (x :: cur)
  end.

(* strings.Split(s, ".") *)
Definition split_dots (s : string) : list string := map sl (split_on DOT (la s) []).

Fixpoint join_with (sep : string) (l : list string) : string :=
  match l with
  | [] => ""
  | [x] => x
  | x :: r => x ++ sep ++ join_with sep r
  end.
