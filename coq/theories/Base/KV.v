(* Base/KV.v — association lists with strictly increasing string keys: the canonical model of a
   Go map[string]T.  Canonical, so Coq [=] on well-formed values is deep equality. *)
From Coq Require Import List String Ascii Lia Bool Arith.
From YT Require Import Base.Str.
Import ListNotations.
Open Scope string_scope.

Lemma forallb_map {X Y} (f : X -> Y) (p : Y -> bool) l :
  forallb p (map f l) = forallb (fun x => p (f x)) l.
Proof. induction l as [|x r IH]; simpl; [reflexivity|]. now rewrite IH. Qed.

Section KV.
Context {A : Type}.
Notation kv := (list (string * A)).

Fixpoint kv_get (k : string) (l : kv) : option A :=
  match l with [] => None | (k', v) :: r => if String.eqb k k' then Some v else kv_get k r end.

Fixpoint kv_set (k : string) (v : A) (l : kv) : kv :=
  match l with
  | [] => [(k, v)]
  | (k', v') :: r =>
      match scmp k k' with
      | CEq => (k, v) :: r
      | CLt => (k, v) :: (k', v') :: r
      | CGt => (k', v') :: kv_set k v r
      end
  end.

Fixpoint kv_del (k : string) (l : kv) : kv :=
  match l with
  | [] => []
  | (k', v') :: r => if String.eqb k k' then r else (k', v') :: kv_del k r
  end.

Definition kv_keys (l : kv) : list string := map fst l.

Definition lt_all (k : string) (l : kv) : bool := forallb (fun kv => String.ltb k (fst kv)) l.

Fixpoint sorted_keys (l : kv) : bool :=
  match l with
  | [] => true
  | (k, _) :: r => lt_all k r && sorted_keys r
  end.

(* build from an arbitrary list (later entries win): the harness always sends sorted lists, this
   is used by model functions that construct containers from unordered sources *)
Definition kv_of_list (l : kv) : kv := fold_left (fun acc kv => kv_set (fst kv) (snd kv) acc) l [].

Lemma sorted_cons_inv k (v : A) r : sorted_keys ((k, v) :: r) = true ->
  sorted_keys r = true /\ Forall (fun kv => String.ltb k (fst kv) = true) r.
Proof.
  simpl. intros H. apply andb_prop in H as [H1 H2]. split; [exact H2|].
  apply Forall_forall. intros x Hx. unfold lt_all in H1. rewrite forallb_forall in H1. auto.
Qed.

Lemma lt_all_Forall k r : lt_all k r = true <-> Forall (fun kv => String.ltb k (fst kv) = true) r.
Proof. unfold lt_all. rewrite forallb_forall, Forall_forall. tauto. Qed.

Lemma get_none_of_lt k (r : kv) :
  Forall (fun kv => String.ltb k (fst kv) = true) r -> kv_get k r = None.
Proof.
  induction 1 as [|[k' v'] r H _ IH]; simpl; [reflexivity|].
  destruct (String.eqb_spec k k'); [subst; simpl in H; rewrite ltb_irrefl in H; discriminate|exact IH].
Qed.

Lemma lt_all_trans k k' r : String.ltb k k' = true -> lt_all k' r = true -> lt_all k r = true.
Proof.
  intros L. rewrite !lt_all_Forall. intros F. eapply Forall_impl; [|exact F].
  intros a Ha. eapply ltb_trans; eauto.
Qed.

(* extensionality: sorted lists with the same lookups are equal *)
Lemma sorted_ext : forall (l1 l2 : kv),
  sorted_keys l1 = true -> sorted_keys l2 = true ->
  (forall k, kv_get k l1 = kv_get k l2) -> l1 = l2.
Proof.
  induction l1 as [|[k v] r1 IH]; intros [|[k' v'] r2] S1 S2 H.
  - reflexivity.
  - specialize (H k'); simpl in H. rewrite String.eqb_refl in H. discriminate.
  - specialize (H k); simpl in H. rewrite String.eqb_refl in H. discriminate.
  - destruct (sorted_cons_inv _ _ _ S1) as [S1' F1], (sorted_cons_inv _ _ _ S2) as [S2' F2].
    assert (k = k').
    { pose proof (H k) as Hk; pose proof (H k') as Hk'. simpl in Hk, Hk'.
      rewrite String.eqb_refl in Hk, Hk'.
      destruct (String.eqb_spec k k'); [assumption|].
      destruct (String.eqb_spec k' k); [congruence|].
      assert (L1: String.ltb k' k = true).
      { clear -Hk F2. induction F2 as [|[a b] r Ha _ IHr]; simpl in Hk; [discriminate|].
        destruct (String.eqb_spec k a); [subst; exact Ha|auto]. }
      assert (L2: String.ltb k k' = true).
      { clear -Hk' F1. induction F1 as [|[a b] r Ha _ IHr]; simpl in Hk'; [discriminate|].
        destruct (String.eqb_spec k' a); [subst; exact Ha|auto]. }
      pose proof (ltb_trans _ _ _ L1 L2) as C. rewrite ltb_irrefl in C. discriminate. }
    subst k'. pose proof (H k) as Hk. simpl in Hk. rewrite String.eqb_refl in Hk. injection Hk as ->.
    f_equal. apply IH; auto. intros q. specialize (H q). simpl in H.
    destruct (String.eqb_spec q k); [|exact H]. subst q.
    now rewrite (get_none_of_lt _ _ F1), (get_none_of_lt _ _ F2).
Qed.

Lemma sorted_nodup (l : kv) : sorted_keys l = true -> NoDup (kv_keys l).
Proof.
  induction l as [|[k v] r IH]; simpl; intros H; [constructor|].
  apply andb_prop in H as [H1 H2]. constructor; [|auto].
  intros Hin. apply in_map_iff in Hin as [[k' v'] [E Hin]]. simpl in E; subst k'.
  unfold lt_all in H1. rewrite forallb_forall in H1. specialize (H1 _ Hin). simpl in H1.
  rewrite ltb_irrefl in H1. discriminate.
Qed.

Lemma get_in k (v : A) l : kv_get k l = Some v -> In (k, v) l.
Proof.
  induction l as [|[k' v'] r IH]; simpl; [discriminate|].
  destruct (String.eqb_spec k k'); [intros [= ->]; subst; auto|auto].
Qed.

Lemma in_get k (v : A) l : NoDup (kv_keys l) -> In (k, v) l -> kv_get k l = Some v.
Proof.
  induction l as [|[k' v'] r IH]; simpl; intros ND Hin; [contradiction|].
  inversion ND as [|? ? Hnotin ND']; subst.
  destruct Hin as [E|Hin].
  - injection E as -> ->. now rewrite String.eqb_refl.
  - destruct (String.eqb_spec k k'); [|auto]. subst k'. exfalso. apply Hnotin.
    apply in_map_iff. exists (k, v); auto.
Qed.

Lemma get_some_key k (l : kv) v : kv_get k l = Some v -> In k (kv_keys l).
Proof. intros H. apply get_in in H. apply in_map_iff. exists (k, v); auto. Qed.

Lemma get_none_notin k (l : kv) : ~ In k (kv_keys l) -> kv_get k l = None.
Proof.
  induction l as [|[k' v'] r IH]; simpl; [reflexivity|]. intros H.
  destruct (String.eqb_spec k k'); [subst; exfalso; auto|apply IH; auto].
Qed.

(* ---- kv_set *)
Lemma kv_get_set_same k v l : kv_get k (kv_set k v l) = Some v.
Proof.
  induction l as [|[k' v'] r IH]; simpl; [now rewrite String.eqb_refl|].
  pose proof (scmp_spec k k') as S. destruct (scmp k k'); cbn in S; simpl.
  - now rewrite String.eqb_refl.
  - now rewrite String.eqb_refl.
  - destruct S as [_ N]. destruct (String.eqb_spec k k'); [contradiction|exact IH].
Qed.

Lemma kv_get_set_other k q v l : q <> k -> kv_get q (kv_set k v l) = kv_get q l.
Proof.
  intros N. induction l as [|[k' v'] r IH]; simpl.
  - destruct (String.eqb_spec q k); [contradiction|reflexivity].
  - pose proof (scmp_spec k k') as S. destruct (scmp k k'); cbn in S; simpl.
    + subst k'. destruct (String.eqb_spec q k); [contradiction|reflexivity].
    + destruct (String.eqb_spec q k); [contradiction|reflexivity].
    + destruct (String.eqb_spec q k'); [reflexivity|exact IH].
Qed.

Lemma lt_all_set k0 k v l : String.ltb k0 k = true -> lt_all k0 l = true -> lt_all k0 (kv_set k v l) = true.
Proof.
  intros L. induction l as [|[k' v'] r IH]; simpl; intros H.
  - now rewrite L.
  - apply andb_prop in H as [H1 H2]. destruct (scmp k k'); simpl.
    + now rewrite L, H2.
    + now rewrite L, H1, H2.
    + rewrite H1. simpl. apply IH, H2.
Qed.

Lemma kv_set_sorted k v l : sorted_keys l = true -> sorted_keys (kv_set k v l) = true.
Proof.
  induction l as [|[k' v'] r IH]; simpl; intros H; [reflexivity|].
  apply andb_prop in H as [H1 H2].
  pose proof (scmp_spec k k') as S. destruct (scmp k k'); cbn in S.
  - subst k'. simpl. now rewrite H1, H2.
  - destruct S as [L _]. simpl. rewrite L, H1, H2. simpl.
    rewrite (lt_all_trans _ _ _ L H1). reflexivity.
  - destruct S as [L _]. simpl. rewrite (lt_all_set _ _ _ _ L H1), (IH H2). reflexivity.
Qed.

(* ---- kv_del *)
Lemma lt_all_del k0 k l : lt_all k0 l = true -> lt_all k0 (kv_del k l) = true.
Proof.
  induction l as [|[k' v'] r IH]; simpl; intros H; [reflexivity|].
  apply andb_prop in H as [H1 H2]. destruct (String.eqb k k'); [exact H2|].
  simpl. now rewrite H1, IH.
Qed.

Lemma kv_del_sorted k l : sorted_keys l = true -> sorted_keys (kv_del k l) = true.
Proof.
  induction l as [|[k' v'] r IH]; simpl; intros H; [reflexivity|].
  apply andb_prop in H as [H1 H2]. destruct (String.eqb k k'); [exact H2|].
  simpl. now rewrite lt_all_del, IH.
Qed.

Lemma kv_get_del_same k l : sorted_keys l = true -> kv_get k (kv_del k l) = None.
Proof.
  induction l as [|[k' v'] r IH]; simpl; intros H; [reflexivity|].
  apply andb_prop in H as [H1 H2].
  destruct (String.eqb_spec k k').
  - subst. apply get_none_of_lt. now apply lt_all_Forall.
  - simpl. destruct (String.eqb_spec k k'); [contradiction|auto].
Qed.

Lemma kv_get_del_other k q l : q <> k -> kv_get q (kv_del k l) = kv_get q l.
Proof.
  intros N. induction l as [|[k' v'] r IH]; simpl; [reflexivity|].
  destruct (String.eqb_spec k k').
  - subst. destruct (String.eqb_spec q k'); [contradiction|reflexivity].
  - simpl. destruct (String.eqb_spec q k'); [reflexivity|exact IH].
Qed.

Lemma kv_set_get_id k v l : sorted_keys l = true -> kv_get k l = Some v -> kv_set k v l = l.
Proof.
  intros S G. apply sorted_ext; auto using kv_set_sorted.
  intros q. destruct (String.eqb_spec q k).
  - subst. now rewrite kv_get_set_same.
  - now rewrite kv_get_set_other.
Qed.

End KV.

Arguments kv_get {A} k l.
Arguments kv_set {A} k v l.
Arguments kv_del {A} k l.
