(* Base/Sort.v — insertion sort as THE stable sort by a string key (byte-wise order), and the
   uniqueness lemma behind every "independent of map iteration order" theorem: a sorted list is
   determined by its per-key subsequences, and a stable sort preserves them. *)
From Coq Require Import List String Ascii Lia Bool Arith.
From YT Require Import Base.Str.
Import ListNotations.
Local Open Scope list_scope.

Section S.
Variable A : Type.
Variable key : A -> string.

Definition kle (a b : string) : bool := negb (String.ltb b a).

Fixpoint insert (x : A) (l : list A) : list A :=
  match l with
  | [] => [x]
  | y :: r => if kle (key x) (key y) then x :: y :: r else y :: insert x r
  end.
Fixpoint isort (l : list A) : list A := match l with [] => [] | x :: r => insert x (isort r) end.

Definition fk (k : string) (l : list A) := filter (fun x => String.eqb (key x) k) l.

Inductive sorted : list A -> Prop :=
| s_nil : sorted []
| s_cons x l : Forall (fun y => kle (key x) (key y) = true) l -> sorted l -> sorted (x :: l).

Lemma kle_refl a : kle a a = true.
Proof. unfold kle. now rewrite ltb_irrefl. Qed.
Lemma kle_trans a b c : kle a b = true -> kle b c = true -> kle a c = true.
Proof.
  unfold kle. intros H1 H2. apply negb_true_iff in H1, H2. apply negb_true_iff.
  destruct (String.ltb c a) eqn:E; [|reflexivity].
  destruct (String.eqb_spec b a) as [->|N]; [congruence|].
  pose proof (ltb_total _ _ N H1) as L. (* a < b *)
  pose proof (ltb_trans _ _ _ E L). congruence.
Qed.
Lemma kle_false a b : kle a b = false -> kle b a = true /\ a <> b.
Proof.
  unfold kle. intros H. apply negb_false_iff in H. split.
  - apply negb_true_iff. now apply ltb_asym.
  - intros ->. now rewrite ltb_irrefl in H.
Qed.
Lemma kle_antisym a b : kle a b = true -> kle b a = true -> a = b.
Proof.
  unfold kle. intros H1 H2. apply negb_true_iff in H1, H2.
  destruct (String.eqb_spec a b); [assumption|]. pose proof (ltb_total _ _ n H2). congruence.
Qed.

Lemma insert_forall (P : A -> Prop) x l : P x -> Forall P l -> Forall P (insert x l).
Proof.
  induction l as [|y r IH]; simpl; intros Hx Hl; [auto|].
  inversion Hl; subst. destruct (kle (key x) (key y)); auto.
Qed.

Lemma insert_sorted x l : sorted l -> sorted (insert x l).
Proof.
  induction 1 as [|y r Hy Hs IH]; simpl.
  - repeat constructor.
  - destruct (kle (key x) (key y)) eqn:E.
    + constructor; [|constructor; auto]. constructor; [exact E|].
      eapply Forall_impl; [|exact Hy]. simpl; intros. eapply kle_trans; eauto.
    + constructor; [|auto]. apply insert_forall; [|auto]. now apply kle_false in E as [E _].
Qed.
Lemma isort_sorted l : sorted (isort l).
Proof. induction l; simpl; [constructor|apply insert_sorted; auto]. Qed.

Lemma fk_insert k x l : sorted l -> fk k (insert x l) = fk k (x :: l).
Proof.
  induction 1 as [|y r Hy Hs IH]; [reflexivity|].
  simpl insert. destruct (kle (key x) (key y)) eqn:E; [reflexivity|].
  unfold fk in *. simpl in *. rewrite IH.
  destruct (String.eqb_spec (key y) k), (String.eqb_spec (key x) k); try reflexivity.
  apply kle_false in E as [_ N]. congruence.
Qed.
Lemma fk_isort k l : fk k (isort l) = fk k l.
Proof.
  induction l as [|x r IH]; [reflexivity|]. simpl isort.
  rewrite fk_insert by apply isort_sorted. unfold fk in *; simpl. now rewrite IH.
Qed.

Lemma fk_nil_of_lt k l : Forall (fun y => kle k (key y) = true /\ k <> key y) l -> fk k l = [].
Proof.
  induction 1 as [|y r Hy _ IH]; [reflexivity|]. unfold fk in *; simpl.
  destruct (String.eqb_spec (key y) k); [destruct Hy; congruence|auto].
Qed.

Lemma sorted_determined l : sorted l -> forall l', sorted l' ->
  (forall k, fk k l = fk k l') -> l = l'.
Proof.
  induction 1 as [|x r Hx Hs IH]; intros l' Hs' H.
  - destruct l' as [|y r']; [reflexivity|]. specialize (H (key y)). unfold fk in H; simpl in H.
    rewrite String.eqb_refl in H. discriminate.
  - destruct l' as [|y r'].
    { specialize (H (key x)). unfold fk in H; simpl in H. rewrite String.eqb_refl in H. discriminate. }
    inversion Hs' as [|? ? Hy Hs'']; subst.
    assert (Hk : key x = key y).
    { destruct (kle (key x) (key y)) eqn:E1, (kle (key y) (key x)) eqn:E2.
      - now apply kle_antisym.
      - (* key x < key y : x's key does not occur in l' *)
        apply kle_false in E2 as [_ N].
        pose proof (H (key x)) as E. unfold fk in E; simpl in E. rewrite String.eqb_refl in E.
        destruct (String.eqb_spec (key y) (key x)); [congruence|].
        fold (fk (key x) r') in E. rewrite fk_nil_of_lt in E; [discriminate|].
        eapply Forall_impl; [|exact Hy]. simpl. intros a Ha. split.
        + eapply kle_trans; eauto.
        + intros Ea. rewrite <- Ea in Ha. apply N. now apply kle_antisym.
      - apply kle_false in E1 as [_ N].
        pose proof (H (key y)) as E. unfold fk in E; simpl in E. rewrite String.eqb_refl in E.
        destruct (String.eqb_spec (key x) (key y)); [congruence|].
        fold (fk (key y) r) in E. rewrite fk_nil_of_lt in E; [discriminate|].
        eapply Forall_impl; [|exact Hx]. simpl. intros a Ha. split.
        + eapply kle_trans; eauto.
        + intros Ea. rewrite <- Ea in Ha. apply N. symmetry. now apply kle_antisym.
      - apply kle_false in E1 as [E1 _]. congruence. }
    pose proof (H (key x)) as E. unfold fk in E; simpl in E.
    rewrite String.eqb_refl in E. rewrite <- Hk, String.eqb_refl in E. injection E as Exy E.
    subst y. f_equal. apply IH; [auto|]. intros k. specialize (H k). unfold fk in *; simpl in H.
    destruct (String.eqb (key x) k); [now injection H|exact H].
Qed.

Theorem stable_sort_unique l1 l2 :
  (forall k, fk k l1 = fk k l2) -> isort l1 = isort l2.
Proof.
  intros H. apply sorted_determined; try apply isort_sorted.
  intros k. now rewrite !fk_isort.
Qed.

Lemma isort_nil l : isort l = [] -> l = [].
Proof.
  destruct l as [|x r]; [reflexivity|]. simpl. destruct (isort r); simpl; [discriminate|].
  destruct (kle (key x) (key a)); discriminate.
Qed.
End S.
Arguments isort {A} key l.
Arguments sorted {A} key l.
Arguments fk {A} key k l.
