(* Model/DocSet.v — analytics/document_set.go *)
From Coq Require Import List String Ascii ZArith Lia Bool Arith.
From YT Require Import Base.Str Base.KV Model.Doc Model.Dom Model.Path Model.Builder Model.Equals Model.Merge Model.Overlay.
Import ListNotations.
Local Open Scope list_scope.

Inductive policy := PNone | PMergeTags | PMustCreate.

Record docset := mkDS {
  ds_names : list string;                              (* insertion order, a name once per (re-)add *)
  ds_ctx : list (string * (node * list string));       (* name -> (document, tags); first match wins *)
  ds_unnamed : nat
}.

Definition ds_empty : docset := mkDS [] [] 0.

Fixpoint ctx_get (name : string) (l : list (string * (node * list string))) : option (node * list string) :=
  match l with
  | [] => None
  | (n, c) :: r => if String.eqb name n then Some c else ctx_get name r
  end.
Fixpoint ctx_set (name : string) (c : node * list string) (l : list (string * (node * list string))) :=
  match l with
  | [] => [(name, c)]
  | (n, c') :: r => if String.eqb name n then (n, c) :: r else (n, c') :: ctx_set name c r
  end.

Definition smem (x : string) (l : list string) : bool := existsb (String.eqb x) l.
(* utils.Unique *)
Definition unique (l : list string) : list string :=
  fold_left (fun acc s => if smem s acc then acc else acc ++ [s]) l [].

(* AddDocument(name, doc, WithTags(tags...), policy) *)
Definition ds_add (name : string) (doc : node) (tags : list string) (pol : policy) (ds : docset) : docset * bool :=
  let newtags := "*"%string :: tags in
  match ctx_get name (ds_ctx ds) with
  | Some (olddoc, oldtags) =>
      match pol with
      | PMustCreate => (ds, false)
      | PMergeTags =>
          (mkDS (ds_names ds ++ [name]) (ctx_set name (olddoc, unique (newtags ++ oldtags)) (ds_ctx ds)) (ds_unnamed ds), true)
      | PNone =>
          (mkDS (ds_names ds ++ [name]) (ctx_set name (doc, newtags) (ds_ctx ds)) (ds_unnamed ds), true)
      end
  | None =>
      (mkDS (ds_names ds ++ [name]) (ctx_set name (doc, newtags) (ds_ctx ds)) (ds_unnamed ds), true)
  end.

Definition unnamed_name (n : nat) : string := ("default__" ++ nat2s n)%string.

Definition ds_add_unnamed (doc : node) (tags : list string) (pol : policy) (ds : docset) : docset * bool :=
  let id := S (ds_unnamed ds) in
  ds_add (unnamed_name id) doc tags pol (mkDS (ds_names ds) (ds_ctx ds) id).

Definition contains_any_of (col contains : list string) : bool := existsb (fun i => smem i contains) col.

(* filtered(): a new overlay, o.Add(n, doc) for every selected name in ds.names order *)
Definition ds_filtered (sel : list string -> bool) (ds : docset) : overlay :=
  fold_left (fun ov n =>
               match ctx_get n (ds_ctx ds) with
               | Some (doc, tags) => if sel tags then o_write ov (OAdd n doc) else ov
               | None => ov
               end) (ds_names ds) [].

Definition ds_tagged (ts : list string) (ds : docset) : overlay := ds_filtered (fun tags => contains_any_of tags ts) ds.
Definition ds_as_one (ds : docset) : overlay := ds_filtered (fun _ => true) ds.
Definition ds_named (name : string) (ds : docset) : option node := option_map fst (ctx_get name (ds_ctx ds)).

Inductive dsop :=
| DAdd (name : string) (doc : node) (tags : list string) (pol : policy)
| DAddUnnamed (doc : node) (tags : list string) (pol : policy)
| DTagged (ts : list string)
| DAsOne
| DNamed (name : string).

Inductive dsobs :=
| DObsOk (ok : bool)
| DObsOverlay (names : list string) (layers : list node)
| DObsDoc (d : option node).

Definition ds_step (ds : docset) (o : dsop) : docset * dsobs :=
  let ov_obs (ov : overlay) := DObsOverlay (layer_names ov) (map (fun l => Con (snd l)) ov) in
  match o with
  | DAdd name doc tags pol => let '(ds', ok) := ds_add name doc tags pol ds in (ds', DObsOk ok)
  | DAddUnnamed doc tags pol => let '(ds', ok) := ds_add_unnamed doc tags pol ds in (ds', DObsOk ok)
  | DTagged ts => (ds, ov_obs (ds_tagged ts ds))
  | DAsOne => (ds, ov_obs (ds_as_one ds))
  | DNamed name => (ds, DObsDoc (ds_named name ds))
  end.

Fixpoint ds_run (ds : docset) (ops : list dsop) : list dsobs :=
  match ops with
  | [] => []
  | o :: r => let '(ds', ob) := ds_step ds o in ob :: ds_run ds' r
  end.
