(* Model/DocSet.v — analytics/document_set.go *)
From Coq Require Import List String Ascii ZArith Lia Bool Arith.
From YT Require Import Base.Str Base.KV Model.Doc Model.Dom Model.Path Model.Builder Model.Equals Model.Merge Model.Overlay Model.Analytics.
Import ListNotations.
Local Open Scope list_scope.

Inductive policy := PNone | PMergeTags | PMustCreate.

Record docset := mkDS {
  ds_names : list string;                              (* insertion order, a name once per (re-)add *)
  ds_ctx : list (string * (node * list string));       (* name -> (document, tags); first match wins *)
  ds_unnamed : nat
}.

Definition ds_empty : docset := mkDS [] [] 0.

Fixpoint ctx_get (name : string) (l : list (string * (node * list string))) : option (node * list string) :=
  match l with
  | [] => None
  | (n, c) :: r => if String.eqb name n then Some c else ctx_get name r
  end.
Fixpoint ctx_set (name : string) (c : node * list string) (l : list (string * (node * list string))) :=
  match l with
  | [] => [(name, c)]
  | (n, c') :: r => if String.eqb name n then (n, c) :: r else (n, c') :: ctx_set name c r
  end.

Definition smem (x : string) (l : list string) : bool := existsb (String.eqb x) l.
(* utils.Unique *)
Definition unique (l : list string) : list string :=
  fold_left (fun acc s => if smem s acc then acc else acc ++ [s]) l [].

(* AddDocument(name, doc, WithTags(tags...), policy) *)
Definition ds_add (name : string) (doc : node) (tags : list string) (pol : policy) (ds : docset) : docset * bool :=
  let newtags := "*"%string :: tags in
  match ctx_get name (ds_ctx ds) with
  | Some (olddoc, oldtags) =>
      match pol with
      | PMustCreate => (ds, false)
      | PMergeTags =>
          (mkDS (ds_names ds ++ [name]) (ctx_set name (olddoc, unique (newtags ++ oldtags)) (ds_ctx ds)) (ds_unnamed ds), true)
      | PNone =>
          (mkDS (ds_names ds ++ [name]) (ctx_set name (doc, newtags) (ds_ctx ds)) (ds_unnamed ds), true)
      end
  | None =>
      (mkDS (ds_names ds ++ [name]) (ctx_set name (doc, newtags) (ds_ctx ds)) (ds_unnamed ds), true)
  end.

Definition unnamed_name (n : nat) : string := ("default__" ++ nat2s n)%string.

Definition ds_add_unnamed (doc : node) (tags : list string) (pol : policy) (ds : docset) : docset * bool :=
  let id := S (ds_unnamed ds) in
  ds_add (unnamed_name id) doc tags pol (mkDS (ds_names ds) (ds_ctx ds) id).

Definition contains_any_of (col contains : list string) : bool := existsb (fun i => smem i contains) col.

(* filtered(): a new overlay, o.Add(n, doc) for every selected name in ds.names order *)
Definition ds_filtered (sel : list string -> bool) (ds : docset) : overlay :=
  fold_left (fun ov n =>
               match ctx_get n (ds_ctx ds) with
               | Some (doc, tags) => if sel tags then o_write ov (OAdd n doc) else ov
               | None => ov
               end) (ds_names ds) [].

Definition ds_tagged (ts : list string) (ds : docset) : overlay := ds_filtered (fun tags => contains_any_of tags ts) ds.
Definition ds_as_one (ds : docset) : overlay := ds_filtered (fun _ => true) ds.
Definition ds_named (name : string) (ds : docset) : option node := option_map fst (ctx_get name (ds_ctx ds)).

(* ---------- batch adds (AddDocumentsFromDirectory / AddDocumentsFromManifest / AddPropertiesFromManifest) *)
(* AddDocumentsFromDirectory(pattern, decProv, opts...): the files matched by the pattern, in glob order, each paired with
   what its decoder makes of it (None: the file cannot be opened or decoded).  Every file goes through AddDocumentFromFile
   under its own path; the FIRST failure ends the call with that error, the adds made before it stay. *)
Fixpoint ds_add_files (files : list (string * option node)) (tags : list string) (pol : policy) (ds : docset)
  : docset * bool :=
  match files with
  | [] => (ds, true)
  | (_, None) :: _ => (ds, false)
  | (name, Some d) :: r =>
      let '(ds', ok) := ds_add name d tags pol ds in
      if ok then ds_add_files r tags pol ds' else (ds', false)
  end.

(* AddDocumentsFromManifest(manifest, decProv, opts...): the text items of the manifest in List() order, each registered as
   "<manifest>/<item>"; an item that does not decode, or whose add is refused, is SKIPPED (the error is dropped) *)
Definition item_name (manifest item : string) : string := (manifest ++ "/" ++ item)%string.
Definition ds_add_items (manifest : string) (items : list (string * option node)) (tags : list string) (pol : policy)
  (ds : docset) : docset :=
  fold_left (fun acc it => match snd it with
                           | Some d => fst (ds_add (item_name manifest (fst it)) d tags pol acc)
                           | None => acc
                           end) items ds.

(* AddPropertiesFromManifest(manifest, opts...): ONE document under the manifest's path: every text item is a property,
   its name a dotted path (k8s.DecodeEmbeddedProps: AddValueAt(item, text) in List() order) *)
Definition props_doc (items : list (string * string)) : node :=
  Con (fold_left (fun kvs it => add_value_at (fst it) (Leaf (SStr (snd it))) kvs) items []).

(* k8s.EncodeEmbeddedProps: one text item per flattened leaf of the document: its path, and fmt "%v" of its value *)
Definition enc_props (d : node) : list (string * string) := map (fun e => (fst e, fmt_scalar (snd e))) (flatten d).

Inductive dsop :=
| DAdd (name : string) (doc : node) (tags : list string) (pol : policy)
| DAddUnnamed (doc : node) (tags : list string) (pol : policy)
| DAddFiles (files : list (string * option node)) (tags : list string) (pol : policy)
(* None: the manifest itself does not load *)
| DAddItems (manifest : string) (items : option (list (string * option node))) (tags : list string) (pol : policy)
| DAddProps (manifest : string) (items : option (list (string * string))) (tags : list string) (pol : policy)
| DTagged (ts : list string)
| DAsOne
| DNamed (name : string).

Inductive dsobs :=
| DObsOk (ok : bool)
| DObsOverlay (names : list string) (layers : list node)
| DObsDoc (d : option node).

Definition ds_step (ds : docset) (o : dsop) : docset * dsobs :=
  let ov_obs (ov : overlay) := DObsOverlay (layer_names ov) (map (fun l => Con (snd l)) ov) in
  match o with
  | DAdd name doc tags pol => let '(ds', ok) := ds_add name doc tags pol ds in (ds', DObsOk ok)
  | DAddUnnamed doc tags pol => let '(ds', ok) := ds_add_unnamed doc tags pol ds in (ds', DObsOk ok)
  | DAddFiles files tags pol => let '(ds', ok) := ds_add_files files tags pol ds in (ds', DObsOk ok)
  | DAddItems manifest (Some items) tags pol => (ds_add_items manifest items tags pol ds, DObsOk true)
  | DAddItems _ None _ _ => (ds, DObsOk false)
  | DAddProps manifest (Some items) tags pol =>
      let '(ds', ok) := ds_add manifest (props_doc items) tags pol ds in (ds', DObsOk ok)
  | DAddProps _ None _ _ => (ds, DObsOk false)
  | DTagged ts => (ds, ov_obs (ds_tagged ts ds))
  | DAsOne => (ds, ov_obs (ds_as_one ds))
  | DNamed name => (ds, DObsDoc (ds_named name ds))
  end.

Fixpoint ds_run (ds : docset) (ops : list dsop) : list dsobs :=
  match ops with
  | [] => []
  | o :: r => let '(ds', ob) := ds_step ds o in ob :: ds_run ds' r
  end.
