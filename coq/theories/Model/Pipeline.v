(* Model/Pipeline.v — pipeline/executor.go, action_spec.go, op_spec.go, child_actions.go and the
   operations set / template / log / ext(trace) / abort / define / call / forEach / loop, over a tiny
   template language (literal text and {{ .key }}), with the listener event log. *)
From Coq Require Import List String Ascii ZArith Lia Bool Arith.
From YT Require Import Base.Str Base.KV Base.Sort Model.Doc Model.Dom Model.Path Model.Builder Model.Codec
  Model.Merge Model.Analytics.
Import ListNotations.
Local Open Scope list_scope.

(* ---------- the tiny template language *)
Inductive tpart := PLit (s : string) | PVar (k : string) | PPath (ks : list string).
                                                   (* "text" | "{{ .k }}" | "{{ .k1.k2.k3 }}" *)
Definition tmpl := list tpart.

(* text/template prints a missing map key as "<no value>"; containers/lists are not referenced *)
Definition render_var (k : string) (data : list (string * node)) : string :=
  match kv_get k data with
  | Some (Leaf v) => fmt_scalar v
  | Some _ => "<composite>"%string
  | None => "<no value>"%string
  end.
(* a chain of member accesses through nested maps (only generated where every member exists) *)
Fixpoint render_path (ks : list string) (data : list (string * node)) : string :=
  match ks with
  | [] => "<composite>"%string
  | [k] => render_var k data
  | k :: r => match kv_get k data with Some (Con s) => render_path r s | _ => "<no value>"%string end
  end.
Fixpoint render (t : tmpl) (data : list (string * node)) : string :=
  match t with
  | [] => ""%string
  | PLit s :: r => (s ++ render r data)%string
  | PVar k :: r => (render_var k data ++ render r data)%string
  | PPath ks :: r => (render_path ks data ++ render r data)%string
  end.

(* call arguments: a map of templates, one level of nested maps of templates
   (templateEngine.RenderMapLenient renders every string leaf against the snapshot taken when the
   call starts; DefaultNodeDecoderFn turns the rendered map into a document) *)
Inductive carg := ALeaf (t : tmpl) | ASub (kvs : list (string * tmpl)).
Definition render_arg (data : list (string * node)) (a : carg) : node :=
  match a with
  | ALeaf t => Leaf (SStr (render t data))
  | ASub kvs => Con (fold_left (fun acc e => add (fst e) (Leaf (SStr (render (snd e) data))) acc) kvs [])
  end.
Definition args_doc (args : list (string * carg)) (data : list (string * node)) : node :=
  Con (fold_left (fun acc e => add (fst e) (render_arg data (snd e)) acc) args []).

(* templateEngine.EvalBool: strconv.ParseBool(strings.TrimSpace(rendered)) — exactly twelve spellings *)
Definition parse_bool (s : string) : option bool :=
  if existsb (String.eqb s) ["1"; "t"; "T"; "TRUE"; "true"; "True"]%string then Some true
  else if existsb (String.eqb s) ["0"; "f"; "F"; "FALSE"; "false"; "False"]%string then Some false
  else None.
Definition trim_space (s : string) : string := sl (trim_with is_space (la s)).

(* conditions: absent | a constant | {{ eq .k "s" }} on a string leaf | literal text (no template
   action): any spelling of a boolean, or something that is not one *)
Inductive cond := CNone | CConst (b : bool) | CEq (k s : string) | CLt (k : string) (n : Z) | CBad | CText (s : string).
Definition eval_cond (c : cond) (data : list (string * node)) : option bool :=
  match c with
  | CNone => Some true
  | CConst b => Some b
  | CText s => parse_bool (trim_space s)
  | CEq k s => match kv_get k data with
               | Some (Leaf (SStr x)) => Some (String.eqb x s)
               | _ => None                                  (* eq on a missing/non-string value: error *)
               end
  | CLt k n => match kv_get k data with                     (* {{ lt (.k | int) n }} *)
               | Some (Leaf (SInt z)) => Some (Z.ltb z n)
               | _ => None
               end
  | CBad => None
  end.

(* ---------- set operation (pipeline/set_op.go) *)
Inductive strategy := SMerge | SReplace | SUnset | SUnknown.

Definition set_root_merge (other orig : list (string * node)) : list (string * node) :=
  fold_left (fun acc e =>
               match child (fst e) acc, snd e with
               | Some (Con o), Con v => add (fst e) (merge false (Con o) (Con v)) acc
               | _, v => add (fst e) v acc
               end) other orig.

Definition set_op (strat : strategy) (path : string) (payload : option (list (string * gval)))
                  (data : list (string * node)) : option (list (string * node)) :=
  match payload with
  | None => None                                                     (* ErrNoDataToSet *)
  | Some p =>
      match from_val (GMap p) with
      | Con other =>
          match strat with
          | SUnknown => None
          | SReplace =>
              if String.eqb path ""%string
              then Some (fold_left (fun acc e => add_value_at (fst e) (snd e) acc) other data)
              else Some (add_value_at path (Con other) data)
          | _ =>
              if String.eqb path ""%string then Some (set_root_merge other data)
              else match lookup path (Con data) with
                   | Some (Con dest) => Some (add_value_at path (merge false (Con dest) (Con other)) data)
                   | _ => Some (add_value_at path (Con other) data)
                   end
          end
      | _ => None
      end
  end.

(* ---------- actions *)
Inductive src := SItems (items : list string) | SQuery (path : string).

Inductive op :=
| OpSet (strat : strategy) (path : string) (payload : option (list (string * gval)))
| OpTemplate (t : tmpl) (path : string)
| OpCall (name : string) (args_path : string) (args : list (string * carg))
| OpDefine (name : string) (body : action)
| OpTrace (id : string)                                              (* ext: a registered trace function *)
| OpForEach (s : src) (var : string) (body : action)
| OpLog (t : tmpl)
| OpLoop (init : option action) (test : cond) (body : action) (post : option action)
| OpAbort (t : tmpl)
with action :=
| Act (name : string) (order : Z) (when : cond) (ops : list op) (children : list action).

(* OpSpec field order (reflect.VisibleFields of the struct): the fixed declared operation order *)
Definition op_rank (o : op) : nat :=
  match o with
  | OpSet _ _ _ => 0 | OpTemplate _ _ => 3 | OpCall _ _ _ => 5 | OpDefine _ _ => 6
  | OpTrace _ => 10 | OpForEach _ _ _ => 11 | OpLog _ => 12 | OpLoop _ _ _ _ => 13 | OpAbort _ => 14
  end.
Definition op_kind (o : op) : string :=
  match o with
  | OpSet _ _ _ => "set" | OpTemplate _ _ => "template" | OpCall _ _ _ => "call" | OpDefine _ _ => "define"
  | OpTrace _ => "ext" | OpForEach _ _ _ => "forEach" | OpLog _ => "log" | OpLoop _ _ _ _ => "loop"
  | OpAbort _ => "abort"
  end%string.

Fixpoint insert_op (o : op) (l : list op) : list op :=
  match l with
  | [] => [o]
  | x :: r => if Nat.leb (op_rank o) (op_rank x) then o :: x :: r else x :: insert_op o r
  end.
Definition sort_ops (l : list op) : list op := fold_right insert_op [] l.

Definition act_order (a : action) : Z := match a with Act _ o _ _ _ => o end.
Definition act_name (a : action) : string := match a with Act n _ _ _ _ => n end.
Fixpoint insert_act (a : action) (l : list action) : list action :=
  match l with
  | [] => [a]
  | x :: r => if Z.leb (act_order a) (act_order x) then a :: x :: r else x :: insert_act a r
  end.
Definition sort_children (l : list action) : list action := fold_right insert_act [] l.

(* ---------- listener events *)
Inductive lbl := LAct (name : string) | LOps | LChildren | LOp (kind : string) | LInner (id : string).
Inductive event := EB (l : lbl) | EA (l : lbl) (failed : bool) | ELog (msg : string) | ETrace (id : string).

Inductive status := SOk | SErr | SFuel.

Record state := mkSt {
  st_data : list (string * node);
  st_reg : list (string * action);        (* callables, first definition kept *)
  st_ev : list event                      (* newest last *)
}.
Definition emit (e : event) (st : state) : state := mkSt (st_data st) (st_reg st) (st_ev st ++ [e]).
Definition with_data (d : list (string * node)) (st : state) : state := mkSt d (st_reg st) (st_ev st).

Fixpoint reg_get (name : string) (l : list (string * action)) : option action :=
  match l with [] => None | (n, a) :: r => if String.eqb name n then Some a else reg_get name r end.

(* Executor.Execute: OnBefore; Do; OnAfter(err) *)
Definition wrapped (l : lbl) (body : state -> state * status) (st : state) : state * status :=
  let '(st', r) := body (emit (EB l) st) in
  (emit (EA l (match r with SOk => false | _ => true end)) st', r).

(* run a list of steps, stop at the first that does not succeed *)
Fixpoint seq {A} (f : A -> state -> state * status) (l : list A) (st : state) : state * status :=
  match l with
  | [] => (st, SOk)
  | x :: r => let '(st', s) := f x st in match s with SOk => seq f r st' | _ => (st', s) end
  end.

(* items a forEach iterates over *)
Definition foreach_items (s : src) (data : list (string * node)) : list node :=
  match s with
  | SItems items => map (fun i => Leaf (SStr i)) items
  | SQuery path =>
      match lookup path (Con data) with
      | Some (Lst xs) => xs
      | Some (Con kvs) => map (fun kv => Leaf (SStr (fst kv))) kvs    (* Go: map order, unspecified *)
      | Some (Leaf v) => [Leaf v]
      | None => []
      end
  end.

Section Exec.
(* [rec]: Executor.Execute of an action spec with less fuel; [rec_do]: ActionSpec.Do with less fuel;
   [bound]: iteration budget of a loop *)
Variable rec : action -> state -> state * status.
Variable rec_do : action -> state -> state * status.
Variable bound : nat.

Fixpoint loop_iter (n : nat) (test : cond) (body : action) (post : option action) (st : state) : state * status :=
  match n with
  | O => (st, SFuel)
  | S m =>
      match eval_cond test (st_data st) with
      | None => (st, SErr)
      | Some false => (st, SOk)
      | Some true =>
          let '(st1, r1) := rec_do body st in
          match r1 with
          | SOk =>
              let '(st2, r2) := match post with Some p => rec p st1 | None => (st1, SOk) end in
              match r2 with
              | SOk => loop_iter m test body post st2
              | _ => (st2, r2)
              end
          | _ => (st1, r1)
          end
      end
  end.

(* the Do method of one operation *)
Definition run_op (run_ops_of : list op -> state -> state * status) (o : op) (st : state) : state * status :=
  match o with
  | OpSet strat path payload =>
      match set_op strat path payload (st_data st) with
      | Some d => (with_data d st, SOk)
      | None => (st, SErr)
      end
  | OpTemplate t path =>
      (with_data (add_value_at path (Leaf (SStr (render t (st_data st)))) (st_data st)) st, SOk)
  | OpLog t => (emit (ELog (render t (st_data st))) st, SOk)
  | OpTrace id => wrapped (LInner id) (fun s => (emit (ETrace id) s, SOk)) st
  | OpAbort _ => (st, SErr)
  | OpDefine name body =>
      match reg_get name (st_reg st) with
      | Some _ => (st, SErr)
      | None => (mkSt (st_data st) (st_reg st ++ [(name, body)]) (st_ev st), SOk)
      end
  | OpCall name ap args =>
      match reg_get name (st_reg st) with
      | None => (st, SErr)
      | Some spec =>
          let argdoc := args_doc args (st_data st) in
          let st1 := with_data (add_value_at ap argdoc (st_data st)) st in
          let '(st2, r) := rec spec st1 in
          (with_data (remove_at ap (st_data st2)) st2, r)            (* defer RemoveAt(argsPath) *)
      end
  | OpForEach s var body =>
      match body with
      | Act _ _ _ bops bchildren =>
          seq (fun item st0 =>
                 let st1 := with_data (add var item (st_data st0)) st0 in
                 let '(st2, r) :=
                   let '(sa, ra) := run_ops_of bops st1 in
                   match ra with
                   | SOk => wrapped LChildren (seq rec (sort_children bchildren)) sa
                   | _ => (sa, ra)
                   end in
                 (with_data (kv_del var (st_data st2)) st2, r))        (* defer Remove(var) *)
              (foreach_items s (st_data st)) st
      end
  | OpLoop init test body post =>
      let '(st1, r1) := match init with Some i => rec i st | None => (st, SOk) end in
      match r1 with
      | SOk => loop_iter bound test body post st1
      | _ => (st1, r1)
      end
  end.

(* OpSpec.Do body: the present operations in declared order, each through Execute *)
Fixpoint run_ops_sorted (fuel : nat) (ops : list op) (st : state) : state * status :=
  match fuel with
  | O => (st, SFuel)
  | S f => seq (fun o => wrapped (LOp (op_kind o)) (run_op (fun l => run_ops_sorted f (sort_ops l)) o)) ops st
  end.

(* ActionSpec.Do: When is evaluated before the operations and again before the children *)
Definition spec_do (a : action) (st : state) : state * status :=
  match a with
  | Act _ _ when ops children =>
      match eval_cond when (st_data st) with
      | None => (st, SErr)
      | Some false => (st, SOk)
      | Some true =>
          let '(st1, r1) := wrapped LOps (run_ops_sorted bound (sort_ops ops)) st in
          match r1 with
          | SOk =>
              match eval_cond when (st_data st1) with
              | None => (st1, SErr)
              | Some false => (st1, SOk)
              | Some true => wrapped LChildren (seq rec (sort_children children)) st1
              end
          | _ => (st1, r1)
          end
      end
  end.
End Exec.

Fixpoint interp (fuel : nat) : (action -> state -> state * status) * (action -> state -> state * status) :=
  match fuel with
  | O => (fun _ st => (st, SFuel), fun _ st => (st, SFuel))
  | S f =>
      let '(rec, rec_do) := interp f in
      (fun a st => wrapped (LAct (act_name a)) (spec_do rec rec_do f a) st,
       fun a st => spec_do rec rec_do f a st)
  end.

(* Executor.Execute(action) *)
Definition exec (fuel : nat) (a : action) (st : state) : state * status := fst (interp fuel) a st.

Definition init_state (data : list (string * node)) : state := mkSt data [] [].
