(* Model/Codec.v — dom/codec.go: plain Go values <-> DOM (FromMap / AsMap / AsSlice), and the glue
   of FromReader / Serialize around an arbitrary decoder / encoder. *)
From Coq Require Import List String Ascii ZArith Lia Bool Arith.
From YT Require Import Base.Str Base.KV Model.Doc.
Import ListNotations.
Local Open Scope list_scope.

(* a generic Go value: map[string]any / []any / scalars / nil / a value of any other kind *)
Inductive gval :=
| GNil
| GBool (b : bool)
| GInt (z : Z)
| GFlt (bits : Z)
| GStr (s : string)
| GOther (tag : string)                  (* time.Time, map[any]any, typed slices, ... *)
| GSlice (xs : list gval)
| GMap (kvs : list (string * gval)).     (* a Go map: keys strictly increasing (canonical) *)

Fixpoint gwf (v : gval) : bool :=
  match v with
  | GSlice xs => forallb gwf xs
  | GMap kvs => sorted_keys kvs && forallb (fun kv => gwf (snd kv)) kvs
  | _ => true
  end.

(* decodeContainerFn / decodeListFn (repaired): every entry and every item yields a node; entries
   are installed with AddValue / AddContainer / AddList, i.e. kv_set, in iteration order *)
Fixpoint from_val (v : gval) : node :=
  match v with
  | GNil => Leaf SNull
  | GBool b => Leaf (SBool b)
  | GInt z => Leaf (SInt z)
  | GFlt z => Leaf (SFlt z)
  | GStr s => Leaf (SStr s)
  | GOther t => Leaf (SOpaque t)
  | GSlice xs => Lst ((fix go (l : list gval) : list node :=
                         match l with [] => [] | x :: r => from_val x :: go r end) xs)
  | GMap kvs => Con ((fix go (l : list (string * gval)) (acc : list (string * node)) : list (string * node) :=
                        match l with
                        | [] => acc
                        | (k, x) :: r => go r (kv_set k (from_val x) acc)
                        end) kvs [])
  end.

(* encodeContainerFn / encodeListFn / encodeLeafFn *)
Definition scalar_val (s : scalar) : gval :=
  match s with
  | SNull => GNil | SBool b => GBool b | SInt z => GInt z | SFlt z => GFlt z
  | SStr s => GStr s | SOpaque t => GOther t
  end.

Fixpoint as_val (n : node) : gval :=
  match n with
  | Leaf s => scalar_val s
  | Lst xs => GSlice (map as_val xs)
  | Con kvs => GMap (map (fun kv => (fst kv, as_val (snd kv))) kvs)
  end.

Definition from_map (m : gval) : node := from_val m.     (* Builder().FromMap *)
Definition as_map (d : node) : gval := as_val d.         (* Container.AsMap *)

(* ---- FromReader / Serialize around external codecs *)
Inductive res (A : Type) := ROk (a : A) | RErr (e : string).
Arguments ROk {A} a.
Arguments RErr {A} e.

Section Glue.
  Variable text : Type.
  Variable dec : text -> res gval.            (* any DecoderFunc: yaml.v3, encoding/json, properties *)
  Variable enc : gval -> res text.            (* any EncoderFunc writing to a stream (may fail) *)

  Definition from_reader (t : text) : res node :=
    match dec t with
    | RErr e => RErr e
    | ROk m => ROk (from_map m)
    end.

  Definition serialize (d : node) : res text := enc (as_map d).
End Glue.

(* number of scalar positions of a plain value *)
Fixpoint scalar_positions (v : gval) : nat :=
  match v with
  | GSlice xs => fold_right (fun x acc => scalar_positions x + acc) 0 xs
  | GMap kvs => fold_right (fun kv acc => scalar_positions (snd kv) + acc) 0 kvs
  | _ => 1
  end.
