(* Model/Diff.v — diff/diff.go.  Emission with explicit iteration orders, then the stable sort. *)
From Coq Require Import List String Ascii ZArith Lia Bool Arith.
From YT Require Import Base.Str Base.KV Base.Sort Model.Doc Model.Dom Model.Equals.
Import ListNotations.
Local Open Scope list_scope.

Inductive mtype := MChange | MDelete | MAdd.
Record modif := mkMod { mt : mtype; mpath : string; mval : scalar; mold : scalar }.

(* An iteration-order oracle: how Go happens to range over a map.  Phase 0 = flattenContainer,
   1 = the loop over left.Children(), 2 = the loop over right.Children(); the argument is the list
   of per-key emission blocks, the result must be a permutation of it. *)
Definition order := nat -> string -> list (string * list modif) -> list (string * list modif).
Definition canonical : order := fun _ _ l => l.

Definition blocks (o : order) (phase : nat) (path : string) (bs : list (string * list modif)) : list modif :=
  List.concat (map snd (o phase path bs)).

(* flattenNode / flattenContainer / flattenList / flattenLeaf: one Add per leaf *)
Fixpoint adds (o : order) (n : node) (path : string) : list modif :=
  match n with
  | Leaf v => [mkMod MAdd path v SNull]
  | Lst xs =>
      (fix go (l : list node) (i : nat) : list modif :=
         match l with
         | [] => []
         | x :: r => adds o x (idx_path path i) ++ go r (S i)
         end) xs 0
  | Con kvs =>
      blocks o 0 path
        ((fix go (l : list (string * node)) : list (string * list modif) :=
            match l with
            | [] => []
            | (k, x) :: r => (k, adds o x (to_path path k)) :: go r
            end) kvs)
  end.

(* handleExisting / diffList / diff *)
Fixpoint diff_node (o : order) (l r : node) (path : string) {struct l} : list modif :=
  match l, r with
  | Con kl, Con kr =>
      blocks o 1 path
        ((fix go (ll : list (string * node)) : list (string * list modif) :=
            match ll with
            | [] => []
            | (k, n) :: rest =>
                (k, match child k kr with
                    | Some n2 => diff_node o n n2 (to_path path k)
                    | None => adds o n (to_path path k)
                    end) :: go rest
            end) kl)
      ++ blocks o 2 path
           (map (fun kv => (fst kv, match child (fst kv) kl with
                                    | None => [mkMod MDelete (to_path path (fst kv)) SNull SNull]
                                    | Some _ => []
                                    end)) kr)
  | Lst xs, Lst ys =>
      if equals (Lst xs) (Lst ys) then []
      else mkMod MDelete path SNull SNull :: adds o (Lst xs) path
  | Leaf x, Leaf y =>
      if scalar_eqb x y then [] else [mkMod MChange path y x]
  | _, _ => mkMod MDelete path SNull SNull :: adds o r path
  end.

Definition diff_raw (o : order) (l r : node) : list modif := diff_node o l r ""%string.

(* Diff = sortMods(diff(...)): sort.SliceStable by Path *)
Definition sort_mods (l : list modif) : list modif := isort mpath l.
Definition diff_ord (o : order) (l r : node) : list modif := sort_mods (diff_raw o l r).
Definition diff (l r : node) : list modif := diff_ord canonical l r.

(* OverlayDocs: per layer name of either side, Diff(layer_l or {}, layer_r or {}) *)
Definition layer_or_empty (name : string) (ls : list (string * node)) : node :=
  match kv_get name ls with Some d => d | None => Con [] end.
Definition overlay_docs_at (name : string) (l r : list (string * node)) : list modif :=
  diff (layer_or_empty name l) (layer_or_empty name r).
