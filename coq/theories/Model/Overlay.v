(* Model/Overlay.v — dom/overlay.go: named layers in creation order *)
From Coq Require Import List String Ascii ZArith Lia Bool Arith.
From YT Require Import Base.Str Base.KV Model.Doc Model.Dom Model.Pointer Model.Path Model.Builder Model.Codec
  Model.Equals Model.Merge.
Import ListNotations.
Local Open Scope list_scope.

(* names in order of first write; each layer a container *)
Definition overlay := list (string * list (string * node)).

Fixpoint layer_get (name : string) (ov : overlay) : option (list (string * node)) :=
  match ov with
  | [] => None
  | (n, kvs) :: r => if String.eqb name n then Some kvs else layer_get name r
  end.

(* ensureOverlay + in-place update of that layer *)
Fixpoint layer_upd (name : string) (f : list (string * node) -> list (string * node)) (ov : overlay) : overlay :=
  match ov with
  | [] => [(name, f [])]
  | (n, kvs) :: r => if String.eqb name n then (n, f kvs) :: r else (n, kvs) :: layer_upd name f r
  end.

Definition layer_names (ov : overlay) : list string := map fst ov.

(* ensurePath: descend-or-create along the components, then apply [f] to the container reached.
   A slot that holds a container is entered; a missing member, a missing/padding list slot is
   replaced by a new container.  (A slot holding anything else makes the Go code panic: such
   writes are outside the property, "no write descends through an existing scalar".) *)
Fixpoint ensure_path_then (pc : list comp) (f : list (string * node) -> list (string * node))
                          (kvs : list (string * node)) : list (string * node) :=
  match pc with
  | [] => f kvs
  | c :: r =>
      let s := match get_comp c kvs with Some (Con s) => s | _ => [] end in
      add_comp c (Con (ensure_path_then r f s)) kvs
  end.

(* Put of a non-container node *)
Definition put_leaf (path : string) (v : node) (kvs : list (string * node)) : list (string * node) :=
  let pc := split_dots path in
  ensure_path_then (map comp_parse (removelast pc)) (add (last pc ""%string) v) kvs.

(* decodeContainerFn(data, current): every entry installed with AddValue / AddContainer / AddList *)
Definition decode_into (data : list (string * gval)) (kvs : list (string * node)) : list (string * node) :=
  fold_left (fun acc e => add (fst e) (from_val (snd e)) acc) data kvs.

Inductive oop :=
| OPut (layer path : string) (v : node)
| OAdd (layer : string) (c : node)
| OPopulate (layer path : string) (data : list (string * gval))
(* reads *)
| OLookupL (layer path : string)
| OLookupAny (path : string)
| OSearch (f : spred)
| OWalkAll
| OMerged (app : bool).

(* the admissible domain of a write: every slot on the way is absent, a padding null or a container *)
Fixpoint admissible_path (pc : list comp) (kvs : list (string * node)) : bool :=
  match pc with
  | [] => true
  | c :: r =>
      match get_comp c kvs with
      | Some (Con s) => admissible_path r s
      | Some (Leaf SNull) => true
      | None => true
      | Some _ => false
      end
  end.

Definition o_write (ov : overlay) (o : oop) : overlay :=
  match o with
  | OPut layer path v =>
      match v with
      | Con _ =>
          (* a container is written leaf by leaf; a leafless container writes nothing *)
          fold_left (fun acc e => layer_upd layer (put_leaf (to_path path (fst e)) (Leaf (snd e))) acc)
                    (flatten v) ov
      | _ => layer_upd layer (put_leaf path v) ov
      end
  | OAdd layer c =>
      match c with
      | Con kvs => layer_upd layer (fun cur => fold_left (fun acc e => add (fst e) (clone (snd e)) acc) kvs cur) ov
      | _ => ov
      end
  | OPopulate layer path data =>
      layer_upd layer
        (fun cur => if String.eqb path ""%string then decode_into data cur
                    else ensure_path_then (map comp_parse (split_dots path)) (decode_into data) cur) ov
  | _ => ov
  end.

Definition o_lookup (layer path : string) (ov : overlay) : option node :=
  match layer_get layer ov with
  | Some kvs => lookup path (Con kvs)
  | None => None
  end.

Fixpoint o_lookup_any (path : string) (ov : overlay) : option node :=
  match ov with
  | [] => None
  | (_, kvs) :: r => match lookup path (Con kvs) with Some n => Some n | None => o_lookup_any path r end
  end.

(* Search: per layer in order, the matching paths *)
Definition o_search (f : scalar -> bool) (ov : overlay) : list (string * list string) :=
  map (fun l => (fst l, search f (Con (snd l)))) ov.

(* Walk visiting everything: per layer in order, the (path, leaf) pairs of its flattened view *)
Definition o_walk (ov : overlay) : list (string * list (string * scalar)) :=
  map (fun l => (fst l, flatten (Con (snd l)))) ov.

(* Merged(opts): fold mergeContainers over the layers in order, later layers win *)
Definition o_merged (app : bool) (ov : overlay) : node := merge_all app (map (fun l => Con (snd l)) ov).

Inductive oobs :=
| ObsState (names : list string) (layers : list node)     (* after a write: LayerNames(), Layers() in that order *)
| ObsNode (n : option node)
| ObsCoords (c : list (string * list string))
| ObsTriples (t : list (string * list (string * scalar)))
| ObsDoc (d : node).

Definition o_obs (ov : overlay) (o : oop) : oobs :=
  match o with
  | OLookupL layer path => ObsNode (o_lookup layer path ov)
  | OLookupAny path => ObsNode (o_lookup_any path ov)
  | OSearch f => ObsCoords (o_search (spred_eval f) ov)
  | OWalkAll => ObsTriples (o_walk ov)
  | OMerged app => ObsDoc (o_merged app ov)
  | _ => ObsState (layer_names ov) (map (fun l => Con (snd l)) ov)
  end.

Fixpoint o_run (ov : overlay) (ops : list oop) : list oobs :=
  match ops with
  | [] => []
  | o :: r => let ov' := o_write ov o in o_obs ov' o :: o_run ov' r
  end.
