(* Model/Equals.v — Node.Equals / SameAs / Clone as implemented (dom/container.go, list.go, leaf.go) *)
From Coq Require Import List String Ascii ZArith Lia Bool Arith.
From YT Require Import Base.Str Base.KV Model.Doc.
Import ListNotations.
Local Open Scope list_scope.

(* containerImpl.Equals (repaired): other must be a container of the same size, and every own
   child must be found, equal, in the other.  listImpl.Equals: same length, pairwise.  leaf.Equals:
   cmp.Equal on the values. *)
Fixpoint equals (a b : node) {struct a} : bool :=
  match a, b with
  | Leaf x, Leaf y => scalar_eqb x y
  | Lst xs, Lst ys =>
      (fix go (l1 l2 : list node) : bool :=
         match l1, l2 with
         | [], [] => true
         | x :: r1, y :: r2 => equals x y && go r1 r2
         | _, _ => false
         end) xs ys
  | Con k1, Con k2 =>
      Nat.eqb (List.length k1) (List.length k2) &&
      (fix go (l : list (string * node)) : bool :=
         match l with
         | [] => true
         | (k, v) :: r => match kv_get k k2 with Some w => equals v w | None => false end && go r
         end) k1
  | _, _ => false
  end.

(* x.Equals(nil) = false: the other side is an optional node *)
Definition equals_opt (a : node) (b : option node) : bool :=
  match b with Some b' => equals a b' | None => false end.

Definition same_as (a b : node) : bool :=
  match a, b with
  | Leaf _, Leaf _ | Lst _, Lst _ | Con _, Con _ => true
  | _, _ => false
  end.

(* Clone: recursive copy; in a pure model the identity-by-reconstruction *)
Fixpoint clone (a : node) : node :=
  match a with
  | Leaf v => Leaf v
  | Lst xs => Lst (map clone xs)
  | Con kvs => Con (map (fun kv => (fst kv, clone (snd kv))) kvs)
  end.
