(* Model/PipeOps.v — the data operations of the pipeline: set (in Pipeline.v), template, patch,
   import, export, env, and lenient rendering.  The template engine, the codecs and the file system
   are external: they appear as Section variables. *)
From Coq Require Import List String Ascii ZArith Lia Bool Arith.
From YT Require Import Base.Str Base.KV Model.Doc Model.Dom Model.Pointer Model.Path Model.Builder Model.Codec
  Model.Merge Model.Equals Model.Patch Model.Base64 Model.Analytics Model.K8s Model.Pipeline.
Import ListNotations.
Local Open Scope list_scope.

(* ---------- possiblyTemplate / RenderLenient *)
(* strings.Index(in, "{{") found, and "}}" found in the rest *)
Fixpoint has_open (l : list ascii) : option (list ascii) :=
  match l with
  | [] => None
  | c :: r => match r with
              | d :: _ => if Ascii.eqb c "{"%char && Ascii.eqb d "{"%char then Some l else has_open r
              | [] => None
              end
  end.
Definition possibly_template (s : string) : bool :=
  match has_open (la s) with
  | Some rest => contains_l (la "}}"%string) rest
  | None => false
  end.

Section Engine.
Variable data_t : Type.
Variable render : string -> data_t -> option string.     (* text/template: Some text | None = error *)

Definition render_lenient (s : string) (d : data_t) : string :=
  if possibly_template s then match render s d with Some v => v | None => s end else s.
End Engine.

(* ---------- template operation *)
Inductive parse_as := PNone | PYaml | PUnknown.
Section TemplateOp.
Variable render : string -> list (string * node) -> option string.
Variable yaml_node : string -> option node.       (* yaml.Unmarshal into yaml.Node + YamlNodeDecoder *)
Variable trim_space : string -> string.

(* returns the data afterwards and whether the operation succeeded *)
Definition template_op (tmpl path : string) (trim : bool) (pa : parse_as) (data : list (string * node))
  : list (string * node) * bool :=
  if String.eqb tmpl ""%string then (data, false)
  else if String.eqb path ""%string then (data, false)
  else
    let r := render tmpl data in
    let val := match r with Some v => v | None => ""%string end in
    let val := if trim then trim_space val else val in
    match pa with
    | PNone => (add_value_at (render_lenient _ render path data) (Leaf (SStr val)) data,
                match r with Some _ => true | None => false end)
    | PYaml => match yaml_node val with
               | Some n => (add_value_at (render_lenient _ render path data) n data,
                            match r with Some _ => true | None => false end)
               | None => (data, false)
               end
    | PUnknown => (data, false)
    end.
End TemplateOp.

(* ---------- patch operation: the rendered pointer strings are parsed, then patch.Do *)
Definition ptr_of_string (s : string) : option (list string) :=
  match ptr_parse (bytes_N s) with
  | Ok toks => Some (map N_bytes toks)
  | Err => None
  end.

Inductive patch_kind := KAdd | KRemove | KReplace | KMove | KCopy | KTest | KOther.

Definition patch_op (k : patch_kind) (path from : string) (value : option node) (d : node) : node * bool :=
  match ptr_of_string path with
  | None => (d, false)
  | Some p =>
      let fromp := if String.eqb from ""%string then Some None
                   else match ptr_of_string from with Some f => Some (Some f) | None => None end in
      match fromp with
      | None => (d, false)
      | Some f =>
          match k with
          | KAdd => impl_do d (PAdd p value)
          | KRemove => impl_do d (PRemove p)
          | KReplace => impl_do d (PReplace p value)
          | KMove => impl_do d (PMove f p)
          | KCopy => impl_do d (PCopy f p)
          | KTest => impl_do d (PTest p value)
          | KOther => (d, false)
          end
      end
  end.

(* ---------- import *)
Inductive import_mode := IText | IBinary | IYaml | IJson | IProps | IDefault | IBad.

Section Import.
Variable dec : import_mode -> string -> res gval.       (* the codec for yaml / json / properties *)

Definition import_value (m : import_mode) (content : string) : option node :=
  match m with
  | IText | IDefault => Some (Leaf (SStr content))
  | IBinary => Some (Leaf (SStr (Z_str (b64_enc (str_Z content)))))
  | IYaml | IJson | IProps => match dec m content with ROk v => Some (from_map v) | RErr _ => None end
  | IBad => None
  end.

Definition import_op (m : import_mode) (path content : string) (data : list (string * node))
  : list (string * node) * bool :=
  match import_value m content with
  | None => (data, false)
  | Some v =>
      if String.eqb path ""%string then
        match v with
        | Con kvs => (fold_left (fun acc e => add_value_at (fst e) (snd e) acc) kvs data, true)
        | _ => (data, false)                                   (* ErrNotContainer *)
        end
      else (add_value_at path v data, true)
  end.
End Import.

(* ---------- export: what is written, by format and by what the path resolves to *)
Inductive out_format := FYaml | FJson | FProps | FText | FUnknown.
Inductive written :=
| WErr                          (* an error is returned; nothing encoded *)
| WErrAfterOpen                 (* the file was opened (truncated), then an error is returned *)
| WDoc (d : node)               (* the encoder of the format is given this container *)
| WText (s : string).           (* text format: fmt %v of the leaf value *)

Definition export_rule (f : out_format) (target : option node) : written :=
  match f with
  | FUnknown => WErr
  | FText =>
      match target with
      | None => WText ""%string                      (* documented default: empty leaf *)
      | Some (Leaf v) => WText (fmt_scalar v)
      | Some _ => WErrAfterOpen                      (* text needs a leaf *)
      end
  | _ =>
      match target with
      | Some (Con kvs) => WDoc (Con kvs)
      | _ => WDoc (Con [])                           (* unresolved or wrong kind: the empty document *)
      end
  end.

(* Path == nil exports the whole document; otherwise Lookup(path) *)
Definition export_target (path : option string) (data : list (string * node)) : option node :=
  match path with
  | None => Some (Con data)
  | Some p => lookup p (Con data)
  end.

(* ---------- env: variables matching include and not exclude, under <path>.Env.<NAME> *)
Definition env_op (incl excl : string -> bool) (path : string) (env : list (string * string))
                  (data : list (string * node)) : list (string * node) :=
  fold_left (fun acc e =>
               if incl (fst e) && negb (excl (fst e))
               then add_value_at (to_path path ("Env." ++ fst e)%string) (Leaf (SStr (snd e))) acc
               else acc) env data.

(* ---------- templateFile: the template text is read from a file (None: the file cannot be read), rendered against the whole
   data document or the container at [path], and written to the output file; the data document is only read *)
Inductive tf_result := TFErr | TFWritten (content : string).

Definition template_file_scope (path : option string) (data : list (string * node)) : option (list (string * node)) :=
  match path with
  | None => Some data
  | Some p => match lookup p (Con data) with Some (Con kvs) => Some kvs | _ => None end
  end.

Definition template_file_op (t : option tmpl) (file output : string) (path : option string)
  (data : list (string * node)) : tf_result :=
  if String.eqb file "" then TFErr
  else if String.eqb output "" then TFErr
  else match template_file_scope path data, t with
       | Some d, Some t => TFWritten (render t d)
       | _, _ => TFErr
       end.
