(* Model/Apply.v — diff/apply.go: applying a modification list to a document *)
From Coq Require Import List String Ascii ZArith Lia Bool Arith.
From YT Require Import Base.Str Base.KV Base.Sort Model.Doc Model.Dom Model.Pointer Model.Path Model.Builder Model.Equals Model.Diff.
Import ListNotations.
Local Open Scope list_scope.

(* applyList: walk the index chain; a list item that already is a list (resp., at the last index,
   a container) is reused (repaired), anything else is replaced by a fresh one *)
Fixpoint apply_list (idxes : list nat) (f : list (string * node) -> list (string * node))
                    (l : list node) : list node :=
  match idxes with
  | [] => l
  | [i] =>
      let c := match nth_error l i with Some (Con s) => s | _ => [] end in
      list_set l i (Con (f c))
  | i :: r =>
      let sub := match nth_error l i with Some (Lst xs) => xs | _ => [] end in
      list_set l i (Lst (apply_list r f sub))
  end.

(* applySingle for Add / Change: applyListItem / applyNonListItem on every component but the
   last, then AddValue(last, leaf) *)
Fixpoint apply_add (pc : list string) (v : node) (kvs : list (string * node)) : list (string * node) :=
  match pc with
  | [] => kvs
  | [last] => add last v kvs
  | c :: r =>
      match parse_list_comp c with
      | Some (n, idxes) =>
          let l := match child n kvs with Some (Lst xs) => xs | _ => [] end in
          add n (Lst (apply_list idxes (apply_add r v) l)) kvs
      | None =>
          let s := match child c kvs with Some (Con s) => s | _ => [] end in
          add c (Con (apply_add r v s)) kvs
      end
  end.

Definition apply_single (kvs : list (string * node)) (m : modif) : list (string * node) :=
  match mt m with
  | MAdd | MChange => apply_add (split_dots (mpath m)) (Leaf (mval m)) kvs
  | MDelete => remove_at_comps (split_dots (mpath m)) kvs
  end.

Definition apply (d : node) (mods : list modif) : node :=
  match d with
  | Con kvs => Con (fold_left apply_single mods kvs)
  | _ => d
  end.
