(* Model/Base64.v — encoding/base64 StdEncoding (with padding), over byte values in Z *)
From Coq Require Import ZArith List Bool.
Import ListNotations.
Local Open Scope Z_scope.

(* the alphabet A-Z a-z 0-9 + / *)
Definition b64_chr (s : Z) : Z :=
  if s <? 26 then 65 + s
  else if s <? 52 then 97 + (s - 26)
  else if s <? 62 then 48 + (s - 52)
  else if s =? 62 then 43 else 47.

Definition b64_idx (c : Z) : option Z :=
  if (65 <=? c) && (c <=? 90) then Some (c - 65)
  else if (97 <=? c) && (c <=? 122) then Some (c - 97 + 26)
  else if (48 <=? c) && (c <=? 57) then Some (c - 48 + 52)
  else if c =? 43 then Some 62
  else if c =? 47 then Some 63
  else None.

Definition PAD : Z := 61.

(* one 3-byte group <-> four sextets *)
Definition enc3 (a b c : Z) : Z * Z * Z * Z :=
  let n := a * 65536 + b * 256 + c in (n / 262144, (n / 4096) mod 64, (n / 64) mod 64, n mod 64).
Definition dec4 (w x y z : Z) : Z * Z * Z :=
  let n := w * 262144 + x * 4096 + y * 64 + z in (n / 65536, (n / 256) mod 256, n mod 256).

Fixpoint b64_enc (bs : list Z) : list Z :=
  match bs with
  | [] => []
  | [a] => let '(w, x, _, _) := enc3 a 0 0 in [b64_chr w; b64_chr x; PAD; PAD]
  | [a; b] => let '(w, x, y, _) := enc3 a b 0 in [b64_chr w; b64_chr x; b64_chr y; PAD]
  | a :: b :: c :: r => let '(w, x, y, z) := enc3 a b c in b64_chr w :: b64_chr x :: b64_chr y :: b64_chr z :: b64_enc r
  end.

Fixpoint b64_dec (cs : list Z) : option (list Z) :=
  match cs with
  | [] => Some []
  | c1 :: c2 :: c3 :: c4 :: r =>
      match b64_idx c1, b64_idx c2 with
      | Some w, Some x =>
          if (c3 =? PAD) && (c4 =? PAD) then
            match r with [] => let '(a, _, _) := dec4 w x 0 0 in Some [a] | _ => None end
          else match b64_idx c3 with
               | Some y =>
                   if c4 =? PAD then
                     match r with [] => let '(a, b, _) := dec4 w x y 0 in Some [a; b] | _ => None end
                   else match b64_idx c4 with
                        | Some z => match b64_dec r with
                                    | Some rest => let '(a, b, c) := dec4 w x y z in Some (a :: b :: c :: rest)
                                    | None => None
                                    end
                        | None => None
                        end
               | None => None
               end
      | _, _ => None
      end
  | _ => None
  end.

Definition is_byte (a : Z) : bool := (0 <=? a) && (a <? 256).
