(* Model/Merge.v — dom/merge.go: mergeContainers, mergeListsMeld, mergeListsAppend, coalesce *)
From Coq Require Import List String Ascii ZArith Lia Bool Arith.
From YT Require Import Base.Str Base.KV Model.Doc.
Import ListNotations.
Local Open Scope list_scope.

(* hasValue: everything except a null leaf *)
Definition has_value (n : node) : bool :=
  match n with Leaf SNull => false | _ => true end.

(* coalesce(n, v): the last node with a value, else the null leaf *)
Definition coalesce (a b : node) : node :=
  if has_value b then b else if has_value a then a else null.

(* [app] = the ListsMergeAppend option; otherwise the default position-wise meld.
   Containers are walked as sorted association lists (a sorted merge of the two key sets):
   key in both -> combine; key in one -> that side's node. *)
Fixpoint merge_node (app : bool) (a b : node) {struct a} : node :=
  match a, b with
  | Con k1, Con k2 =>
      Con ((fix go1 (l1 : list (string * node)) : list (string * node) -> list (string * node) :=
              fix go2 (l2 : list (string * node)) : list (string * node) :=
                match l1, l2 with
                | [], _ => l2
                | _, [] => l1
                | (ka, va) :: r1, (kb, vb) :: r2 =>
                    match scmp ka kb with
                    | CEq => (ka, merge_node app va vb) :: go1 r1 r2
                    | CLt => (ka, va) :: go1 r1 l2
                    | CGt => (kb, vb) :: go2 r2
                    end
                end) k1 k2)
  | Lst xs, Lst ys =>
      if app then Lst (xs ++ ys)
      else Lst ((fix meld (l1 l2 : list node) : list node :=
                   match l1, l2 with
                   | [], _ => l2
                   | _, [] => l1
                   | x :: r1, y :: r2 => merge_node app x y :: meld r1 r2
                   end) xs ys)
  | _, _ => coalesce a b
  end.

(* A.Merge(B, opts) for containers *)
Definition merge (app : bool) (a b : node) : node := merge_node app a b.

(* OverlayDocument.Merged / fluent.ConfigHelper: fold over the documents, later wins *)
Definition merge_all (app : bool) (docs : list node) : node := fold_left (merge app) docs (Con []).
