(* Model/Resolver.v — props/resolver.go at the level of the property's grammar
   (text | prefix key-template [sep default-template] suffix).  The byte-level scan of the Go code
   coincides with this token-level one for non-overlapping delimiter triples and text free of
   delimiter bytes; that coincidence is what the correspondence checks, per triple. *)
From Coq Require Import List Arith Lia Bool.
Import ListNotations.

Inductive tok := TPre | TSuf | TSep | TChr (c : nat).
Definition toks := list tok.
Definition tok_eqb (a b : tok) : bool :=
  match a, b with
  | TPre, TPre | TSuf, TSuf | TSep, TSep => true
  | TChr x, TChr y => Nat.eqb x y
  | _, _ => false
  end.
Fixpoint toks_eqb (a b : toks) : bool :=
  match a, b with
  | [], [] => true
  | x :: r, y :: s => tok_eqb x y && toks_eqb r s
  | _, _ => false
  end.

Inductive res := ROk (l : toks) | RCycle (body : toks) | ROut.

(* strings.Index(value, prefix): text before the first prefix, and what follows it *)
Fixpoint split_pre (s : toks) : option (toks * toks) :=
  match s with
  | [] => None
  | TPre :: r => Some ([], r)
  | t :: r => match split_pre r with Some (b, a) => Some (t :: b, a) | None => None end
  end.

(* findEndIndex: the matching suffix, with the nesting counter: (body, rest) *)
Fixpoint find_end (nest : nat) (s : toks) : option (toks * toks) :=
  match s with
  | [] => None
  | TSuf :: r => match nest with
                 | O => Some ([], r)
                 | S n => match find_end n r with Some (b, a) => Some (TSuf :: b, a) | None => None end
                 end
  | TPre :: r => match find_end (S nest) r with Some (b, a) => Some (TPre :: b, a) | None => None end
  | t :: r => match find_end nest r with Some (b, a) => Some (t :: b, a) | None => None end
  end.

(* strings.Index(ph, separator) *)
Fixpoint split_sep (s : toks) : option (toks * toks) :=
  match s with
  | [] => None
  | TSep :: r => Some ([], r)
  | t :: r => match split_sep r with Some (b, a) => Some (t :: b, a) | None => None end
  end.

Section R.
Variable tbl : toks -> option toks.        (* the LookupFn *)

(* resolvePlaceholder: exact key first, else split at the first separator: key / default *)
Definition lookup_ph (key : toks) : option toks :=
  match tbl key with
  | Some v => Some v
  | None => match split_sep key with
            | Some (k, d) => match tbl k with Some v => Some v | None => Some d end
            | None => None
            end
  end.

Definition bind (r : res) (f : toks -> res) : res := match r with ROk l => f l | e => e end.

(* one unfolding of propImpl.resolve, the recursive calls abstracted: scan for the prefix, find
   the matching end, cycle check on the RAW body, resolve the key text, look it up, resolve the
   value, splice, continue AFTER the spliced text with the body forgotten again (repaired) *)
Definition step (rec : list toks -> toks -> res) (seen : list toks) (s : toks) : res :=
  match split_pre s with
  | None => ROk s
  | Some (before, after) =>
      match find_end 0 after with
      | None => ROk s
      | Some (body, rest) =>
          if existsb (toks_eqb body) seen then RCycle body else
          bind (rec (body :: seen) body) (fun key =>
            match lookup_ph key with
            | Some pv => bind (rec (body :: seen) pv) (fun v =>
                         bind (rec seen rest) (fun r => ROk (before ++ v ++ r)))
            | None => bind (rec seen rest) (fun r => ROk (before ++ TPre :: body ++ TSuf :: r))
            end)
      end
  end.

Fixpoint resolve (fuel : nat) (seen : list toks) (s : toks) : res :=
  match fuel with
  | O => ROut
  | S f => step (resolve f) seen s
  end.

(* Resolver.Resolve *)
Definition resolve_top (fuel : nat) (s : toks) : res := resolve fuel [] s.

(* a top-level scan never meets an unterminated prefix *)
Fixpoint balanced (fuel : nat) (s : toks) : bool :=
  match fuel with
  | O => false
  | S f =>
      match split_pre s with
      | None => true
      | Some (_, after) => match find_end 0 after with None => false | Some (_, rest) => balanced f rest end
      end
  end.
End R.

(* finite lookup tables *)
Fixpoint tbl_of (l : list (toks * toks)) (k : toks) : option toks :=
  match l with
  | [] => None
  | (k', v) :: r => if toks_eqb k k' then Some v else tbl_of r k
  end.
