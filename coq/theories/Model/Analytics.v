(* Model/Analytics.v — analytics/dependency_resolver.go, placeholder_resolver.go, impact_analysis.go *)
From Coq Require Import List String Ascii ZArith Lia Bool Arith DecimalString.
From YT Require Import Base.Str Base.KV Base.Sort Model.Doc Model.Dom Model.Path Model.Builder Model.Merge
  Model.Overlay Model.Resolver.
Import ListNotations.
Local Open Scope list_scope.

(* ---------- byte-string helpers *)
Fixpoint prefix_l (p l : list ascii) : bool :=
  match p, l with
  | [], _ => true
  | a :: p', b :: l' => Ascii.eqb a b && prefix_l p' l'
  | _ :: _, [] => false
  end.
Fixpoint contains_l (p l : list ascii) : bool :=
  prefix_l p l || match l with [] => false | _ :: r => contains_l p r end.
Definition prefixb (p s : string) : bool := prefix_l (la p) (la s).
Definition suffixb (p s : string) : bool := prefix_l (rev (la p)) (rev (la s)).
Definition containsb (p s : string) : bool := contains_l (la p) (la s).

(* decimal rendering straight from the binary number (never through unary nat: values such as
   2^63-1 occur) *)
Definition pos2s (p : positive) : string := NilZero.string_of_uint (Pos.to_uint p).
Definition z2s (z : Z) : string :=
  match z with
  | Z0 => "0"%string
  | Zpos p => pos2s p
  | Zneg p => ("-" ++ pos2s p)%string
  end.

(* fmt.Sprintf("%v", leaf.Value()) *)
Definition fmt_scalar (v : scalar) : string :=
  match v with
  | SStr s => s
  | SInt z => z2s z
  | SBool true => "true"%string
  | SBool false => "false"%string
  | SNull => "<nil>"%string
  | SFlt _ => "<float>"%string       (* floats are not generated: %v of a float is not modelled *)
  | SOpaque t => t
  end.

(* hasPlaceholderFunc(k): a string value containing ${k}, or starting with ${k: and ending with } *)
Definition mentions (k : string) (v : scalar) : bool :=
  match v with
  | SStr x => containsb ("${" ++ k ++ "}")%string x
              || (prefixb ("${" ++ k ++ ":")%string x && suffixb "}"%string x)
  | _ => false
  end.

(* OverlayDocument.Search as coordinates (layer, path), layers in order *)
Definition coords (f : scalar -> bool) (ov : overlay) : list (string * string) :=
  flat_map (fun l => map (fun p => (fst l, p)) (search f (Con (snd l)))) ov.

Definition sort_strings (l : list string) : list string := isort (fun s => s) l.
Definition nonempty {A} (l : list A) : bool := match l with [] => false | _ => true end.

(* ---------- dependency report *)
Record dep_report := mkDep {
  all_keys : list string;
  orphan_keys : list string;
  dep_map : list (string * list (string * string))
}.

Definition dep_resolve (keyf : string -> bool) (src : overlay) (refs : list overlay) : dep_report :=
  let ks := filter keyf (map fst (flatten (o_merged false src))) in
  let entries := map (fun k => (k, flat_map (coords (mentions k)) (src :: refs))) ks in
  mkDep (sort_strings ks)
        (sort_strings (map fst (filter (fun e => negb (nonempty (snd e))) entries)))
        (filter (fun e => nonempty (snd e)) entries).

(* ---------- placeholder report *)
(* the default delimiters ${ } : over bytes *)
Fixpoint tokenize (l : list ascii) : toks :=
  match l with
  | [] => []
  | c :: r =>
      if Ascii.eqb c "$"%char then
        match r with
        | d :: r' => if Ascii.eqb d "{"%char then TPre :: tokenize r' else TChr (nat_of_ascii c) :: tokenize r
        | [] => [TChr (nat_of_ascii c)]
        end
      else if Ascii.eqb c "}"%char then TSuf :: tokenize r
      else if Ascii.eqb c ":"%char then TSep :: tokenize r
      else TChr (nat_of_ascii c) :: tokenize r
  end.
Fixpoint untok (t : toks) : list ascii :=
  match t with
  | [] => []
  | TPre :: r => "$"%char :: "{"%char :: untok r
  | TSuf :: r => "}"%char :: untok r
  | TSep :: r => ":"%char :: untok r
  | TChr c :: r => ascii_of_nat c :: untok r
  end.

(* possiblyContainsPlaceholder: "${" and a later "}" *)
Fixpoint possibly (l : list ascii) : bool :=
  match l with
  | [] => false
  | c :: r => (Ascii.eqb c "$"%char && match r with d :: r' => Ascii.eqb d "{"%char && existsb (Ascii.eqb "}"%char) r' | [] => false end)
              || possibly r
  end.

Definition doc_tbl (c : node) (key : toks) : option toks :=
  match lookup (sl (untok key)) c with
  | Some (Leaf v) => Some (tokenize (la (fmt_scalar v)))
  | _ => None
  end.

(* resolution leaves the value unchanged *)
Definition unresolved (c : node) (value : string) : bool :=
  match resolve_top (doc_tbl c) 64 (tokenize (la value)) with
  | ROk r => toks_eqb r (tokenize (la value))
  | _ => false
  end.

Record ph_report := mkPh {
  failed_keys : list string;
  failed_coords : list (string * list (string * string))
}.

Definition ph_resolve (keyf : string -> bool) (ov : overlay) : ph_report :=
  let c := o_merged false ov in
  let failed := filter (fun e => keyf (fst e) && possibly (la (fmt_scalar (snd e))) && unresolved c (fmt_scalar (snd e)))
                       (flatten c) in
  mkPh (sort_strings (map fst failed))
       (map (fun e => (fst e, coords (fun v => scalar_eqb v (SStr (fmt_scalar (snd e)))) ov)) failed).

(* ---------- impact analysis *)
(* requested keys are distinct (a Go map keyed by them) *)
Definition impact (ov : overlay) (keys : list string) : list (string * list (string * string)) :=
  filter (fun e => nonempty (snd e)) (map (fun k => (k, coords (mentions k) ov)) keys).

(* key filters used by the correspondence *)
Inductive kfilter := KAll | KPrefix (p : string) | KNotEq (k : string).
Definition kf_eval (f : kfilter) (k : string) : bool :=
  match f with KAll => true | KPrefix p => prefixb p k | KNotEq x => negb (String.eqb k x) end.
