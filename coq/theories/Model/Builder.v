(* Model/Builder.v — the mutating side of the DOM (dom/container.go, dom/list.go), as functions
   returning the new document.  add / ensureList / AddList / addChild / ancestorOf / AddValueAt /
   Remove / RemoveAt / ListBuilder.Set, MustSet, Append, Clear / Walk(CompactFn). *)
From Coq Require Import List String Ascii ZArith Lia Bool Arith.
From YT Require Import Base.Str Base.KV Model.Doc Model.Dom.
Import ListNotations.
Local Open Scope list_scope.

Definition comp := (string * list nat)%type.     (* name[i][j]  =  (name, [i; j]) *)
Definition spath := list comp.

Definition get_comp (c : comp) (kvs : list (string * node)) : option node :=
  match kv_get (fst c) kvs with
  | Some n => follow_idx n (snd c)
  | None => None
  end.

(* ListBuilder.Set: pad with the null leaf up to the index, then assign *)
Definition pad_to (l : list node) (n : nat) : list node := l ++ repeat null (n - List.length l).

Fixpoint list_upd (l : list node) (i : nat) (v : node) : list node :=
  match l, i with
  | [], _ => []
  | _ :: r, 0 => v :: r
  | x :: r, S j => x :: list_upd r j v
  end.

Definition list_set (l : list node) (i : nat) (v : node) : list node := list_upd (pad_to l (S i)) i v.

Definition as_list (x : node) : list node := match x with Lst xs => xs | _ => [] end.

(* add -> ensureList -> AddList -> add ... along an index chain: a node on the way that is not a
   list (absent, a padding null, anything else) is replaced by a new list; lists are padded *)
Fixpoint set_idx (x : node) (idxs : list nat) (v : node) : node :=
  match idxs with
  | [] => v
  | i :: r =>
      let l := pad_to (as_list x) (S i) in
      Lst (list_upd l i (set_idx (nth i l null) r v))
  end.

(* containerBuilderImpl.add(name, child) with name already split into (base, index chain) *)
Definition add_comp (c : comp) (v : node) (kvs : list (string * node)) : list (string * node) :=
  match snd c with
  | [] => kv_set (fst c) v kvs
  | idxs => kv_set (fst c) (set_idx (match kv_get (fst c) kvs with Some x => x | None => null end) idxs v) kvs
  end.

Definition add (name : string) (v : node) (kvs : list (string * node)) : list (string * node) :=
  add_comp (comp_parse name) v kvs.

(* ancestorOf(path, create=true) + AddValue(last): descend through containers; anything else on the
   way (absent, leaf, list) is replaced by a new container via addChild *)
Fixpoint add_at (p : spath) (v : node) (kvs : list (string * node)) : list (string * node) :=
  match p with
  | [] => kvs
  | [c] => add_comp c v kvs
  | c :: r =>
      let sub := match get_comp c kvs with Some (Con s) => s | _ => [] end in
      add_comp c (Con (add_at r v sub)) kvs
  end.

Definition parse_path (path : string) : spath := map comp_parse (split_dots path).

Definition add_value_at (path : string) (v : node) (kvs : list (string * node)) : list (string * node) :=
  add_at (parse_path path) v kvs.

(* RemoveAt: ancestorOf(path, create=false) then Remove(last) = delete(children, last): the last
   component is used as a literal key *)
Fixpoint remove_at_comps (pc : list string) (kvs : list (string * node)) : list (string * node) :=
  match pc with
  | [] => kvs
  | [last] => kv_del last kvs
  | c :: r =>
      match child c kvs with
      | Some (Con s) => add_comp (comp_parse c) (Con (remove_at_comps r s)) kvs
      | _ => kvs
      end
  end.

Definition remove_at (path : string) (kvs : list (string * node)) : list (string * node) :=
  remove_at_comps (split_dots path) kvs.

(* update the node at an existing position (a list operation performed through a handle obtained
   by Lookup(path)) *)
Definition upd_at (path : string) (f : node -> node) (kvs : list (string * node)) : list (string * node) :=
  match lookup_comps (split_dots path) kvs with
  | Some n => add_at (parse_path path) (f n) kvs
  | None => kvs
  end.

(* Walk(CompactFn): post-order over keyed containers; lists are not entered; an empty container
   (after compacting its own children) is removed from its parent *)
Fixpoint compact (n : node) : node :=
  match n with
  | Con kvs =>
      Con ((fix go (l : list (string * node)) : list (string * node) :=
              match l with
              | [] => []
              | (k, x) :: r =>
                  match x with
                  | Con _ => match compact x with
                             | Con [] => go r
                             | x' => (k, x') :: go r
                             end
                  | _ => (k, x) :: go r
                  end
              end) kvs)
  | _ => n
  end.

Inductive bop :=
| OAddValue (name : string) (v : node)
| OAddValueAt (path : string) (v : node)
| OAddContainer (name : string)
| OAddList (name : string)
| ORemove (name : string)
| ORemoveAt (path : string)
| OListSet (path : string) (i : nat) (v : node)
| OListMustSet (path : string) (i : nat) (v : node)      (* in range only *)
| OListAppend (path : string) (v : node)
| OListClear (path : string)
| OCompact.

Definition bstep_kvs (kvs : list (string * node)) (o : bop) : list (string * node) :=
  match o with
  | OAddValue name v => add name v kvs
  | OAddValueAt path v => add_value_at path v kvs
  | OAddContainer name => add name (Con []) kvs
  | OAddList name => add name (Lst []) kvs
  | ORemove name => kv_del name kvs
  | ORemoveAt path => remove_at path kvs
  | OListSet path i v => upd_at path (fun n => Lst (list_set (as_list n) i v)) kvs
  | OListMustSet path i v => upd_at path (fun n => Lst (list_upd (as_list n) i v)) kvs
  | OListAppend path v => upd_at path (fun n => Lst (as_list n ++ [v])) kvs
  | OListClear path => upd_at path (fun _ => Lst []) kvs
  | OCompact => match compact (Con kvs) with Con k' => k' | _ => kvs end
  end.

Definition bstep (d : node) (o : bop) : node :=
  match d with
  | Con kvs => Con (bstep_kvs kvs o)
  | _ => d
  end.

(* all intermediate documents of a history, oldest first (without the start) *)
Fixpoint run_hist (d : node) (ops : list bop) : list node :=
  match ops with
  | [] => []
  | o :: r => let d' := bstep d o in d' :: run_hist d' r
  end.
