(* Model/CloneTbl.v — cloning of pipeline actions, driven by a table of per-field "flows" that the
   translator regenerates from the CloneWith methods in /repo/pipeline on every run. *)
From Coq Require Import List String Ascii Bool Arith.
From YT Require Import Base.Str Model.Analytics.
Import ListNotations.
Local Open Scope list_scope.

(* how a CloneWith method computes one field of the clone from the original *)
Inductive flow :=
| FCopy                 (* F: x.F *)
| FRender               (* F: RenderLenient(x.F, snapshot)            (also string-kinded types) *)
| FRenderPtr            (* F: safeRenderStrPointer(x.F, ...) *)
| FRenderSlice          (* F: safeRenderStrSlice(x.F, ...) *)
| FCopySlice            (* F: safeCopyIntSlice(x.F) *)
| FCloneValOrRef        (* F: safeCloneValOrRef(x.F, ctx) / x.F.CloneWith(ctx) on *ValOrRef *)
| FCloneNested          (* F: x.F.CloneWith(ctx).(T) *)
| FCloneNestedPtr       (* F: ptr(x.F.CloneWith(ctx).(T)) under a nil check *)
| FEach                 (* loop-bodied methods (OpSpec, ChildActions): every non-nil member cloned *)
| FDropped              (* the method never assigns the field *)
| FOther (txt : string).  (* anything the translator does not recognise *)

Definition field_ok (f : flow) : bool :=
  match f with FDropped | FOther _ => false | _ => true end.

(* table: type name -> exported field name -> flow *)
Definition table := list (string * list (string * flow)).

Fixpoint assoc {A} (k : string) (l : list (string * A)) : option A :=
  match l with [] => None | (k', v) :: r => if String.eqb k k' then Some v else assoc k r end.

Definition flow_of (tbl : table) (ty fld : string) : flow :=
  match assoc ty tbl with
  | Some fs => match assoc fld fs with
               | Some f => f
               | None => match assoc "*"%string fs with Some f => f | None => FCopy end  (* map-typed: every entry *)
               end
  | None => FCopy
  end.

Definition all_preserving (tbl : table) : bool :=
  forallb (fun t => forallb (fun fl => field_ok (snd fl)) (snd t)) tbl.

Definition failing_fields (tbl : table) : list (string * string) :=
  flat_map (fun t => map (fun fl => (fst t, fst fl)) (filter (fun fl => negb (field_ok (snd fl))) (snd t))) tbl.

(* a universal value: what a configured action looks like *)
Inductive value :=
| VStr (s : string)                         (* a string-kinded scalar (may hold template text) *)
| VAtom (tag : string)                      (* bool, int, regexp, map, AnyVal ...: copied as is *)
| VOpt (o : option value)                   (* pointer *)
| VList (l : list value)                    (* slice / map entries *)
| VRec (ty : string) (fields : list (string * value)).   (* struct *)

Definition zero (v : value) : value :=
  match v with
  | VStr _ => VStr ""%string
  | VAtom _ => VAtom "zero"%string
  | VOpt _ => VOpt None
  | VList _ => VList []
  | VRec ty _ => VRec ty []
  end.

Section Clone.
Variable tbl : table.
Variable render : string -> string.          (* RenderLenient against the context's data *)

Definition render_shallow (v : value) : value :=
  match v with
  | VStr s => VStr (render s)
  | VOpt (Some (VStr s)) => VOpt (Some (VStr (render s)))
  | VOpt (Some (VList l)) => VOpt (Some (VList (map (fun x => match x with VStr s => VStr (render s) | y => y end) l)))
  | VList l => VList (map (fun x => match x with VStr s => VStr (render s) | y => y end) l)
  | other => other
  end.

(* ValOrRef.CloneWith renders Ref and Val *)
Definition render_valorref (v : value) : value :=
  let rf := fun fs => map (fun f : string * value => (fst f, match snd f with VStr s => VStr (render s) | y => y end)) fs in
  match v with
  | VOpt (Some (VRec ty fs)) => VOpt (Some (VRec ty (rf fs)))
  | VRec ty fs => VRec ty (rf fs)
  | other => other
  end.

Definition flow_apply (f : flow) (orig cloned : value) : value :=
  match f with
  | FCopy | FCopySlice => orig
  | FRender | FRenderPtr | FRenderSlice => render_shallow orig
  | FCloneValOrRef => render_valorref orig
  | FCloneNested | FCloneNestedPtr | FEach => cloned
  | FDropped | FOther _ => zero orig
  end.

(* CloneWith, following the table *)
Fixpoint clone_v (v : value) : value :=
  match v with
  | VRec ty fields =>
      VRec ty ((fix go (l : list (string * value)) : list (string * value) :=
                  match l with
                  | [] => []
                  | (n, fv) :: r => (n, flow_apply (flow_of tbl ty n) fv (clone_v fv)) :: go r
                  end) fields)
  | VOpt (Some x) => VOpt (Some (clone_v x))
  | VList l => VList ((fix go (l : list value) : list value :=
                         match l with [] => [] | x :: r => clone_v x :: go r end) l)
  | other => other
  end.
End Clone.

(* template-free: no string anywhere possibly holds a template *)
Definition tfree_str (s : string) : bool := negb (containsb "{{"%string s).
Fixpoint tfree (v : value) : bool :=
  match v with
  | VStr s => tfree_str s
  | VAtom _ => true
  | VOpt None => true
  | VOpt (Some x) => tfree x
  | VList l => forallb tfree l
  | VRec _ fs => forallb (fun f => tfree (snd f)) fs
  end.
