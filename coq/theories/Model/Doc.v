(* Model/Doc.v — the document tree. A container is an association list with strictly increasing
   keys (canonical model of a Go map); Go's int and float64 are distinct constructors. *)
From Coq Require Import List String Ascii ZArith Lia Bool Arith.
From YT Require Import Base.Str Base.KV.
Import ListNotations.
Open Scope string_scope.

Inductive scalar :=
| SNull
| SBool (b : bool)
| SInt (z : Z)
| SFlt (bits : Z)              (* IEEE bits of a float64; NaN and -0 excluded by the properties *)
| SStr (s : string)
| SOpaque (tag : string).      (* any other Go value kept as a leaf, e.g. a YAML timestamp *)

Inductive node :=
| Leaf (v : scalar)
| Lst (xs : list node)
| Con (kvs : list (string * node)).

Definition scalar_eqb (a b : scalar) : bool :=
  match a, b with
  | SNull, SNull => true
  | SBool x, SBool y => Bool.eqb x y
  | SInt x, SInt y => Z.eqb x y
  | SFlt x, SFlt y => Z.eqb x y
  | SStr x, SStr y => String.eqb x y
  | SOpaque x, SOpaque y => String.eqb x y
  | _, _ => false
  end.

Lemma scalar_eqb_spec a b : reflect (a = b) (scalar_eqb a b).
Proof.
  destruct a as [|x|x|x|x|x], b as [|y|y|y|y|y]; simpl; try (constructor; congruence).
  - destruct (Bool.eqb_spec x y); constructor; congruence.
  - destruct (Z.eqb_spec x y); constructor; congruence.
  - destruct (Z.eqb_spec x y); constructor; congruence.
  - destruct (String.eqb_spec x y); constructor; congruence.
  - destruct (String.eqb_spec x y); constructor; congruence.
Qed.

(* nested induction principle *)
Section NodeInd.
  Variable P : node -> Prop.
  Hypothesis HL : forall v, P (Leaf v).
  Hypothesis HS : forall xs, Forall P xs -> P (Lst xs).
  Hypothesis HC : forall kvs, Forall (fun kv => P (snd kv)) kvs -> P (Con kvs).
  Fixpoint node_ind' (n : node) : P n :=
    match n with
    | Leaf v => HL v
    | Lst xs => HS xs ((fix go l : Forall P l :=
                         match l with [] => Forall_nil _ | x :: r => Forall_cons _ (node_ind' x) (go r) end) xs)
    | Con kvs => HC kvs ((fix go l : Forall (fun kv => P (snd kv)) l :=
                           match l with
                           | [] => Forall_nil _
                           | (k, x) :: r => Forall_cons (k, x) (node_ind' x) (go r)
                           end) kvs)
    end.
End NodeInd.

Fixpoint wf (n : node) : bool :=
  match n with
  | Leaf _ => true
  | Lst xs => forallb wf xs
  | Con kvs => sorted_keys kvs && forallb (fun kv => wf (snd kv)) kvs
  end.

(* structural equality test, used by the correspondence to compare model and observed output *)
Fixpoint node_eqb (a b : node) {struct a} : bool :=
  match a, b with
  | Leaf x, Leaf y => scalar_eqb x y
  | Lst xs, Lst ys =>
      (fix go (l1 l2 : list node) : bool :=
         match l1, l2 with
         | [], [] => true
         | x :: r1, y :: r2 => node_eqb x y && go r1 r2
         | _, _ => false
         end) xs ys
  | Con k1, Con k2 =>
      (fix go (l1 l2 : list (string * node)) : bool :=
         match l1, l2 with
         | [], [] => true
         | (ka, x) :: r1, (kb, y) :: r2 => String.eqb ka kb && node_eqb x y && go r1 r2
         | _, _ => false
         end) k1 k2
  | _, _ => false
  end.

Lemma node_eqb_eq : forall a b, node_eqb a b = true <-> a = b.
Proof.
  induction a as [v|xs IH|kvs IH] using node_ind'; intros b.
  - destruct b; simpl; try (split; intros; congruence).
    destruct (scalar_eqb_spec v v0); split; intros; congruence.
  - destruct b as [|ys|]; simpl; try (split; intros; congruence).
    revert ys. induction IH as [|x r Hx _ IHr]; intros [|y ys]; try (split; intros; congruence).
    split.
    + intros H. apply andb_prop in H as [H1 H2]. apply Hx in H1. apply IHr in H2. congruence.
    + intros [= -> <-]. apply andb_true_intro. split; [now apply Hx|now apply IHr].
  - destruct b as [| |k2]; simpl; try (split; intros; congruence).
    revert k2. induction IH as [|[k x] r Hx _ IHr]; intros [|[k' y] ys]; try (split; intros; congruence).
    split.
    + intros H. apply andb_prop in H as [H1 H2]. apply andb_prop in H1 as [H0 H1].
      apply String.eqb_eq in H0. simpl in Hx. apply Hx in H1. apply IHr in H2. congruence.
    + intros [= -> -> <-]. rewrite String.eqb_refl. simpl. apply andb_true_intro.
      split; [now apply Hx|now apply IHr].
Qed.

Definition opt_node_eqb (a b : option node) : bool :=
  match a, b with
  | None, None => true
  | Some x, Some y => node_eqb x y
  | _, _ => false
  end.

Lemma opt_node_eqb_eq a b : opt_node_eqb a b = true <-> a = b.
Proof.
  destruct a, b; simpl; try (split; intros; congruence).
  rewrite node_eqb_eq. split; congruence.
Qed.

Definition is_con (n : node) : bool := match n with Con _ => true | _ => false end.
Definition is_lst (n : node) : bool := match n with Lst _ => true | _ => false end.
Definition is_leaf (n : node) : bool := match n with Leaf _ => true | _ => false end.

(* all keys of all containers satisfy a predicate *)
Fixpoint keys_all (p : string -> bool) (n : node) : bool :=
  match n with
  | Leaf _ => true
  | Lst xs => forallb (keys_all p) xs
  | Con kvs => forallb (fun kv => p (fst kv) && keys_all p (snd kv)) kvs
  end.

Definition keys_safe (n : node) : bool := keys_all key_safe n.

Definition null : node := Leaf SNull.
Definition empty : node := Con [].
