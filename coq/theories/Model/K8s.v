(* Model/K8s.v — k8s/manifest.go at the level of the decoded YAML document (the YAML codec itself
   is external): kind -> (binary section, text section), afterLoad / beforeSave, the data facades *)
From Coq Require Import List String Ascii ZArith Lia Bool Arith.
From YT Require Import Base.Str Base.KV Model.Doc Model.Codec Model.Base64 Model.Analytics.
Import ListNotations.
Local Open Scope list_scope.

Definition str_Z (s : string) : list Z := map (fun a => Z.of_nat (nat_of_ascii a)) (la s).
Definition Z_str (l : list Z) : string := sl (map (fun z => ascii_of_nat (Z.to_nat z)) l).

(* fmt.Sprintf("%v", dv) for the value kinds a YAML data section can hold *)
Definition fmt_gval (v : gval) : string :=
  match v with
  | GStr s => s
  | GInt z => z2s z
  | GBool true => "true"%string
  | GBool false => "false"%string
  | GNil => "<nil>"%string
  | GFlt _ => "<float>"%string
  | GOther t => t
  | GSlice _ => "<slice>"%string
  | GMap _ => "<map>"%string
  end.

Record manifest := mkM {
  m_doc : list (string * gval);            (* the raw document as decoded *)
  m_str : list (string * string);          (* text items *)
  m_bin : list (string * list Z);          (* binary items *)
  m_bk : string;                           (* section holding binary items *)
  m_tk : string                            (* section holding text items *)
}.

Definition kind_sections (kind : string) : option (string * string) :=
  if String.eqb kind "Secret" then Some ("data", "stringData")%string
  else if String.eqb kind "ConfigMap" then Some ("binaryData", "data")%string
  else None.

Fixpoint load_bin (data : list (string * gval)) : option (list (string * list Z)) :=
  match data with
  | [] => Some []
  | (k, GStr s) :: r =>
      match b64_dec (str_Z s), load_bin r with
      | Some bs, Some rest => Some ((k, bs) :: rest)
      | _, _ => None
      end
  | _ => None
  end.

(* ManifestFromBytes after yaml.Unmarshal: Ok manifest | Err (never a panic) *)
Definition load_doc (doc : list (string * gval)) : option manifest :=
  match kv_get "kind"%string doc with
  | Some (GStr kind) =>
      match kind_sections kind with
      | Some (bk, tk) =>
          let bin := match kv_get bk doc with Some (GMap data) => load_bin data | _ => Some [] end in
          let str := match kv_get tk doc with
                     | Some (GMap data) => map (fun e => (fst e, fmt_gval (snd e))) data
                     | _ => []
                     end in
          match bin with
          | Some b => Some (mkM doc str b bk tk)
          | None => None
          end
      | None => None
      end
  | _ => None
  end.

(* beforeSave: rewrite the two sections (deleted when empty); WriteTo then YAML-encodes this *)
Definition save_doc (m : manifest) : list (string * gval) :=
  let d1 := match m_bin m with
            | [] => kv_del (m_bk m) (m_doc m)
            | items => kv_set (m_bk m) (GMap (map (fun e => (fst e, GStr (Z_str (b64_enc (snd e))))) items)) (m_doc m)
            end in
  match m_str m with
  | [] => kv_del (m_tk m) d1
  | items => kv_set (m_tk m) (GMap (map (fun e => (fst e, GStr (snd e))) items)) d1
  end.

(* the data facades: plain maps *)
Inductive mop :=
| MStrUpdate (k v : string) | MStrRemove (k : string)
| MBinUpdate (k : string) (v : list Z) | MBinRemove (k : string).

Definition m_step (m : manifest) (o : mop) : manifest :=
  match o with
  | MStrUpdate k v => mkM (m_doc m) (kv_set k v (m_str m)) (m_bin m) (m_bk m) (m_tk m)
  | MStrRemove k => mkM (m_doc m) (kv_del k (m_str m)) (m_bin m) (m_bk m) (m_tk m)
  | MBinUpdate k v => mkM (m_doc m) (m_str m) (kv_set k v (m_bin m)) (m_bk m) (m_tk m)
  | MBinRemove k => mkM (m_doc m) (m_str m) (kv_del k (m_bin m)) (m_bk m) (m_tk m)
  end.

(* fields outside the two data sections *)
Definition non_data (m : manifest) : list (string * gval) := kv_del (m_bk m) (kv_del (m_tk m) (m_doc m)).
