(* Model/Props.v — flat dotted keys <-> trees: utils.Unflatten, Builder().FromProperties,
   props.DecoderFn / EncoderFn (the properties text syntax itself is magiconair's: external) *)
From Coq Require Import List String Ascii ZArith Lia Bool Arith.
From YT Require Import Base.Str Base.KV Base.Sort Model.Doc Model.Dom Model.Builder.
Import ListNotations.
Local Open Scope list_scope.

(* one entry of Unflatten: walk the dotted components, reuse a nested map, replace anything else *)
Fixpoint unflatten_set (pc : list string) (v : node) (kvs : list (string * node)) : list (string * node) :=
  match pc with
  | [] => kvs
  | [last] => kv_set last v kvs
  | c :: r =>
      let sub := match kv_get c kvs with Some (Con s) => s | _ => [] end in
      kv_set c (Con (unflatten_set r v sub)) kvs
  end.

(* entries processed in the given order *)
Definition unflatten_ord (kv : list (string * node)) : list (string * node) :=
  fold_left (fun acc e => unflatten_set (split_dots (fst e)) (snd e) acc) kv [].

Definition from_properties_ord (kv : list (string * node)) : list (string * node) :=
  fold_left (fun acc e => add_value_at (fst e) (snd e) acc) kv [].

(* the (repaired) code iterates the Go map in sorted key order *)
Definition sort_kv (kv : list (string * node)) : list (string * node) := isort fst kv.
Definition unflatten (kv : list (string * node)) : node := Con (unflatten_ord (sort_kv kv)).
Definition from_properties (kv : list (string * node)) : node := Con (from_properties_ord (sort_kv kv)).

(* plain descent along dotted components (no index syntax) *)
Fixpoint get_dotted (pc : list string) (kvs : list (string * node)) : option node :=
  match pc with
  | [] => None
  | [last] => kv_get last kvs
  | c :: r => match kv_get c kvs with Some (Con s) => get_dotted r s | _ => None end
  end.

(* no key is a dotted prefix of another (component-wise), keys distinct *)
Fixpoint comps_prefix (a b : list string) : bool :=
  match a, b with
  | [], _ => true
  | x :: r, y :: s => String.eqb x y && comps_prefix r s
  | _ :: _, [] => false
  end.
Definition conflict (a b : list string) : bool := comps_prefix a b || comps_prefix b a.
