(* Model/Mem.v — the representation of a document (is the children map / items slice allocated?)
   and the footprint of the read-only methods: which of them write. *)
From Coq Require Import List String Ascii ZArith Lia Bool Arith.
From YT Require Import Base.Str Base.KV Model.Doc Model.Dom Model.Path Model.Equals.
Import ListNotations.
Local Open Scope list_scope.

Inductive mnode :=
| MLeaf (v : scalar)
| MList (alloc : bool) (xs : list mnode)               (* alloc = false: nil slice *)
| MCon (alloc : bool) (kvs : list (string * mnode)).   (* alloc = false: nil map *)

Fixpoint erase (m : mnode) : node :=
  match m with
  | MLeaf v => Leaf v
  | MList _ xs => Lst (map erase xs)
  | MCon _ kvs => Con (map (fun kv => (fst kv, erase (snd kv))) kvs)
  end.

Inductive readop :=
| RChild (name : string) | RChildren | RLookup (path : string) | RFlatten | RSearch (f : spred)
| RAsMap | REquals (other : node) | RSameAs (other : node) | RClone.

Inductive robs :=
| ONode (n : option node) | OFlat (l : list (string * scalar)) | OStrs (l : list string)
| ODoc (d : node) | OBool (b : bool).

(* what a read returns, as a function of the CONTENT only *)
Definition read_spec (o : readop) (d : node) : robs :=
  match o with
  | RChild name => ONode (match d with Con kvs => child name kvs | _ => None end)
  | RChildren => OStrs (match d with Con kvs => map fst kvs | _ => [] end)
  | RLookup path => ONode (lookup path d)
  | RFlatten => OFlat (flatten d)
  | RSearch f => OStrs (search (spred_eval f) d)
  | RAsMap => ODoc d
  | REquals other => OBool (equals d other)
  | RSameAs other => OBool (same_as d other)
  | RClone => ODoc (clone d)
  end.

(* the representation after the call.  In the repaired code no read method touches the document;
   on the pinned tree Child / Children / Lookup (and Walk) called ensureChildren(), which allocates
   the map of a container whose map is nil: [touch_pinned]. *)
Definition touch (o : readop) (m : mnode) : mnode := m.

Definition touch_pinned (o : readop) (m : mnode) : mnode :=
  match o, m with
  | (RChild _ | RChildren | RLookup _), MCon false kvs => MCon true kvs
  | _, _ => m
  end.

Inductive mevent := Rd (tid : nat) | Wr (tid : nat).

Definition same_alloc (a b : mnode) : bool :=
  match a, b with
  | MCon x _, MCon y _ => Bool.eqb x y
  | MList x _, MList y _ => Bool.eqb x y
  | _, _ => true
  end.

(* one read by thread [tid]: new representation, observation, memory events on the document *)
Definition rd (tid : nat) (o : readop) (m : mnode) : mnode * robs * list mevent :=
  let m' := touch o m in
  (m', read_spec o (erase m), if same_alloc m' m then [Rd tid] else [Rd tid; Wr tid]).

(* any interleaving of read-only calls by any number of threads, as a schedule *)
Fixpoint run (sched : list (nat * readop)) (m : mnode) : mnode * list (nat * robs) * list mevent :=
  match sched with
  | [] => (m, [], [])
  | (tid, o) :: r =>
      let '(m1, ob, ev) := rd tid o m in
      let '(m2, obs, evs) := run r m1 in
      (m2, (tid, ob) :: obs, ev ++ evs)
  end.

Definition is_write (e : mevent) : bool := match e with Wr _ => true | Rd _ => false end.
