(* Model/YamlNode.v — dom/codec.go decodeYamlNode (dom.YamlNodeDecoder): the conversion of a parsed yaml.Node tree into a
   DOM node, used by the pipeline's template(parseAs yaml) operation and by AnyVal.  Scalars keep their source text;
   an ALIAS stands for a copy of the node its anchor marks; an alias met while its own anchor is being converted (the
   parser builds such trees for "&a [*a]") yields an empty scalar; the zero node (what yaml.Unmarshal leaves for an empty
   document) reads like an explicit empty document.

   A tree is given with its anchors numbered: [YAnch i n] is a node n carrying anchor number i, [YAlias i] an alias to it.
   [env] lists the anchored nodes of the whole tree. *)
From Coq Require Import List String Ascii ZArith Lia Bool Arith.
From YT Require Import Base.Str Base.KV Model.Doc Model.Dom Model.Path Model.Builder.
Import ListNotations.
Local Open Scope list_scope.

Inductive ynode :=
| YScalar (v : string)
| YSeq (items : list ynode)
| YMap (kvs : list (string * ynode))        (* in source order; a name given twice: the later entry wins *)
| YAnch (i : nat) (n : ynode)
| YAlias (i : nat)
| YDoc (content : list ynode)
| YZero.

Definition nil_node : node := Leaf (SOpaque "<nil node>").   (* Go's nil Node: never reached on parser output *)

Fixpoint env_get (i : nat) (env : list (nat * ynode)) : option ynode :=
  match env with
  | [] => None
  | (j, n) :: r => if Nat.eqb i j then Some n else env_get i r
  end.

Definition opened (i : nat) (open : list nat) : bool := existsb (Nat.eqb i) open.

(* fuel: one unit per node entered (also through aliases) *)
Fixpoint decode (fuel : nat) (env : list (nat * ynode)) (open : list nat) (n : ynode) : node :=
  match fuel with
  | O => nil_node
  | S f =>
      match n with
      | YScalar v => Leaf (SStr v)
      | YSeq items => Lst (map (decode f env open) items)
      | YMap kvs => Con (fold_left (fun acc e => add (fst e) (decode f env open (snd e)) acc) kvs [])
      | YAnch i m => decode f env (i :: open) m
      | YAlias i =>
          match env_get i env with
          | Some m => if opened i open then Leaf (SStr "") else decode f env (i :: open) m
          | None => nil_node
          end
      | YDoc [m] => decode f env open m
      | YDoc _ => nil_node
      | YZero => Leaf (SStr "")
      end
  end.

(* the anchored nodes of a tree *)
Fixpoint anchors (n : ynode) : list (nat * ynode) :=
  match n with
  | YAnch i m => (i, m) :: anchors m
  | YSeq items => flat_map anchors items
  | YMap kvs => flat_map (fun e => anchors (snd e)) kvs
  | YDoc c => flat_map anchors c
  | _ => []
  end.

Fixpoint ysize (n : ynode) : nat :=
  match n with
  | YSeq items => S (fold_right (fun x acc => ysize x + acc) 0 items)
  | YMap kvs => S (fold_right (fun e acc => ysize (snd e) + acc) 0 kvs)
  | YAnch _ m => S (ysize m)
  | YDoc c => S (fold_right (fun x acc => ysize x + acc) 0 c)
  | _ => 1
  end.

(* YamlNodeDecoder applied to the root of a parsed document *)
Definition decode_root (fuel : nat) (n : ynode) : node := decode fuel (anchors n) [] n.

(* does the conversion stay clear of Go's nil (no fuel exhausted, every alias resolves, documents have one root)? *)
Fixpoint dcheck (fuel : nat) (env : list (nat * ynode)) (open : list nat) (n : ynode) : bool :=
  match fuel with
  | O => false
  | S f =>
      match n with
      | YScalar _ => true
      | YSeq items => forallb (dcheck f env open) items
      | YMap kvs => forallb (fun e => dcheck f env open (snd e)) kvs
      | YAnch i m => dcheck f env (i :: open) m
      | YAlias i =>
          match env_get i env with
          | Some m => if opened i open then true else dcheck f env (i :: open) m
          | None => false
          end
      | YDoc [m] => dcheck f env open m
      | YDoc _ => false
      | YZero => true
      end
  end.
