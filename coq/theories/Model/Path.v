(* Model/Path.v — the path grammars: flatten-style paths as step lists, props.ParsePath
   (utils.ParseListPathComponent), xform.PropPath2Pointer, Container.Search. *)
From Coq Require Import List String Ascii ZArith NArith Lia Bool Arith.
From YT Require Import Base.Str Base.KV Model.Doc Model.Dom Model.Pointer.
Import ListNotations.
Local Open Scope list_scope.

(* a position in a tree: member steps and index steps *)
Inductive step := K (k : string) | I (i : nat).

(* how flattenContainer / flattenList extend a path by one step *)
Definition render_step (acc : string) (s : step) : string :=
  match s with K k => to_path acc k | I i => idx_path acc i end.
Definition render_steps (pi : list step) : string := fold_left render_step pi ""%string.

Fixpoint get_steps (pi : list step) (n : node) : option node :=
  match pi with
  | [] => Some n
  | K k :: r => match n with Con kvs => match kv_get k kvs with Some x => get_steps r x | None => None end
                | _ => None end
  | I i :: r => match n with Lst xs => match nth_error xs i with Some x => get_steps r x | None => None end
                | _ => None end
  end.

(* the scalar positions of a document, as step lists (canonical order) *)
Fixpoint flatten_steps (n : node) : list (list step * scalar) :=
  match n with
  | Leaf v => [([], v)]
  | Lst xs =>
      (fix go (l : list node) (i : nat) : list (list step * scalar) :=
         match l with
         | [] => []
         | x :: r => map (fun e => (I i :: fst e, snd e)) (flatten_steps x) ++ go r (S i)
         end) xs 0
  | Con kvs =>
      (fix go (l : list (string * node)) : list (list step * scalar) :=
         match l with
         | [] => []
         | (k, x) :: r => map (fun e => (K k :: fst e, snd e)) (flatten_steps x) ++ go r
         end) kvs
  end.

(* ---------- utils.ParseListPathComponent: matches when the component contains "[digits]"
   somewhere (regexp ".*(\[\d+])+", unanchored); name = text before the FIRST "["; then every
   "[" ... "]" pair in order is an index (Atoi errors ignored, giving 0) *)
Fixpoint index_of_char (c : ascii) (l : list ascii) : option nat :=
  match l with
  | [] => None
  | x :: r => if Ascii.eqb x c then Some 0 else option_map S (index_of_char c r)
  end.

(* does the list contain  [ digit+ ]  as a contiguous factor? *)
Fixpoint has_index_group (l : list ascii) : bool :=
  match l with
  | [] => false
  | c :: r =>
      (if Ascii.eqb c LBR then
         (fix digits (l' : list ascii) (seen : bool) : bool :=
            match l' with
            | d :: r' => if is_digit d then digits r' true else seen && Ascii.eqb d RBR
            | [] => false
            end) r false
       else false) || has_index_group r
  end.

Definition atoi0 (l : list ascii) : nat :=
  match l with
  | [] => 0
  | _ => if forallb is_digit l then match s2nat (sl l) with Some n => n | None => 0 end else 0
  end.

(* the scanning loop: repeatedly take the text between the next "[" and the next "]" *)
Fixpoint scan_indexes (fuel : nat) (l : list ascii) : list nat :=
  match fuel with
  | 0 => []
  | S f =>
      match index_of_char LBR l with
      | None => []
      | Some s =>
          match index_of_char RBR l with
          | None => []            (* Go would panic on a slice bound here; outside path-safe input *)
          | Some e =>
              if Nat.ltb s e
              then atoi0 (firstn (e - s - 1) (skipn (S s) l)) :: scan_indexes f (skipn (S e) l)
              else []
          end
      end
  end.

Definition parse_list_comp (c : string) : option (string * list nat) :=
  let l := la c in
  if has_index_group l then
    match index_of_char LBR l with
    | Some first => Some (sl (firstn first l), scan_indexes (List.length l) l)
    | None => None
    end
  else None.

(* props.PathSegment *)
Inductive pseg := PKey (v : string) | PIdx (i : nat).

(* strings.TrimFunc(strings.TrimSpace(raw), '.') *)
Definition is_space (c : ascii) : bool :=
  let n := nat_of_ascii c in ((n =? 32) || (n =? 9) || (n =? 10) || (n =? 13) || (n =? 11) || (n =? 12))%nat.
Fixpoint drop_while (p : ascii -> bool) (l : list ascii) : list ascii :=
  match l with [] => [] | c :: r => if p c then drop_while p r else l end.
Definition trim_with (p : ascii -> bool) (l : list ascii) : list ascii :=
  rev (drop_while p (rev (drop_while p l))).

Definition props_parse (raw : string) : list pseg :=
  let t := trim_with (fun c => Ascii.eqb c DOT) (trim_with is_space (la raw)) in
  flat_map (fun c => match parse_list_comp (sl c) with
                     | Some (n, idxs) => PKey n :: map PIdx idxs
                     | None => [PKey (sl c)]
                     end) (split_on DOT t []).

(* xform.PropPath2Pointer: "/"+segment per segment, then patch.MustParsePath (so "~0", "~1" inside
   a key would be unescaped; byte-level scan = rune-level scan because "/" and "~" are ASCII) *)
Definition seg_str (s : pseg) : string := match s with PKey v => v | PIdx i => nat2s i end.
Definition bytes_N (s : string) : list N := map (fun a => N.of_nat (nat_of_ascii a)) (la s).
Definition N_bytes (l : list N) : string := sl (map (fun n => ascii_of_nat (N.to_nat n)) l).

Definition prop2ptr (segs : list pseg) : option (list string) :=
  match ptr_parse (flat_map (fun s => SLASH :: bytes_N (seg_str s)) segs) with
  | Ok toks => Some (map N_bytes toks)
  | Err => None
  end.

Definition pointer_of_prop_path (raw : string) : option (list string) := prop2ptr (props_parse raw).

(* Container.Search: the flattened paths whose value satisfies the predicate *)
Definition search (f : scalar -> bool) (d : node) : list string :=
  map fst (filter (fun e => f (snd e)) (flatten d)).

(* the predicate families used by the correspondence *)
Inductive spred := PEq (v : scalar) | PIsStr | PAll | PIsInt | PIsFlt.
Definition spred_eval (p : spred) (v : scalar) : bool :=
  match p with
  | PEq w => scalar_eqb v w
  | PIsStr => match v with SStr _ => true | _ => false end
  | PAll => true
  | PIsInt => match v with SInt _ => true | _ => false end
  | PIsFlt => match v with SFlt _ => true | _ => false end
  end.
