(* Model/Xform.v — xform/diff2patch.go: DiffMod2PatchOp turns a diff modification into a JSON Patch operation object:
   Add -> add, Change -> replace, Delete -> remove; the pointer is PointerFromPropPathString of the modification's path,
   the value the modification's leaf.  (None: the path has no pointer — an index beyond the machine word.) *)
From Coq Require Import List String Ascii ZArith Lia Bool Arith.
From YT Require Import Base.Str Base.KV Model.Doc Model.Dom Model.Pointer Model.Path Model.Builder Model.Equals
  Model.Diff Model.Patch.
Import ListNotations.
Local Open Scope list_scope.

Definition mod2pop (m : modif) : option pop :=
  match pointer_of_prop_path (mpath m) with
  | Some toks =>
      Some (match mt m with
            | MAdd => PAdd toks (Some (Leaf (mval m)))
            | MChange => PReplace toks (Some (Leaf (mval m)))
            | MDelete => PRemove toks
            end)
  | None => None
  end.

Definition pop_path (o : pop) : list string :=
  match o with
  | PAdd p _ | PRemove p | PReplace p _ | PTest p _ | PMove _ p | PCopy _ p => p
  end.
