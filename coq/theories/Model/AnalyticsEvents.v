(* Model/AnalyticsEvents.v — the configurable parts of analytics/placeholder_resolver.go and dependency_resolver.go:
   WithPlaceholderMatcher / PlaceholderMatcher (which values are looked at), OnPlaceholderEncountered and
   OnResolutionFailure (the callbacks, as the list of events they receive, in flattened-key order) *)
From Coq Require Import List String Ascii ZArith Lia Bool Arith.
From YT Require Import Base.Str Base.KV Base.Sort Model.Doc Model.Dom Model.Path Model.Builder Model.Merge
  Model.Overlay Model.Resolver Model.Analytics.
Import ListNotations.
Local Open Scope list_scope.

Inductive ph_event :=
| PhSeen (k v : string)                                   (* OnPlaceholderEncountered(key, value text) *)
| PhFailed (k v : string) (co : list (string * string)).  (* OnResolutionFailure(key, value text, coordinates) *)

(* placeholderResolver.Resolve with an arbitrary value matcher *)
Definition ph_selected (keyf matcher : string -> bool) (e : string * scalar) : bool :=
  keyf (fst e) && matcher (fmt_scalar (snd e)).

Definition ph_resolve_m (keyf matcher : string -> bool) (ov : overlay) : ph_report :=
  let c := o_merged false ov in
  let failed := filter (fun e => ph_selected keyf matcher e && unresolved c (fmt_scalar (snd e))) (flatten c) in
  mkPh (sort_strings (map fst failed))
       (map (fun e => (fst e, coords (fun v => scalar_eqb v (SStr (fmt_scalar (snd e)))) ov)) failed).

Definition ph_events (keyf matcher : string -> bool) (ov : overlay) : list ph_event :=
  let c := o_merged false ov in
  flat_map (fun e =>
              let s := fmt_scalar (snd e) in
              if ph_selected keyf matcher e then
                PhSeen (fst e) s ::
                (if unresolved c s then [PhFailed (fst e) s (coords (fun v => scalar_eqb v (SStr s)) ov)] else [])
              else []) (flatten c).

(* dependencyResolver.Resolve with an arbitrary mention matcher (PlaceholderMatcher), and the events
   OnPlaceholderEncountered(key, coordinates) receives: one per (key, document) with a non-empty search result *)
Definition dep_resolve_m (ment : string -> scalar -> bool) (keyf : string -> bool) (src : overlay) (refs : list overlay)
  : dep_report :=
  let ks := filter keyf (map fst (flatten (o_merged false src))) in
  let entries := map (fun k => (k, flat_map (coords (ment k)) (src :: refs))) ks in
  mkDep (sort_strings ks)
        (sort_strings (map fst (filter (fun e => negb (nonempty (snd e))) entries)))
        (filter (fun e => nonempty (snd e)) entries).

Definition dep_events (ment : string -> scalar -> bool) (keyf : string -> bool) (src : overlay) (refs : list overlay)
  : list (string * list (string * string)) :=
  flat_map (fun k => filter (fun e => nonempty (snd e)) (map (fun d => (k, coords (ment k) d)) (src :: refs)))
           (filter keyf (map fst (flatten (o_merged false src)))).

(* matchers used by the correspondence *)
Inductive vmatcher := VDefault | VAll | VContains (s : string).
Definition vm_eval (m : vmatcher) (s : string) : bool :=
  match m with VDefault => possibly (la s) | VAll => true | VContains x => containsb x s end.
Inductive mmatcher := MDefault | MEquals.     (* hasPlaceholderFunc / "the value IS the key" *)
Definition mm_eval (m : mmatcher) (k : string) (v : scalar) : bool :=
  match m with MDefault => mentions k v | MEquals => scalar_eqb v (SStr k) end.
