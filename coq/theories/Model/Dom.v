(* Model/Dom.v — read side of the DOM: Child (index-chain aware), Lookup, Flatten, Search.
   Mirrors dom/container.go (after the repairs recorded in known_findings.txt). *)
From Coq Require Import List String Ascii ZArith Lia Bool Arith.
From YT Require Import Base.Str Base.KV Model.Doc.
Import ListNotations.
Open Scope string_scope.

(* ---------- the component grammar  name[i][j]...  (listPathRe = "\[\d+]$", applied repeatedly) *)

(* walks a reversed string; returns the digits met (in forward order) and the remainder *)
Fixpoint take_digits (l : list ascii) (acc : list ascii) : list ascii * list ascii :=
  match l with
  | c :: r => if is_digit c then take_digits r (c :: acc) else (acc, l)
  | [] => (acc, [])
  end.

(* one application of listPathRe on a reversed name: Some (reversed prefix, index) *)
Definition strip_index (r : list ascii) : option (list ascii * nat) :=
  match r with
  | c :: r1 =>
      if Ascii.eqb c RBR then
        match take_digits r1 [] with
        | (d :: ds, b :: pre) =>
            if Ascii.eqb b LBR then
              match s2nat (sl (d :: ds)) with Some i => Some (pre, i) | None => None end
            else None
        | _ => None
        end
      else None
  | [] => None
  end.

Fixpoint strip_chain (fuel : nat) (r : list ascii) (acc : list nat) : list ascii * list nat :=
  match fuel with
  | 0 => (r, acc)
  | S f => match strip_index r with
           | Some (pre, i) => strip_chain f pre (i :: acc)
           | None => (r, acc)
           end
  end.

(* name[i][j] -> (name, [i; j]) *)
Definition comp_parse (name : string) : string * list nat :=
  let r := rev (la name) in
  let '(rb, idx) := strip_chain (List.length r) r [] in (sl (rev rb), idx).

(* one level only, as ensureList / add use it: name2 and the LAST index *)
Definition child_split (name : string) : option (string * nat) :=
  match strip_index (rev (la name)) with
  | Some (pre, i) => Some (sl (rev pre), i)
  | None => None
  end.

Fixpoint follow_idx (n : node) (idx : list nat) : option node :=
  match idx with
  | [] => Some n
  | i :: r => match n with
              | Lst xs => match nth_error xs i with Some x => follow_idx x r | None => None end
              | _ => None
              end
  end.

(* containerImpl.Child *)
Definition child (name : string) (kvs : list (string * node)) : option node :=
  let '(base, idx) := comp_parse name in
  match kv_get base kvs with
  | Some n => follow_idx n idx
  | None => None
  end.

(* containerImpl.Lookup: split on ".", descend through containers, Child on the last component *)
Fixpoint lookup_comps (pc : list string) (kvs : list (string * node)) : option node :=
  match pc with
  | [] => None
  | [p] => child p kvs
  | p :: r => match child p kvs with
              | Some (Con kvs') => lookup_comps r kvs'
              | _ => None
              end
  end.

Definition lookup (path : string) (d : node) : option node :=
  match d with
  | Con kvs => if String.eqb path "" then None else lookup_comps (split_dots path) kvs
  | _ => None
  end.

(* ---------- Flatten *)
Definition to_path (path key : string) : string :=
  if String.eqb path "" then key else path ++ "." ++ key.
Definition idx_path (path : string) (i : nat) : string := path ++ "[" ++ nat2s i ++ "]".

Fixpoint flatten_node (n : node) (path : string) : list (string * scalar) :=
  match n with
  | Leaf v => [(path, v)]
  | Lst xs =>
      (fix go (l : list node) (i : nat) : list (string * scalar) :=
         match l with
         | [] => []
         | x :: r => (flatten_node x (idx_path path i) ++ go r (S i))%list
         end) xs 0
  | Con kvs =>
      (fix go (l : list (string * node)) : list (string * scalar) :=
         match l with
         | [] => []
         | (k, x) :: r => (flatten_node x (to_path path k) ++ go r)%list
         end) kvs
  end.

(* Flatten() of a container, in canonical (key-sorted, index-ascending) order; the Go result is a
   map, i.e. this list read as a set of pairs *)
Definition flatten (d : node) : list (string * scalar) := flatten_node d "".

(* a component string without a "[digits]" suffix: Child treats it as a plain member name *)
Definition plain_comp (t : string) : bool :=
  match strip_index (rev (la t)) with None => true | Some _ => false end.
