(* Model/Pointer.v — RFC 6901 JSON Pointer as implemented by patch/path.go.
   Strings are sequences of code points (N): the Go code converts to []rune first. *)
From Coq Require Import List String Ascii ZArith NArith Lia Bool Arith.
From YT Require Import Base.Str Base.KV Model.Doc Model.Dom.
Import ListNotations.

Definition SLASH : N := 47.
Definition TILDE : N := 126.
Definition ZERO : N := 48.
Definition ONE : N := 49.

Inductive result (A : Type) := Ok (a : A) | Err.
Arguments Ok {A} a.
Arguments Err {A}.

(* Path.String: per token "/" then the token with ~ -> ~0 and / -> ~1 *)
Fixpoint esc (t : list N) : list N :=
  match t with
  | [] => []
  | c :: r => if N.eqb c TILDE then TILDE :: ZERO :: esc r
              else if N.eqb c SLASH then TILDE :: ONE :: esc r
              else c :: esc r
  end.

Fixpoint ptr_print (p : list (list N)) : list N :=
  match p with
  | [] => []
  | t :: r => SLASH :: esc t ++ ptr_print r
  end.

(* ParsePath's scanner: [cs] is the strings.Builder of the current segment *)
Fixpoint scan (s : list N) (cs : list N) : list (list N) :=
  match s with
  | [] => [cs]
  | c :: r =>
      if N.eqb c TILDE then
        match r with
        | d :: r' => if N.eqb d ONE then scan r' (cs ++ [SLASH])
                     else if N.eqb d ZERO then scan r' (cs ++ [TILDE])
                     else scan r (cs ++ [c])
        | [] => scan r (cs ++ [c])
        end
      else if N.eqb c SLASH then cs :: scan r []
      else scan r (cs ++ [c])
  end.

Definition ptr_parse (s : list N) : result (list (list N)) :=
  match s with
  | [] => Ok []
  | c :: r => if N.eqb c SLASH then Ok (scan r []) else Err
  end.

(* the RFC 6901 grammar: empty, or "/"-led with every "~" followed by "0" or "1" *)
Fixpoint valid_body (s : list N) : bool :=
  match s with
  | [] => true
  | c :: r =>
      if N.eqb c TILDE then
        match r with
        | d :: r' => (N.eqb d ZERO || N.eqb d ONE) && valid_body r'
        | [] => false
        end
      else valid_body r
  end.

Definition valid6901 (s : list N) : bool :=
  match s with
  | [] => true
  | c :: r => N.eqb c SLASH && valid_body r
  end.

(* Path.Parent / LastSegment *)
Definition ptr_parent {A} (p : list A) : list A :=
  match p with [] => [] | [_] => [] | _ => removelast p end.
Definition ptr_last (p : list string) : string := last p ""%string.

(* ---------- evaluation (Path.Eval): returns the trail and the node.
   On a list: the token must be a canonical index in range (repaired IsNumeric + else branch);
   on a container: the member of that name (the token as it is spelled — repaired: Eval used Child(token), which also
   understands name[i], so "/items[1]" resolved to item 1 of "items"); on a leaf: nothing. *)
Fixpoint ptr_eval_from (p : list string) (cur : node) : list node * option node :=
  match p with
  | [] => ([], Some cur)
  | t :: r =>
      match cur with
      | Lst xs =>
          match canon_index t with
          | Some i => match nth_error xs i with
                      | Some x => let '(tr, res) := ptr_eval_from r x in (x :: tr, res)
                      | None => ([], None)
                      end
          | None => ([], None)
          end
      | Con kvs =>
          match kv_get t kvs with        (* the member of that very name (repaired: no name[i] sugar in a reference token) *)
          | Some x => let '(tr, res) := ptr_eval_from r x in (x :: tr, res)
          | None => ([], None)
          end
      | Leaf _ => ([], None)
      end
  end.

Definition ptr_eval (p : list string) (d : node) : list node * option node :=
  match p with
  | [] => ([d], Some d)
  | _ => ptr_eval_from p d
  end.

(* the RFC 6901 reference: object members by name, array elements by canonical index *)
Fixpoint rfc6901_eval (p : list string) (cur : node) : option node :=
  match p with
  | [] => Some cur
  | t :: r =>
      match cur with
      | Lst xs => match canon_index t with
                  | Some i => match nth_error xs i with Some x => rfc6901_eval r x | None => None end
                  | None => None
                  end
      | Con kvs => match kv_get t kvs with Some x => rfc6901_eval r x | None => None end
      | Leaf _ => None
      end
  end.

(* a token that Child treats as a plain member name: it has no "[digits]" suffix *)
Definition plain_tok (t : string) : bool :=
  match strip_index (rev (la t)) with None => true | Some _ => false end.
