(* Model/Patch.v — RFC 6902 over plain trees (the reference), and patch/patch.go (the implementation) *)
From Coq Require Import List String Ascii ZArith Lia Bool Arith.
From YT Require Import Base.Str Base.KV Model.Doc Model.Dom Model.Pointer Model.Builder Model.Equals.
Import ListNotations.
Local Open Scope list_scope.

Inductive pop :=
| PAdd (path : list string) (v : option node)
| PRemove (path : list string)
| PReplace (path : list string) (v : option node)
| PMove (from : option (list string)) (path : list string)
| PCopy (from : option (list string)) (path : list string)
| PTest (path : list string) (v : option node).

Definition parent_of (p : list string) : list string := removelast p.
Definition last_of (p : list string) : string := last p ""%string.

Fixpoint insert_at (l : list node) (i : nat) (v : node) : list node :=
  match i, l with
  | 0, _ => v :: l
  | S j, x :: r => x :: insert_at r j v
  | S _, [] => [v]
  end.
Fixpoint remove_idx (l : list node) (i : nat) : list node :=
  match l, i with
  | [], _ => []
  | _ :: r, 0 => r
  | x :: r, S j => x :: remove_idx r j
  end.

Fixpoint is_prefix (a b : list string) : bool :=
  match a, b with
  | [], _ => true
  | x :: r, y :: s => String.eqb x y && is_prefix r s
  | _ :: _, [] => false
  end.
Definition proper_prefix (a b : list string) : bool := Nat.ltb (List.length a) (List.length b) && is_prefix a b.

(* ================= RFC 6902 reference over plain values ================= *)
(* update the node addressed by pointer p (members by name, elements by canonical index) *)
Fixpoint upd (p : list string) (f : node -> option node) (n : node) : option node :=
  match p with
  | [] => f n
  | t :: r =>
      match n with
      | Con kvs =>
          match kv_get t kvs with
          | Some x => option_map (fun x' => Con (kv_set t x' kvs)) (upd r f x)
          | None => None
          end
      | Lst xs =>
          match canon_index t with
          | Some i => match nth_error xs i with
                      | Some x => option_map (fun x' => Lst (list_upd xs i x')) (upd r f x)
                      | None => None
                      end
          | None => None
          end
      | Leaf _ => None
      end
  end.

Definition rfc_add_at (tok : string) (v : node) (par : node) : option node :=
  match par with
  | Con kvs => Some (Con (kv_set tok v kvs))
  | Lst xs => match canon_index tok with
              | Some i => if Nat.leb i (List.length xs) then Some (Lst (insert_at xs i v)) else None
              | None => None
              end
  | Leaf _ => None
  end.

Definition rfc_remove_at (tok : string) (par : node) : option node :=
  match par with
  | Con kvs => match kv_get tok kvs with Some _ => Some (Con (kv_del tok kvs)) | None => None end
  | Lst xs => match canon_index tok with
              | Some i => if Nat.ltb i (List.length xs) then Some (Lst (remove_idx xs i)) else None
              | None => None
              end
  | Leaf _ => None
  end.

Definition rfc_add (path : list string) (v : node) (d : node) : option node :=
  upd (parent_of path) (rfc_add_at (last_of path) v) d.
Definition rfc_remove (path : list string) (d : node) : option node :=
  upd (parent_of path) (rfc_remove_at (last_of path)) d.

(* the '-' token and the root pointer are out of scope: paths are non-empty *)
Definition rfc_do (o : pop) (d : node) : option node :=
  match o with
  | PAdd path (Some v) => rfc_add path v d
  | PRemove path => rfc_remove path d
  | PReplace path (Some v) => upd path (fun _ => Some v) d
  | PMove (Some from) path =>
      match rfc6901_eval from d with
      | Some v => if proper_prefix from path then None
                  else match rfc_remove from d with
                       | Some d1 => rfc_add path v d1
                       | None => None
                       end
      | None => None
      end
  | PCopy (Some from) path =>
      match rfc6901_eval from d with
      | Some v => rfc_add path v d
      | None => None
      end
  | PTest path (Some v) =>
      match rfc6901_eval path d with
      | Some x => if node_eqb v x then Some d else None
      | None => None
      end
  | _ => None                                  (* missing value / from *)
  end.

(* ================= the implementation ================= *)
(* in-place mutation of the node Path.Eval found = functional update along the same walk
   (Child on containers: index-suffix aware; canonical indices on lists) *)
Fixpoint upd_impl (p : list string) (f : node -> option node) (n : node) : option node :=
  match p with
  | [] => f n
  | t :: r =>
      match n with
      | Con kvs =>
          match child t kvs with
          | Some x => option_map (fun x' => Con (add t x' kvs)) (upd_impl r f x)
          | None => None
          end
      | Lst xs =>
          match canon_index t with
          | Some i => match nth_error xs i with
                      | Some x => option_map (fun x' => Lst (list_upd xs i x')) (upd_impl r f x)
                      | None => None
                      end
          | None => None
          end
      | Leaf _ => None
      end
  end.

Definition eval_impl (p : list string) (d : node) : option node := snd (ptr_eval p d).

(* doAdd *)
Definition impl_add_at (tok : string) (v : node) (par : node) : option node :=
  match par with
  | Lst xs => match canon_index tok with
              | Some i => if Nat.leb i (List.length xs) then Some (Lst (insert_at xs i v)) else None
              | None => None
              end
  | Con kvs => Some (Con (add tok v kvs))
  | Leaf _ => None
  end.
Definition impl_add (path : list string) (v : node) (d : node) : option node :=
  match eval_impl (parent_of path) d with
  | None => None
  | Some _ => upd_impl (parent_of path) (impl_add_at (last_of path) v) d
  end.

(* doRemove: target must resolve; then removeListItem or Remove(last) on the parent *)
Definition impl_remove_at (tok : string) (par : node) : option node :=
  match par with
  | Lst xs => match canon_index tok with
              | Some i => Some (Lst (remove_idx xs i))
              | None => None        (* unreachable when the target resolved *)
              end
  | Con kvs => Some (Con (kv_del tok kvs))
  | Leaf _ => None
  end.
Definition impl_remove (path : list string) (d : node) : option node :=
  match eval_impl path d with
  | None => None
  | Some _ => upd_impl (parent_of path) (impl_remove_at (last_of path)) d
  end.

(* doReplace *)
Definition impl_replace_at (tok : string) (v : node) (par : node) : option node :=
  match par with
  | Lst xs => match canon_index tok with
              | Some i => Some (Lst (list_set xs i v))
              | None => None
              end
  | Con kvs => Some (Con (add tok v kvs))
  | Leaf _ => None
  end.
Definition impl_replace (path : list string) (v : node) (d : node) : option node :=
  match eval_impl path d with
  | None => None
  | Some _ => upd_impl (parent_of path) (impl_replace_at (last_of path) v) d
  end.

(* patch.Do: returns the document afterwards and whether the operation succeeded *)
Definition impl_do (d : node) (o : pop) : node * bool :=
  let ret (r : option node) := match r with Some d' => (d', true) | None => (d, false) end in
  match o with
  | PAdd path (Some v) => ret (impl_add path v d)
  | PRemove path => ret (impl_remove path d)
  | PReplace path (Some v) => ret (impl_replace path v d)
  | PMove (Some from) path =>
      match eval_impl from d with
      | None => (d, false)
      | Some v =>
          if proper_prefix from path then (d, false)
          else match impl_remove from d with
               | None => (d, false)
               | Some d1 =>
                   match impl_add path v d1 with
                   | Some d2 => (d2, true)
                   | None =>
                       (* put it back: _ = doAdd(from) *)
                       (match impl_add from v d1 with Some d3 => d3 | None => d1 end, false)
                   end
               end
      end
  | PCopy (Some from) path =>
      match eval_impl from d with
      | None => (d, false)
      | Some v => ret (impl_add path (clone v) d)
      end
  | PTest path (Some v) =>
      match eval_impl path d with
      | Some x => (d, equals v x)
      | None => (d, false)
      end
  | _ => (d, false)
  end.

(* a sequence of operations on one document: the document and the status after every step *)
Fixpoint run_patch (d : node) (ops : list pop) : list (node * bool) :=
  match ops with
  | [] => []
  | o :: r => let '(d', ok) := impl_do d o in (d', ok) :: run_patch d' r
  end.

Definition in_scope (o : pop) : bool :=
  let ok p := negb (match p with [] => true | _ => false end) && forallb plain_tok p in
  match o with
  | PAdd p _ | PRemove p | PReplace p _ | PTest p _ => ok p
  | PMove (Some f) p | PCopy (Some f) p => ok f && ok p
  | PMove None p | PCopy None p => ok p
  end.
