"""Per-property configuration for bin/check."""

COMMON_TRUSTED = [
    "Coq 8.16.1 kernel incl. the vm_compute evaluator (no native_compute)",
    "stdlib only (List, String, Ascii, ZArith, NArith, Lia, Decimal*); no axioms: Print Assumptions must say 'Closed under the global context'",
    "hand-written Gallina model of the Go code; tied to /repo by the correspondence check (differential evaluation of the model inside coqc on the cases the Go harness ran)",
    "Go harness: case generator, canonicaliser (sorted keys, ok/err/panic) and Go->Gallina printer",
]

CONF = {
    "C20": {
        "n": {"quick": 600, "thorough": 8000},
        "shard": 600,
        "race": True,
        "trusted_base": ["the hook dom.VerifDump (build tag verif): generic reflection/unsafe dump of the representation", "the Go race detector (supporting search, not proof): the harness is rebuilt with -race and run on the same cases"],
        "assumptions": ["the theorems are about method-level read/write footprints; the Go memory model, the scheduler and the completeness of the race detector are outside the model (partial by nature)"],
    },
    "C15": {
        "n": {"quick": 400, "thorough": 4000},
        "shard": 200,
        "obligations": ["CloneObligations.v"],
        "trusted_base": ["the translator harness/translator (go/ast walk over /repo/pipeline/*.go): regenerates coq/gen/CloneTable.v on every run; cross-checked on every run by the reflection harness (clone_v over the generated table vs the real CloneWith)", "text/template for the single template {{ .x }}"],
        "assumptions": ["loop-bodied CloneWith methods (OpSpec, ChildActions) are classified FEach by the translator; their agreement with the code rests on the reflection harness"],
    },
    "C13": {
        "obligations": ["ConstC13.v"],
        "n": {"quick": 800, "thorough": 10000},
        "shard": 400,
        "trusted_base": ["the translator also lists the package-level string constants of /repo (coq/gen/GoConsts.v) on every run; the generated obligation gen/ConstC13.v re-proves that the literals the model and the harness use are the ones the source declares", "text/template + sprig, yaml.v3, encoding/json, magiconair properties, the file system and the process environment are external (Section variables of the model); export/import round trips are tests relative to the bare codec", "the YAML PARSER behind template(parseAs yaml) is external: Model/YamlNode.v starts at the parsed node tree (anchors numbered by the harness from the Alias pointers yaml.v3 sets)"],
        "assumptions": ["target paths do not index into an existing non-list node (C03's domain)"],
    },
    "C14": {
        "n": {"quick": 560, "thorough": 8000},
        "shard": 280,
        "trusted_base": ["text/template + sprig (int, lt, eq) for the tiny condition language; yaml.v3 decoding of action trees"],
        "assumptions": ["loop variables / argument paths do not shadow existing data (shadowing is the user's doing, not the mechanism disturbing other data)", "container queries iterate in unspecified order: checked on the Go side as a set"],
    },
    "C12": {
        "obligations": ["OpOrderObligations.v"],
        "n": {"quick": 600, "thorough": 9000},
        "shard": 300,
        "trusted_base": ["text/template + sprig: the model covers a tiny template language (literal text, {{ .key }}, constant / eq / lt conditions); yaml.v3 decoding of action trees"],
        "assumptions": ["sibling order values distinct (sortActionNames uses an unstable sort: ties are unspecified)", "conditions are constant or read data not written by the same action"],
    },
    "C17": {
        "obligations": ["ConstC17.v"],
        "n": {"quick": 640, "thorough": 8000},
        "shard": 320,
        "trusted_base": ["the translator also lists the package-level string constants of /repo (coq/gen/GoConsts.v) on every run; the generated obligation gen/ConstC17.v re-proves that the literals the model and the harness use are the ones the source declares", "gopkg.in/yaml.v3 / encoding/json / magiconair properties: the manifest model starts after yaml.Unmarshal and ends before the YAML encode; round trips of embedded documents are checked relative to the bare codec", "encoding/base64 is re-modelled (b64_enc/b64_dec) and compared"],
        "assumptions": ["text items that bare yaml.v3 (as configured by utils.NewYamlEncoder) does not round-trip on its own are a known finding (known_findings.txt)"],
    },
    "C19": {
        "n": {"quick": 600, "thorough": 9000},
        "shard": 300,
        "trusted_base": ["the placeholder report's resolver is the token-level model of C11 applied to the default delimiters (tokenisation of byte strings into ${ } : and characters)", "fmt %v of ints/bools/strings (floats are not generated)"],
        "assumptions": ["values mention leaf keys acyclically (a true cycle makes the resolver panic by contract; a mention of a container key makes Lookup's type assertion panic)"],
    },
    "C18": {
        "obligations": ["ConstC18.v"],
        "n": {"quick": 500, "thorough": 8000},
        "shard": 250,
        "trusted_base": ["the translator also lists the package-level string constants of /repo (coq/gen/GoConsts.v) on every run; the generated obligation gen/ConstC18.v re-proves that the literals the model and the harness use are the ones the source declares", "yaml.v3 for the AddDocumentFromReader stream", "the file system, filepath.Glob, k8s.ManifestFromFile and the decoders are external to the batch forms: the model receives the matched files (in glob order), the manifest's items (in the order the new layers reveal) and the decoded documents from the harness"],
        "assumptions": ["documents have path-safe keys; generated values are yaml-round-trippable (no floats) for the FromReader variant"],
    },
    "C06": {
        "n": {"quick": 400, "thorough": 6000},
        "shard": 200,
        "trusted_base": ["yaml.v3 for the Serialize == Merged().Serialize byte comparison"],
        "assumptions": ["no write descends through an existing scalar or list (the code panics there); generated values carry no nulls (a data null and a padding null are distinguished by pointer identity in ensurePath)", "snapshot isolation (Layers() deep copies) is a Go-side history oracle: a pure model has no sharing"],
    },
    "C16": {
        "n": {"quick": 900, "thorough": 12000},
        "shard": 900,
        "trusted_base": ["magiconair/properties parsing (escapes, continuation lines) is external: the property restricts round trips to values that need no escaping"],
        "assumptions": ["path-safe key segments; plain string values without escapes"],
    },
    "C11": {
        "n": {"quick": 2400, "thorough": 16000},
        "shard": 1200,
        "trusted_base": ["the token-level scan equals the Go code's byte-level scan for non-overlapping delimiter triples and text free of delimiter bytes (checked per triple by the correspondence)"],
        "assumptions": ["delimiter triples from a fixed set of 5 non-overlapping triples; text alphabet disjoint from delimiter bytes", "termination is proved only for pure-text tables and separator-free inputs (C11_terminates_partial); beyond that it is searched (exhaustive small scope + timeout), not proved"],
    },
    "C09": {
        "obligations": ["ConstC09.v"],
        "n": {"quick": 700, "thorough": 10000},
        "shard": 350,
        "trusted_base": ["the translator also lists the package-level string constants of /repo (coq/gen/GoConsts.v) on every run; the generated obligation gen/ConstC09.v re-proves that the literals the model and the harness use are the ones the source declares", ],
        "assumptions": ["non-root pointers; the '-' token is out of scope; tokens are not of the form name[digits] (on a container Child would resolve them as list items)"],
    },
    "C08": {
        "obligations": ["ConstC07.v"],
        "n": {"quick": 700, "thorough": 10000},
        "shard": 350,
        "trusted_base": ["the translator also lists the package-level string constants of /repo (coq/gen/GoConsts.v) on every run; the generated obligation gen/ConstC07.v re-proves that the literals the model and the harness use are the ones the source declares", "utils.ParseListPathComponent's regexp re-implemented as a string function (has_index_group / scan_indexes)"],
        "assumptions": ["L and R agree wherever both define a position; every list item contains at least one scalar; path-safe keys"],
    },
    "C07": {
        "obligations": ["ConstC07.v"],
        "n": {"quick": 800, "thorough": 12000},
        "shard": 400,
        "trusted_base": ["the translator also lists the package-level string constants of /repo (coq/gen/GoConsts.v) on every run; the generated obligation gen/ConstC07.v re-proves that the literals the model and the harness use are the ones the source declares", "Go's sort.SliceStable is a stable sort (modelled by insertion sort; uniqueness of the stably sorted list is proved)", "cmp.Equal on scalars"],
        "assumptions": ["path-safe keys"],
    },
    "C02": {
        "n": {"quick": 1200, "thorough": 16000},
        "shard": 600,
        "obligations": ["ConstC02.v"],
        "trusted_base": ["the regular expressions listPathRe / listPropRe are re-implemented as string functions and compared on every generated path and on adversarial raw strings; the translator records the two pattern literals of the source on every run and the generated obligation gen/ConstC02.v re-proves that they are the ones the hand-written functions were written from"],
        "assumptions": ["keys are non-empty over [A-Za-z0-9_-] (key_safe); 'that very leaf' (pointer identity) is a Go-side oracle, the model compares values"],
    },
    "C04": {
        "n": {"quick": 900, "thorough": 12000},
        "shard": 500,
        "trusted_base": ["fluent.ConfigHelper's YAML round trip (yaml.v3) for the end-to-end stream"],
        "assumptions": ["'inputs untouched' is a Go-side snapshot oracle: a pure function cannot express mutation"],
    },
    "C03": {
        "n": {"quick": 500, "thorough": 8000},
        "shard": 250,
        "obligations": ["ConstC02.v"],
        "trusted_base": ["the regular expression listPathRe is re-implemented as a string function (strip_index) and compared on every generated component string; the translator records the pattern literal of the source on every run (generated obligation gen/ConstC02.v)"],
        "assumptions": ["no step indexes into an existing non-null non-list node (the property's domain); list operations address the list through a handle re-acquired with Lookup immediately before the call"],
    },
    "C01": {
        "n": {"quick": 1000, "thorough": 12000},
        "shard": 800,
        "trusted_base": ["gopkg.in/yaml.v3 and encoding/json (decoders/encoders are Section variables of the model: the theorems hold for every decoder/encoder); byte determinism and error propagation of those libraries are decided by enumeration, not by a theorem"],
        "assumptions": ["a Go map has distinct keys (gwf)", "NaN-free floats"],
    },
    "C05": {
        "n": {"quick": 1400, "thorough": 18000},
        "shard": 1000,
        "trusted_base": ["go-cmp's cmp.Equal on scalar values (modelled as equality of same-kind scalars)"],
        "assumptions": ["NaN-free scalars; independence of clones (no shared state) cannot be stated in a pure model and is decided by edit histories on the Go side"],
    },
    "C10": {
        "n": {"quick": 1200, "thorough": 24000},
        "shard": 1000,
        "trusted_base": ["Go's string<->[]rune (UTF-8) conversion: the model works on code points"],
        "assumptions": ["tokens of the form name[digits] are outside C10's alphabet: on a container they are resolved by Child as list items (hypothesis plain_tok of C10_eval_refines_rfc)"],
    },
}


def translate(pid, sh, verif, repo):
    return True, ""
