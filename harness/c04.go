package main

import (
	"fmt"
	"math/rand"
	"os"
	"path/filepath"
	"reflect"

	"github.com/rkosegi/yaml-toolkit/dom"
	"github.com/rkosegi/yaml-toolkit/fluent"
)

// ---- independent plain-value reference for merge (the property's modelMerge)
func refMerge(a, b any, app bool) any {
	am, aIsM := a.(map[string]any)
	bm, bIsM := b.(map[string]any)
	if aIsM && bIsM {
		out := map[string]any{}
		for k, v := range am {
			out[k] = deepCopy(v)
		}
		for k, v := range bm {
			if n, ok := out[k]; ok {
				out[k] = refMerge(n, v, app)
			} else {
				out[k] = deepCopy(v)
			}
		}
		return out
	}
	al, aIsL := a.([]any)
	bl, bIsL := b.([]any)
	if aIsL && bIsL {
		if app {
			return append(append([]any{}, deepCopy(al).([]any)...), deepCopy(bl).([]any)...)
		}
		n := len(al)
		if len(bl) > n {
			n = len(bl)
		}
		out := make([]any, n)
		for i := 0; i < n; i++ {
			switch {
			case i < len(al) && i < len(bl):
				out[i] = refMerge(al[i], bl[i], app)
			case i < len(al):
				out[i] = deepCopy(al[i])
			default:
				out[i] = deepCopy(bl[i])
			}
		}
		return out
	}
	if b != nil {
		return deepCopy(b)
	}
	return deepCopy(a)
}

func hasKindConflict(a, b any) bool {
	am, aIsM := a.(map[string]any)
	bm, bIsM := b.(map[string]any)
	if aIsM && bIsM {
		for k, v := range bm {
			if n, ok := am[k]; ok && hasKindConflict(n, v) {
				return true
			}
		}
		return false
	}
	al, aIsL := a.([]any)
	bl, bIsL := b.([]any)
	if aIsL && bIsL {
		if len(al) != len(bl) {
			return true
		}
		for i := range al {
			if hasKindConflict(al[i], bl[i]) {
				return true
			}
		}
		return false
	}
	return kindOf(a) != kindOf(b)
}

func c04Merge(r *rand.Rand, a, b map[string]any, app bool) Case {
	if !app {
		mergeElsewhereWithOptions()
	}
	// build along different routes (decoder uses the shared nilLeaf, builder fresh leaves)
	var A, B dom.ContainerBuilder
	if r == nil || r.Intn(2) == 0 {
		A, B = anyToContainer(a), dom.Builder().FromMap(deepCopy(b).(map[string]any))
	} else {
		A, B = dom.Builder().FromMap(deepCopy(a).(map[string]any)), anyToContainer(b)
	}
	// ... or decoded from a value in which ONE map object stands at two places (a config section reused by reference): both
	// places are sections like any other, merged member by member
	if r != nil && r.Intn(6) == 0 {
		shared := map[string]any{"k": 1, "deep": map[string]any{"x": 1}}
		a, b = deepCopy(a).(map[string]any), deepCopy(b).(map[string]any)
		a["s1"], a["s2"] = shared, shared
		b["s2"] = map[string]any{"extra": 2, "deep": map[string]any{"y": 2}}
		A, B = dom.Builder().FromMap(a), dom.Builder().FromMap(deepCopy(b).(map[string]any))
	}
	// ... or composed of finished parts: every nested mapping and list a Seal()ed read-only view
	if r != nil {
		switch r.Intn(6) {
		case 0:
			A = anyToContainerSealedKids(a)
		case 1:
			B = anyToContainerSealedKids(b)
		case 2:
			A, B = anyToContainerSealedKids(a), anyToContainerSealedKids(b)
		}
	}
	var opts []dom.MergeOption
	if app {
		opts = append(opts, dom.ListsMergeAppend())
	}
	beforeA, beforeB := nodeToAny(A), nodeToAny(B)
	var res dom.ContainerBuilder
	var fail []string
	if pn := guard(func() { res = A.Merge(B, opts...) }); pn != "" {
		return Case{Kind: "merge", Desc: map[string]any{"a": a, "b": b, "append": app, "panic": pn}, Fail: []string{"panic in Merge: " + pn}, Nontrivial: true}
	}
	got := nodeToAny(res)
	if !reflect.DeepEqual(res.AsMap(), refMerge(a, b, app)) {
		fail = append(fail, "AsMap(A.Merge(B)) differs from the plain reference merge")
	}
	if !reflect.DeepEqual(nodeToAny(A), beforeA) || !reflect.DeepEqual(nodeToAny(B), beforeB) {
		fail = append(fail, "Merge modified one of its inputs")
	}
	// a result is a value: merging the same A once more, with another B, does not reach into the first result
	if pn := guard(func() {
		B2 := anyToContainer(replaceScalars(b, "second").(map[string]any))
		_ = A.Merge(B2, opts...)
		if !reflect.DeepEqual(nodeToAny(res), got) {
			fail = append(fail, "a second Merge of the same A with another B changed the first result")
		}
		if !reflect.DeepEqual(nodeToAny(A), beforeA) {
			fail = append(fail, "a second Merge modified A")
		}
	}); pn != "" {
		fail = append(fail, "panic in a second Merge: "+pn)
	}
	// identities
	e := dom.Builder().Container()
	if !reflect.DeepEqual(nodeToAny(A.Merge(e, opts...)), beforeA) || !reflect.DeepEqual(nodeToAny(e.Merge(A, opts...)), beforeA) {
		fail = append(fail, "merging with the empty document is not the identity")
	}
	if !app && !reflect.DeepEqual(nodeToAny(A.Merge(A)), beforeA) {
		fail = append(fail, "A.Merge(A) != A under meld")
	}
	return Case{Kind: "merge", Desc: map[string]any{"a": a, "b": b, "append": app, "result": got},
		Coq:  "CMerge " + gBool(app) + " " + gNode(a) + " " + gNode(b) + " " + gNode(got),
		Fail: fail, Nontrivial: hasKindConflict(a, b)}
}

func c04Overlay(r *rand.Rand, docs []map[string]any, app bool) Case {
	ov := dom.NewOverlayDocument()
	for i, d := range docs {
		ov.Add(fmt.Sprintf("layer%d", i), anyToContainer(d))
	}
	var opts []dom.MergeOption
	if app {
		opts = append(opts, dom.ListsMergeAppend())
	}
	var got any
	var fail []string
	// (the list of layer names is the caller's to sort, reverse or overwrite: the layers are merged in the order they were added)
	if r != nil && r.Intn(2) == 0 {
		names := ov.LayerNames()
		for i, j := 0, len(names)-1; i < j; i, j = i+1, j-1 {
			names[i], names[j] = names[j], names[i]
		}
		if len(names) > 0 {
			names[0] = "overwritten-by-the-caller"
		}
	}
	if pn := guard(func() { got = nodeToAny(ov.Merged(opts...)) }); pn != "" {
		fail = append(fail, "panic in Merged: "+pn)
	}
	want := any(map[string]any{})
	nodes := make([]any, len(docs))
	for i, d := range docs {
		want = refMerge(want, d, app)
		nodes[i] = d
	}
	if len(fail) == 0 && !reflect.DeepEqual(got, want) {
		fail = append(fail, "Merged(opts) differs from folding the reference merge over the layers")
	}
	return Case{Kind: "overlay-merged", Desc: map[string]any{"layers": docs, "append": app, "result": got},
		Coq: "CMergeAll " + gBool(app) + " " + gList(nodes, gNode) + " " + gNode(got), Fail: fail, Nontrivial: len(docs) >= 2}
}

func wideDoc(n int, own string) map[string]any {
	m := map[string]any{}
	l := make([]any, n)
	for i := 0; i < n; i++ {
		m[fmt.Sprintf("svc%03d", i)] = map[string]any{own: i, "shared": own}
		l[i] = map[string]any{own: i}
	}
	return map[string]any{"services": m, "items": l}
}

func replaceScalars(v any, with any) any {
	switch x := v.(type) {
	case map[string]any:
		m := map[string]any{}
		for k, c := range x {
			m[k] = replaceScalars(c, with)
		}
		return m
	case []any:
		l := make([]any, 0, len(x))
		for _, c := range x {
			l = append(l, replaceScalars(c, with))
		}
		return l
	default:
		return with
	}
}

// a configuration object that is a mapping without being a map[string]interface{}
type c04Typed map[string]any

// fluent.ConfigHelper: defaults, then overrides, then a file
func c04Fluent(r *rand.Rand, idx int, docs []map[string]any) Case {
	var fail []string
	dir := procTmp("c04")
	_ = os.MkdirAll(dir, 0o755)
	file := filepath.Join(dir, fmt.Sprintf("f%d.yaml", idx))
	defer os.Remove(file)
	var got any
	var typedExtra []map[string]any
	pn := guard(func() {
		// helpers are independent of each other: one that was only mutated leaves nothing behind for the next
		fluent.NewConfigHelper[map[string]any]().Mutate(func(cb dom.ContainerBuilder) {
			cb.AddValue("left-over-of-an-earlier-helper", dom.LeafNode(1))
			cb.AddValueAt("a.left-over", dom.LeafNode(2))
		})
		h := fluent.NewConfigHelper[map[string]any]()
		for i, d := range docs[:len(docs)-1] {
			// a source is a plain map, a document under construction, or its read-only view
			// ... or any other value that spells a mapping (a typed map, a struct): those travel through YAML
			switch []int{0, 1, 2, 3, 0, 3, 1, 3, 2, 3}[(idx+3*i)%10] {
			case 0:
				h.Add(deepCopy(d))
			case 1:
				h.Add(dom.Builder().FromMap(deepCopy(d).(map[string]any)))
			case 2:
				h.Add(dom.Builder().FromMap(deepCopy(d).(map[string]any)).Seal())
			default:
				h.Add(c04Typed(deepCopy(d).(map[string]any)))
			}
			if i == 0 && (idx/8)%3 == 0 { // the accumulated result looked at after the first source, two more follow in a row
				_ = h.Result()
			}
		}
		// sources whose VALUES are typed maps and slices (not map[string]interface{} / []interface{}): sections merge, lists meld
		if (idx/2)%4 == 0 {
			h.Add(map[string]map[string]string{"typed-section": {"k": "v", "keep": "1"}, "typed-b": {"x": "y"}})
			h.Add(map[string]map[string]string{"typed-section": {"k2": "v2", "k": "w"}})
			h.Add(map[string][]string{"typed-list": {"a", "b", "c"}})
			h.Add(map[string][]string{"typed-list": {"z"}})
			typedExtra = []map[string]any{
				{"typed-section": map[string]any{"k": "v", "keep": "1"}, "typed-b": map[string]any{"x": "y"}},
				{"typed-section": map[string]any{"k2": "v2", "k": "w"}},
				{"typed-list": []any{"a", "b", "c"}},
				{"typed-list": []any{"z"}},
			}
		}
		// last document through a file
		fluent.NewConfigHelper[map[string]any]().Add(deepCopy(docs[len(docs)-1])).Save(file)
		if (idx/8)%3 == 1 { // the accumulated result may be looked at on the way (e.g. to find the file to load next)
			_ = h.Result()
		}
		// a file the decoder rejects (after it has read part of it) is a failed source: the helper reports it its way — it
		// panics — and a caller that recovers finds the accumulated document as it was
		if (idx/4)%3 == 0 {
			badFile := filepath.Join(dir, fmt.Sprintf("rejected%d.yaml", idx))
			_ = os.WriteFile(badFile, []byte("rejected-file-key: 1\na:\n  rejected-nested: 1\nsection:\n  dup: 1\n  dup: 2\n"), 0o644)
			before := nodeToAny(dom.Builder().FromMap(deepCopy(normGeneric(*h.Result())).(map[string]any)))
			pnBad := guard(func() { h.Load(badFile) })
			_ = os.Remove(badFile)
			after := nodeToAny(dom.Builder().FromMap(deepCopy(normGeneric(*h.Result())).(map[string]any)))
			if pnBad != "" && !reflect.DeepEqual(before, after) {
				fail = append(fail, fmt.Sprintf("a Load that failed (%s) left its mark on the accumulated document", pnBad))
			}
		}
		res := h.Load(file).Result()
		got = normGeneric(*res)
	})
	if pn != "" {
		return Case{Kind: "fluent", Desc: map[string]any{"docs": docs, "panic": pn}, Fail: []string{"panic in ConfigHelper: " + pn}, Nontrivial: true}
	}
	// (the typed sources come after the plain ones and before the file)
	if len(typedExtra) > 0 {
		docs = append(append(append([]map[string]any{}, docs[:len(docs)-1]...), typedExtra...), docs[len(docs)-1])
	}
	want := any(map[string]any{})
	nodes := make([]any, len(docs))
	for i, d := range docs {
		want = refMerge(want, d, false)
		nodes[i] = d
	}
	if !reflect.DeepEqual(got, want) {
		fail = append(fail, "ConfigHelper result differs from folding the reference merge")
	}
	return Case{Kind: "fluent", Desc: map[string]any{"docs": docs, "result": got},
		Coq: "CMergeAll false " + gList(nodes, gNode) + " " + gNode(got), Fail: fail, Nontrivial: len(docs) >= 2}
}

// B derived from A by mutations at any depth
func deriveDoc(r *rand.Rand, a map[string]any, o genOpts) map[string]any {
	b := deepCopy(a).(map[string]any)
	for i, n := 0, 1+r.Intn(4); i < n; i++ {
		b = mutateDeep(r, b, o, 0).(map[string]any)
	}
	return b
}

func mutateDeep(r *rand.Rand, v any, o genOpts, depth int) any {
	switch x := v.(type) {
	case map[string]any:
		ks := sortedKeys(x)
		if len(ks) > 0 && r.Intn(3) != 0 {
			k := ks[r.Intn(len(ks))]
			x[k] = mutateDeep(r, x[k], o, depth+1)
			return x
		}
		if depth == 0 || r.Intn(2) == 0 {
			return mutateVal(r, x, o)
		}
	case []any:
		if len(x) > 0 && r.Intn(3) != 0 {
			i := r.Intn(len(x))
			x[i] = mutateDeep(r, x[i], o, depth+1)
			return x
		}
		return mutateVal(r, x, o)
	}
	if depth == 0 {
		return v
	}
	// kind flip / null / new value
	switch r.Intn(4) {
	case 0:
		return nil
	case 1:
		return genList(r, o, 2)
	case 2:
		return genMap(r, o, 2)
	default:
		return genScalar(r, o)
	}
}

func init() {
	register(&Prop{
		ID:   "C04",
		Rule: "kinds: merge (pairs (A,B): B derived from A by 1-4 mutations at any depth — kind flips, nulls, list truncation/extension, lists of containers/lists — or independent; both list strategies; operands built by the builder, by the decoder, or composed of sealed parts (every nested mapping/list a read-only view); inputs snapshotted before/after, identities and idempotence as Go-side oracles), overlay-merged (2-3 layers through OverlayDocument.Merged), fluent (ConfigHelper Add..Load(file).Result()). Non-trivial: pair has a kind conflict or unequal-length lists. Distinct by Gallina term. ConfigHelper sources are plain maps, builders, sealed views and typed maps (which travel through YAML) in turn, sometimes four of them, the third lacking keys of the first. The same A is merged a second time with another B and the first result re-read; Result() is looked at in the middle of every second ConfigHelper chain. A ConfigHelper that was only Mutate()d is created (and dropped) before the one under test. Corpus: 150 mappings side by side (in a mapping and in a list); a ConfigHelper whose Result() is read after the first source while a key goes section -> scalar -> section.",
		Corpus: func() []Case {
			return []Case{
				c04Merge(nil, map[string]any{"a": 1}, map[string]any{"a": nil, "b": nil}, false),
				c04Merge(nil, map[string]any{"l": []any{1, map[string]any{"x": 1}}}, map[string]any{"l": []any{nil, map[string]any{"y": 2}, 3}}, false),
				c04Merge(nil, map[string]any{"l": []any{[]any{1}, 2}}, map[string]any{"l": []any{[]any{3}}}, true),
				c04Merge(nil, map[string]any{"a": map[string]any{"b": 1}}, map[string]any{"a": []any{}}, false),
				c04Merge(nil, wideDoc(150, "x"), wideDoc(150, "y"), false), // many mappings side by side, in a mapping and in a list
				// the accumulated document looked at, then two more sources in a row; a key goes section -> scalar -> section
				c04Fluent(rand.New(rand.NewSource(1)), 0, []map[string]any{
					{"db": map[string]any{"host": "h", "port": 5432}, "l": []any{1, 2, 3}},
					{"db": "sqlite://file", "l": "none"},
					{"db": map[string]any{"host": "h2"}, "l": []any{9}}}),
			}
		},
		Gen: func(r *rand.Rand, tier string, idx int) Case {
			o := defaultOpts()
			o.keys = []string{"a", "b", "c", "k1"}
			if r.Intn(4) == 0 && idx%8 != 6 && idx%8 != 7 {
				// member names are literal: a dot or the empty name is not a path
				o.keys = []string{"a", "a.b", "", "x.y.z", "app.kubernetes.io/name", "b"}
			}
			a := genDoc(r, o)
			switch idx % 8 {
			case 6:
				docs := []map[string]any{a, deriveDoc(r, a, o)}
				if r.Intn(2) == 0 {
					docs = append(docs, genDoc(r, o))
				}
				if r.Intn(3) == 0 {
					// three and four layers that disagree about the KIND of one member: the layers are folded in pairs, in order —
					// a scalar or a null below two mappings (or two lists) does not keep those two from merging
					k := o.keys[r.Intn(len(o.keys))]
					lo := []any{"placeholder", nil, 7, []any{"l"}}[r.Intn(4)]
					mid, top := any(map[string]any{"host": "a"}), any(map[string]any{"port": 1})
					if r.Intn(3) == 0 {
						mid, top = []any{1, 2, 3}, []any{9}
					}
					docs = []map[string]any{deepCopy(a).(map[string]any), deepCopy(a).(map[string]any), deepCopy(a).(map[string]any)}
					docs[0][k], docs[1][k], docs[2][k] = lo, mid, top
					if r.Intn(2) == 0 {
						docs = append(docs, map[string]any{k: []any{nil, "again", map[string]any{"z": 0}}[r.Intn(3)]})
					}
					if r.Intn(2) == 0 { // five to nine layers, each with its own idea of that member: folded strictly left to right
						docs = docs[:0]
						for i, n := 0, 5+r.Intn(5); i < n; i++ {
							d := deepCopy(a).(map[string]any)
							d[k] = []any{map[string]any{fmt.Sprintf("m%d", i): i}, "scalar", []any{i}, map[string]any{fmt.Sprintf("m%d", i): i, "shared": i}, nil}[r.Intn(9)%5]
							docs = append(docs, d)
						}
					}
				}
				return c04Overlay(r, docs, r.Intn(2) == 0)
			case 7:
				o.floats = false
				a = genDoc(r, o)
				docs := []map[string]any{a, deriveDoc(r, a, o), deriveDoc(r, a, o)}
				if r.Intn(2) == 0 { // a later source that lacks keys an earlier one had: what was set stays set
					less := deepCopy(a).(map[string]any)
					for _, k := range sortedKeys(less) {
						if r.Intn(2) == 0 {
							delete(less, k)
						}
					}
					docs = []map[string]any{a, deriveDoc(r, a, o), less, deriveDoc(r, a, o)}
				}
				return c04Fluent(r, idx, docs)
			default:
				b := deriveDoc(r, a, o)
				if r.Intn(4) == 0 {
					b = genDoc(r, o)
				}
				return c04Merge(r, a, b, r.Intn(2) == 0)
			}
		},
	})
}
