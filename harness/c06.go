package main

import (
	"bytes"
	"fmt"
	"math/rand"
	"reflect"
	"sort"
	"strings"

	"github.com/rkosegi/yaml-toolkit/diff"
	"github.com/rkosegi/yaml-toolkit/dom"
)

// ---- plain reference of an overlay: layer names in first-write order + one plain tree per layer
type refOverlay struct {
	names  []string
	layers map[string]map[string]any
}

func (o *refOverlay) ensure(name string) map[string]any {
	if _, ok := o.layers[name]; !ok {
		o.layers[name] = map[string]any{}
		o.names = append(o.names, name)
	}
	return o.layers[name]
}

// descend-or-create; reports whether a slot on the way holds something that is neither absent,
// null nor a container (the Go code panics there: outside the property)
func pensureAdmissible(m map[string]any, cs []pcomp) bool {
	cur := m
	for _, c := range cs {
		v, ok := pchild(cur, c)
		if !ok || v == nil {
			return true
		}
		sm, ism := v.(map[string]any)
		if !ism {
			return false
		}
		cur = sm
	}
	return true
}

func pensureThen(m map[string]any, cs []pcomp, f func(map[string]any)) {
	if len(cs) == 0 {
		f(m)
		return
	}
	sub, ok := pchild(m, cs[0])
	sm, ism := sub.(map[string]any)
	if !ok || !ism {
		sm = map[string]any{}
	}
	pensureThen(sm, cs[1:], f)
	padd(m, cs[0], sm)
}

func refFlatten(v any, path string, out map[string]any) {
	switch x := v.(type) {
	case map[string]any:
		for k, c := range x {
			p := k
			if path != "" {
				p = path + "." + k
			}
			refFlatten(c, p, out)
		}
	case []any:
		for i, c := range x {
			refFlatten(c, fmt.Sprintf("%s[%d]", path, i), out)
		}
	default:
		out[path] = v
	}
}

func (o *refOverlay) putLeaf(layer, path string, v any) {
	m := o.ensure(layer)
	cs := parsePPath(path)
	pensureThen(m, cs[:len(cs)-1], func(s map[string]any) { padd(s, cs[len(cs)-1], deepCopy(v)) })
}

func (o *refOverlay) lookup(layer, path string) (any, bool) {
	m, ok := o.layers[layer]
	if !ok {
		return nil, false
	}
	return plookup(m, parsePPath(path))
}

func (o *refOverlay) merged(app bool) any {
	var acc any = map[string]any{}
	for _, n := range o.names {
		acc = refMerge(acc, o.layers[n], app)
	}
	return acc
}

var c06Layers = []string{"base", "site", "host"}

type c06Step struct {
	desc string
	coq  string
	obs  string
}

func gObsState(ov dom.OverlayDocument) string {
	names := ov.LayerNames()
	ls := ov.Layers()
	docs := make([]any, 0, len(names))
	for _, n := range names {
		docs = append(docs, nodeToAny(ls[n]))
	}
	return "ObsState " + gStrs(names) + " " + gList(docs, gNode)
}

func c06GenVal(r *rand.Rand, o genOpts, depth int) any {
	// no nulls: a null inside a list would be indistinguishable from padding for the harness
	o.nulls = false
	return genVal(r, o, depth, false)
}

func gData(m map[string]any) string {
	return gList(sortedKeys(m), func(k string) string { return "(" + gStr(k) + ", " + gGval(m[k]) + ")" })
}

func c06History(r *rand.Rand, n int, script []func(ov dom.OverlayDocument, ref *refOverlay, fail *[]string) (c06Step, bool)) Case {
	ov := dom.NewOverlayDocument()
	ref := &refOverlay{layers: map[string]map[string]any{}}
	o := defaultOpts()
	o.keys = c03Keys
	o.maxDepth = 3
	o.nulls = false
	var fail []string
	var steps []c06Step
	type snap struct {
		at     int
		layers map[string]dom.Container
		want   map[string]any
	}
	var snaps []snap
	multiLayerShared := map[string]map[string]bool{}
	for i := 0; i < n; i++ {
		var st c06Step
		ok := false
		pn := guard(func() {
			if script != nil {
				st, ok = script[i](ov, ref, &fail)
				return
			}
			layer := c06Layers[r.Intn(len(c06Layers))]
			switch r.Intn(12) {
			case 0, 1, 2, 3: // Put leaf / list / container
				path := genPathStr(r)
				if r.Intn(3) == 0 {
					for _, l := range ref.names {
						if p, found := existingPath(r, ref.layers[l], false); found {
							path = p
							if r.Intn(2) == 0 {
								path = p + "." + genCompStr(r)
							}
							break
						}
					}
				}
				v := c06GenVal(r, o, 2)
				m := ref.layers[layer]
				if m == nil {
					m = map[string]any{}
				}
				if mv, isMap := v.(map[string]any); isMap {
					fl := map[string]any{}
					refFlatten(mv, "", fl)
					for k := range fl {
						full := path + "." + k
						cs := parsePPath(full)
						if !pensureAdmissible(m, cs[:len(cs)-1]) {
							return
						}
					}
					// admissibility can change while the leaves are written one by one: dry run
					dry := deepCopy(m).(map[string]any)
					for _, k := range sortedKeys(fl) {
						cs := parsePPath(path + "." + k)
						if !pensureAdmissible(dry, cs[:len(cs)-1]) {
							return
						}
						pensureThen(dry, cs[:len(cs)-1], func(s map[string]any) { padd(s, cs[len(cs)-1], fl[k]) })
					}
					ov.Put(layer, path, anyToNode(v))
					for _, k := range sortedKeys(fl) {
						ref.putLeaf(layer, path+"."+k, fl[k])
					}
				} else {
					cs := parsePPath(path)
					if !pensureAdmissible(m, cs[:len(cs)-1]) {
						return
					}
					ov.Put(layer, path, anyToNode(v))
					ref.putLeaf(layer, path, v)
				}
				if multiLayerShared[path] == nil {
					multiLayerShared[path] = map[string]bool{}
				}
				multiLayerShared[path][layer] = true
				st = c06Step{desc: fmt.Sprintf("Put(%s, %s, %v)", layer, path, v), coq: "OPut " + gStr(layer) + " " + gStr(path) + " " + gNode(v)}
				st.obs = gObsState(ov)
				ok = true
			case 4: // Add: the same source container may go to two layers (shared source)
				src := genDoc(r, o)
				c := anyToContainer(src)
				targets := []string{layer}
				if r.Intn(3) == 0 {
					targets = append(targets, c06Layers[r.Intn(len(c06Layers))])
				}
				for _, l := range targets {
					ov.Add(l, c)
					m := ref.ensure(l)
					for _, k := range sortedKeys(src) {
						padd(m, parseComp(k), deepCopy(src[k]))
					}
					steps = append(steps, c06Step{desc: fmt.Sprintf("Add(%s, %v)", l, src), coq: "OAdd " + gStr(l) + " " + gNode(src), obs: gObsState(ov)})
				}
				if !reflect.DeepEqual(nodeToAny(c), any(src)) {
					fail = append(fail, "Add changed the container it was given")
				}
				return
			case 5: // Populate
				path := ""
				if r.Intn(3) != 0 {
					path = genPathStr(r)
				}
				data := genDoc(r, o)
				m := ref.layers[layer]
				if m == nil {
					m = map[string]any{}
				}
				if path != "" && !pensureAdmissible(m, parsePPath(path)) {
					return
				}
				ov.Populate(layer, path, &data)
				fail = append(fail, c06TypedPopulate(r)...)
				if r.Intn(4) == 0 { // (on an overlay of its own) a populated map may hold lists with null items: every item once, in place
					pm := map[string]any{"servers": []any{"alpha", nil, "gamma"}, "n": map[string]any{"l": []any{nil, nil, 1, []any{nil, 2}}}}
					ov2 := dom.NewOverlayDocument()
					ov2.Populate("p", "", &pm)
					if got := nodeToAny(ov2.Layers()["p"]); !reflect.DeepEqual(got, any(pm)) {
						fail = append(fail, fmt.Sprintf("Populate of %v gives layer %v", pm, got))
					}
					if n := ov2.Lookup("p", "servers[2]"); n == nil || !n.IsLeaf() || n.(dom.Leaf).Value() != "gamma" {
						fail = append(fail, "after Populate with a null list item, Lookup(servers[2]) is not the third item")
					}
					// a container put at the root path: its leaves are the layer's leaves
					rootDoc := map[string]any{"app": map[string]any{"name": "n", "ports": []any{80, 443}}, "flag": true}
					ov2.Put("q", "", anyToContainer(rootDoc))
					if got := nodeToAny(ov2.Layers()["q"]); !reflect.DeepEqual(got, any(rootDoc)) {
						fail = append(fail, fmt.Sprintf("Put(layer, \"\", container) gives layer %v, expected %v", got, rootDoc))
					}
					if n := ov2.Lookup("q", "app.name"); n == nil || !n.IsLeaf() || n.(dom.Leaf).Value() != "n" {
						fail = append(fail, "after Put at the root path, Lookup(app.name) does not find the leaf")
					}
				}
				lm := ref.ensure(layer)
				f := func(s map[string]any) {
					for _, k := range sortedKeys(data) {
						padd(s, parseComp(k), deepCopy(data[k]))
					}
				}
				if path == "" {
					f(lm)
				} else {
					pensureThen(lm, parsePPath(path), f)
				}
				st = c06Step{desc: fmt.Sprintf("Populate(%s, %q, %v)", layer, path, data), coq: "OPopulate " + gStr(layer) + " " + gStr(path) + " " + gData(data), obs: gObsState(ov)}
				ok = true
			case 6, 7: // per-layer lookup
				path := genPathStr(r)
				if m := ref.layers[layer]; m != nil && r.Intn(2) == 0 {
					if p, found := existingPath(r, m, false); found {
						path = p
					}
				}
				n := ov.Lookup(layer, path)
				want, wok := ref.lookup(layer, path)
				if wok != (n != nil) || (wok && !reflect.DeepEqual(nodeToAny(n), want)) {
					fail = append(fail, fmt.Sprintf("Lookup(%s,%s) differs from the per-layer reference", layer, path))
				}
				st = c06Step{desc: fmt.Sprintf("Lookup(%s, %s)", layer, path), coq: "OLookupL " + gStr(layer) + " " + gStr(path), obs: "ObsNode " + gOptNode(anyOrNil(n), n != nil)}
				ok = true
			case 8: // cross-layer lookup
				path := genPathStr(r)
				for _, l := range ref.names {
					if p, found := existingPath(r, ref.layers[l], false); found && r.Intn(2) == 0 {
						path = p
					}
				}
				n := ov.LookupAny(path)
				var want any
				wok := false
				for _, l := range ref.names {
					if v, found := ref.lookup(l, path); found {
						want, wok = v, true
						break
					}
				}
				if wok != (n != nil) || (wok && !reflect.DeepEqual(nodeToAny(n), want)) {
					fail = append(fail, fmt.Sprintf("LookupAny(%s) is not the hit of the earliest layer that has one", path))
				}
				st = c06Step{desc: "LookupAny(" + path + ")", coq: "OLookupAny " + gStr(path), obs: "ObsNode " + gOptNode(anyOrNil(n), n != nil)}
				ok = true
			case 9: // search
				var fn dom.SearchValueFunc
				var pred string
				if r.Intn(2) == 0 {
					fn, pred = func(v any) bool { _, s := v.(string); return s }, "PIsStr"
				} else {
					fn, pred = func(any) bool { return true }, "PAll"
				}
				cs := ov.Search(fn)
				var groups []string
				byLayer := map[string][]string{}
				var order []string
				for _, c := range cs {
					if _, seen := byLayer[c.Layer()]; !seen {
						order = append(order, c.Layer())
					}
					byLayer[c.Layer()] = append(byLayer[c.Layer()], c.Path())
				}
				// layers must come grouped and in layer order; layers without a hit are listed empty
				for _, l := range ov.LayerNames() {
					ps := byLayer[l]
					sort.Strings(ps)
					groups = append(groups, "("+gStr(l)+", "+gStrs(ps)+")")
				}
				pos := map[string]int{}
				for i, l := range ov.LayerNames() {
					pos[l] = i
				}
				lastPos, lastLayer := -1, ""
				for _, c := range cs {
					if c.Layer() != lastLayer {
						if pos[c.Layer()] < lastPos {
							fail = append(fail, "Search results are not grouped by layer in layer order")
						}
						lastPos, lastLayer = pos[c.Layer()], c.Layer()
					}
				}
				st = c06Step{desc: "Search(" + pred + ")", coq: "OSearch " + pred, obs: "ObsCoords [" + strings.Join(groups, "; ") + "]"}
				ok = true
			case 10: // walk (complete), and walk with an early stop
				byLayer := map[string]map[string]any{}
				var layerSeq []string
				ov.Walk(func(layer, path string, parent, node dom.Node) bool {
					if byLayer[layer] == nil {
						byLayer[layer] = map[string]any{}
						layerSeq = append(layerSeq, layer)
					}
					byLayer[layer][path] = normScalar(node.(dom.Leaf).Value())
					return true
				})
				var groups []string
				total := 0
				for _, l := range ov.LayerNames() {
					m := byLayer[l]
					total += len(m)
					groups = append(groups, "("+gStr(l)+", "+gEntries(sortedKeys(m), m)+")")
				}
				if total > 1 {
					stopAfter := 1 + r.Intn(total)
					visits := 0
					ov.Walk(func(layer, path string, parent, node dom.Node) bool {
						visits++
						return visits < stopAfter
					})
					if visits != stopAfter {
						fail = append(fail, fmt.Sprintf("Walk did not stop when the visitor returned false (visited %d, expected %d)", visits, stopAfter))
					}
				}
				st = c06Step{desc: "Walk", coq: "OWalkAll", obs: "ObsTriples [" + strings.Join(groups, "; ") + "]"}
				ok = true
			default: // merged view (and Serialize of the overlay = serialisation of that view)
				app := r.Intn(2) == 0
				var opts []dom.MergeOption
				if app {
					opts = append(opts, dom.ListsMergeAppend())
				}
				mv := ov.Merged(opts...)
				got := nodeToAny(mv)
				if !reflect.DeepEqual(got, ref.merged(app)) {
					fail = append(fail, "Merged(opts) differs from folding the reference merge over the layers in order")
				}
				if !app {
					var b1, b2 bytes.Buffer
					e1 := ov.Serialize(&b1, dom.DefaultNodeEncoderFn, dom.DefaultYamlEncoder)
					e2 := mv.Serialize(&b2, dom.DefaultNodeEncoderFn, dom.DefaultYamlEncoder)
					if e1 != nil || e2 != nil || !bytes.Equal(b1.Bytes(), b2.Bytes()) {
						fail = append(fail, "Serialize(overlay) is not the serialisation of Merged()")
					}
					// ... also when the writer gives up (at the first byte, in the middle, at the last byte): the error surfaces
					if b1.Len() > 0 {
						for _, n := range []int{0, b1.Len() / 2, b1.Len() - 1} {
							for ei, enc := range []dom.EncoderFunc{dom.DefaultYamlEncoder, dom.DefaultJsonEncoder} {
								var werr error
								if pn := guard(func() { werr = ov.Serialize(&failAfterW{n: n}, dom.DefaultNodeEncoderFn, enc) }); pn != "" {
									fail = append(fail, "panic in Serialize(overlay) into a failing writer: "+pn)
								} else if werr == nil && !(ei == 1 && n >= b1.Len()/2) {
									fail = append(fail, fmt.Sprintf("Serialize(overlay) into a writer failing after %d bytes (encoder %d) reported success", n, ei))
								}
							}
						}
					}
				}
				st = c06Step{desc: fmt.Sprintf("Merged(append=%v)", app), coq: "OMerged " + gBool(app), obs: "ObsDoc " + gNode(got)}
				ok = true
			}
		})
		if pn != "" {
			fail = append(fail, "panic: "+pn)
			break
		}
		if ok {
			steps = append(steps, st)
		}
		// names
		if !reflect.DeepEqual(append([]string{}, ov.LayerNames()...), append([]string{}, ref.names...)) && !(len(ov.LayerNames()) == 0 && len(ref.names) == 0) {
			fail = append(fail, fmt.Sprintf("LayerNames() = %v, first-write order = %v", ov.LayerNames(), ref.names))
		}
		// the name list handed out is the caller's copy: reordering or overwriting it changes nothing
		if ns := ov.LayerNames(); len(ns) >= 2 {
			ns[0], ns[len(ns)-1] = ns[len(ns)-1], "scribbled-by-the-caller"
			if !reflect.DeepEqual(append([]string{}, ov.LayerNames()...), append([]string{}, ref.names...)) {
				fail = append(fail, fmt.Sprintf("after the caller reordered the slice returned by LayerNames(), LayerNames() = %v, first-write order = %v", ov.LayerNames(), ref.names))
			}
		}
		// snapshot discipline
		if r != nil && r.Intn(4) == 0 {
			want := map[string]any{}
			for l, m := range ref.layers {
				want[l] = deepCopy(m)
			}
			snaps = append(snaps, snap{at: i, layers: ov.Layers(), want: want})
		}
		if len(fail) > 0 {
			break
		}
	}
	for _, s := range snaps {
		for l, c := range s.layers {
			if !reflect.DeepEqual(nodeToAny(c), s.want[l]) {
				fail = append(fail, fmt.Sprintf("Layers() snapshot taken at step %d changed after later writes (layer %s)", s.at, l))
				break
			}
		}
	}
	// diff.OverlayDocs consumes Layers(): diffing the overlay against itself is empty per layer
	if r != nil && len(fail) == 0 {
		for l, ms := range diff.OverlayDocs(ov, ov) {
			if len(*ms) != 0 {
				fail = append(fail, "OverlayDocs(ov, ov) is not empty for layer "+l)
			}
		}
	}
	descs := make([]string, len(steps))
	coqs := make([]string, len(steps))
	obs := make([]string, len(steps))
	for i, s := range steps {
		descs[i], coqs[i], obs[i] = s.desc, s.coq, s.obs
	}
	shared := false
	for _, ls := range multiLayerShared {
		if len(ls) >= 2 {
			shared = true
		}
	}
	return Case{Kind: "overlay-history", Desc: map[string]any{"steps": descs, "names": ref.names},
		Coq:  "COverlayHist [" + strings.Join(coqs, "; ") + "] [" + strings.Join(obs, "; ") + "]",
		Fail: fail, Nontrivial: shared || len(ref.names) >= 2}
}

func init() {
	put := func(layer, path string, v any) func(ov dom.OverlayDocument, ref *refOverlay, fail *[]string) (c06Step, bool) {
		return func(ov dom.OverlayDocument, ref *refOverlay, fail *[]string) (c06Step, bool) {
			ov.Put(layer, path, anyToNode(v))
			if mv, isMap := v.(map[string]any); isMap {
				fl := map[string]any{}
				refFlatten(mv, "", fl)
				for _, k := range sortedKeys(fl) {
					ref.putLeaf(layer, path+"."+k, fl[k])
				}
			} else {
				ref.putLeaf(layer, path, v)
			}
			return c06Step{desc: fmt.Sprintf("Put(%s,%s,%v)", layer, path, v), coq: "OPut " + gStr(layer) + " " + gStr(path) + " " + gNode(v), obs: gObsState(ov)}, true
		}
	}
	lookup := func(layer, path string) func(ov dom.OverlayDocument, ref *refOverlay, fail *[]string) (c06Step, bool) {
		return func(ov dom.OverlayDocument, ref *refOverlay, fail *[]string) (c06Step, bool) {
			n := ov.Lookup(layer, path)
			want, wok := ref.lookup(layer, path)
			if wok != (n != nil) || (wok && !reflect.DeepEqual(nodeToAny(n), want)) {
				*fail = append(*fail, fmt.Sprintf("Lookup(%s,%s) differs from the per-layer reference", layer, path))
			}
			return c06Step{desc: "Lookup(" + layer + "," + path + ")", coq: "OLookupL " + gStr(layer) + " " + gStr(path), obs: "ObsNode " + gOptNode(anyOrNil(n), n != nil)}, true
		}
	}
	// the aliasing history of the pinned tree: one container added to two layers, then a Put beneath it
	shared := func() []func(ov dom.OverlayDocument, ref *refOverlay, fail *[]string) (c06Step, bool) {
		src := map[string]any{"a": map[string]any{"x": 1}}
		c := anyToContainer(src)
		add := func(layer string) func(ov dom.OverlayDocument, ref *refOverlay, fail *[]string) (c06Step, bool) {
			return func(ov dom.OverlayDocument, ref *refOverlay, fail *[]string) (c06Step, bool) {
				ov.Add(layer, c)
				m := ref.ensure(layer)
				for _, k := range sortedKeys(src) {
					padd(m, parseComp(k), deepCopy(src[k]))
				}
				return c06Step{desc: "Add(" + layer + ", shared)", coq: "OAdd " + gStr(layer) + " " + gNode(src), obs: gObsState(ov)}, true
			}
		}
		return []func(ov dom.OverlayDocument, ref *refOverlay, fail *[]string) (c06Step, bool){
			add("l1"), add("l2"), put("l1", "a.x", 2), lookup("l2", "a.x"), lookup("l1", "a.x"),
		}
	}
	register(&Prop{
		ID:   "C06",
		Rule: "histories of 1-30 overlay operations over 3 layer names and a pool of path-safe paths (indices 0-4, chains to depth 2): Put (leaf / list / container incl. leafless containers), Add (one source container sometimes added to two layers), Populate (root or path), interleaved with Lookup(layer), LookupAny, Search, Walk (complete and with an early stop), Merged(default / append) + Serialize; writes that would descend through an existing scalar or list are skipped (outside the property); values carry no nulls. After every write: LayerNames() and Layers() vs the Coq model; reads vs the model; Go side: per-layer plain reference, first-write order, first-hit, fold of the reference merge, Layers() snapshots re-read after all later writes, OverlayDocs(ov,ov) empty. Non-trivial: >= 2 layers written. Distinct by Gallina term. After every write the slice returned by LayerNames() is reordered and overwritten by the caller. A quarter of the Populate steps also populate, on an overlay of its own, a map whose lists hold null items. The separate overlay also gets a container Put at the root path. Every Populate step also populates, on an overlay of its own, numbers of every sized and unsigned Go kind (up to the largest uint64) in members and list items, at the root and under a path, and reads each back with its kind and value.",
		Corpus: func() []Case {
			s := shared()
			return []Case{
				c06History(nil, len(s), s),
				c06History(nil, 3, []func(ov dom.OverlayDocument, ref *refOverlay, fail *[]string) (c06Step, bool){
					put("ghost", "p", map[string]any{"e": map[string]any{}}), put("real", "p.q", 1), put("ghost", "p.q", 2)}),
			}
		},
		Gen: func(r *rand.Rand, tier string, idx int) Case {
			return c06History(r, 1+r.Intn(30), nil)
		},
	})
}

// c06TypedPopulate: numbers of every Go kind written through Populate are read back as the very values written
// (kind and value), inside maps and lists, at the root and under a path.
func c06TypedPopulate(r *rand.Rand) []string {
	var fail []string
	vals := []any{int64(5), int32(-3), int16(300), int8(-8), uint(9), uint8(7), uint16(65535), uint32(4000000000),
		uint64(18446744073709551615), uint64(1) << 63, float32(1.5), int64(-9223372036854775808), 2.5, 3, "s", true}
	r.Shuffle(len(vals), func(i, j int) { vals[i], vals[j] = vals[j], vals[i] })
	vals = vals[:4+r.Intn(5)]
	pm := map[string]any{"l": []any{}}
	for i, v := range vals {
		pm[fmt.Sprintf("k%d", i)] = v
		pm["l"] = append(pm["l"].([]any), v)
	}
	path := []string{"", "a", "a.b"}[r.Intn(3)]
	ov := dom.NewOverlayDocument()
	ov.Populate("t", path, &pm)
	pre := path
	if pre != "" {
		pre += "."
	}
	for i, v := range vals {
		for _, q := range []string{fmt.Sprintf("%sk%d", pre, i), fmt.Sprintf("%sl[%d]", pre, i)} {
			n := ov.Lookup("t", q)
			if n == nil || !n.IsLeaf() {
				fail = append(fail, fmt.Sprintf("after Populate of %T(%v), Lookup(%s) finds no leaf", v, v, q))
				continue
			}
			if got := n.(dom.Leaf).Value(); !reflect.DeepEqual(got, v) {
				fail = append(fail, fmt.Sprintf("after Populate of %T(%v), Lookup(%s) reads %T(%v)", v, v, q, got, got))
			}
			if m := ov.LookupAny(q); m == nil || !m.IsLeaf() || !reflect.DeepEqual(m.(dom.Leaf).Value(), v) {
				fail = append(fail, fmt.Sprintf("after Populate of %T(%v), LookupAny(%s) does not read it back", v, v, q))
			}
		}
	}
	return fail
}
