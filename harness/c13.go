package main

import (
	"bytes"
	"encoding/base64"
	"encoding/json"
	"fmt"
	"math"
	"math/rand"
	"os"
	"path/filepath"
	"reflect"
	"regexp"
	"sort"
	"strconv"
	"strings"

	"github.com/rkosegi/yaml-toolkit/dom"
	"github.com/rkosegi/yaml-toolkit/pipeline"
	"github.com/rkosegi/yaml-toolkit/props"
	"gopkg.in/yaml.v3"
)

func c13Dir() string {
	d := procTmp("c13")
	_ = os.MkdirAll(d, 0o755)
	return d
}

func c13Opts() genOpts {
	o := defaultOpts()
	o.keys = c03Keys
	o.maxDepth = 3
	o.floats = false
	return o
}

// target paths: absent / leaf / container / list item
func c13TargetPath(r *rand.Rand, data map[string]any) string {
	switch r.Intn(5) {
	case 0:
		return ""
	case 1:
		return genPathStr(r)
	default:
		if p, ok := existingPath(r, data, false); ok {
			if r.Intn(3) == 0 {
				return p + "." + genCompStr(r)
			}
			return p
		}
		return genPathStr(r)
	}
}

func admissibleWrite(data map[string]any, path string) bool {
	if path == "" {
		return true
	}
	outOfDomain = false
	paddAt(deepCopy(data).(map[string]any), parsePPath(path), 1)
	return !outOfDomain
}

func nullSome(r *rand.Rand, v any) any {
	switch x := v.(type) {
	case map[string]any:
		for k, c := range x {
			if r.Intn(3) == 0 {
				x[k] = nil
			} else {
				x[k] = nullSome(r, c)
			}
		}
		return x
	case []any:
		for i, c := range x {
			if r.Intn(3) == 0 {
				x[i] = nil
			} else {
				x[i] = nullSome(r, c)
			}
		}
		return x
	}
	return v
}

func c13Set(r *rand.Rand) Case {
	mergeElsewhereWithOptions()
	o := c13Opts()
	data := genDoc(r, o)
	payload := genDoc(r, o)
	path := c13TargetPath(r, data)
	for i := 0; i < 5 && !admissibleWrite(data, path); i++ {
		path = genPathStr(r)
	}
	if !admissibleWrite(data, path) {
		path = ""
	}
	// a member whose NAME is the whole dotted path, next to the nested location the path addresses: a path is read
	// component by component, never as one name
	if strings.Contains(path, ".") && !strings.Contains(path, "[") && r.Intn(4) == 0 {
		data[path] = []any{map[string]any{"lit": 1, "m": map[string]any{"n": "named with dots"}}, "named with dots"}[r.Intn(2)]
	}
	// a payload that mirrors what is already there, some of its members explicitly null (a null carries
	// no value: under merge the existing member stays)
	if r.Intn(3) == 0 {
		var tgt any = data
		if path != "" {
			tgt, _ = plookup(data, parsePPath(path))
		}
		if tm, ok := tgt.(map[string]any); ok && len(tm) > 0 {
			payload = nullSome(r, deepCopy(tm)).(map[string]any)
		}
	}
	// root-level writes go through AddValueAt(k, v) per payload key under replace and through AddValue(k, v) under
	// merge: a payload member whose name has a dot is a path in the first case and a name in the second
	if path == "" && r.Intn(5) == 0 {
		payload["zz.dot"] = []any{true, "v", 7}[r.Intn(3)]
	}
	strat := []string{"", "merge", "replace", "bogus"}[r.Intn(10)%4]
	if r.Intn(10) < 7 {
		strat = []string{"", "merge", "replace"}[r.Intn(3)]
	}
	op := &pipeline.SetOp{Data: payload, Path: path}
	noData := r.Intn(15) == 0
	if noData {
		op.Data = nil
	}
	if strat != "" {
		s := pipeline.SetStrategy(strat)
		op.Strategy = &s
	}
	d := anyToContainer(data)
	before := nodeToAny(d)
	var err error
	var fail []string
	pn := guard(func() { err = pipeline.New(pipeline.WithData(d)).Execute(op) })
	if pn != "" {
		fail = append(fail, "panic in SetOp: "+pn)
	}
	after := nodeToAny(d)
	if err != nil && !reflect.DeepEqual(after, before) {
		fail = append(fail, "failing set changed the data")
	}
	// frame: top-level keys other than the first component of the path (or the payload keys at the root)
	if err == nil {
		touched := map[string]bool{}
		if path != "" {
			touched[parsePPath(path)[0].key] = true
		} else {
			for k := range payload {
				touched[parseComp(k).key] = true
			}
		}
		for k, v := range before.(map[string]any) {
			if !touched[k] && !reflect.DeepEqual(after.(map[string]any)[k], v) {
				fail = append(fail, "set changed data outside its target: "+k)
			}
		}
	}
	cstrat := map[string]string{"": "SUnset", "merge": "SMerge", "replace": "SReplace"}[strat]
	if cstrat == "" {
		cstrat = "SUnknown"
	}
	pl := "(Some " + gData(payload) + ")"
	if noData {
		pl = "None"
	}
	obs := "None"
	if err == nil {
		obs = "(Some " + gNode(after) + ")"
	}
	_, tk := plookup(data, parsePPathOrRoot(path))
	return Case{Kind: "set", Desc: map[string]any{"data": data, "payload": payload, "path": path, "strategy": strat, "error": err != nil, "after": after},
		Coq: "CSet " + cstrat + " " + gStr(path) + " " + pl + " " + gNode(data) + " " + obs, Fail: fail, Nontrivial: tk && path != ""}
}

func parsePPathOrRoot(p string) []pcomp {
	if p == "" {
		return []pcomp{{key: "\x00none"}}
	}
	return parsePPath(p)
}

func c13Template(r *rand.Rand) Case {
	data := map[string]any{"name": "n", "port": 80, "flag": true, "nested": map[string]any{"x": 1}}
	parts := []tpart{}
	for i, n := 0, 1+r.Intn(3); i < n; i++ {
		if r.Intn(2) == 0 {
			parts = append(parts, tpart{Lit: []string{"a", " b ", "x=", "-"}[r.Intn(4)]})
		} else {
			parts = append(parts, tpart{Var: []string{"name", "port", "flag", "missing"}[r.Intn(4)]})
		}
	}
	path := []string{"out", "nested.y", "l[1]", "name"}[r.Intn(4)]
	op := &pipeline.TemplateOp{Template: tmplString(parts), Path: path}
	d := anyToContainer(data)
	var err error
	var fail []string
	if pn := guard(func() { err = pipeline.New(pipeline.WithData(d)).Execute(op) }); pn != "" {
		fail = append(fail, "panic in TemplateOp: "+pn)
	}
	if err != nil {
		fail = append(fail, "template op failed: "+err.Error())
	}
	after := nodeToAny(d)
	for k, v := range data {
		if k != parsePPath(path)[0].key && !reflect.DeepEqual(after.(map[string]any)[k], v) {
			fail = append(fail, "template changed data outside its target: "+k)
		}
	}
	return Case{Kind: "template", Desc: map[string]any{"template": op.Template, "path": path, "after": after},
		Coq: "CTemplate " + gTmpl(parts) + " " + gStr(path) + " " + gNode(data) + " " + gNode(after), Fail: fail, Nontrivial: len(parts) >= 2}
}

// the YAML node decoder keeps every scalar as its source text: compare structure and scalar text
func strScalars(v any) any {
	switch x := v.(type) {
	case map[string]any:
		m := map[string]any{}
		for k, c := range x {
			m[k] = strScalars(c)
		}
		return m
	case []any:
		l := make([]any, len(x))
		for i, c := range x {
			l[i] = strScalars(c)
		}
		return l
	default:
		return fmt.Sprint(v)
	}
}

// template with parseAs yaml (Go side only: the YAML parser is external)
func c13TemplateYaml(r *rand.Rand) Case {
	d := anyToContainer(map[string]any{"a": "1", "b": "x"})
	y := pipeline.ParseTextAsYaml
	op := &pipeline.TemplateOp{Template: "[{{ .a }}, {{ .b }}, {k: v}]", Path: "out", ParseAs: &y}
	var err error
	var fail []string
	if pn := guard(func() { err = pipeline.New(pipeline.WithData(d)).Execute(op) }); pn != "" || err != nil {
		fail = append(fail, fmt.Sprintf("template(yaml) failed: %v %s", err, pn))
	}
	got := nodeToAny(d).(map[string]any)["out"]
	want := []any{"1", "x", map[string]any{"k": "v"}}
	if !reflect.DeepEqual(got, want) {
		fail = append(fail, fmt.Sprintf("template parseAs yaml stored %v, expected the YAML parse %v", got, want))
	}
	// a failing template still reports the error
	bad := &pipeline.TemplateOp{Template: "{{ .a | nosuchfunc }}", Path: "out2"}
	var err2 error
	_ = guard(func() { err2 = pipeline.New(pipeline.WithData(d)).Execute(bad) })
	if err2 == nil {
		fail = append(fail, "template with a failing action returned no error")
	}
	// ... also when the result was to be parsed as YAML, and the document stays a document
	badY := &pipeline.TemplateOp{Template: "{{ .a | nosuchfunc }}", Path: "out3", ParseAs: &y}
	var err4 error
	if pn := guard(func() { err4 = pipeline.New(pipeline.WithData(d)).Execute(badY) }); pn != "" {
		fail = append(fail, "panic in a template(parseAs yaml) operation whose template fails: "+pn)
	}
	if err4 == nil {
		fail = append(fail, "template(parseAs yaml) with a failing action returned no error")
	}
	if pn := guard(func() { _ = d.AsMap(); _ = d.Flatten() }); pn != "" {
		fail = append(fail, "after a template(parseAs yaml) operation whose template fails the document cannot be read any more: "+pn)
	}
	// trim: whitespace around the rendered text is removed BEFORE it is stored or parsed
	tv := []struct {
		tmpl string
		trim bool
		yaml bool
	}{
		{"  a: {{ .a }}\nb: {{ .b }}\n", true, true},
		{"\n\n  k: [{{ .a }}, 2]\nz: {{ .b }}  \n\t", true, true},
		{"\t{{ .b }}: 1\n", true, true},
		{"  {{ .a }} and {{ .b }} \n", true, false},
		{"  {{ .a }} and {{ .b }} \n", false, false},
		{"a: {{ .a }}\n", false, true},
		{"app.kubernetes.io/name: {{ .b }}\nlabels: {tier.v1: {{ .a }}, plain: 2}\nl: [{a.b: 1}]\n", false, true}, // member names are names, dots and all
		{"application.properties: {{ .a }}\n\"\": {{ .b }}\n", true, true},
	}[r.Intn(8)]
	{
		d2 := anyToContainer(map[string]any{"a": "1", "b": "x"})
		top := &pipeline.TemplateOp{Template: tv.tmpl, Path: "out", Trim: &tv.trim}
		if tv.yaml {
			top.ParseAs = &y
		}
		var err3 error
		if pn := guard(func() { err3 = pipeline.New(pipeline.WithData(d2)).Execute(top) }); pn != "" {
			fail = append(fail, "panic in TemplateOp(trim): "+pn)
		}
		text := strings.NewReplacer("{{ .a }}", "1", "{{ .b }}", "x").Replace(tv.tmpl)
		if tv.trim {
			text = strings.TrimSpace(text)
		}
		var want2 any = text
		wantErr := false
		if tv.yaml {
			var v any
			if e := yaml.Unmarshal([]byte(text), &v); e != nil {
				wantErr = true
			}
			want2 = strScalars(v)
		}
		got2 := nodeToAny(d2).(map[string]any)["out"]
		if wantErr != (err3 != nil) {
			fail = append(fail, fmt.Sprintf("template(trim=%v,yaml=%v) %q: error=%v, expected error=%v", tv.trim, tv.yaml, tv.tmpl, err3, wantErr))
		} else if !wantErr && !reflect.DeepEqual(strScalars(got2), want2) {
			fail = append(fail, fmt.Sprintf("template(trim=%v,yaml=%v) %q stored %#v, expected %#v", tv.trim, tv.yaml, tv.tmpl, got2, want2))
		}
	}
	// rendered texts whose YAML parse is not a plain tree of scalars: an empty document (nothing, a comment, blanks), anchors
	// and aliases (an alias stands for a copy of the anchored node), an alias into its own anchor.  Whatever is stored, the
	// operation succeeds or fails cleanly and the data document stays readable.
	{
		av := []struct {
			tmpl string
			want any // nil: only "readable afterwards" is required
		}{
			{`{{ "" }}`, ""},
			{"# {{ .a }} only a comment\n", ""},
			{"  \n\t\n", ""},
			{"---\n", ""},
			{"a: &x {{ .a }}\nb: *x\n", map[string]any{"a": "1", "b": "1"}},
			{"base: &b {k: [{{ .b }}, 2]}\nuse: *b\nagain: *b\n", map[string]any{"base": map[string]any{"k": []any{"x", "2"}}, "use": map[string]any{"k": []any{"x", "2"}}, "again": map[string]any{"k": []any{"x", "2"}}}},
			{"l: [&i {{ .b }}, *i, [*i]]\n", map[string]any{"l": []any{"x", "x", []any{"x"}}}},
			{"&a [*a]\n", nil},
			{"x: &a {k: *a}\n", nil},
		}[r.Intn(9)]
		d3 := anyToContainer(map[string]any{"a": "1", "b": "x", "keep": map[string]any{"k": "v"}})
		trim := r.Intn(2) == 0
		top := &pipeline.TemplateOp{Template: av.tmpl, Path: "out", ParseAs: &y, Trim: &trim}
		var err5 error
		if pn := guard(func() { err5 = pipeline.New(pipeline.WithData(d3)).Execute(top) }); pn != "" {
			fail = append(fail, fmt.Sprintf("panic in template(parseAs yaml) %q: %s", av.tmpl, pn))
		}
		var m3 map[string]any
		if pn := guard(func() { m3 = d3.AsMap(); _ = d3.Flatten(); _ = d3.Clone() }); pn != "" {
			fail = append(fail, fmt.Sprintf("after template(parseAs yaml) %q (err=%v) the data document cannot be read any more: %s", av.tmpl, err5, pn))
		} else if !reflect.DeepEqual(m3["keep"], map[string]any{"k": "v"}) || m3["a"] != "1" {
			fail = append(fail, fmt.Sprintf("template(parseAs yaml) %q changed data outside its path: %v", av.tmpl, m3))
		} else if av.want != nil && err5 == nil && !reflect.DeepEqual(strScalars(m3["out"]), av.want) {
			fail = append(fail, fmt.Sprintf("template(parseAs yaml) %q stored %#v, expected %#v", av.tmpl, m3["out"], av.want))
		} else if av.want != nil && err5 != nil {
			// (a text the YAML parser itself rejects — a tab where none may stand, when nothing was trimmed — is a clean failure)
			text := strings.NewReplacer("{{ .a }}", "1", "{{ .b }}", "x", `{{ "" }}`, "").Replace(av.tmpl)
			if trim {
				text = strings.TrimSpace(text)
			}
			var ctl any
			if yaml.Unmarshal([]byte(text), &ctl) == nil {
				fail = append(fail, fmt.Sprintf("template(parseAs yaml) %q failed: %v", av.tmpl, err5))
			}
		}
		// edits of one expansion of an alias do not show in another
		if mo, ok := m3["out"].(map[string]any); ok && err5 == nil && mo["use"] != nil {
			_ = guard(func() { d3.AddValueAt("out.use.k[0]", dom.LeafNode("edited")) })
			if m4 := d3.AsMap()["out"].(map[string]any); !reflect.DeepEqual(strScalars(m4["again"]), strScalars(mo["again"])) || !reflect.DeepEqual(strScalars(m4["base"]), strScalars(mo["base"])) {
				fail = append(fail, "two expansions of one YAML alias share a node: an edit below out.use shows below out.again / out.base")
			}
		}
	}
	return Case{Kind: "template-yaml", Desc: map[string]any{"stored": got, "variant": tv.tmpl, "trim": tv.trim, "yaml": tv.yaml}, Fail: fail, Nontrivial: true, Key: fmt.Sprint(r.Int())}
}

// the first list of a plain document in key order: its pointer and its length
func findListPath(v any, at []string) ([]string, int, bool) {
	switch x := v.(type) {
	case []any:
		return at, len(x), true
	case map[string]any:
		for _, k := range sortedKeys(x) {
			if p, n, ok := findListPath(x[k], append(append([]string{}, at...), k)); ok {
				return p, n, true
			}
		}
	}
	return nil, 0, false
}

func c13Patch(r *rand.Rand) Case {
	o := c13Opts()
	o.nulls = false
	if r.Intn(4) == 0 { // member names ending in the characters a pointer escapes
		o.keys = []string{"a", "v2/", "tmp~", "b", "~", "k1", "/"}
	} else if r.Intn(5) == 0 { // ... or holding letters outside ASCII
		o.keys = []string{"a", "straße", "größe", "名前", "k1", "é"}
	}
	data := genDoc(r, o)
	rp := c09GenOp(r, data, o)
	if lp, n, ok := findListPath(data, nil); ok && r.Intn(5) == 0 {
		// the position just past the end of a list (0 for an empty one) is where add / copy / move append
		rp.Path = append(append([]string{}, lp...), strconv.Itoa(n))
		if rp.Op == "remove" || rp.Op == "replace" || rp.Op == "test" {
			rp.Op, rp.HasVal, rp.Val = "add", true, genVal(r, o, 2, false)
		}
	}
	if r.Intn(8) == 0 { // a pointer ending in "/" addresses the member named "" (RFC 6901), not its parent
		rp.Path = append(append([]string{}, rp.Path...), "")
	} else if rp.HasFrom && r.Intn(8) == 0 {
		rp.From = append(append([]string{}, rp.From...), "")
	}
	ym := map[string]any{"op": rp.Op, "path": "/" + strings.Join(escPtr(rp.Path), "/")}
	if rp.HasFrom {
		ym["from"] = "/" + strings.Join(escPtr(rp.From), "/")
	}
	if rp.HasVal {
		ym["value"] = rp.Val
	}
	// valueFrom: "Only considered when Value is nil" — an immediate value always wins; alone, the
	// value is the node found at that path of the data
	vfMode := ""
	if needVal := rp.Op == "add" || rp.Op == "replace" || rp.Op == "test"; needVal && len(data) > 0 && r.Intn(3) == 0 {
		k := sortedKeys(data)[r.Intn(len(data))]
		vf := k
		src := data[k]
		if sm, ok := src.(map[string]any); ok && len(sm) > 0 && r.Intn(2) == 0 {
			k2 := sortedKeys(sm)[r.Intn(len(sm))]
			vf, src = k+"."+k2, sm[k2]
		}
		ym["valueFrom"] = vf
		if rp.HasVal && r.Intn(2) == 0 {
			vfMode = "both"
		} else {
			vfMode = "only"
			delete(ym, "value")
			rp.HasVal, rp.Val = true, deepCopy(src)
		}
	}
	bs, _ := yaml.Marshal(ym)
	var po pipeline.PatchOp
	if err := yaml.Unmarshal(bs, &po); err != nil {
		return Case{Kind: "patch", Desc: map[string]any{"yaml": string(bs)}, Fail: []string{"patch op does not decode: " + err.Error()}}
	}
	d := anyToContainer(data)
	before := nodeToAny(d)
	var err error
	var fail []string
	if pn := guard(func() { err = pipeline.New(pipeline.WithData(d)).Execute(&po) }); pn != "" {
		fail = append(fail, "panic in PatchOp: "+pn)
	}
	after := nodeToAny(d)
	if err != nil && !reflect.DeepEqual(before, after) {
		fail = append(fail, "failing patch op changed the data")
	}
	// the value inserted through valueFrom is a copy: writing into the source afterwards must show
	// at the source only
	if vfMode == "only" && err == nil && len(fail) == 0 {
		vf := ym["valueFrom"].(string)
		if srcl, ok := d.Lookup(vf).(dom.ListBuilder); ok {
			// a list source: write into its first container item
			for ii, it := range srcl.Items() {
				if itc, ok := it.(dom.ContainerBuilder); ok {
					expect := deepCopy(after).(map[string]any)
					if tgt, found := plookup(expect, parsePPath(vf)); found {
						if tl, isL := tgt.([]any); isL && ii < len(tl) {
							if tm, isMap := tl[ii].(map[string]any); isMap {
								tm["zz_probe"] = 1
								itc.AddValue("zz_probe", dom.LeafNode(1))
								if !reflect.DeepEqual(nodeToAny(d), any(expect)) {
									fail = append(fail, "an item of the list inserted through valueFrom is shared with the source list's item")
								}
								itc.Remove("zz_probe")
							}
						}
					}
					break
				}
			}
		}
		if src, ok := d.Lookup(vf).(dom.ContainerBuilder); ok {
			expect := deepCopy(after).(map[string]any)
			if tgt, found := plookup(expect, parsePPath(vf)); found {
				if tm, isMap := tgt.(map[string]any); isMap {
					tm["zz_probe"] = 1
					src.AddValue("zz_probe", dom.LeafNode(1))
					if !reflect.DeepEqual(nodeToAny(d), any(expect)) {
						fail = append(fail, "the node inserted through valueFrom is shared with its source: a write to the source showed elsewhere too")
					}
					src.Remove("zz_probe")
				}
			}
		}
	}
	// an operation object may be executed more than once (loops clone it with the same value): what it
	// inserts is a copy of its value every time
	if vfMode == "" && err == nil && len(fail) == 0 && (rp.Op == "add" || rp.Op == "replace") && po.Value != nil {
		if _, composite := rp.Val.(map[string]any); composite {
			po2 := po
			po2.Op, po2.Path = "add", "/zz_second"
			if e2 := pipeline.New(pipeline.WithData(d)).Execute(&po2); e2 == nil {
				expect := deepCopy(nodeToAny(d)).(map[string]any)
				if second, ok := d.Child("zz_second").(dom.ContainerBuilder); ok {
					second.AddValue("zz_probe", dom.LeafNode(1))
					if em, ok := expect["zz_second"].(map[string]any); ok {
						em["zz_probe"] = 1
					}
					if !reflect.DeepEqual(nodeToAny(d), any(expect)) {
						fail = append(fail, "two executions of one patch operation inserted ONE shared node: a write below the second location showed at the first")
					}
				}
				d.Remove("zz_second")
			}
		}
	}
	val := "None"
	if vfMode == "only" {
		val = "(Some " + gNode(rp.Val) + ")" // the document's own node at valueFrom, taken from the plain input
	} else if po.Value != nil && po.Value.Value() != nil {
		val = "(Some " + gNode(nodeToAny(po.Value.Value())) + ")"
	}
	kind := map[string]string{"add": "KAdd", "remove": "KRemove", "replace": "KReplace", "move": "KMove", "copy": "KCopy", "test": "KTest"}[rp.Op]
	from := ""
	if rp.HasFrom {
		from = ym["from"].(string)
	}
	return Case{Kind: "patch", Desc: map[string]any{"data": data, "op": ym, "error": err != nil, "after": after, "valueFrom": vfMode},
		Coq:  "CPatch " + kind + " " + gStr(ym["path"].(string)) + " " + gStr(from) + " " + val + " " + gNode(data) + " " + gNode(after) + " " + gBool(err == nil),
		Fail: fail, Nontrivial: err == nil}
}

func escPtr(toks []string) []string {
	out := make([]string, len(toks))
	for i, t := range toks {
		out[i] = strings.ReplaceAll(strings.ReplaceAll(t, "~", "~0"), "/", "~1")
	}
	return out
}

// files larger than a mebibyte: every byte arrives (text, base64) and a long YAML document arrives whole
func c13BigImport(r *rand.Rand, idx int) Case {
	size := []int{1 << 20, 1<<20 + 1, 1<<20 + 4096 + r.Intn(5000), 3 << 20}[r.Intn(4)]
	var fail []string
	content := make([]byte, size)
	for i := range content {
		content[i] = "abcdefgh \n"[(i*7+i/251)%10]
	}
	copy(content[size-8:], "THE-END.")
	file := filepath.Join(c13Dir(), fmt.Sprintf("big%d.bin", idx))
	defer os.Remove(file)
	for _, mode := range []string{"text", "binary"} {
		_ = os.WriteFile(file, content, 0o644)
		d := anyToContainer(map[string]any{"keep": 1})
		var err error
		if pn := guard(func() {
			err = pipeline.New(pipeline.WithData(d)).Execute(&pipeline.ImportOp{File: file, Path: "big", Mode: pipeline.ParseFileMode(mode)})
		}); pn != "" || err != nil {
			fail = append(fail, fmt.Sprintf("import(%s) of a %d-byte file: err=%v panic=%q", mode, size, err, pn))
			continue
		}
		want := string(content)
		if mode == "binary" {
			want = base64.StdEncoding.EncodeToString(content)
		}
		n := d.Lookup("big")
		if n == nil || !n.IsLeaf() {
			fail = append(fail, fmt.Sprintf("import(%s) of a %d-byte file stored no leaf", mode, size))
		} else if s, _ := n.(dom.Leaf).Value().(string); s != want {
			fail = append(fail, fmt.Sprintf("import(%s) of a %d-byte file stored %d bytes, expected %d", mode, size, len(s), len(want)))
		}
	}
	// a YAML (and JSON) document of more than a mebibyte: a list of records
	var sb strings.Builder
	recs := 0
	sb.WriteString("hosts:\n")
	for sb.Len() < size+100 {
		fmt.Fprintf(&sb, "- {name: host%06d, port: %d, note: \"%s\"}\n", recs, 1000+recs%50000, strings.Repeat("n", 40))
		recs++
	}
	_ = os.WriteFile(file, []byte(sb.String()), 0o644)
	d := anyToContainer(map[string]any{"keep": 1})
	var err error
	if pn := guard(func() {
		err = pipeline.New(pipeline.WithData(d)).Execute(&pipeline.ImportOp{File: file, Path: "inv", Mode: pipeline.ParseFileModeYaml})
	}); pn != "" || err != nil {
		fail = append(fail, fmt.Sprintf("import(yaml) of a %d-byte document: err=%v panic=%q", sb.Len(), err, pn))
	} else if l := d.Lookup("inv.hosts"); l == nil || !l.IsList() || l.(dom.List).Size() != recs {
		fail = append(fail, fmt.Sprintf("import(yaml) of a list of %d records (%d bytes) did not store %d items", recs, sb.Len(), recs))
	} else if last := d.Lookup(fmt.Sprintf("inv.hosts[%d].name", recs-1)); last == nil || !last.IsLeaf() || last.(dom.Leaf).Value() != fmt.Sprintf("host%06d", recs-1) {
		fail = append(fail, "import(yaml) of a long list: the last record is not the file's last record")
	}
	return Case{Kind: "import-big", Desc: map[string]any{"bytes": size, "records": recs}, Fail: fail, Nontrivial: true, Key: fmt.Sprint("big", idx)}
}

func c13Import(r *rand.Rand, idx int) Case {
	if idx%200 == 5 {
		return c13BigImport(r, idx)
	}
	o := c13Opts()
	data := genDoc(r, o)
	n := []int{0, 1, 2, 3, 10, 40}[r.Intn(6)]
	content := make([]byte, n)
	for i := range content {
		if r.Intn(4) == 0 {
			content[i] = byte(r.Intn(256))
		} else {
			content[i] = "abc \n\t{}:#é"[r.Intn(11)]
		}
	}
	if r.Intn(5) == 0 { // content that begins like a byte order mark (or is nothing else) is content
		content = append([]byte{0xEF, 0xBB, 0xBF}, content...)
		if r.Intn(3) == 0 {
			content = append([]byte{0xEF, 0xBB, 0xBF}, content...)
		}
	}
	mode := []string{"text", "binary", "", "bogus"}[r.Intn(10)%4]
	if r.Intn(10) < 8 {
		mode = []string{"text", "binary", ""}[r.Intn(3)]
	}
	path := c13TargetPath(r, data)
	for i := 0; i < 5 && !admissibleWrite(data, path); i++ {
		path = genPathStr(r)
	}
	if !admissibleWrite(data, path) {
		path = "imp"
	}
	file := filepath.Join(c13Dir(), fmt.Sprintf("imp%d.bin", idx))
	_ = os.WriteFile(file, content, 0o644)
	defer os.Remove(file)
	op := &pipeline.ImportOp{File: file, Path: path, Mode: pipeline.ParseFileMode(mode)}
	d := anyToContainer(data)
	var err error
	var fail []string
	if pn := guard(func() { err = pipeline.New(pipeline.WithData(d)).Execute(op) }); pn != "" {
		fail = append(fail, "panic in ImportOp: "+pn)
	}
	after := nodeToAny(d)
	if err == nil && path != "" {
		if n := d.Lookup(path); n != nil && n.IsLeaf() {
			s, _ := n.(dom.Leaf).Value().(string)
			switch mode {
			case "binary":
				if s != base64.StdEncoding.EncodeToString(content) {
					fail = append(fail, "binary import is not the standard base64 of the file")
				}
			default:
				if s != string(content) {
					fail = append(fail, "text import is not exactly the file content")
				}
			}
		} else {
			fail = append(fail, "imported value not found at the path")
		}
	}
	cm := map[string]string{"text": "IText", "binary": "IBinary", "": "IDefault"}[mode]
	if cm == "" {
		cm = "IBad"
	}
	return Case{Kind: "import", Desc: map[string]any{"mode": mode, "path": path, "bytes": len(content), "error": err != nil},
		Coq:  "CImport " + cm + " " + gStr(path) + " " + gStr(string(content)) + " " + gNode(data) + " " + gNode(after) + " " + gBool(err == nil),
		Fail: fail, Nontrivial: n > 0 && mode == "binary"}
}

func jsonNorm(v any) any {
	switch x := v.(type) {
	case map[string]any:
		m := map[string]any{}
		for k, c := range x {
			m[k] = jsonNorm(c)
		}
		return m
	case []any:
		l := make([]any, len(x))
		for i, c := range x {
			l[i] = jsonNorm(c)
		}
		return l
	case json.Number:
		if i, err := x.Int64(); err == nil {
			return int(i)
		}
		f, _ := x.Float64()
		return f
	case float64:
		if x == float64(int(x)) {
			return int(x)
		}
		return x
	default:
		return v
	}
}

// a subtree the chosen format cannot spell (JSON has no infinity): the encoder's refusal is the operation's error — a caller
// told "exported" finds a file that imports to an equal subtree
func c13ExportUnencodable(r *rand.Rand, idx int) Case {
	file := filepath.Join(c13Dir(), fmt.Sprintf("inf%d.json", idx))
	defer os.Remove(file)
	if r.Intn(2) == 0 {
		_ = os.WriteFile(file, []byte("{\"left\": \"over\"}\n"), 0o644)
	}
	d := anyToContainer(map[string]any{"sub": map[string]any{"ok": "v"}, "other": 1})
	d.AddValueAt("sub.limit", dom.LeafNode(math.Inf(1-2*r.Intn(2))))
	var err error
	var fail []string
	if pn := guard(func() {
		err = pipeline.New(pipeline.WithData(d)).Execute(&pipeline.ExportOp{File: &pipeline.ValOrRef{Val: file}, Path: &pipeline.ValOrRef{Val: "sub"}, Format: pipeline.OutputFormatJson})
	}); pn != "" {
		fail = append(fail, "panic in ExportOp: "+pn)
	}
	if err == nil {
		var back map[string]any
		bs, _ := os.ReadFile(file)
		if json.Unmarshal(bs, &back) != nil || back["ok"] != "v" || back["limit"] == nil {
			fail = append(fail, fmt.Sprintf("export of a subtree holding an infinity as JSON reported success; the file holds %q", string(bs)))
		}
	}
	return Case{Kind: "export", Desc: map[string]any{"unencodable": "json infinity", "err": fmt.Sprint(err)}, Fail: fail, Nontrivial: true, Key: fmt.Sprint("inf", idx)}
}

func c13Export(r *rand.Rand, idx int) Case {
	if idx%50 == 6 {
		return c13ExportUnencodable(r, idx)
	}
	o := c13Opts()
	o.nulls = false
	data := genDoc(r, o)
	data["flat"] = map[string]any{"p": "1", "q": "two"}
	format := []string{"yaml", "json", "properties", "text", "bogus"}[r.Intn(5)]
	var pathp *string
	switch r.Intn(6) {
	case 0: // whole document
	case 1:
		p := "does.not.exist"
		pathp = &p
	default:
		if p, ok := existingPath(r, data, false); ok {
			pathp = &p
		} else {
			p := "flat"
			pathp = &p
		}
	}
	if format == "properties" { // only flat string containers survive the k=v syntax
		p := []string{"flat", "flat.p", "nope", "flat"}[r.Intn(4)]
		pathp = &p
	}
	if pathp != nil && strings.Contains(*pathp, ".") && !strings.Contains(*pathp, "[") && r.Intn(4) == 0 {
		data[*pathp] = []any{map[string]any{"lit": "1", "m": "named with dots"}, "named with dots"}[r.Intn(2)] // (a member NAMED like the path)
	}
	file := filepath.Join(c13Dir(), fmt.Sprintf("exp%d.out", idx))
	_ = os.Remove(file)
	defer os.Remove(file)
	// half of the time the target already exists with longer, unrelated content: export replaces it
	stale := ""
	if r.Intn(2) == 0 {
		stale = strings.Repeat("stale: [\"left over from an earlier, longer export\", 1, 2, 3]\n", 30)
		_ = os.WriteFile(file, []byte(stale), 0o644)
	}
	// file and path are given immediately or as references to leaves of the data; the op runs
	// directly or as the body of a forEach (which executes a clone of it per item)
	via := r.Intn(4)
	mkVal := func(imm, ref string) *pipeline.ValOrRef {
		if via%2 == 1 {
			var v pipeline.ValOrRef
			if yaml.Unmarshal([]byte("{ref: "+ref+"}"), &v) == nil {
				return &v
			}
		}
		return &pipeline.ValOrRef{Val: imm}
	}
	if via%2 == 1 {
		refs := map[string]any{"file": file}
		if pathp != nil {
			refs["path"] = *pathp
		}
		data["refs"] = refs
	}
	op := &pipeline.ExportOp{File: mkVal(file, "refs.file"), Format: pipeline.OutputFormat(format)}
	if pathp != nil {
		op.Path = mkVal(*pathp, "refs.path")
	}
	var act pipeline.Action = op
	if via >= 2 && pathp != nil { // (a whole-document export from inside a forEach would contain the loop variable)
		body := pipeline.ActionSpec{}
		body.Operations.Export = op
		act = &pipeline.ForEachOp{Item: &pipeline.ValOrRefSlice{&pipeline.ValOrRef{Val: "one"}}, Action: body}
	}
	d := anyToContainer(data)
	var err error
	var fail []string
	ex := pipeline.New(pipeline.WithData(d))
	if pn := guard(func() { err = ex.Execute(act) }); pn != "" {
		fail = append(fail, "Export failed abruptly (panic): "+pn)
	}
	if !reflect.DeepEqual(nodeToAny(d), any(data)) {
		fail = append(fail, "export changed the data")
	}
	// the same operation object executed again after the referenced leaves have changed: references are
	// resolved at every execution (compared with a fresh operation given the new values immediately)
	if via%2 == 1 && err == nil && pathp != nil && format != "bogus" {
		file2, file3 := file+".second", file+".fresh"
		defer os.Remove(file2)
		defer os.Remove(file3)
		if pn := guard(func() {
			d.AddValueAt("refs.file", dom.LeafNode(file2))
			d.AddValueAt("refs.path", dom.LeafNode("flat"))
			e2 := ex.Execute(act)
			e3 := ex.Execute(&pipeline.ExportOp{File: &pipeline.ValOrRef{Val: file3}, Path: &pipeline.ValOrRef{Val: "flat"}, Format: pipeline.OutputFormat(format)})
			b2, r2 := os.ReadFile(file2)
			b3, r3 := os.ReadFile(file3)
			if format == "properties" { // the k=v lines come in map order
				norm := func(b []byte) []byte {
					ls := strings.Split(string(b), "\n")
					sort.Strings(ls)
					return []byte(strings.Join(ls, "\n"))
				}
				b2, b3 = norm(b2), norm(b3)
			}
			if (e2 == nil) != (e3 == nil) || (r2 == nil) != (r3 == nil) || !bytes.Equal(b2, b3) {
				fail = append(fail, fmt.Sprintf("second execution of one export operation after its referenced file/path leaves changed: err=%v file=%q; a fresh operation with those values: err=%v file=%q", e2, b2, e3, b3))
			}
			d.AddValueAt("refs.file", dom.LeafNode(file))
			d.AddValueAt("refs.path", dom.LeafNode(*pathp))
		}); pn != "" {
			fail = append(fail, "panic in a second export: "+pn)
		}
	}
	content, rerr := os.ReadFile(file)
	if stale != "" && rerr == nil && err != nil && string(content) == stale {
		rerr = os.ErrNotExist // failed before touching the file: same observation as "no file written"
	}
	if stale != "" && err == nil && strings.Contains(string(content), "left over from") {
		fail = append(fail, "export into an existing file left old content behind")
	}
	obs := ""
	switch {
	case err != nil && rerr != nil:
		obs = "WErr"
	case err != nil:
		obs = "WErrAfterOpen"
	case format == "text":
		obs = "(WText " + gStr(string(content)) + ")"
	default:
		back := map[string]any{}
		var derr error
		switch format {
		case "yaml":
			derr = yaml.Unmarshal(content, &back)
		case "json":
			jd := json.NewDecoder(bytes.NewReader(content))
			jd.UseNumber()
			derr = jd.Decode(&back)
			back, _ = jsonNorm(back).(map[string]any)
		default:
			derr = props.DecoderFn(bytes.NewReader(content), &back)
		}
		if derr != nil {
			fail = append(fail, "exported file does not decode: "+derr.Error())
		}
		if back == nil {
			back = map[string]any{}
		}
		obs = "(WDoc " + gNode(normGeneric(back)) + ")"
	}
	cf := map[string]string{"yaml": "FYaml", "json": "FJson", "properties": "FProps", "text": "FText"}[format]
	if cf == "" {
		cf = "FUnknown"
	}
	cp := "None"
	if pathp != nil {
		cp = "(Some " + gStr(*pathp) + ")"
	}
	var tk any
	if pathp != nil {
		tk, _ = plookup(data, parsePPath(*pathp))
	}
	return Case{Kind: "export", Desc: map[string]any{"format": format, "path": pathp, "error": err != nil, "file": string(content)},
		Coq: "CExport " + cf + " " + cp + " " + gNode(data) + " " + obs, Fail: fail, Nontrivial: pathp != nil && kindOf(tk) != 2}
}

// export a subtree and import that file at another path: equal up to the codec's own normalisation
func c13RoundTrip(r *rand.Rand, idx int) Case {
	o := c13Opts()
	data := genDoc(r, o)
	sub := genDoc(r, o)
	data["src"] = sub
	// what the destination holds beforehand (nothing, a mapping with members of its own, a list, a leaf) is replaced
	switch r.Intn(4) {
	case 0:
		old := deepCopy(sub).(map[string]any)
		old["only-in-the-old-value"] = map[string]any{"stale": true}
		old["old-list"] = []any{1, 2, 3, 4}
		data["dst"] = map[string]any{"copy": old, "sibling": "kept"}
	case 1:
		data["dst"] = map[string]any{"copy": []any{"old", "list"}}
	case 2:
		data["dst"] = map[string]any{"copy": "old leaf"}
	}
	format := []string{"yaml", "json"}[r.Intn(2)]
	file := filepath.Join(c13Dir(), fmt.Sprintf("rt%d.%s", idx, format))
	defer os.Remove(file)
	d := anyToContainer(data)
	ex := pipeline.New(pipeline.WithData(d))
	var fail []string
	pn := guard(func() {
		if err := ex.Execute(&pipeline.ExportOp{File: &pipeline.ValOrRef{Val: file}, Path: &pipeline.ValOrRef{Val: "src"}, Format: pipeline.OutputFormat(format)}); err != nil {
			fail = append(fail, "export failed: "+err.Error())
			return
		}
		if err := ex.Execute(&pipeline.ImportOp{File: file, Path: "dst.copy", Mode: pipeline.ParseFileMode(format)}); err != nil {
			fail = append(fail, "import failed: "+err.Error())
		}
	})
	if pn != "" {
		fail = append(fail, "panic: "+pn)
	}
	if len(fail) == 0 {
		got, _ := plookup(nodeToAny(d).(map[string]any), parsePPath("dst.copy"))
		// control: the bare codec round trip of the subtree
		var ctl map[string]any
		var b bytes.Buffer
		if format == "yaml" {
			_ = dom.DefaultYamlEncoder(&b, sub)
			_ = yaml.Unmarshal(b.Bytes(), &ctl)
		} else {
			_ = dom.DefaultJsonEncoder(&b, sub)
			_ = json.Unmarshal(b.Bytes(), &ctl)
		}
		if ctl == nil {
			ctl = map[string]any{}
		}
		if !reflect.DeepEqual(normGeneric(got), normGeneric(ctl)) {
			fail = append(fail, "Import(Export(subtree)) differs from the subtree (up to the codec's normalisation)")
		}
		if !reflect.DeepEqual(nodeToAny(d).(map[string]any)["src"], any(sub)) {
			fail = append(fail, "export/import disturbed the exported subtree")
		}
	}
	return Case{Kind: "roundtrip", Desc: map[string]any{"format": format, "subtree": sub}, Fail: fail, Nontrivial: sizeOf(sub) > 2, Key: fmt.Sprint(format, sub)}
}

func c13Env(r *rand.Rand, idx int) Case {
	pfx := fmt.Sprintf("YTC13X%d_", idx)
	vars := map[string]string{}
	for i, n := 0, 1+r.Intn(5); i < n; i++ {
		vars[pfx+[]string{"A", "AB", "B", "ABC", "C1"}[r.Intn(5)]] = []string{"v", "", "x=y", "é"}[r.Intn(4)]
	}
	for k, v := range vars {
		os.Setenv(k, v)
	}
	defer func() {
		for k := range vars {
			os.Unsetenv(k)
		}
	}()
	incl := pfx + []string{"", "A", "B"}[r.Intn(3)]
	var excl *string
	if r.Intn(2) == 0 {
		e := pfx + []string{"AB", "C", "A"}[r.Intn(3)]
		excl = &e
	}
	path := []string{"", "cfg", "a.b"}[r.Intn(3)]
	data := map[string]any{"keep": 1}
	op := &pipeline.EnvOp{Include: regexp.MustCompile("^" + regexp.QuoteMeta(incl)), Path: path}
	if excl != nil {
		op.Exclude = regexp.MustCompile("^" + regexp.QuoteMeta(*excl))
	}
	d := anyToContainer(data)
	var err error
	var fail []string
	if pn := guard(func() { err = pipeline.New(pipeline.WithData(d)).Execute(op) }); pn != "" || err != nil {
		fail = append(fail, fmt.Sprintf("env op failed: %v %s", err, pn))
	}
	after := nodeToAny(d)
	// expected
	want := map[string]any{}
	for k, v := range vars {
		if strings.HasPrefix(k, incl) && (excl == nil || !strings.HasPrefix(k, *excl)) {
			want[k] = v
		}
	}
	envPath := "Env"
	if path != "" {
		envPath = path + ".Env"
	}
	got, _ := plookup(after.(map[string]any), parsePPath(envPath))
	gm, _ := got.(map[string]any)
	if gm == nil {
		gm = map[string]any{}
	}
	if !reflect.DeepEqual(gm, want) {
		fail = append(fail, fmt.Sprintf("env stored %v under %s, expected exactly %v", gm, envPath, want))
	}
	// the selection is by variable NAME, whatever the pattern's anchoring and whatever the values spell:
	// two more variables whose values mention the names, an unanchored and an end-anchored pattern
	{
		mention := pfx + "ZV"
		os.Setenv(mention, "-D"+pfx+"A=on "+pfx+"Q")
		os.Setenv(pfx+"Q", "plain")
		defer os.Unsetenv(mention)
		defer os.Unsetenv(pfx + "Q")
		all := map[string]string{mention: "-D" + pfx + "A=on " + pfx + "Q", pfx + "Q": "plain"}
		for k, v := range vars {
			all[k] = v
		}
		type pat struct {
			incl, excl string
			keep       func(name string) bool
		}
		pats := []pat{
			{regexp.QuoteMeta(pfx) + "A", "", func(n string) bool { return strings.Contains(n, pfx+"A") }},
			{regexp.QuoteMeta(pfx), regexp.QuoteMeta(pfx) + "Q", func(n string) bool { return strings.Contains(n, pfx) && !strings.Contains(n, pfx+"Q") }},
			{regexp.QuoteMeta(pfx) + ".*[AQ]$", "", func(n string) bool {
				return strings.Contains(n, pfx) && (strings.HasSuffix(n, "A") || strings.HasSuffix(n, "Q"))
			}},
		}
		pt := pats[r.Intn(len(pats))]
		op2 := &pipeline.EnvOp{Include: regexp.MustCompile(pt.incl), Path: "probe"}
		if pt.excl != "" {
			op2.Exclude = regexp.MustCompile(pt.excl)
		}
		d2 := anyToContainer(map[string]any{})
		var err2 error
		if pn := guard(func() { err2 = pipeline.New(pipeline.WithData(d2)).Execute(op2) }); pn != "" || err2 != nil {
			fail = append(fail, fmt.Sprintf("env op (pattern %q) failed: %v %s", pt.incl, err2, pn))
		}
		want2 := map[string]any{}
		for k, v := range all {
			if pt.keep(k) {
				want2[k] = v
			}
		}
		got2, _ := plookup(nodeToAny(d2).(map[string]any), parsePPath("probe.Env"))
		gm2, _ := got2.(map[string]any)
		// other processes' variables cannot match: every pattern contains the per-case prefix — except through their values
		for k := range gm2 {
			if !strings.Contains(k, pfx) {
				fail = append(fail, fmt.Sprintf("env stored %s, whose NAME does not match %q", k, pt.incl))
				delete(gm2, k)
			}
		}
		if gm2 == nil {
			gm2 = map[string]any{}
		}
		if !reflect.DeepEqual(gm2, want2) {
			fail = append(fail, fmt.Sprintf("env with include %q exclude %q stored %v, expected exactly %v", pt.incl, pt.excl, gm2, want2))
		}
	}
	envList := gList(sortedKeys(vars), func(k string) string { return "(" + gStr(k) + ", " + gStr(vars[k]) + ")" })
	ce := "None"
	if excl != nil {
		ce = "(Some " + gStr(*excl) + ")"
	}
	return Case{Kind: "env", Desc: map[string]any{"vars": vars, "include": incl, "exclude": excl, "path": path, "stored": gm},
		Coq: "CEnv " + gStr(incl) + " " + ce + " " + gStr(path) + " " + envList + " " + gNode(data) + " " + gNode(after), Fail: fail, Nontrivial: len(want) > 0 && len(want) < len(vars)}
}

type probeAct struct{ te *pipeline.TemplateEngine }

func (p *probeAct) String() string { return "probe" }
func (p *probeAct) Do(ctx pipeline.ActionContext) error {
	t := ctx.TemplateEngine()
	p.te = &t
	return nil
}
func (p *probeAct) CloneWith(ctx pipeline.ActionContext) pipeline.Action { return p }

var c13Engine pipeline.TemplateEngine

func c13Lenient(r *rand.Rand) Case {
	if c13Engine == nil {
		p := &probeAct{}
		_ = pipeline.New().Execute(p)
		c13Engine = *p.te
	}
	alphabet := []string{"a", " ", "{", "}", "{{", "}}", ".x", "$", "|", "nosuch", "\n"}
	var sb strings.Builder
	for i, n := 0, r.Intn(7); i < n; i++ {
		sb.WriteString(alphabet[r.Intn(len(alphabet))])
	}
	s := sb.String()
	switch r.Intn(9) {
	case 3, 4, 5: // text, then an action that fails at execution time: nothing of the partial output may show
		s = []string{"backup-{{ index .x 5 }}.yaml", "pre {{ .x.y.z }} post", "a{{ fail \"boom\" }}b", "{{ .x }}-{{ index .x 9 }}"}[r.Intn(4)]
	case 0:
		s = "{{ .x | nosuchfunc }}" // failing action (parse error: unknown function)
	case 1:
		s = "{{ index .x 5 }} tail" // failing action at execution time
	case 2:
		s = "{{ .x }} ok"
	}
	data := map[string]any{"x": "X"}
	var got string
	var fail []string
	if pn := guard(func() { got = c13Engine.RenderLenient(s, data) }); pn != "" {
		fail = append(fail, "panic in RenderLenient: "+pn)
	}
	// the same text as a leaf of a map (the arguments of a call are rendered that way): unchanged when it
	// is no template or its rendering fails, rendered otherwise — at any depth
	if pn := guard(func() {
		m := c13Engine.RenderMapLenient(map[string]interface{}{"top": s, "sub": map[string]interface{}{"deep": s, "ok": "{{ .x }}"}}, data)
		sub, _ := m["sub"].(map[string]interface{})
		if m["top"] != any(c13Engine.RenderLenient(s, data)) || sub == nil || sub["deep"] != m["top"] || sub["ok"] != "X" {
			fail = append(fail, fmt.Sprintf("RenderMapLenient renders the leaves %q as %v, RenderLenient gives %q", s, m, c13Engine.RenderLenient(s, data)))
		}
	}); pn != "" {
		fail = append(fail, "panic in RenderMapLenient: "+pn)
	}
	_, rerr := c13Engine.Render(s, data)
	// a render that failed half-way leaves nothing behind for the next one
	if after, aerr := c13Engine.Render("{{ .x }} ok", data); aerr != nil || after != "X ok" {
		fail = append(fail, fmt.Sprintf("after rendering %q, the template \"{{ .x }} ok\" rendered %q (err=%v)", s, after, aerr))
	}
	// lenient rendering decides anew every time: a text that failed against one data renders against another
	probe := fmt.Sprintf("{{ .v%d | upper }}-%d", len(s), len(s))
	if l1 := c13Engine.RenderLenient(probe, data); l1 != probe {
		fail = append(fail, fmt.Sprintf("RenderLenient(%q) against data without the key = %q, expected the text unchanged", probe, l1))
	}
	if l2 := c13Engine.RenderLenient(probe, map[string]any{fmt.Sprintf("v%d", len(s)): "val"}); l2 != fmt.Sprintf("VAL-%d", len(s)) {
		fail = append(fail, fmt.Sprintf("RenderLenient(%q) against data WITH the key = %q after it had failed once", probe, l2))
	}
	if lafter := c13Engine.RenderLenient("plain-{{ .x }}", data); lafter != "plain-X" {
		fail = append(fail, fmt.Sprintf("after rendering %q, RenderLenient(\"plain-{{ .x }}\") = %q", s, lafter))
	}
	if !strings.Contains(s, "{{") && got != s {
		fail = append(fail, "RenderLenient changed text without '{{'")
	}
	if rerr != nil && got != s {
		fail = append(fail, "RenderLenient did not return text whose rendering fails unchanged")
	}
	return Case{Kind: "lenient", Desc: map[string]any{"in": s, "out": got, "render_error": rerr != nil},
		Coq: "CLenient " + gStr(s) + " " + gStr(got), Fail: fail, Nontrivial: rerr != nil || strings.Contains(s, "{")}
}

func init() {
	register(&Prop{
		ID:   "C13",
		Rule: "kinds: set (data documents x payload maps x target paths absent/leaf/container/list item/root x strategies merge/replace/unset/unknown, missing data), template (tiny templates, target paths incl. list items; parseAs yaml, trim with and without parseAs on whitespace-significant text, and failing templates Go side), patch (JSON patch operations decoded from YAML through PatchOp vs the C09 model; a third of the value-carrying ops also or only give valueFrom: an immediate value wins, alone it is the node at that path), import (text / binary / default / invalid mode of arbitrary bytes, at a path or the root), export (yaml/json/properties/text/unknown x whole document / unresolved / leaf / list / container: documented default or error, never a panic; outcome classified from the written file), roundtrip (export a subtree as yaml|json, import it elsewhere: equal up to the bare codec's normalisation), env (variables under a unique prefix x include/exclude prefixes x path), lenient (strings without '{{', unbalanced braces, failing actions). Every op: data outside the target unchanged (Go side). Non-trivial: target exists / export of a non-container / partial env selection / failing render. Distinct by Gallina term. Export: file and path immediate or as {ref: ...}, executed directly or as a forEach body; env: a second op with an unanchored / end-anchored pattern while other variables' values spell the names. Patch pointers ending in an empty token; imports of content beginning with a byte order mark; set payloads mirroring the target with members null; one export operation executed twice after its referenced leaves changed. Member names ending in '/' and '~' under patch; dotted and empty member names in YAML rendered by a template operation. template(parseAs yaml) with a failing template must return the error and leave the data readable; RenderMapLenient agrees with RenderLenient on every leaf. template(parseAs yaml) whose rendered text is an empty document, holds anchors and aliases (an alias is a copy: edits of one expansion do not show in another) or an alias into its own anchor. Every 20th case (template-file): templateFile with a tiny template in a file (sometimes missing), file/output names empty or templates themselves, no path / a mapping / a leaf / a list / nothing at the path, a longer stale output file in place: output file content or error vs template_file_op, data untouched. Every 10th case (yaml-node): random flow-style YAML with anchors, aliases (also into an anchor that is still open), empty documents and repeated member names, parsed by yaml.v3 into a node tree: dom.YamlNodeDecoder of it vs decode_root of Model/YamlNode.v. Every 40th case (template-funcs): the template functions dom2yaml, toYaml, dom2properties, unflatten, isEmpty, fileExists, isDir, glob, fileGlob, urlParseQuery, tpl render what the wrapped function gives.",
		Gen: func(r *rand.Rand, tier string, idx int) Case {
			if idx%40 == 39 { // the template functions that wrap library and standard-library functions
				return c13TemplateFuncs(r, idx)
			}
			if idx%20 == 13 {
				return c13TemplateFile(r, idx)
			}
			if idx%20 == 2 || idx%20 == 12 {
				return c13YamlNode(r, idx)
			}
			switch idx % 10 {
			case 0, 1, 2:
				return c13Set(r)
			case 3:
				if r.Intn(4) == 0 {
					return c13TemplateYaml(r)
				}
				return c13Template(r)
			case 4:
				return c13Patch(r)
			case 5:
				return c13Import(r, idx)
			case 6:
				return c13Export(r, idx)
			case 7:
				return c13RoundTrip(r, idx)
			case 8:
				return c13Env(r, idx)
			default:
				return c13Lenient(r)
			}
		},
	})
}
