package main

import (
	"math/rand"
)

func init() {
	register(&Prop{
		ID:   "C12",
		Rule: "action trees (depth <= 3, fan-out <= 3, sibling order values distinct incl. negatives) whose nodes carry any subset of {set, template, log, ext trace, abort} listed in random order, with conditions absent / constant true / constant false / {{ eq .flag \"yes\" }} on data no action writes / not-a-boolean; always rendered to YAML and decoded by the toolkit. Observables: the whole listener event sequence (OnBefore/OnAfter(err?)/OnLog + trace markers, labelled by action), returned error, final data vs the Coq interpreter; Go side: events well nested with matching labels, nothing but failing OnAfter events after the first failure, no panic. Non-trivial: tree has >= 2 siblings somewhere and a false/invalid condition or an abort. Distinct by Gallina term. Every tree is executed a second time by another executor with its own listener and extension actions: same events, same outcome, same data. Conditions rendering a data key whose text is padded with blanks; set operations with an empty payload; several sets below one path. Sibling order values from {-12,-3,-2,0,5,10,100}; every 200th case: ONE executor for 150-250 failing runs then a good one, errors.Is on a nested set operation's error, a template operation whose action is never closed.",
		Gen: func(r *rand.Rand, tier string, idx int) Case {
			if idx%200 == 7 {
				return c12ExecutorReuse(r, idx)
			}
			a := genC12Act(r, 0, 1+r.Intn(3), 3, "r", 0)
			data := map[string]any{"flag": []string{"yes", "no"}[r.Intn(2)]}
			for k, v := range c12Pads {
				data[k] = v
			}
			for k, v := range c12Extra() {
				data[k] = v
			}
			s, f := treeStats(a)
			return execCase("tree", a, data, s >= 2 && f)
		},
	})
}
